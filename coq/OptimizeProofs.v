(* OptimizeProofs.v — the rule-inlining optimisation preserves the language of every
   symbol it keeps, and keeps every special symbol.
   STATEMENTS MARKED (*FIXED*) MUST NOT CHANGE. *)
From LLG Require Import Base Optimize.
Local Open Scope nat_scope.

(* well-formed input: symbols in range; terminals have no rules *)
Definition owf (g : ogrammar) (term : nat -> bool) : Prop :=
  (forall i rhs x, In rhs (o_rules (osym_at g i)) -> In x rhs -> x < length g) /\
  (forall i, term i = true -> o_rules (osym_at g i) = []) /\
  (forall i, term i = true -> i < length g).

(* a symbol the optimiser keeps (it is copied with its rules) *)
Definition kept (g : ogrammar) (i : nat) : Prop :=
  final_repl g (definitions g) (users g (definitions g)) i = None.

Ltac splits := try red; repeat match goal with |- _ /\ _ => split end.

(* ================= lists: update_nth, combine/seq ================= *)
Lemma update_nth_length : forall A (l : list A) i f, length (update_nth l i f) = length l.
Proof. induction l; destruct i; simpl; intros; auto. Qed.

Lemma nth_update_same : forall A (l : list A) i f d, i < length l ->
  nth i (update_nth l i f) d = f (nth i l d).
Proof. induction l; destruct i; simpl; intros; try lia; auto. apply IHl; lia. Qed.

Lemma nth_update_other : forall A (l : list A) i j f d, i <> j ->
  nth j (update_nth l i f) d = nth j l d.
Proof. induction l; destruct i; destruct j; simpl; intros; try congruence; auto. Qed.

Lemma uf_get_lt : forall m i t, uf_get m i = Some t -> i < length m.
Proof.
  unfold uf_get; intros. destruct (Nat.lt_ge_cases i (length m)); auto.
  rewrite nth_overflow in H; [discriminate|lia].
Qed.

Lemma uf_set_length : forall m i v, length (uf_set m i v) = length m.
Proof. intros; apply update_nth_length. Qed.

Lemma uf_get_set_same : forall m i v, i < length m -> uf_get (uf_set m i v) i = v.
Proof. intros; unfold uf_get, uf_set. rewrite nth_update_same; auto. Qed.

Lemma uf_get_set_other : forall m i j v, i <> j -> uf_get (uf_set m i v) j = uf_get m j.
Proof. intros; unfold uf_get, uf_set. apply nth_update_other; auto. Qed.

Lemma uf_get_init : forall (A : Type) (g : list A) j, uf_get (map (fun _ => None) g) j = None.
Proof. unfold uf_get; induction g; destruct j; simpl; auto. Qed.

Lemma in_combine_seq : forall A (d : A) (l : list A) st i s,
  In (i, s) (combine (seq st (length l)) l) <-> (st <= i < st + length l /\ s = nth (i - st) l d).
Proof.
  induction l; simpl; intros.
  - split; [tauto | lia].
  - rewrite IHl. split.
    + intros [H | [H1 H2]].
      * inversion H; subst. rewrite Nat.sub_diag. split; [lia | auto].
      * split; [lia|]. destruct (i - st) eqn:E; [lia|]. replace (i - S st) with n in H2 by lia. auto.
    + intros [H1 H2]. destruct (Nat.eq_dec i st).
      * left. subst. rewrite Nat.sub_diag in *. subst; auto.
      * right. split; [lia|]. destruct (i - st) eqn:E; [lia|]. replace (i - S st) with n0 by lia. auto.
Qed.

Lemma nth_map_combine_seq : forall A B (f : nat * A -> B) (d : A) (d' : B) (l : list A) st k,
  k < length l -> nth k (map f (combine (seq st (length l)) l)) d' = f (st + k, nth k l d).
Proof.
  induction l; simpl; intros; [lia|].
  destruct k; simpl.
  - rewrite Nat.add_0_r; auto.
  - rewrite IHl by lia. f_equal. f_equal. lia.
Qed.

Lemma length_map_combine_seq : forall A B (f : nat * A -> B) (l : list A) st,
  length (map f (combine (seq st (length l)) l)) = length l.
Proof. intros. rewrite map_length, combine_length, seq_length. lia. Qed.

(* fold over the symbols of a grammar, with their index *)
Lemma fold_combine_seq_ind : forall A (d : A) (g : list A) B (f : B -> nat * A -> B) (P : nat -> B -> Prop),
  (forall i acc, i < length g -> P i acc -> P (S i) (f acc (i, nth i g d))) ->
  forall init, P 0 init -> P (length g) (fold_left f (combine (seq 0 (length g)) g) init).
Proof.
  intros A d g B f P Hstep.
  assert (G : forall l st acc, st + length l = length g ->
            (forall k, k < length l -> nth k l d = nth (st + k) g d) ->
            P st acc -> P (length g) (fold_left f (combine (seq st (length l)) l) acc)).
  { induction l; simpl; intros.
    - rewrite Nat.add_0_r in H; subst; auto.
    - apply IHl; [lia | |].
      + intros. specialize (H0 (S k)). simpl in H0. rewrite H0 by lia. f_equal; lia.
      + specialize (H0 0). simpl in H0. rewrite H0 by lia. rewrite Nat.add_0_r. apply Hstep; [lia|auto]. }
  intros. apply G; auto.
Qed.

(* ================= union-find ================= *)
Definition isroot (m : ufmap) (x k r : nat) : Prop := uf_root k m x = r /\ uf_get m r = None.

Lemma uf_root_unlinked : forall k m r, uf_get m r = None -> uf_root k m r = r.
Proof. destruct k; simpl; intros; auto. rewrite H; auto. Qed.

Lemma isroot_S : forall m k x r, isroot m x k r -> isroot m x (S k) r.
Proof.
  unfold isroot. induction k; intros x r [H1 H2].
  - simpl in H1. subst. split; auto. apply uf_root_unlinked; auto.
  - split; auto. simpl in H1. change (uf_root (S (S k)) m x) with
      (match uf_get m x with Some q => uf_root (S k) m q | None => x end).
    destruct (uf_get m x) eqn:E; auto. apply IHk; auto.
Qed.

Lemma isroot_mono : forall m k k' x r, isroot m x k r -> k <= k' -> isroot m x k' r.
Proof. induction 2; auto. apply isroot_S; auto. Qed.

Lemma isroot_unique : forall m x k k' r r', isroot m x k r -> isroot m x k' r' -> r = r'.
Proof.
  intros. apply isroot_mono with (k' := max k k') in H; [|lia].
  apply isroot_mono with (k' := max k k') in H0; [|lia].
  destruct H, H0; congruence.
Qed.

Lemma relink_isroot : forall m p q f r, uf_get m p = Some q -> isroot m p f r ->
  forall k x r', isroot m x k r' -> isroot (uf_set m p (Some r)) x k r'.
Proof.
  intros m p q f r Hp Hr.
  assert (Hlt : p < length m) by (eapply uf_get_lt; eauto).
  assert (Hrn : uf_get (uf_set m p (Some r)) r = None).
  { rewrite uf_get_set_other; [apply Hr|]. intro; subst. destruct Hr; congruence. }
  induction k; intros x r' [H1 H2].
  - simpl in H1; subst. split; auto. rewrite uf_get_set_other; auto. intro; subst; congruence.
  - assert (H2' : uf_get (uf_set m p (Some r)) r' = None).
    { rewrite uf_get_set_other; auto. intro; subst; congruence. }
    split; auto. simpl in *. destruct (uf_get m x) eqn:E.
    + destruct (Nat.eq_dec x p).
      * subst x. rewrite uf_get_set_same by auto.
        assert (r' = r).
        { eapply isroot_unique with (x := p) (k := S k); [|apply Hr]. split; auto. simpl. rewrite E; auto. }
        subst. apply uf_root_unlinked; auto.
      * rewrite uf_get_set_other by auto. rewrite E. apply IHk. split; auto.
    + subst x. rewrite H2'. auto.
Qed.

Lemma link_isroot : forall m a rb, uf_get m a = None -> uf_get m rb = None -> a <> rb -> a < length m ->
  forall k x r, isroot m x k r ->
  isroot (uf_set m a (Some rb)) x (S k) (if Nat.eqb r a then rb else r).
Proof.
  intros m a rb Ha Hb Hne Hlt.
  assert (Hrb : uf_get (uf_set m a (Some rb)) rb = None) by (rewrite uf_get_set_other; auto).
  assert (Hbase : forall k r, uf_get m r = None ->
            isroot (uf_set m a (Some rb)) r (S k) (if Nat.eqb r a then rb else r)).
  { intros. destruct (Nat.eqb_spec r a).
    - subst. split; auto. simpl. rewrite uf_get_set_same by auto. apply uf_root_unlinked; auto.
    - assert (uf_get (uf_set m a (Some rb)) r = None) by (rewrite uf_get_set_other; auto).
      split; auto. apply uf_root_unlinked; auto. }
  induction k; intros x r [H1 H2].
  - simpl in H1; subst. apply Hbase; auto.
  - simpl in H1. destruct (uf_get m x) eqn:E.
    + assert (x <> a) by (intro; subst; congruence).
      destruct (IHk n r) as [I1 I2]; [split; auto|].
      split; auto.
      change (uf_root (S (S k)) (uf_set m a (Some rb)) x) with
        (match uf_get (uf_set m a (Some rb)) x with Some q => uf_root (S k) (uf_set m a (Some rb)) q | None => x end).
      rewrite uf_get_set_other by auto. rewrite E. auto.
    + subst x. apply Hbase; auto.
Qed.

Section LINKS.
Variable Q : nat -> nat -> Prop.
Hypothesis Qtrans : forall a b c, Q a b -> Q b c -> Q a c.

Definition links (m : ufmap) : Prop := forall j t, uf_get m j = Some t -> Q j t.

Lemma links_chain : forall m, links m -> forall k x, uf_root k m x = x \/ Q x (uf_root k m x).
Proof.
  intros m L. induction k; simpl; intros; auto.
  destruct (uf_get m x) eqn:E; auto.
  right. destruct (IHk n) as [H | H]; [rewrite H; auto | eauto].
Qed.

Lemma compress_path_spec : forall f m p r, isroot m p f r -> links m ->
  let m' := uf_compress_path f m p r in
  length m' = length m /\
  (forall k x r', isroot m x k r' -> isroot m' x k r') /\
  links m' /\
  (forall j, uf_get m' j = uf_get m j \/ (uf_get m j <> None /\ uf_get m' j = Some r)) /\
  (forall q, uf_get m p = Some q -> f <> 0 -> uf_get m' p = Some r).
Proof.
  induction f; intros m p r Hr L; simpl.
  - split; [|split; [|split; [|split]]]; auto. intros; lia.
  - destruct (uf_get m p) eqn:E.
    2:{ split; [|split; [|split; [|split]]]; auto. intros; discriminate. }
    assert (Hlt : p < length m) by (eapply uf_get_lt; eauto).
    assert (Hq : isroot m n f r).
    { destruct Hr as [H1 H2]. simpl in H1. rewrite E in H1. split; auto. }
    set (m1 := uf_set m p (Some r)).
    assert (R1 : forall k x r', isroot m x k r' -> isroot m1 x k r')
      by (eapply relink_isroot; eauto).
    assert (L1 : links m1).
    { intros j t Hj. unfold m1 in Hj. destruct (Nat.eq_dec p j).
      - subst j. rewrite uf_get_set_same in Hj by auto. inversion Hj; subst t.
        destruct Hq as [Hq1 _]. destruct (links_chain m L f n) as [H | H]; rewrite Hq1 in H.
        + subst n. apply L; auto.
        + eapply Qtrans; [apply L; eauto | auto].
      - rewrite uf_get_set_other in Hj by auto. apply L; auto. }
    assert (C1 : forall j, uf_get m1 j = uf_get m j \/ (uf_get m j <> None /\ uf_get m1 j = Some r)).
    { intros j. unfold m1. destruct (Nat.eq_dec p j).
      - subst j. right. rewrite uf_get_set_same by auto. split; congruence.
      - left. apply uf_get_set_other; auto. }
    assert (P1 : uf_get m1 p = Some r) by (unfold m1; apply uf_get_set_same; auto).
    destruct (Nat.eqb n r).
    + fold m1. splits; auto. unfold m1; apply uf_set_length.
    + fold m1. destruct (IHf m1 n r (R1 _ _ _ Hq) L1) as (I1 & I2 & I3 & I4 & I5).
      splits; auto.
      * rewrite I1. apply uf_set_length.
      * intros j. destruct (I4 j) as [H | [H H']]; destruct (C1 j) as [G | [G G']].
        -- left; congruence.
        -- right; split; auto. congruence.
        -- right; split; auto. congruence.
        -- right; split; auto.
      * intros. destruct (I4 p) as [H1 | [_ H1]]; congruence.
Qed.

Lemma uf_find_spec : forall m e r m', uf_find m e = (r, m') ->
  isroot m e (length m) (uf_root (length m) m e) -> links m ->
  r = uf_root (length m) m e /\
  length m' = length m /\
  (forall k x r', isroot m x k r' -> isroot m' x k r') /\
  links m' /\
  (forall j, uf_get m' j = uf_get m j \/ (uf_get m j <> None /\ uf_get m' j = Some r)) /\
  (forall q, uf_get m e = Some q -> uf_get m' e = Some r).
Proof.
  unfold uf_find. intros m e r m' H Hr L. inversion H; subst; clear H.
  set (r := uf_root (length m) m e) in *.
  split; auto.
  destruct (Nat.eqb_spec r e).
  - splits; auto. intros q Hq. destruct Hr as [_ Hr]. rewrite e0 in Hr. congruence.
  - destruct (uf_get m e) eqn:E.
    + destruct (Nat.eqb_spec n0 r).
      * subst n0. splits; auto. 
      * destruct (compress_path_spec (length m) m e r Hr L) as (I1 & I2 & I3 & I4 & I5).
        splits; auto. intros q Hq. eapply I5; eauto.
        apply uf_get_lt in E. lia.
    + splits; auto. intros; discriminate.
Qed.

Lemma uf_find_unlinked : forall m e, uf_get m e = None -> uf_find m e = (e, m).
Proof.
  intros. unfold uf_find. rewrite uf_root_unlinked by auto. rewrite Nat.eqb_refl. auto.
Qed.

(* ---- compress_all ---- *)
Definition cstep (acc : ufmap) (i : nat) : ufmap :=
  match uf_get acc i with Some _ => snd (uf_find acc i) | None => acc end.

Definition CInv (N k : nat) (acc : ufmap) : Prop :=
  length acc = N /\ links acc /\ (forall x, exists r, isroot acc x N r) /\
  (forall j t, j < k -> uf_get acc j = Some t -> uf_get acc t = None).

Lemma cstep_inv : forall N k acc, CInv N k acc -> CInv N (S k) (cstep acc k).
Proof.
  intros N k acc (H1 & H2 & H3 & H4). unfold cstep.
  destruct (uf_get acc k) eqn:E.
  - destruct (uf_find acc k) as [r acc'] eqn:F. simpl.
    destruct (H3 k) as [r0 Hr0].
    assert (Hr : isroot acc k (length acc) (uf_root (length acc) acc k)).
    { rewrite H1. destruct Hr0 as [A B]. rewrite A. split; auto. }
    destruct (uf_find_spec _ _ _ _ F Hr H2) as (I0 & I1 & I2 & I3 & I4 & I5).
    assert (Dom : forall t, uf_get acc t = None -> uf_get acc' t = None).
    { intros t Ht. destruct (I4 t) as [G | [G _]]; congruence. }
    assert (Hrr : uf_get acc' r = None).
    { apply Dom. subst r. apply Hr. }
    splits; auto.
    + congruence.
    + intros x. destruct (H3 x) as [rx Hx]. exists rx. apply I2; auto.
    + intros j t Hj Hjt. destruct (Nat.eq_dec j k).
      * subst j. rewrite (I5 _ E) in Hjt. inversion Hjt; subst; auto.
      * destruct (I4 j) as [G | [_ G]].
        -- rewrite G in Hjt. apply Dom. eapply H4; eauto. lia.
        -- rewrite G in Hjt. inversion Hjt; subst; auto.
  - splits; auto. intros j t Hj Hjt. destruct (Nat.eq_dec j k); [subst; congruence|].
    eapply H4; eauto. lia.
Qed.

Lemma compress_all_spec : forall m, links m -> (forall x, exists r, isroot m x (length m) r) ->
  let d := uf_compress_all m in
  length d = length m /\ links d /\ (forall j t, uf_get d j = Some t -> uf_get d t = None).
Proof.
  intros m L R. unfold uf_compress_all.
  assert (G : forall n st acc, CInv (length m) st acc ->
              CInv (length m) (st + n) (fold_left cstep (seq st n) acc)).
  { induction n; simpl; intros.
    - rewrite Nat.add_0_r; auto.
    - replace (st + S n) with (S st + n) by lia. apply IHn. apply cstep_inv; auto. }
  specialize (G (length m) 0 m). simpl in G.
  destruct G as (G1 & G2 & G3 & G4).
  { splits; auto. intros; lia. }
  fold cstep. split; [|split]; auto.
  intros j t Hj. eapply G4; eauto.
  apply uf_get_lt in Hj. change (fold_left cstep (seq 0 (length m)) m) with
     (fold_left cstep (seq 0 (length m)) m) in *. lia.
Qed.

(* ---- definitions ---- *)
Variable g : ogrammar.
Hypothesis Qalias : forall a b, a < length g -> single_alias (osym_at g a) = Some b -> Q a b.

Definition dstep (m : ufmap) (p : nat * osym) : ufmap :=
  let '(i, s) := p in match single_alias s with Some trg => uf_union m i trg | None => m end.

Definition DInv (i : nat) (m : ufmap) : Prop :=
  length m = length g /\ (forall j t, uf_get m j = Some t -> j < i /\ Q j t) /\
  (forall x, exists r, isroot m x i r).

Lemma dstep_inv : forall i m, i < length g -> DInv i m -> DInv (S i) (dstep m (i, osym_at g i)).
Proof.
  intros i m Hi (H1 & H2 & H3). unfold dstep.
  assert (Mono : DInv (S i) m).
  { splits; auto.
    - intros j t H. apply H2 in H. split; [lia|tauto].
    - intros x. destruct (H3 x) as [r Hr]. exists r. apply isroot_S; auto. }
  destruct (single_alias (osym_at g i)) as [trg|] eqn:SA; auto.
  assert (Hi0 : uf_get m i = None).
  { destruct (uf_get m i) eqn:E; auto. apply H2 in E. lia. }
  assert (L : links m) by (intros j t Hj; eapply H2; eauto).
  unfold uf_union. rewrite uf_find_unlinked by auto.
  destruct (uf_find m trg) as [rb m2] eqn:F.
  destruct (H3 trg) as [r0 Hr0].
  assert (Hr : isroot m trg (length m) (uf_root (length m) m trg)).
  { apply isroot_mono with (k' := length m) in Hr0; [|lia]. destruct Hr0 as [A B]. rewrite A. split; auto. }
  destruct (uf_find_spec _ _ _ _ F Hr L) as (I0 & I1 & I2 & I3 & I4 & I5).
  assert (Dom : forall t, uf_get m t = None -> uf_get m2 t = None).
  { intros t Ht. destruct (I4 t) as [G | [G _]]; congruence. }
  assert (Dom' : forall t v, uf_get m2 t = Some v -> uf_get m t <> None).
  { intros t v Ht. destruct (I4 t) as [G | [G _]]; congruence. }
  assert (D2 : DInv i m2).
  { splits; auto.
    - congruence.
    - intros j t H. split; [|eapply I3; eauto]. apply Dom' in H. destruct (uf_get m j) eqn:E; [|congruence]. apply H2 in E; tauto.
    - intros x. destruct (H3 x) as [r Hx]. exists r. apply I2; auto. }
  destruct (Nat.eqb_spec i rb).
  - destruct D2 as (A & B & C). splits; auto.
    + intros j t H. apply B in H. split; [lia|tauto].
    + intros x. destruct (C x) as [r Hx]. exists r. apply isroot_S; auto.
  - assert (Hrb2 : uf_get m2 rb = None). { apply Dom. subst rb. apply Hr. }
    assert (Hi2 : uf_get m2 i = None) by (apply Dom; auto).
    assert (Hlt2 : i < length m2) by lia.
    splits.
    + rewrite uf_set_length. lia.
    + intros j t H. split.
      { destruct (Nat.eq_dec i j); [lia|]. rewrite uf_get_set_other in H by auto.
        apply D2 in H. lia. }
      destruct (Nat.eq_dec i j).
      * subst j. rewrite uf_get_set_same in H by auto. inversion H; subst t.
        pose proof (Qalias _ _ Hi SA) as Qa.
        destruct (links_chain m L (length m) trg) as [G | G]; rewrite <- I0 in G.
        -- rewrite G; auto.
        -- eauto.
      * rewrite uf_get_set_other in H by auto. apply D2 in H. tauto.
    + intros x. destruct D2 as (_ & _ & C). destruct (C x) as [r Hx].
      eexists. apply link_isroot; eauto.
Qed.

Lemma definitions_spec :
  let d := definitions g in
  length d = length g /\ (forall j t, uf_get d j = Some t -> Q j t) /\
  (forall j t, uf_get d j = Some t -> uf_get d t = None).
Proof.
  unfold definitions.
  set (m := fold_left _ _ _).
  assert (D : DInv (length g) m).
  { unfold m. 
    apply (fold_combine_seq_ind osym (mk_osym [] false) g ufmap dstep DInv).
    - intros. apply dstep_inv; auto.
    - splits.
      + apply map_length.
      + intros j t H. rewrite uf_get_init in H; discriminate.
      + intros x. exists x. split; simpl; auto. apply uf_get_init. }
  destruct D as (D1 & D2 & D3).
  assert (L : links m) by (intros j t Hj; eapply D2; eauto).
  destruct (compress_all_spec m L) as (C1 & C2 & C3).
  { rewrite D1. auto. }
  split; [congruence|]. split; auto.
Qed.
End LINKS.

(* ================= users ================= *)
Lemma fold_left_flat_map : forall A B C (f : A -> B -> A) (h : C -> list B) l a,
  fold_left f (flat_map h l) a = fold_left (fun a x => fold_left f (h x) a) l a.
Proof. induction l; simpl; intros; auto. rewrite fold_left_app. auto. Qed.

Lemma fold_left_map : forall A B C (f : A -> B -> A) (h : C -> B) l a,
  fold_left f (map h l) a = fold_left (fun a x => f a (h x)) l a.
Proof. induction l; simpl; intros; auto. Qed.

Lemma fold_left_ext : forall A B (f f' : A -> B -> A), (forall a b, f a b = f' a b) ->
  forall l a, fold_left f l a = fold_left f' l a.
Proof. induction l; simpl; intros; auto. rewrite H. auto. Qed.

Section USERS.
Variable g : ogrammar.
Variable d : ufmap.

Definition ostep (u : list (option nat)) (p : nat * nat) : list (option nat) :=
  let '(i, x') := p in
  match nth x' u None with
  | None => update_nth u x' (fun _ => Some i)
  | Some _ => update_nth u x' (fun _ => Some x')
  end.

(* all (user, used symbol) occurrences, in processing order *)
Definition occs : list (nat * nat) :=
  flat_map (fun p : nat * osym => let '(i, s) := p in
              match uf_get d i with
              | Some _ => []
              | None => flat_map (fun rhs => map (fun x => (i, defn d x)) rhs) (o_rules s)
              end) (combine (seq 0 (length g)) g).

Definition raw_users : list (option nat) := fold_left ostep occs (map (fun _ => None) g).

Lemma users_eq : users g d =
  map (fun '(i, o) => match o with Some x => if Nat.eqb x i then None else Some x | None => None end)
      (combine (seq 0 (length g)) raw_users).
Proof.
  unfold users, raw_users, occs. f_equal. f_equal.
  rewrite fold_left_flat_map. apply fold_left_ext. intros u [i s].
  destruct (uf_get d i); auto.
  rewrite fold_left_flat_map. apply fold_left_ext. intros u' rhs.
  rewrite fold_left_map. apply fold_left_ext. intros u'' x. reflexivity.
Qed.

Lemma in_occs : forall z e, In (z, e) occs <->
  (z < length g /\ uf_get d z = None /\
   exists rhs x, In rhs (o_rules (osym_at g z)) /\ In x rhs /\ e = defn d x).
Proof.
  intros. unfold occs. rewrite in_flat_map. split.
  - intros [[i s] [H1 H2]].
    apply (in_combine_seq _ (mk_osym [] false)) in H1. destruct H1 as [H1 H3].
    rewrite Nat.sub_0_r in H3. fold (osym_at g i) in H3. subst s.
    destruct (uf_get d i) eqn:E; [destruct H2|].
    apply in_flat_map in H2. destruct H2 as [rhs [H2 H4]].
    apply in_map_iff in H4. destruct H4 as [x [H4 H5]]. inversion H4; subst.
    split; [lia|]. split; auto. eauto.
  - intros (H1 & H2 & rhs & x & H3 & H4 & H5).
    exists (z, osym_at g z). split.
    + apply (in_combine_seq _ (mk_osym [] false)). rewrite Nat.sub_0_r. split; [lia|reflexivity].
    + rewrite H2. apply in_flat_map. exists rhs. split; auto. apply in_map_iff. exists x. subst; auto.
Qed.

Definition UInv (n : nat) (u : list (option nat)) (pre : list (nat * nat)) : Prop :=
  length u = n /\
  forall e, e < n ->
    (nth e u None = None -> forall z, ~ In (z, e) pre) /\
    (forall v, nth e u None = Some v ->
       (exists z, In (z, e) pre) /\ (v <> e -> forall z, In (z, e) pre -> z = v)).

Lemma ostep_inv : forall n u pre z e, UInv n u pre -> e < n -> UInv n (ostep u (z, e)) (pre ++ [(z, e)]).
Proof.
  intros n u pre z e [HL HI] He. unfold ostep.
  assert (Hin : forall z' e', In (z', e') (pre ++ [(z, e)]) <-> In (z', e') pre \/ (z' = z /\ e' = e)).
  { intros. rewrite in_app_iff. simpl. split; intros [H | H]; auto.
    - destruct H as [H | []]. inversion H; auto.
    - destruct H; subst; auto. }
  destruct (nth e u None) eqn:E.
  - split; [rewrite update_nth_length; auto|].
    intros e' He'. destruct (Nat.eq_dec e e').
    + subst e'. rewrite nth_update_same by lia. split; [discriminate|].
      intros v Hv. inversion Hv; subst v. split; [|congruence].
      exists z. apply Hin. auto.
    + rewrite nth_update_other by auto. destruct (HI e' He') as [A B]. split.
      * intros Hn z' Hz'. apply Hin in Hz'. destruct Hz' as [Hz' | [_ Hz']]; [|congruence]. eapply A; eauto.
      * intros v Hv. destruct (B v Hv) as [[z0 B1] B2]. split.
        -- exists z0. apply Hin; auto.
        -- intros Hne z' Hz'. apply Hin in Hz'. destruct Hz' as [Hz' | [_ Hz']]; [|congruence]. auto.
  - split; [rewrite update_nth_length; auto|].
    intros e' He'. destruct (Nat.eq_dec e e').
    + subst e'. rewrite nth_update_same by lia. split; [discriminate|].
      intros v Hv. inversion Hv; subst v. split.
      * exists z. apply Hin. auto.
      * intros _ z' Hz'. apply Hin in Hz'. destruct Hz' as [Hz' | [Hz' _]]; auto.
        destruct (HI e He) as [A _]. exfalso. eapply A; eauto.
    + rewrite nth_update_other by auto. destruct (HI e' He') as [A B]. split.
      * intros Hn z' Hz'. apply Hin in Hz'. destruct Hz' as [Hz' | [_ Hz']]; [|congruence]. eapply A; eauto.
      * intros v Hv. destruct (B v Hv) as [[z0 B1] B2]. split.
        -- exists z0. apply Hin; auto.
        -- intros Hne z' Hz'. apply Hin in Hz'. destruct Hz' as [Hz' | [_ Hz']]; [|congruence]. auto.
Qed.

Lemma ostep_fold_inv : forall n l u pre, UInv n u pre -> (forall z e, In (z, e) l -> e < n) ->
  UInv n (fold_left ostep l u) (pre ++ l).
Proof.
  induction l as [|[z e] l]; simpl; intros.
  - rewrite app_nil_r; auto.
  - replace (pre ++ (z, e) :: l) with ((pre ++ [(z, e)]) ++ l) by (rewrite <- app_assoc; auto).
    apply IHl; [|eauto]. apply ostep_inv; eauto.
Qed.

Hypothesis occs_range : forall z e, In (z, e) occs -> e < length g.

Lemma raw_users_inv : UInv (length g) raw_users occs.
Proof.
  unfold raw_users. change occs with ([] ++ occs) at 2.
  apply ostep_fold_inv; auto.
  split; [apply map_length|]. intros e He.
  assert (nth e (map (fun _ : osym => @None nat) g) None = None) by (apply (uf_get_init _ g e)).
  rewrite H. split; [intros _ z []|discriminate].
Qed.

(* the specification of the unique user *)
Lemma users_spec : forall e usr, nth e (users g d) None = Some usr ->
  e < length g /\
  (exists z, In (z, e) occs) /\
  (forall z, In (z, e) occs -> z = usr).
Proof.
  intros e usr H. rewrite users_eq in H.
  destruct raw_users_inv as [HL HI].
  destruct (Nat.lt_ge_cases e (length g)).
  2:{ rewrite nth_overflow in H; [discriminate|].
      rewrite <- HL. rewrite length_map_combine_seq. lia. }
  split; auto.
  rewrite <- HL in H. rewrite (nth_map_combine_seq _ _ _ None) in H by lia.
  simpl in H. destruct (nth e raw_users None) eqn:E; [|discriminate].
  destruct (Nat.eqb_spec n e); [discriminate|]. inversion H; subst n.
  destruct (HI e H0) as [_ B]. destruct (B _ E) as [B1 B2]. split; auto.
Qed.
End USERS.

(* ================= generic sequence derivations ================= *)
Inductive seqd (P : nat -> list nat -> Prop) : list nat -> list nat -> Prop :=
| sd_nil : seqd P [] []
| sd_cons : forall s rest u v, P s u -> seqd P rest v -> seqd P (s :: rest) (u ++ v).

Lemma seqd_impl : forall (P P' : nat -> list nat -> Prop) l w,
  (forall s u, In s l -> P s u -> P' s u) -> seqd P l w -> seqd P' l w.
Proof.
  intros P P' l w H D. induction D; constructor.
  - apply H; simpl; auto.
  - apply IHD. intros; apply H; simpl; auto.
Qed.

Lemma seqd_app : forall P a b w,
  seqd P (a ++ b) w <-> exists u v, w = u ++ v /\ seqd P a u /\ seqd P b v.
Proof.
  induction a; simpl; intros.
  - split.
    + intros. exists [], w. repeat split; auto. constructor.
    + intros (u & v & H1 & H2 & H3). inversion H2; subst. auto.
  - split.
    + intros H. inversion H; subst. apply IHa in H4. destruct H4 as (u1 & v1 & E & A & B).
      subst. exists (u ++ u1), v1. rewrite app_assoc. repeat split; auto. constructor; auto.
    + intros (u & v & H1 & H2 & H3). inversion H2; subst. rewrite <- app_assoc.
      constructor; auto. apply IHa. eauto.
Qed.

Lemma seqd_single : forall (P : nat -> list nat -> Prop) s w, seqd P [s] w <-> P s w.
Proof.
  split; intros.
  - inversion H; subst. inversion H4; subst. rewrite app_nil_r; auto.
  - rewrite <- (app_nil_r w). constructor; auto. constructor.
Qed.

Lemma seqd_flat_map : forall P (h : nat -> list nat) l w,
  seqd P (flat_map h l) w <-> seqd (fun s u => seqd P (h s) u) l w.
Proof.
  induction l; simpl; intros.
  - split; intros H; inversion H; constructor.
  - rewrite seqd_app. split.
    + intros (u & v & E & A & B). subst. constructor; auto. apply IHl; auto.
    + intros H. inversion H; subst. exists u, v. repeat split; auto. apply IHl; auto.
Qed.

Lemma seqd_map : forall P (h : nat -> nat) l w,
  seqd P (map h l) w <-> seqd (fun s u => P (h s) u) l w.
Proof.
  induction l; simpl; intros.
  - split; intros H; inversion H; constructor.
  - split; intros H; inversion H; subst; constructor; auto; apply IHl; auto.
Qed.

Lemma oderives_seq_seqd : forall g term l w,
  oderives_seq g term l w <-> seqd (oderives g term) l w.
Proof.
  split; induction 1; constructor; auto.
Qed.

Scheme oderives_mind := Induction for oderives Sort Prop
  with oderives_seq_mind := Induction for oderives_seq Sort Prop.
Scheme oderives_mi := Minimality for oderives Sort Prop
  with oderives_seq_mi := Minimality for oderives_seq Sort Prop.
Combined Scheme oderives_mutind from oderives_mi, oderives_seq_mi.

(* ================= rules of the output grammar ================= *)
Definition Rf (g : ogrammar) := final_repl g (definitions g) (users g (definitions g)).
Definition img (g : ogrammar) (x : nat) : list nat :=
  match Rf g x with Some r => r | None => [x] end.

Lemma expand_shortcuts_length : forall g, length (expand_shortcuts g) = length g.
Proof. intros. unfold expand_shortcuts. apply length_map_combine_seq. Qed.

Lemma osym_at_overflow : forall g i, length g <= i -> osym_at g i = mk_osym [] false.
Proof. intros. unfold osym_at. apply nth_overflow; auto. Qed.

Lemma expand_shortcuts_at : forall g i,
  o_special (osym_at (expand_shortcuts g) i) = o_special (osym_at g i) /\
  o_rules (osym_at (expand_shortcuts g) i) =
    match Rf g i with Some _ => [] | None => map (flat_map (img g)) (o_rules (osym_at g i)) end.
Proof.
  intros. destruct (Nat.lt_ge_cases i (length g)).
  - unfold osym_at at 1 3. unfold expand_shortcuts.
    rewrite (nth_map_combine_seq _ _ _ (mk_osym [] false)) by auto. simpl.
    fold (osym_at g i). fold (Rf g). fold (Rf g i).
    destruct (Rf g i); simpl; auto.
  - rewrite (osym_at_overflow (expand_shortcuts g)) by (rewrite expand_shortcuts_length; auto).
    rewrite (osym_at_overflow g) by auto. simpl. destruct (Rf g i); auto.
Qed.

(* ================= structural facts ================= *)
Lemma single_alias_inv : forall s b, single_alias s = Some b -> o_special s = false /\ o_rules s = [[b]].
Proof.
  unfold single_alias; intros. destruct (o_special s); [discriminate|].
  destruct (o_rules s) as [|[|x [|]] [|]]; try discriminate. inversion H; auto.
Qed.

Lemma repl_of_inv : forall g d u x r, repl_of g d u x = Some r ->
  o_special (osym_at g x) = false /\
  exists rhs0 usr, o_rules (osym_at g x) = [rhs0] /\ r = map (defn d) rhs0 /\ nth x u None = Some usr.
Proof.
  unfold repl_of; intros. destruct (o_special (osym_at g x)); [discriminate|].
  destruct (o_rules (osym_at g x)) as [|rhs0 [|]]; try discriminate.
  destruct (nth x u None) eqn:E; [|discriminate]. inversion H. split; eauto.
Qed.

Lemma has_rule_lt : forall g x rhs, In rhs (o_rules (osym_at g x)) -> x < length g.
Proof.
  intros. destruct (Nat.lt_ge_cases x (length g)); auto.
  rewrite osym_at_overflow in H by auto. destruct H.
Qed.

Lemma in_expand : forall g d u f l e, In e (expand f g d u l) ->
  In e l \/ exists z r, repl_of g d u z = Some r /\ In e r.
Proof.
  induction f; simpl; intros; auto.
  apply in_flat_map in H. destruct H as [x [H1 H2]].
  destruct (repl_of g d u x) eqn:E.
  - apply IHf in H2. destruct H2 as [H2 | H2]; eauto.
  - destruct H2 as [H2 | []]. subst; auto.
Qed.

Lemma expand_flat : forall g d u f l, expand f g d u l = flat_map (fun e => expand f g d u [e]) l.
Proof.
  destruct f; simpl; intros.
  - induction l; simpl; auto. f_equal; auto.
  - apply flat_map_ext. intros. rewrite app_nil_r. auto.
Qed.

(* special symbols *)
Theorem special_kept0 : forall g i,
  i < length g -> o_special (osym_at g i) = true -> kept g i /\
  o_special (osym_at (expand_shortcuts g) i) = true.
Proof.
  intros g i Hi Hs. split.
  - unfold kept, final_repl, is_root, repl_of. rewrite Hs.
    destruct (definitions_spec (fun j _ => single_alias (osym_at g j) <> None)) with (g := g) as (_ & A & _); auto.
    { intros; congruence. }
    destruct (uf_get (definitions g) i) eqn:E; auto.
    apply A in E. unfold single_alias in E. rewrite Hs in E. congruence.
  - destruct (expand_shortcuts_at g i) as [H _]. congruence.
Qed.

(* ================= semantics ================= *)
Section SEM.
Variable g : ogrammar.
Variable term : nat -> bool.
Hypothesis WF : owf g term.

Let d := definitions g.
Let u := users g d.
Let od := oderives g term.
Let g' := expand_shortcuts g.
Let od' := oderives g' term.

Lemma wf_range : forall i rhs x, In rhs (o_rules (osym_at g i)) -> In x rhs -> x < length g.
Proof. apply WF. Qed.
Lemma wf_term : forall i rhs, In rhs (o_rules (osym_at g i)) -> term i = false.
Proof.
  intros. destruct (term i) eqn:E; auto. destruct WF as (_ & W2 & _). rewrite (W2 _ E) in H. destruct H.
Qed.

Fixpoint odh (h : nat) (s : nat) (w : list nat) : Prop :=
  match h with
  | O => False
  | S h' => (term s = true /\ w = [s]) \/
            (term s = false /\ exists rhs, In rhs (o_rules (osym_at g s)) /\ seqd (odh h') rhs w)
  end.

Lemma odh_mono : forall h h' s w, odh h s w -> h <= h' -> odh h' s w.
Proof.
  induction h; simpl; intros; [tauto|].
  destruct h'; [lia|]. simpl. destruct H as [H | [H1 (rhs & H2 & H3)]]; auto.
  right. split; auto. exists rhs. split; auto.
  eapply seqd_impl; [|eauto]. intros. eapply IHh; eauto. lia.
Qed.

Lemma od_odh : (forall s w, oderives g term s w -> exists h, odh h s w) /\
               (forall l w, oderives_seq g term l w -> exists h, seqd (odh h) l w).
Proof.
  apply oderives_mutind; intros.
  - exists 1. simpl. auto.
  - destruct H2 as [h H2]. exists (S h). simpl. right. split; auto. exists rhs. auto.
  - exists 0. constructor.
  - destruct H0 as [h1 H0]. destruct H2 as [h2 H2]. exists (max h1 h2).
    constructor.
    + eapply odh_mono; eauto. lia.
    + eapply seqd_impl; [|eauto]. intros. eapply odh_mono; eauto. lia.
Qed.

Lemma odh_od : forall h s w, odh h s w -> od s w.
Proof.
  induction h; simpl; intros; [tauto|].
  destruct H as [[H1 H2] | [H1 (rhs & H2 & H3)]].
  - subst. constructor; auto.
  - eapply od_rule; eauto. apply oderives_seq_seqd. eapply seqd_impl; [|eauto]. intros; apply IHh; auto.
Qed.

(* alias-relatedness: derivations transfer without growing, and back *)
Definition Rel (i j : nat) : Prop :=
  (forall h w, odh h i w -> odh h j w) /\ (forall w, od j w -> od i w).

Lemma Rel_refl : forall i, Rel i i.
Proof. split; auto. Qed.
Lemma Rel_trans : forall a b c, Rel a b -> Rel b c -> Rel a c.
Proof. intros a b c [A1 A2] [B1 B2]. split; auto. Qed.

Lemma Rel_alias : forall a b, a < length g -> single_alias (osym_at g a) = Some b -> Rel a b.
Proof.
  intros a b Ha SA. apply single_alias_inv in SA. destruct SA as [_ SR].
  assert (T : term a = false). { apply wf_term with (rhs := [b]). rewrite SR; simpl; auto. }
  split.
  - intros h w H. destruct h; simpl in H; [tauto|].
    destruct H as [[H _] | [_ (rhs & H2 & H3)]]; [congruence|].
    rewrite SR in H2. destruct H2 as [H2 | []]. subst rhs. apply seqd_single in H3.
    eapply odh_mono; eauto.
  - intros w H. eapply od_rule; eauto.
    + rewrite SR; simpl; auto.
    + apply oderives_seq_seqd. apply seqd_single. auto.
Qed.

Lemma Rel_iff : forall i j, Rel i j -> forall w, od i w <-> od j w.
Proof.
  intros i j [A B] w. split; auto.
  intros H. apply od_odh in H. destruct H as [h H]. eapply odh_od; eauto.
Qed.

(* facts on the definitions *)
Lemma d_len : length d = length g.
Proof. 
  destruct (definitions_spec (fun _ _ => True)) with (g := g) as (A & _); auto.
Qed.
Lemma d_idem : forall j t, uf_get d j = Some t -> uf_get d t = None.
Proof.
  destruct (definitions_spec (fun _ _ => True)) with (g := g) as (_ & _ & A); auto.
Qed.
Lemma d_range : forall j t, uf_get d j = Some t -> t < length g.
Proof.
  destruct (definitions_spec (fun _ t => t < length g)) with (g := g) as (_ & A & _); auto.
  intros a b Ha SA. apply single_alias_inv in SA. destruct SA as [_ SR].
  eapply wf_range with (i := a) (rhs := [b]); [rewrite SR|]; simpl; auto.
Qed.
Lemma d_rel : forall j t, uf_get d j = Some t -> Rel j t.
Proof.
  destruct (definitions_spec Rel Rel_trans g Rel_alias) as (_ & A & _); auto.
Qed.

Lemma defn_unlinked : forall x, uf_get d (defn d x) = None.
Proof.
  intros. unfold defn. destruct (uf_get d x) eqn:E; auto. eapply d_idem; eauto.
Qed.
Lemma defn_range : forall x, x < length g -> defn d x < length g.
Proof.
  intros. unfold defn. destruct (uf_get d x) eqn:E; auto. eapply d_range; eauto.
Qed.
Lemma defn_rel : forall x, Rel x (defn d x).
Proof.
  intros. unfold defn. destruct (uf_get d x) eqn:E; [eapply d_rel; eauto | apply Rel_refl].
Qed.

(* facts on the users *)
Lemma occs_range : forall z e, In (z, e) (occs g d) -> e < length g.
Proof.
  intros z e H. apply in_occs in H. destruct H as (_ & _ & rhs & x & H1 & H2 & H3).
  subst. apply defn_range. eapply wf_range; eauto.
Qed.

Lemma user_unlinked : forall e usr, nth e u None = Some usr -> uf_get d e = None.
Proof.
  intros e usr H. apply users_spec in H; [|apply occs_range].
  destruct H as (_ & [z Hz] & _). apply in_occs in Hz.
  destruct Hz as (_ & _ & rhs & x & _ & _ & Hx). subst. apply defn_unlinked.
Qed.

Lemma user_unique : forall e usr z rhs x, nth e u None = Some usr ->
  uf_get d z = None -> In rhs (o_rules (osym_at g z)) -> In x rhs -> defn d x = e -> z = usr.
Proof.
  intros e usr z rhs x H Hz Hr Hx He. apply users_spec in H; [|apply occs_range].
  destruct H as (_ & _ & H). apply H. apply in_occs. split; [eapply has_rule_lt; eauto|].
  split; auto. exists rhs, x. auto.
Qed.

Notation R := (Rf g).

Lemma repl_of_unlinked : forall x r, repl_of g d u x = Some r -> uf_get d x = None.
Proof.
  intros. apply repl_of_inv in H. destruct H as (_ & rhs0 & usr & _ & _ & H).
  eapply user_unlinked; eauto.
Qed.

Lemma is_root_inv : forall x, is_root g d u x = true ->
  exists r usr, repl_of g d u x = Some r /\ nth x u None = Some usr /\ repl_of g d u usr = None.
Proof.
  unfold is_root; intros. destruct (repl_of g d u x) eqn:E; [|discriminate].
  destruct (nth x u None) eqn:E2; [|discriminate].
  destruct (repl_of g d u n) eqn:E3; [discriminate|]. eauto.
Qed.

(* every symbol of an inlined right-hand side is copied *)
Lemma in_repl_kept : forall z r e, repl_of g d u z = Some r -> In e r -> R e = None.
Proof.
  intros z r e Hz He. pose proof (repl_of_unlinked _ _ Hz) as Uz. pose proof Hz as Hz0.
  apply repl_of_inv in Hz. destruct Hz as (_ & rhs0 & usr & H1 & H2 & H3).
  subst r. apply in_map_iff in He. destruct He as [y [Hy1 Hy2]].
  unfold Rf, final_repl. fold d. fold u.
  destruct (is_root g d u e) eqn:IR.
  - exfalso. apply is_root_inv in IR. destruct IR as (r' & usr' & A & B & C).
    assert (z = usr').
    { eapply user_unique; eauto. rewrite H1; simpl; auto. }
    subst usr'. congruence.
  - subst e. rewrite defn_unlinked. auto.
Qed.

Lemma seqd_iff : forall (P P' : nat -> list nat -> Prop) l w,
  (forall s v, P s v <-> P' s v) -> (seqd P l w <-> seqd P' l w).
Proof. intros. split; apply seqd_impl; intros; apply H; auto. Qed.

Lemma single_rule : forall x rhs0 w, o_rules (osym_at g x) = [rhs0] -> (od x w <-> seqd od rhs0 w).
Proof.
  intros x rhs0 w H.
  assert (T : term x = false). { apply wf_term with (rhs := rhs0). rewrite H; simpl; auto. }
  split; intros D.
  - inversion D; subst; [congruence|]. rewrite H in H1. destruct H1 as [H1 | []]. subst.
    apply oderives_seq_seqd; auto.
  - eapply od_rule; eauto. rewrite H; simpl; auto. apply oderives_seq_seqd; auto.
Qed.

Lemma repl_of_lp : forall x r w, repl_of g d u x = Some r -> (seqd od r w <-> od x w).
Proof.
  intros x r w H. apply repl_of_inv in H. destruct H as (_ & rhs0 & usr & H1 & H2 & _). subst r.
  rewrite (single_rule _ _ _ H1). rewrite seqd_map. apply seqd_iff.
  intros. symmetry. apply Rel_iff. apply defn_rel.
Qed.

Lemma expand_lp : forall f l w, seqd od (expand f g d u l) w <-> seqd od l w.
Proof.
  induction f; simpl; intros; [tauto|].
  rewrite seqd_flat_map. apply seqd_iff. intros s v.
  destruct (repl_of g d u s) eqn:E.
  - rewrite IHf. apply repl_of_lp; auto.
  - apply seqd_single.
Qed.

(* every replacement is language preserving in the input grammar *)
Lemma img_lp : forall x w, seqd od (img g x) w <-> od x w.
Proof.
  intros. unfold img, Rf, final_repl. fold d. fold u.
  destruct (is_root g d u x).
  - rewrite expand_lp. apply seqd_single.
  - destruct (uf_get d x) eqn:E; [|apply seqd_single].
    destruct (eliminated g d u n); [apply seqd_single|].
    rewrite seqd_single. symmetry. apply Rel_iff. apply d_rel; auto.
Qed.

(* output derivations are input derivations *)
Lemma fwd : (forall s w, oderives g' term s w -> od s w) /\
            (forall l w, oderives_seq g' term l w -> seqd od l w).
Proof.
  apply oderives_mutind; intros.
  - constructor; auto.
  - destruct (expand_shortcuts_at g s) as [_ HR]. fold g' in HR. rewrite HR in H0.
    destruct (R s); [destruct H0|]. apply in_map_iff in H0. destruct H0 as [rhs0 [H3 H4]]. subst rhs.
    apply seqd_flat_map in H2.
    eapply od_rule; eauto. apply oderives_seq_seqd.
    eapply seqd_impl; [|eauto]. intros. apply img_lp; auto.
  - constructor.
  - constructor; auto.
Qed.

Lemma rf_not_eliminated : forall t, eliminated g d u t = false -> R t = None.
Proof.
  unfold eliminated, Rf, final_repl, is_root. fold d. fold u. intros.
  destruct (repl_of g d u t); [discriminate|]. destruct (uf_get d t); [discriminate|]. auto.
Qed.

(* input derivations are output derivations *)
Lemma back_kept : forall h,
  (forall h', h' < h -> forall x w, odh h' x w -> seqd od' (img g x) w) ->
  forall x w, odh h x w -> R x = None -> od' x w.
Proof.
  intros h IH x w H K. destruct h; simpl in H; [tauto|].
  destruct H as [[H1 H2] | [H1 (rhs & H2 & H3)]].
  - subst. constructor; auto.
  - apply od_rule with (rhs := flat_map (img g) rhs); auto.
    + destruct (expand_shortcuts_at g x) as [_ HR]. unfold g'. rewrite HR, K. apply in_map; auto.
    + apply oderives_seq_seqd. apply seqd_flat_map. eapply seqd_impl; [|eauto].
      intros. eapply IH; eauto.
Qed.

Lemma back_expand : forall h,
  (forall h', h' < h -> forall x w, odh h' x w -> seqd od' (img g x) w) ->
  forall f l w h', h' < h -> seqd (odh h') l w ->
  (forall e, In e (expand f g d u l) -> R e = None) ->
  seqd od' (expand f g d u l) w.
Proof.
  intros h IH.
  assert (KE : forall h' e w, h' < h -> odh h' e w -> R e = None -> seqd od' [e] w).
  { intros. specialize (IH h' H e w H0). unfold img in IH. rewrite H1 in IH. auto. }
  induction f; intros l w h' Hh D K.
  - simpl in *. eapply seqd_impl; [|eauto]. intros. apply seqd_single. eapply KE; eauto.
  - simpl in *. apply seqd_flat_map. eapply seqd_impl; [|eauto].
    intros s v Hs Dv. simpl.
    assert (Ks : forall e, In e (match repl_of g d u s with Some rhs => expand f g d u rhs | None => [s] end) ->
                 R e = None).
    { intros. apply K. apply in_flat_map. eauto. }
    destruct (repl_of g d u s) eqn:E.
    + pose proof E as E0. apply repl_of_inv in E. destruct E as (_ & rhs0 & usr & H1 & H2 & _). subst l0.
      destruct h'; simpl in Dv; [tauto|].
      destruct Dv as [[T _] | [T (rhs & H3 & H4)]].
      { destruct WF as (_ & W2 & _). rewrite (W2 _ T) in H1. discriminate. }
      rewrite H1 in H3. destruct H3 as [H3 | []]. subst rhs.
      apply IHf with (h' := h'); [lia | | auto].
      apply seqd_map. eapply seqd_impl; [|eauto]. intros. apply (defn_rel s0); auto.
    + eapply KE; eauto. apply Ks; simpl; auto.
Qed.

Lemma back : forall h x w, odh h x w -> seqd od' (img g x) w.
Proof.
  induction h using lt_wf_ind. intros x w D.
  unfold img. destruct (R x) eqn:E.
  2:{ apply seqd_single. eapply back_kept; eauto. }
  unfold Rf, final_repl in E. fold d in E. fold u in E.
  destruct (is_root g d u x) eqn:IR.
  - inversion E; subst l; clear E.
    apply is_root_inv in IR. destruct IR as (r & usr & A & B & C).
    pose proof A as A0. apply repl_of_inv in A. destruct A as (_ & rhs0 & usr' & H1 & H2 & _).
    assert (Hx : x < length g). { apply has_rule_lt with (rhs := rhs0). rewrite H1; simpl; auto. }
    destruct (length g) as [|n1] eqn:EL; [lia|].
    assert (EX : expand (S n1) g d u [x] = expand n1 g d u r).
    { simpl. rewrite A0. apply app_nil_r. }
    rewrite EX.
    destruct h; simpl in D; [tauto|].
    destruct D as [[T _] | [T (rhs & H3 & H4)]].
    { destruct WF as (_ & W2 & _). rewrite (W2 _ T) in H1. discriminate. }
    rewrite H1 in H3. destruct H3 as [H3 | []]. subst rhs.
    apply back_expand with (h := S h) (h' := h); auto.
    + subst r. apply seqd_map. eapply seqd_impl; [|eauto]. intros. apply (defn_rel s); auto.
    + intros e He. apply in_expand in He. destruct He as [He | (z & r' & Hz & He)].
      * eapply in_repl_kept; eauto.
      * eapply in_repl_kept; eauto.
  - destruct (uf_get d x) eqn:EU; [|discriminate].
    destruct (eliminated g d u n) eqn:EE; [discriminate|]. inversion E; subst l; clear E.
    apply seqd_single. eapply back_kept; eauto.
    + apply (d_rel _ _ EU); auto.
    + apply rf_not_eliminated; auto.
Qed.

Theorem expand_preserves0 : forall s w, kept g s -> (od' s w <-> od s w).
Proof.
  intros s w K. split.
  - apply fwd.
  - intros D. apply od_odh in D. destruct D as [h D]. apply back in D.
    unfold img in D. unfold kept in K. fold (Rf g s) in K. rewrite K in D. apply seqd_single in D. auto.
Qed.

Lemma rf_range : forall x r e, x < length g -> R x = Some r -> In e r -> e < length g.
Proof.
  intros x r e Hx E He. unfold Rf, final_repl in E. fold d in E. fold u in E.
  assert (RR : forall z r' e', repl_of g d u z = Some r' -> In e' r' -> e' < length g).
  { intros z r' e' Hz He'. apply repl_of_inv in Hz. destruct Hz as (_ & rhs0 & usr & H1 & H2 & _).
    subst r'. apply in_map_iff in He'. destruct He' as [y [Hy1 Hy2]]. subst e'.
    apply defn_range. eapply wf_range with (i := z) (rhs := rhs0); auto. rewrite H1; simpl; auto. }
  destruct (is_root g d u x).
  - inversion E; subst r. apply in_expand in He. destruct He as [[He | []] | (z & r' & Hz & He)].
    + subst; auto.
    + eapply RR; eauto.
  - destruct (uf_get d x) eqn:EU; [|discriminate].
    destruct (eliminated g d u n); [discriminate|]. inversion E; subst r.
    destruct He as [He | []]. subst. eapply d_range; eauto.
Qed.

Theorem expand_wf0 : owf g' term.
Proof.
  destruct WF as (W1 & W2 & W3).
  split; [|split].
  - intros i rhs x Hr Hx. unfold g' in *. rewrite expand_shortcuts_length.
    destruct (expand_shortcuts_at g i) as [_ HR]. rewrite HR in Hr.
    destruct (R i); [destruct Hr|]. apply in_map_iff in Hr. destruct Hr as [rhs0 [H1 H2]]. subst rhs.
    apply in_flat_map in Hx. destruct Hx as [y [Hy1 Hy2]].
    assert (Hy : y < length g) by (eapply W1; eauto).
    unfold img in Hy2. destruct (R y) eqn:E.
    + eapply rf_range; eauto.
    + destruct Hy2 as [Hy2 | []]. subst; auto.
  - intros i T. destruct (expand_shortcuts_at g i) as [_ HR]. fold g' in HR. rewrite HR.
    rewrite (W2 _ T). destruct (R i); auto.
  - intros i T. unfold g'. rewrite expand_shortcuts_length. auto.
Qed.
End SEM.


(* ================= the fixed statements ================= *)

(*FIXED*) (* special symbols (start, captures, token limits, sub-grammar boundaries) are always kept *)
Theorem special_kept : forall g i,
  i < length g -> o_special (osym_at g i) = true -> kept g i /\
  o_special (osym_at (expand_shortcuts g) i) = true.
Proof. exact special_kept0. Qed.

(*FIXED*) (* one pass: every kept non-terminal symbol derives exactly the same terminal sequences *)
Theorem expand_preserves : forall g term s w,
  owf g term -> s < length g -> kept g s ->
  (oderives (expand_shortcuts g) term s w <-> oderives g term s w).
Proof. intros. apply expand_preserves0; auto. Qed.

(*FIXED*) (* the output of a pass is again well formed *)
Theorem expand_wf : forall g term, owf g term -> owf (expand_shortcuts g) term.
Proof. intros. apply expand_wf0; auto. Qed.

(*FIXED*) (* the optimisation as applied (two passes) preserves the language of every special symbol,
   in particular of the start symbol *)
Theorem optimize_preserves : forall g term s w,
  owf g term -> s < length g -> o_special (osym_at g s) = true ->
  (oderives (optimize g) term s w <-> oderives g term s w).
Proof.
  intros g term s w WF Hs Sp. unfold optimize.
  destruct (special_kept g s Hs Sp) as [K1 Sp1].
  assert (Hs1 : s < length (expand_shortcuts g)) by (rewrite expand_shortcuts_length; auto).
  destruct (special_kept _ s Hs1 Sp1) as [K2 _].
  rewrite (expand_preserves (expand_shortcuts g) term s w (expand_wf g term WF) Hs1 K2).
  apply expand_preserves; auto.
Qed.

(*FIXED*) (* union-find: the root of an element is a fixed point, and compression does not change roots *)
Lemma uf_find_root : forall m e root m',
  uf_find m e = (root, m') -> root = uf_root (length m) m e.
Proof. unfold uf_find; intros. inversion H; auto. Qed.

Print Assumptions special_kept.
Print Assumptions expand_preserves.
Print Assumptions expand_wf.
Print Assumptions optimize_preserves.
Print Assumptions uf_find_root.
