(* Sx.v — s-expression values exchanged with the harness; the case runners
   (Run*.v) are Gallina functions sx -> sx so that the very same function is
   extracted for the driver and evaluated inside Coq for the cross-check. *)
From Coq Require Import String Ascii.
From LLG Require Import Base.

Inductive sx :=
| SI (n : Z)            (* decimal integer *)
| SX (b : bytes)        (* byte string, printed x<hex> *)
| SY (name : bytes)     (* symbol *)
| SL (l : list sx).

Definition sym (s : string) : bytes := map (fun a => N_of_ascii a) (list_ascii_of_string s).

Definition sn (n : N) : sx := SI (Z.of_N n).
Definition sb (b : bool) : sx := SI (if b then 1 else 0)%Z.
Definition sns (l : list N) : sx := SL (map sn l).
Definition tagged (tag : string) (l : list sx) : sx := SL (SY (sym tag) :: l).
Definition spanic : sx := SL [SY (sym "panic")].
Definition sopt (o : option N) : sx := match o with Some n => sn n | None => SI (-1)%Z end.

Definition as_list (x : sx) : list sx := match x with SL l => l | _ => [] end.
Definition as_n (x : sx) : N := match x with SI z => Z.to_N z | _ => 0 end.
Definition as_z (x : sx) : Z := match x with SI z => z | _ => 0%Z end.
Definition as_bytes (x : sx) : bytes := match x with SX b => b | _ => [] end.
Definition as_bool (x : sx) : bool := match x with SI z => negb (Z.eqb z 0) | _ => false end.
Definition as_ns (x : sx) : list N := map as_n (as_list x).

Definition is_tag (tag : bytes) (x : sx) : bool :=
  match x with SL (SY t :: _) => bytes_eqb t tag | _ => false end.

Definition head_sym (x : sx) : bytes := match x with SL (SY t :: _) => t | _ => [] end.
Definition tail_items (x : sx) : list sx := match x with SL (_ :: r) => r | _ => [] end.

(* items of the first (tag ...) element of l *)
Definition field (tag : string) (l : list sx) : list sx :=
  match find (is_tag (sym tag)) l with Some x => tail_items x | None => [] end.
Definition field1 (tag : string) (l : list sx) : sx :=
  match field tag l with x :: _ => x | [] => SL [] end.

Definition nth_sx (l : list sx) (i : nat) : sx := nth i l (SL []).

Fixpoint sx_eqb (a b : sx) {struct a} : bool :=
  match a, b with
  | SI x, SI y => Z.eqb x y
  | SX x, SX y => bytes_eqb x y
  | SY x, SY y => bytes_eqb x y
  | SL x, SL y =>
      (fix go (x y : list sx) : bool :=
         match x, y with
         | [], [] => true
         | a :: x', b :: y' => sx_eqb a b && go x' y'
         | _, _ => false
         end) x y
  | _, _ => false
  end.
