(* Numeric.v — model of parser/src/json/numeric.rs: the digit-recursive regexes
   for integer and decimal ranges (rx_int_range, lexi_x_to_9, lexi_0_to_x,
   lexi_range, rx_float_range), producing regex ASTs instead of strings
   (formatting and re-parsing is glue exercised by the correspondence check),
   Decimal::new / lcm over u32 with explicit wrap.  Bounds of the float ranges
   enter as the decimal strings `float_to_str` prints (sign, integer digits,
   fraction digits).  Definitions only. *)
From LLG Require Import Base Regex.
Open Scope Z_scope.

(* ---------- digits ---------- *)
Definition digit := Z.
Definition dchar (d : digit) : byte := Z.to_N (48 + d).
Definition drange (lo hi : digit) : regex := Bytes (bset_range (Z.to_N (48 + lo)) (Z.to_N (48 + hi))).  (* [lo-hi] *)
Definition dany : regex := drange 0 9.
Definition dlit (ds : list digit) : regex := lit (map dchar ds).
Definition ch (c : byte) : regex := Bytes (bset_single c).
Definition minus : regex := ch 45%N.
Definition dot : regex := ch 46%N.

Definition cat_list (l : list regex) : regex := fold_right Cat Eps l.
(* mk_or: a single part stays as it is *)
Definition mk_or (parts : list regex) : regex :=
  match parts with
  | [] => Empty
  | [x] => x
  | x :: rest => fold_left Alt rest x
  end.

(* decimal digits of a non-negative integer, most significant first *)
Fixpoint digits_fuel (fuel : nat) (n : Z) (acc : list digit) : list digit :=
  match fuel with
  | O => acc
  | S f => let acc' := (n mod 10) :: acc in
           if n <? 10 then acc' else digits_fuel f (n / 10) acc'
  end.
Definition digits_of (n : Z) : list digit := digits_fuel 80 (Z.abs n) [].
Definition num_digits (n : Z) : nat := length (digits_of n).
Fixpoint val_digits (ds : list digit) (acc : Z) : Z :=
  match ds with
  | [] => acc
  | d :: ds' => val_digits ds' (acc * 10 + d)
  end.

Definition last_digit (ds : list digit) : digit := last ds 0.
Definition but_last (ds : list digit) : list digit := removelast ds.

Inductive nres (A : Type) := NOk (a : A) | NErr.     (* NErr: the code returns Err(...) *)
Arguments NOk {A} a.
Arguments NErr {A}.
Definition nbind {A B} (r : nres A) (f : A -> nres B) : nres B :=
  match r with NOk a => f a | NErr => NErr end.

(* optional minus, then 0 or a non-zero-leading digit string *)
Definition any_int : regex :=
  Cat (opt minus) (Alt (ch 48%N) (Cat (drange 1 9) (Star dany))).

(* rx_int_range(left, right) *)
Fixpoint rx_int_range (fuel : nat) (left right : option Z) : nres regex :=
  match fuel with
  | O => NErr
  | S f =>
      match left, right with
      | None, None => NOk any_int
      | Some l, None =>
          if l <? 0 then
            nbind (rx_int_range f (Some l) (Some (-1))) (fun a =>
            nbind (rx_int_range f (Some 0) None) (fun b => NOk (mk_or [a; b])))
          else
            let nd := num_digits l in
            let max_value := 10 ^ (Z.of_nat nd) - 1 in
            nbind (rx_int_range f (Some l) (Some max_value)) (fun a =>
            NOk (mk_or [a; Cat (drange 1 9) (Rep dany (N.of_nat nd) None)]))
      | None, Some r =>
          if 0 <=? r then
            nbind (rx_int_range f (Some 0) (Some r)) (fun a =>
            nbind (rx_int_range f None (Some (-1))) (fun b => NOk (mk_or [a; b])))
          else
            nbind (rx_int_range f (Some (- r)) None) (fun a => NOk (Cat minus a))
      | Some l, Some r =>
          if r <? l then NErr
          else if l <? 0 then
            if r <? 0 then
              nbind (rx_int_range f (Some (- r)) (Some (- l))) (fun a => NOk (Cat minus a))
            else
              nbind (rx_int_range f (Some 0) (Some (- l))) (fun a =>
              nbind (rx_int_range f (Some 0) (Some r)) (fun b => NOk (Alt (Cat minus a) b)))
          else if Nat.eqb (num_digits l) (num_digits r) then
            let ld := digits_of l in
            let rd := digits_of r in
            if l =? r then NOk (dlit ld)
            else
              let lpref := but_last ld in
              let lx := last_digit ld in
              let rpref := but_last rd in
              let rx := last_digit rd in
              if list_eqb Z.eqb lpref rpref then NOk (Cat (dlit lpref) (drange lx rx))
              else
                let left_rec := val_digits lpref 0 in
                let right_rec := val_digits rpref 0 in
                if right_rec <=? left_rec then NErr
                else
                  let '(left_rec1, p1) :=
                    if (lx =? 0) then (left_rec, [])
                    else (left_rec + 1, [Cat (dlit lpref) (drange lx 9)]) in
                  let '(right_rec1, p2) :=
                    if (rx =? 9) then (right_rec, [])
                    else (right_rec - 1, [Cat (dlit rpref) (drange 0 rx)]) in
                  if left_rec1 <=? right_rec1 then
                    nbind (rx_int_range f (Some left_rec1) (Some right_rec1)) (fun inner =>
                    NOk (mk_or (p1 ++ p2 ++ [Cat inner dany])))
                  else NOk (mk_or (p1 ++ p2))
          else
            let break_point := 10 ^ (Z.of_nat (num_digits l)) - 1 in
            nbind (rx_int_range f (Some l) (Some break_point)) (fun a =>
            nbind (rx_int_range f (Some (break_point + 1)) (Some r)) (fun b => NOk (mk_or [a; b])))
      end
  end.

Definition int_fuel : nat := 200.

(* ---------- lexicographic fraction ranges ---------- *)
(* lexi_x_to_9(x, incl): fractions (digit strings) lexicographically >= x (> x) *)
Fixpoint lexi_x_to_9 (x : list digit) (incl : bool) : regex :=
  match x with
  | [] => if incl then Star dany else Cat (Star dany) (Cat (drange 1 9) (Star dany))
  | x0 :: rest =>
      match rest, incl with
      | [], true => Cat (drange x0 9) (Star dany)
      | _, _ =>
          let first := Cat (ch (dchar x0)) (lexi_x_to_9 rest incl) in
          if (x0 <? 9) then Alt first (Cat (drange (x0 + 1) 9) (Star dany)) else first
      end
  end.

(* lexi_0_to_x(x, incl): fractions <= x (< x); x has no trailing zeros *)
Definition zero_ch : regex := ch 48%N.
Fixpoint lexi_0_to_x (x : list digit) (incl : bool) : nres regex :=
  match x with
  | [] => if incl then NOk (Star zero_ch) else NErr
  | x0 :: rest =>
      match rest, incl with
      | [], false => if (x0 =? 0) then NErr else NOk (Cat (drange 0 (x0 - 1)) (Star dany))
      | _, _ =>
          nbind (lexi_0_to_x rest incl) (fun r =>
          (* a non-empty rest is > 0, so the first digit alone is already below the bound *)
          let first := match rest with
                       | [] => Cat (ch (dchar x0)) r
                       | _ => Cat (ch (dchar x0)) (opt r)
                       end in
          NOk (if (0 <? x0) then Alt first (Cat (drange 0 (x0 - 1)) (Star dany)) else first))
      end
  end.

(* trim_end_matches('0') *)
Definition trim_zeros (ds : list digit) : list digit :=
  rev ((fix go (l : list digit) : list digit :=
          match l with
          | d :: l' => if (d =? 0) then go l' else l
          | [] => []
          end) (rev ds)).

(* lexi_range(ld, rd, ld_incl, rd_incl): same-length digit strings *)
Fixpoint lexi_range (ld rd : list digit) (li ri : bool) : nres regex :=
  match ld, rd with
  | [], [] => if li && ri then NOk (Star zero_ch) else NErr
  | l0 :: lrest, r0 :: rrest =>
      if list_eqb Z.eqb ld rd then (if li && ri then NOk (Cat (dlit ld) (Star zero_ch)) else NErr)
      else if (l0 =? r0) then
        nbind (lexi_range lrest rrest li ri) (fun r =>
        NOk (if li && match trim_zeros lrest with [] => true | _ => false end
             then Cat (ch (dchar l0)) (opt r)
             else Cat (ch (dchar l0)) r))
      else if (r0 <=? l0) then NErr
      else
        let p1 := Cat (ch (dchar l0)) (lexi_x_to_9 (trim_zeros lrest) li) in
        let p2 := if (l0 + 1 <? r0) then [Cat (drange (l0 + 1) (r0 - 1)) (Star dany)] else [] in
        let rd_rest := trim_zeros rrest in
        match rd_rest, ri with
        | [], false => NOk (mk_or (p1 :: p2))
        | [], true =>
            nbind (lexi_0_to_x rd_rest ri) (fun r =>
            NOk (mk_or (p1 :: p2 ++ [Cat (ch (dchar r0)) r])))
        | _, _ =>
            nbind (lexi_0_to_x rd_rest ri) (fun r =>
            NOk (mk_or (p1 :: p2 ++ [Cat (ch (dchar r0)) (opt r)])))
        end
  | _, _ => NErr              (* "ld and rd must have the same length" *)
  end.

(* ---------- decimal bounds as float_to_str prints them ---------- *)
Record dec := mk_dec { d_neg : bool; d_int : list digit; d_frac : list digit }.

Definition dec_is_zero (d : dec) : bool :=
  forallb (Z.eqb 0) (d_int d) && forallb (Z.eqb 0) (d_frac d).
Definition dec_negate (d : dec) : dec := mk_dec (negb (d_neg d)) (d_int d) (d_frac d).
Definition dec_zero : dec := mk_dec false [0] [].
Definition dec_of_int (z : Z) : dec := mk_dec (z <? 0) (digits_of z) [].

(* exact comparison: value * 10^k as integers *)
Fixpoint pad_right (ds : list digit) (n : nat) : list digit :=
  match n with O => ds | S k => pad_right (ds ++ [0]) k end.
Definition dec_scaled (d : dec) (k : nat) : Z :=
  let v := val_digits (d_int d ++ pad_right (d_frac d) (k - length (d_frac d))) 0 in
  if d_neg d then - v else v.
Definition dec_cmp (a b : dec) : comparison :=
  let k := Nat.max (length (d_frac a)) (length (d_frac b)) in
  Z.compare (dec_scaled a k) (dec_scaled b k).
Definition dec_lt (a b : dec) : bool := match dec_cmp a b with Lt => true | _ => false end.
Definition dec_eq (a b : dec) : bool := match dec_cmp a b with Eq => true | _ => false end.
Definition dec_is_neg (a : dec) : bool := dec_lt a dec_zero.
Definition dec_int_part (a : dec) : Z := val_digits (d_int a) 0.      (* of a non-negative decimal *)

(* optional fraction: dot and one or more digits *)
Definition opt_frac : regex := opt (Cat dot (Rep dany 1%N None)).
(* any JSON number: integer part, optional fraction, optional exponent *)
Definition any_float : regex :=
  Cat any_int (Cat opt_frac
    (opt (Cat (Alt (ch 101%N) (ch 69%N)) (Cat (opt (Alt (ch 43%N) (ch 45%N))) (Rep dany 1%N None))))).

(* literal of a decimal as float_to_str prints it *)
Definition dec_lit (d : dec) : regex :=
  cat_list ((if d_neg d then [minus] else []) ++ [dlit (d_int d)] ++
            match d_frac d with [] => [] | f => [dot; dlit f] end).

Definition pow10_dec (n : nat) : dec := mk_dec false (1 :: repeat 0 n) [].

(* literal of a bound together with the other spellings of the same value *)
Definition dec_lit_zeros (d : dec) : regex :=
  Cat (dec_lit d) (match d_frac d with
                   | [] => opt (Cat dot (Rep zero_ch 1%N None))
                   | _ => Star zero_ch
                   end).

Fixpoint rx_float_range (fuel : nat) (left right : option dec) (li ri : bool)
  : nres regex :=
  match fuel with
  | O => NErr
  | S f =>
      match left, right with
      | None, None => NOk any_float
      | Some l, None =>
          if dec_is_neg l then
            nbind (rx_float_range f (Some l) (Some dec_zero) li false) (fun a =>
            nbind (rx_float_range f (Some dec_zero) None true false) (fun b => NOk (mk_or [a; b])))
          else
            let nd := num_digits (dec_int_part l) in
            nbind (rx_float_range f (Some l) (Some (pow10_dec nd)) li false) (fun a =>
            NOk (mk_or [a; Cat (Cat (drange 1 9) (Rep dany (N.of_nat nd) None)) opt_frac]))
      | None, Some r =>
          if dec_is_zero r then
            nbind (rx_float_range f (Some dec_zero) None false false) (fun a =>
            let neg := Cat minus a in
            NOk (if ri then mk_or [neg; Cat zero_ch (opt (Cat dot (Rep zero_ch 1%N None)))] else neg))
          else if negb (dec_is_neg r) then
            nbind (rx_float_range f (Some dec_zero) None false false) (fun a =>
            nbind (rx_float_range f (Some dec_zero) (Some r) true ri) (fun b =>
            NOk (mk_or [Cat minus a; b])))
          else
            nbind (rx_float_range f (Some (dec_negate r)) None ri false) (fun a => NOk (Cat minus a))
      | Some l, Some r =>
          if dec_lt r l then NErr
          else if dec_eq l r then (if li && ri then NOk (dec_lit_zeros l) else NErr)
          else if dec_is_neg l then
            if dec_is_neg r then
              nbind (rx_float_range f (Some (dec_negate r)) (Some (dec_negate l)) ri li) (fun a =>
              NOk (Cat minus a))
            else
              nbind (rx_float_range f (Some dec_zero) (Some (dec_negate l)) false li) (fun negp =>
              if negb (dec_is_zero r) || ri then
                nbind (rx_float_range f (Some dec_zero) (Some r) true ri) (fun posp =>
                NOk (mk_or [Cat minus negp; posp]))
              else NOk (Cat minus negp))
          else
            let left_rec := dec_int_part l in
            let right_rec := dec_int_part r in
            let ld := d_frac l in
            let rd := d_frac r in
            if left_rec =? right_rec then
              let n := Nat.max (length ld) (length rd) in
              let ld' := pad_right ld (n - length ld) in
              let rd' := pad_right rd (n - length rd) in
              nbind (lexi_range ld' rd' li ri) (fun lr =>
              let suff := Cat dot lr in
              if li && forallb (Z.eqb 0) ld'
              then NOk (Cat (dlit (digits_of left_rec)) (opt suff))
              else NOk (Cat (dlit (digits_of left_rec)) suff))
            else
              let '(left_rec1, p1) :=
                match ld, li with
                | [], true => (left_rec, [])
                | _, _ => (left_rec + 1,
                           [Cat (dlit (digits_of left_rec)) (Cat dot (lexi_x_to_9 ld li))])
                end in
              nbind (if left_rec1 <? right_rec
                     then nbind (rx_int_range int_fuel (Some left_rec1) (Some (right_rec - 1)))
                                (fun inner => NOk [Cat inner opt_frac])
                     else NOk []) (fun p2 =>
              match rd with
              | _ :: _ =>
                  nbind (lexi_0_to_x rd ri) (fun r0 =>
                  NOk (mk_or (p1 ++ p2 ++ [Cat (dlit (digits_of right_rec)) (opt (Cat dot r0))])))
              | [] =>
                  if ri then NOk (mk_or (p1 ++ p2 ++ [Cat (dlit (digits_of right_rec))
                                                         (opt (Cat dot (Rep (ch 48%N) 1%N None)))]))
                  else NOk (mk_or (p1 ++ p2))
              end)
      end
  end.

Definition float_fuel : nat := 40.

(* ---------- Decimal (multipleOf) over u32 ---------- *)
Definition u32w (x : Z) : Z := x mod 2 ^ 32.

Fixpoint strip10 (fuel : nat) (coef exp : Z) : Z * Z :=
  match fuel with
  | O => (coef, exp)
  | S f => if (0 <? exp) && (coef mod 10 =? 0) then strip10 f (coef / 10) (exp - 1) else (coef, exp)
  end.
Definition decimal_new (coef exp : Z) : Z * Z :=
  if coef =? 0 then (0, 0) else strip10 40 coef exp.

(* Decimal::lcm with the unchecked u32 products of the pinned code (wrapping, as a
   release build computes them); `checked` = the repaired code returning None on overflow *)
Definition decimal_lcm (checked : bool) (a b : Z * Z) : option (Z * Z) :=
  let '(ca, ea) := a in
  let '(cb, eb) := b in
  if (ca =? 0) || (cb =? 0) then Some (0, 0) else
  let pa := 10 ^ (Z.max 0 (eb - ea)) in
  let pb := 10 ^ (Z.max 0 (ea - eb)) in
  let a1 := ca * pa in
  let b1 := cb * pb in
  let prod := u32w a1 * u32w b1 in
  if checked && ((2 ^ 32 <=? pa) || (2 ^ 32 <=? pb) || (2 ^ 32 <=? a1) || (2 ^ 32 <=? b1) || (2 ^ 32 <=? prod))
  then None
  else Some (decimal_new (u32w prod / Z.gcd (u32w a1) (u32w b1)) (Z.max ea eb)).

(* ---------- multipleOf as matched by derivre (RemainderIs), u32 arithmetic written out ---------- *)
(* derivative by an integer-part digit: remainder' = (remainder * 10 + digit * 10^scale) % divisor,
   all in u32 (deriv.rs / relevance.rs of derivre) *)
Definition rem_step_u32 (d scale r digit : Z) : Z :=
  u32w (u32w (r * 10) + u32w (digit * u32w (10 ^ scale))) mod d.
Definition rem_step (d scale r digit : Z) : Z := (r * 10 + digit * 10 ^ scale) mod d.
(* json/compiler.rs signed_multiple_of_ast: the guard in front of RegexAst::MultipleOf *)
Definition multiple_of_fits (c e : Z) : bool := c * 10 + 9 * 10 ^ e <=? 4294967295.
Definition multiple_of_compiles (guard : bool) (c e : Z) : bool :=
  negb (c =? 0) && (negb guard || multiple_of_fits c e).
(* an unsigned integer literal is accepted when the remainder after its digits is 0,
   starting from remainder = divisor (which also excludes the empty string) *)
Definition rem_run_u32 (d scale : Z) (ds : list Z) : Z := fold_left (rem_step_u32 d scale) ds d.
Definition multiple_of_accepts_int (d : Z) (ds : list Z) : bool :=
  match ds with [] => false | _ => rem_run_u32 d 0 ds =? 0 end.

(* ---------- specification side ---------- *)
(* a plain integer literal: optional '-', then 0 or a non-zero-leading digit string *)
Definition int_literal (z : Z) : bytes :=
  (if z <? 0 then [45%N] else []) ++ map dchar (digits_of z).

Definition in_opt_range (l r : option Z) (z : Z) : Prop :=
  (match l with Some a => a <= z | None => True end) /\
  (match r with Some b => z <= b | None => True end).
