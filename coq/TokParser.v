(* TokParser.v — model of parser/src/tokenparser.rs and matcher.rs on top of
   Engine: consume_token (incl. the EOS branch), check_stop, compute_mask (with
   the forced-token singleton for canonical tokenizers), ff_tokens with
   re-tokenisation and chop, rollback by token byte lengths, validate, and the
   sticky-error Matcher wrapper.  Definitions only. *)
From LLG Require Import Base Svob Trie WalkM Regex Lexer Earley Engine.

Inductive stop_reason :=
| NotStopped | MaxTokensTotal | MaxTokensParser | NoExtension | NoExtensionBias
| EndOfSentence | InternalError | LexerTooComplex | ParserTooComplex.

Definition stop_eqb (a b : stop_reason) : bool :=
  match a, b with
  | NotStopped, NotStopped | MaxTokensTotal, MaxTokensTotal | MaxTokensParser, MaxTokensParser
  | NoExtension, NoExtension | NoExtensionBias, NoExtensionBias | EndOfSentence, EndOfSentence
  | InternalError, InternalError | LexerTooComplex, LexerTooComplex
  | ParserTooComplex, ParserTooComplex => true
  | _, _ => false
  end.

(* StopReason::is_ok *)
Definition stop_is_ok (r : stop_reason) : bool :=
  match r with
  | NotStopped | EndOfSentence | NoExtension | NoExtensionBias => true
  | _ => false
  end.

Record tstate := mk_tstate {
  t_p : pstate;
  t_stop : stop_reason;
  t_tokens : list tokid;          (* llm_tokens, oldest first *)
  t_bytes : bytes;                (* llm_bytes *)
  t_acc_cache : option bool;      (* is_accepting_cache *)
  t_ff_cache : option (list tokid * bytes);
  t_max_tokens : option N;        (* max_tokens_total; None = usize::MAX *)
  t_prefix : bytes;               (* grm_prefix *)
  t_canonical : bool;             (* tokenize_is_canonical && !no_forcing *)
  t_panicked : bool               (* Matcher turned a panic into a sticky error *)
}.

Definition with_p (t : tstate) (p : pstate) : tstate :=
  mk_tstate p (t_stop t) (t_tokens t) (t_bytes t) (t_acc_cache t) (t_ff_cache t)
            (t_max_tokens t) (t_prefix t) (t_canonical t) (t_panicked t).
Definition with_stop (t : tstate) (r : stop_reason) : tstate :=
  mk_tstate (t_p t) r (t_tokens t) (t_bytes t) (t_acc_cache t) (t_ff_cache t)
            (t_max_tokens t) (t_prefix t) (t_canonical t) (t_panicked t).
Definition clear_caches (t : tstate) : tstate :=
  mk_tstate (t_p t) (t_stop t) (t_tokens t) (t_bytes t) None None
            (t_max_tokens t) (t_prefix t) (t_canonical t) (t_panicked t).
Definition with_acc (t : tstate) (a : option bool) : tstate :=
  mk_tstate (t_p t) (t_stop t) (t_tokens t) (t_bytes t) a (t_ff_cache t)
            (t_max_tokens t) (t_prefix t) (t_canonical t) (t_panicked t).
Definition with_ff (t : tstate) (c : option (list tokid * bytes)) : tstate :=
  mk_tstate (t_p t) (t_stop t) (t_tokens t) (t_bytes t) (t_acc_cache t) c
            (t_max_tokens t) (t_prefix t) (t_canonical t) (t_panicked t).
Definition with_tokens (t : tstate) (toks : list tokid) (bs : bytes) : tstate :=
  mk_tstate (t_p t) (t_stop t) toks bs (t_acc_cache t) (t_ff_cache t)
            (t_max_tokens t) (t_prefix t) (t_canonical t) (t_panicked t).
Definition with_max (t : tstate) (m : option N) : tstate :=
  mk_tstate (t_p t) (t_stop t) (t_tokens t) (t_bytes t) (t_acc_cache t) (t_ff_cache t)
            m (t_prefix t) (t_canonical t) (t_panicked t).

Definition stopped (t : tstate) : bool := negb (stop_eqb (t_stop t) NotStopped).

Definition pending_prefix (t : tstate) : bytes :=
  skipn (Nat.min (length (t_prefix t)) (length (t_bytes t))) (t_prefix t).

Definition has_ff_bytes (t : tstate) : bool :=
  negb (Nat.eqb (length (pending_prefix t)) 0) || negb (Nat.eqb (length (currently_forced (t_p t))) 0).

(* results: Ok value / Err (error returned to the caller) *)
Inductive tres (A : Type) := TOk (a : A) | TErr.
Arguments TOk {A} a.
Arguments TErr {A}.

Definition tp_is_accepting (cx : ctx) (t : tstate) : bool * tstate :=
  match t_acc_cache t with
  | Some a => (a, t)
  | None =>
      if has_ff_bytes t then (false, with_acc t (Some false))
      else let '(a, p') := is_accepting cx (t_p t) in
           (a, with_acc (with_p t p') (Some a))
  end.

(* ---- tokenizer of a canonical environment: greedy over the trie, with the
   special-marker convention of tokenize_bytes_marker ---- *)
Fixpoint split_at_marker (w : bytes) : bytes * bytes :=
  match w with
  | [] => ([], [])
  | b :: w' => if b =? marker then ([], w)
               else let '(a, r) := split_at_marker w' in (b :: a, r)
  end.

Fixpoint find_byte (x : byte) (w : bytes) (i : nat) (lim : nat) : option nat :=
  match lim with
  | O => None
  | S l => match w with
           | [] => None
           | b :: w' => if b =? x then Some i else find_byte x w' (S i) l
           end
  end.

(* parse_numeric_token: "[digits]" -> (bytes consumed, id) *)
Fixpoint digits_val (w : bytes) (acc : N) : option N :=
  match w with
  | [] => Some acc
  | d :: w' => if (48 <=? d) && (d <=? 57) then digits_val w' (acc * 10 + (d - 48)) else None
  end.
Definition parse_numeric_token (w : bytes) : option (nat * N) :=
  match find_byte 93 w 0 20 with
  | None => None
  | Some pos =>
      match w with
      | 91 :: rest =>
          let inner := firstn (pos - 1) rest in
          match inner with
          | [] => None
          | _ => match digits_val inner 0 with
                 | Some v => if v <? 2 ^ 32 then Some (S pos, v) else None
                 | None => None
                 end
          end
      | _ => None
      end
  end.

Fixpoint tok_marker_loop (fuel : nat) (tr : trie) (w : bytes) (res : list tokid) (nfixed : nat)
  : list tokid * nat :=
  match fuel with
  | O => (res, nfixed)
  | S f =>
      match w with
      | [] => (res, nfixed)
      | _ =>
          let '(normal, rest) := split_at_marker w in
          let new_toks := match normal with [] => [] | _ => greedy_tokenize tr normal end in
          (* special tokens produced by the ordinary tokenizer are fixed too *)
          let nfixed1 :=
            fold_left (fun acc '(i, t) => if is_special_token tr t then (length res + i + 1)%nat else acc)
                      (combine (seq 0 (length new_toks)) new_toks) nfixed in
          let res1 := res ++ new_toks in
          match rest with
          | [] => (res1, nfixed1)
          | _ :: after =>              (* skip the marker *)
              (* \xff<name> *)
              match after with
              | 60 :: _ =>
                  if Nat.ltb 2 (length after) then
                    match find_byte 62 after 0 100 with
                    | Some p =>
                        let spec := marker :: firstn (S p) after in
                        match token_id_at_bytes tr spec with
                        | Some id => tok_marker_loop f tr (skipn (S p) after) (res1 ++ [id]) (S (length res1))
                        | None => tok_marker_loop f tr after res1 nfixed1
                        end
                    | None => tok_marker_loop f tr after res1 nfixed1
                    end
                  else tok_marker_loop f tr after res1 nfixed1
              | _ :: _ =>
                  match parse_numeric_token after with
                  | Some (n, id) =>
                      if id <? vocab_size tr
                      then tok_marker_loop f tr (skipn n after) (res1 ++ [id]) (S (length res1))
                      else tok_marker_loop f tr after res1 nfixed1
                  | None => tok_marker_loop f tr after res1 nfixed1
                  end
              | [] => (res1, nfixed1)
              end
          end
      end
  end.

Definition tokenize_bytes_marker (tr : trie) (w : bytes) : list tokid * nat :=
  tok_marker_loop (S (length w)) tr w [] 0.

Fixpoint starts_with (l p : list tokid) : bool :=
  match p, l with
  | [], _ => true
  | x :: p', y :: l' => (x =? y) && starts_with l' p'
  | _ :: _, [] => false
  end.

(* compute_ff_bytes_to *)
Definition compute_ff_bytes (cx : ctx) (t : tstate) : bytes * tstate :=
  let t1 := if t_canonical t then with_p t (force_bytes cx (t_p t)) else t in
  (pending_prefix t1 ++ currently_forced (t_p t1), t1).

(* ff_tokens: forced bytes -> tokens, and the bytes the next token must start with *)
Definition ff_tokens (cx : ctx) (t : tstate) : (list tokid * bytes) * tstate :=
  let tr := c_trie cx in
  let existing := match rev (t_tokens t) with [] => [] | x :: _ => [x] end in
  let pre := decode_raw tr existing in
  let nexist := length pre in
  let '(ff, t1) := compute_ff_bytes cx t in
  let forced := pre ++ ff in
  if Nat.ltb nexist (length forced) && t_canonical t1 then
    let '(toks, nfixed) := tokenize_bytes_marker tr forced in
    let '(toks, nfixed, existing) :=
      if starts_with toks existing then (toks, Nat.max (length existing) nfixed, existing)
      else let '(tk, nf) := tokenize_bytes_marker tr (skipn nexist forced) in (tk, nf, []) in
    (* tokenize_and_chop *)
    let '((chop_toks, chop_bytes), p') :=
      chop_tokensM pstate (try_push_byte cx) pop_bytes trie_started trie_finished tr (t_p t1)
                   (skipn nfixed toks) in
    let t2 := with_p t1 p' in
    let kept := firstn (length toks - N.to_nat chop_toks) toks in
    let grm := skipn (length existing) kept in
    let token_prefix := skipn (length forced - N.to_nat chop_bytes) forced in
    ((grm, token_prefix), t2)
  else if Nat.ltb nexist (length forced) then (([], skipn nexist forced), t1)
  else (([], []), t1).

(* compute_mask_inner *)
Definition compute_mask (cx : ctx) (t : tstate) : tres svob * tstate :=
  if stopped t then (TErr, t) else
  let '(early, prefix, t1) :=
    if t_canonical t then
      let '((ffs, pref), t') := match t_ff_cache t with
                                | Some c => (c, with_ff t None)
                                | None => ff_tokens cx t
                                end in
      match ffs with
      | tk :: _ => (Some (allow_token (alloc_token_set (c_trie cx)) tk), pref, t')
      | [] => (None, pref, t')
      end
    else let '(ff, t') := compute_ff_bytes cx t in (None, ff, t') in
  match early with
  | Some m => (TOk m, t1)
  | None =>
      let '(set, p') := compute_bias cx (t_p t1) prefix in
      let t2 := with_p t1 p' in
      if p_error p' then (TErr, with_stop t2 ParserTooComplex) else
      let '(acc, t3) := tp_is_accepting cx t2 in
      let set' := if acc then fold_left (fun v e => allow_token v e) (c_eos cx) set else set in
      if is_zero set' then (TErr, with_stop t3 NoExtensionBias) else (TOk set', t3)
  end.

(* apply_token at the token level *)
Definition tp_apply_token (cx : ctx) (t : tstate) (tok : tokid) : tres unit * tstate :=
  let t := clear_caches t in
  if vocab_size (c_trie cx) <=? tok then (TErr, with_stop t InternalError) else
  let t := with_tokens t (t_tokens t ++ [tok]) (t_bytes t) in
  let tb := decode_raw (c_trie cx) [tok] in
  let prefix_len := (length (t_prefix t) - length (t_bytes t))%nat in
  let go (t : tstate) (tb : bytes) :=
    if p_error (t_p t) then (TErr, with_stop t ParserTooComplex) else
    let '(ok, p') := apply_token cx (t_p t) tb in
    if ok then (TOk tt, with_tokens (with_p t p') (t_tokens t) (t_bytes t ++ tb))
    else (TErr, with_stop (with_p t p') ParserTooComplex) in
  if Nat.ltb 0 prefix_len then
    let to_apply := firstn (Nat.min (length tb) prefix_len) tb in
    let t1 := with_tokens t (t_tokens t) (t_bytes t ++ to_apply) in
    if negb (bytes_eqb (firstn (length (t_bytes t1)) (t_prefix t1)) (t_bytes t1))
    then (TErr, with_stop t1 InternalError)
    else if Nat.ltb prefix_len (length tb) then go t1 (skipn prefix_len tb)
    else (TOk tt, t1)
  else go t tb.

Definition consume_token (cx : ctx) (t : tstate) (tok : tokid) : tres unit * tstate :=
  if stopped t then (TErr, t) else
  match t_max_tokens t with
  | Some 0 => (TErr, with_stop t MaxTokensTotal)
  | _ =>
      let t := with_max t (match t_max_tokens t with Some m => Some (m - 1) | None => None end) in
      if existsb (N.eqb tok) (c_eos cx) then
        let '(scanned, p') := scan_eos cx (t_p t) in
        let t1 := with_p t p' in
        if scanned then (TOk tt, t1)
        else
          let '(acc, t2) := tp_is_accepting cx t1 in
          if acc then (TOk tt, with_tokens t2 (t_tokens t2 ++ [tok]) (t_bytes t2))
          else tp_apply_token cx t2 tok
      else tp_apply_token cx t tok
  end.

Definition last_is_eos (cx : ctx) (t : tstate) : bool :=
  match rev (t_tokens t) with
  | x :: _ => existsb (N.eqb x) (c_eos cx)
  | [] => false
  end.

(* check_stop; the assert!(!is_accepting || empty_token_prefix) is a panic site *)
Definition check_stop (cx : ctx) (t : tstate) : bool * tstate :=
  let empty_prefix := negb (has_ff_bytes t) in
  let pending_eos := last_is_eos cx t in
  let '(acc, t1) := tp_is_accepting cx t in
  let can_adv := can_advance cx (t_p t1) in
  let done := acc && (negb can_adv || pending_eos) in
  let t2 := if acc && negb empty_prefix then with_p t1 (set_panic (t_p t1)) else t1 in
  if done then (true, with_stop t2 (if pending_eos then EndOfSentence else NoExtension))
  else (false, t2).

Definition validate_tokens_raw (cx : ctx) (t : tstate) (toks : list tokid) : tres N * tstate :=
  if stopped t then (TOk 0, t) else
  match toks with
  | [] => (TOk 0, t)
  | _ =>
      if existsb (fun x => vocab_size (c_trie cx) <=? x) toks
      then (TErr, with_stop t InternalError)
      else let '(n, p') := validate_tokens cx (t_p t) toks in (TOk n, with_p t p')
  end.

Definition tp_rollback (cx : ctx) (t : tstate) (n : nat) : tres unit * tstate :=
  match n with
  | O => (TOk tt, t)
  | _ =>
      if Nat.ltb (length (t_tokens t)) n then (TErr, t) else
      let t := if stop_is_ok (t_stop t) then with_stop t NotStopped else t in
      if stopped t then (TErr, t) else
      let new_len := (length (t_tokens t) - n)%nat in
      let dropped := skipn new_len (t_tokens t) in
      let drop_bytes :=
        fold_left (fun acc tk => if existsb (N.eqb tk) (c_eos cx) then acc
                                 else (acc + N.to_nat (token_len (c_trie cx) tk))%nat) dropped 0%nat in
      if Nat.ltb (length (t_bytes t)) drop_bytes then (TErr, t) else
      match rollback cx (t_p t) drop_bytes with
      | None => (TErr, t)
      | Some p' =>
          let t1 := with_p t p' in
          let t2 := with_max t1 (match t_max_tokens t1 with Some m => Some (m + N.of_nat n) | None => None end) in
          let t3 := with_tokens t2 (firstn new_len (t_tokens t2))
                                (firstn (length (t_bytes t2) - drop_bytes) (t_bytes t2)) in
          (TOk tt, clear_caches t3)
      end
  end.

Definition tp_force_bytes (cx : ctx) (t : tstate) : bytes * tstate :=
  let t1 := with_p t (force_bytes cx (t_p t)) in
  (pending_prefix t1 ++ currently_forced (t_p t1), t1).

Definition compute_ff_tokens (cx : ctx) (t : tstate) : list tokid * tstate :=
  let '(r, t1) := ff_tokens cx t in
  (fst r, if t_canonical t1 then with_ff t1 (Some r) else t1).

(* ---------- Matcher: panics become a sticky error ---------- *)
(* Matcher::with_inner: panic_utils::catch_unwind flattens panics AND ordinary
   errors into Err, and every Err switches the matcher to the sticky Error state *)
Definition m_fail (t' : tstate) : tstate :=
  mk_tstate (t_p t') (t_stop t') (t_tokens t') (t_bytes t') (t_acc_cache t') (t_ff_cache t')
            (t_max_tokens t') (t_prefix t') (t_canonical t') true.

Definition m_guard {A} (t : tstate) (r : tres A * tstate) : tres A * tstate :=
  if t_panicked t then (TErr, t) else
  let '(a, t') := r in
  if p_panic (t_p t') then (TErr, m_fail t')
  else match a with
       | TErr => (TErr, m_fail t')
       | TOk _ => (a, t')
       end.

Definition m_consume_token (cx : ctx) (t : tstate) (tok : tokid) : tres unit * tstate :=
  m_guard t (let '(r, t1) := consume_token cx t tok in
             match r with
             | TErr => (TErr, t1)
             | TOk _ => let '(_, t2) := check_stop cx t1 in (TOk tt, t2)
             end).

Definition m_compute_mask (cx : ctx) (t : tstate) := m_guard t (compute_mask cx t).

Definition eos_token_set (cx : ctx) : svob :=
  fold_left (fun v e => if e <? vocab_size (c_trie cx) then allow_token v e else v)
            (c_eos cx) (alloc_token_set (c_trie cx)).

Definition m_compute_mask_or_eos (cx : ctx) (t : tstate) :=
  m_guard t (if stopped t then (TOk (eos_token_set cx), t) else compute_mask cx t).

Definition m_validate (cx : ctx) (t : tstate) (toks : list tokid) := m_guard t (validate_tokens_raw cx t toks).
Definition m_rollback (cx : ctx) (t : tstate) (n : nat) := m_guard t (tp_rollback cx t n).
Definition m_reset (cx : ctx) (t : tstate) := m_rollback cx t (length (t_tokens t)).
Definition m_is_accepting (cx : ctx) (t : tstate) : tres bool * tstate :=
  m_guard t (let '(a, t') := tp_is_accepting cx t in (TOk a, t')).
Definition m_is_stopped (t : tstate) : bool := t_panicked t || stopped t.
Definition m_stop_reason (t : tstate) : stop_reason := if t_panicked t then InternalError else t_stop t.
Definition m_ff_bytes (cx : ctx) (t : tstate) : bytes * tstate :=
  if t_panicked t then ([], t) else
  let '(r, t') := m_guard t (let '(b, t1) := tp_force_bytes cx t in (TOk b, t1)) in
  (match r with TOk b => b | TErr => [] end, t').
Definition m_ff_tokens (cx : ctx) (t : tstate) : list tokid * tstate :=
  if t_panicked t then ([], t) else
  let '(r, t') := m_guard t (let '(b, t1) := compute_ff_tokens cx t in (TOk b, t1)) in
  (match r with TOk b => b | TErr => [] end, t').
Definition m_invalidate_cache (t : tstate) : tstate :=
  if t_panicked t then t else with_p t (set_cache (t_p t) None).

Fixpoint m_try_consume (cx : ctx) (t : tstate) (toks : list tokid) (idx : N) : tres N * tstate :=
  match toks with
  | [] => (TOk idx, t)
  | tk :: toks' =>
      if stopped t then (TOk idx, t) else
      let '(v, t1) := validate_tokens_raw cx t [tk] in
      match v with
      | TErr => (TErr, t1)
      | TOk n =>
          if n =? 0 then (TOk idx, t1) else
          let '(r, t2) := consume_token cx t1 tk in
          match r with
          | TErr => (TErr, t2)
          | TOk _ => let '(_, t3) := check_stop cx t2 in m_try_consume cx t3 toks' (idx + 1)
          end
      end
  end.

Definition init_tstate (cx : ctx) (canonical : bool) : option tstate :=
  match init_state cx with
  | Some p => Some (mk_tstate p NotStopped [] [] None None None [] canonical false)
  | None => None
  end.
