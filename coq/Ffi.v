(* Ffi.v — the word arithmetic of the C API mask copies:
   parser/src/ffi_par.rs (llg_par_compute_mask), ffi.rs
   (llg_matcher_compute_mask_into, llg_matcher_compute_ff_tokens, the token
   range guard of llg_commit_token).  A read past the end of the engine's own
   mask buffer is an explicit `None`.  Definitions only. *)
From LLG Require Import Base Svob.

(* copy_nonoverlapping(m.as_ptr(), dest, k): reads k words of the mask's buffer *)
Definition read_words (src : list N) (k : nat) : option (list N) :=
  if Nat.leb k (length src) then Some (firstn k src) else None.

(* par_compute_mask_inner for one step.
   uses_bitlen: `min(m.len(), mask_elts)` (length in bits) instead of the word count.
   mask: Some m when compute_mask returned a sample mask.
   dest_len: mask_byte_len / 4.  Returns the destination words after the call. *)
Definition par_copy (uses_bitlen : bool) (mask : option svob) (dest_len : nat)
           (is_stop : bool) (eos : N) : option (list N) :=
  let '(num_copied, copied) :=
    match mask with
    | Some m =>
        let k := Nat.min (if uses_bitlen then N.to_nat (vsize m) else length (words m)) dest_len in
        (k, read_words (words m) k)
    | None => (0%nat, Some [])
    end in
  match copied with
  | None => None
  | Some ws =>
      let d1 := ws ++ repeat 0 (dest_len - num_copied) in
      Some (if is_stop && Nat.ltb (N.to_nat (eos / 32)) dest_len
            then update_nth d1 (N.to_nat (eos / 32)) (fun w => N.lor w (N.shiftl 1 (eos mod 32)))
            else d1)
  end.

Definition dest_bit (d : list N) (i : N) : bool :=
  N.testbit (nth (N.to_nat (i / 32)) d 0) (i mod 32).

(* llg_matcher_compute_mask_into: slc = vob.as_slice()[0..n_elts]; size check *)
Definition mask_into (vob : svob) (n_elts : nat) (mask_byte_len : N) : res (list N) :=
  if Nat.ltb (length (words vob)) n_elts then ErrInternal        (* slice index panic, caught by wrap *)
  else if negb (N.of_nat (4 * n_elts) =? mask_byte_len) then ErrLimit   (* "mask_dest size mismatch" *)
  else Ok (firstn n_elts (words vob)).

Definition mask_elts (vocab : N) : nat := N.to_nat (div_ceil32 vocab).

(* llg_matcher_compute_ff_tokens: copy min(len, output_len) tokens *)
Definition ff_copy (v : list N) (output_len : nat) : list N * N :=
  let len := Nat.min (length v) output_len in (firstn len v, N.of_nat len).

(* llg_commit_token: out-of-range ids become None *)
Definition commit_guard (vocab : N) (token : N) : option N :=
  if token <? vocab then Some token else None.
