(* TokParserProofs.v — protocol facts of the token-level parser and the Matcher wrapper
   (model: TokParser.v): what happens at and after a stop.
   STATEMENTS MARKED (*FIXED*) MUST NOT CHANGE (if one is false for the model as written: keep the
   original in a comment, add the weakest hypothesis that makes it true, and prove a *_refuted
   lemma with the counterexample). *)
From LLG Require Import Base Svob SvobProofs Trie WalkM Regex Lexer Earley Engine PureEngine TokParser MatcherProofs.
Open Scope N_scope.

(* ---------- helpers ---------- *)

(* m_guard on a non-failed matcher, by cases on the inner result *)
Lemma m_guard_inner_err : forall A t t1,
  t_panicked t = false -> @m_guard A t (TErr, t1) = (TErr, m_fail t1).
Proof.
  intros A t t1 Hp. unfold m_guard. rewrite Hp. destruct (p_panic (t_p t1)); reflexivity.
Qed.

Lemma m_guard_inner_ok : forall A t (a : A) t1,
  t_panicked t = false -> p_panic (t_p t1) = false -> m_guard t (TOk a, t1) = (TOk a, t1).
Proof.
  intros A t a t1 Hp Hpp. unfold m_guard. rewrite Hp, Hpp. reflexivity.
Qed.

Lemma m_guard_inner_panic : forall A t (r : tres A) t1,
  t_panicked t = false -> p_panic (t_p t1) = true -> m_guard t (r, t1) = (TErr, m_fail t1).
Proof.
  intros A t r t1 Hp Hpp. unfold m_guard. rewrite Hp, Hpp. reflexivity.
Qed.

Lemma stopped_false_stop : forall t, stopped t = false -> t_stop t = NotStopped.
Proof.
  intros t H. unfold stopped in H. destruct (t_stop t); try reflexivity; discriminate.
Qed.

(*FIXED*) (* after a stop no further token is accepted: the call fails and the matcher is failed for good *)
Theorem stopped_refuses_commit : forall cx t tok,
  stopped t = true -> t_panicked t = false ->
  exists t', m_consume_token cx t tok = (TErr, t') /\ t_panicked t' = true.
Proof.
  intros cx t tok Hs Hp. exists (m_fail t). split; [|reflexivity].
  unfold m_consume_token, consume_token. rewrite Hs.
  apply m_guard_inner_err. exact Hp.
Qed.

(*FIXED*) (* after a stop asking for a mask is an error *)
Theorem stopped_refuses_mask : forall cx t,
  stopped t = true -> t_panicked t = false ->
  exists t', m_compute_mask cx t = (TErr, t') /\ t_panicked t' = true.
Proof.
  intros cx t Hs Hp. exists (m_fail t). split; [|reflexivity].
  unfold m_compute_mask, compute_mask. rewrite Hs.
  apply m_guard_inner_err. exact Hp.
Qed.

(* ---------- the end-of-sequence token set ---------- *)

Lemma get_pre_token_set : forall tr e, e < vocab_size tr -> get_pre (alloc_token_set tr) e = true.
Proof.
  intros tr e He. unfold get_pre, alloc_token_set, alloc_with_capacity, nwords. cbn [words].
  fold (nwords (alloc (vocab_size tr + 1))). rewrite nwords_alloc. unfold div_ceil32.
  apply N.ltb_lt. dlia.
Qed.

Lemma get_fold_eos : forall V l v i,
  i < V -> (forall e, e < V -> get_pre v e = true) ->
  get (fold_left (fun v e => if e <? V then allow_token v e else v) l v) i
  = get v i || existsb (N.eqb i) l.
Proof.
  intros V l. induction l as [|e l IH]; intros v i Hi Hpre.
  - cbn [fold_left existsb]. rewrite orb_false_r. reflexivity.
  - cbn [fold_left existsb].
    destruct (N.ltb_spec e V) as [He|He].
    + rewrite IH; [|exact Hi|].
      * unfold allow_token. rewrite get_set by (apply Hpre; exact He).
        destruct (N.eqb_spec i e); destruct (get v i); reflexivity.
      * intros e' He'. unfold allow_token. rewrite get_pre_set. apply Hpre. exact He'.
    + rewrite IH by assumption.
      destruct (N.eqb_spec i e) as [E|NE]; [exfalso; lia|]. reflexivity.
Qed.

Lemma existsb_eqb_In : forall i (l : list N), existsb (N.eqb i) l = true <-> In i l.
Proof.
  intros i l. rewrite existsb_exists. split.
  - intros (x & Hin & Hx). apply N.eqb_eq in Hx. subst. exact Hin.
  - intros Hin. exists i. split; [exact Hin|apply N.eqb_refl].
Qed.

Theorem eos_token_set_spec : forall cx i,
  i < vocab_size (c_trie cx) -> (get (eos_token_set cx) i = true <-> In i (c_eos cx)).
Proof.
  intros cx i Hi. unfold eos_token_set.
  rewrite get_fold_eos; [|exact Hi|intros e He; apply get_pre_token_set; exact He].
  unfold alloc_token_set. rewrite get_alloc_with_capacity. cbn [orb].
  apply existsb_eqb_In.
Qed.

(* ORIGINAL (false for the model as written: m_guard looks at the panic flag of the engine state
   before it hands back any Ok result, so a stopped matcher whose engine state carries an
   unreported panic answers Err and becomes failed; see stopped_mask_or_eos_refuted):
Theorem stopped_mask_or_eos : forall cx t,
  stopped t = true -> t_panicked t = false ->
  exists m, m_compute_mask_or_eos cx t = (TOk m, t) /\
            forall i, i < vocab_size (c_trie cx) -> (get m i = true <-> In i (c_eos cx)).
   REPAIRED: added the hypothesis p_panic (t_p t) = false.  The hypothesis is also necessary
   (stopped_mask_or_eos_needs_no_panic), and it holds of every state handed back by a successful
   Matcher call (MatcherProofs.matcher_ok_no_panic). *)
(*FIXED*) (* ... or, through compute_mask_or_eos, yields exactly the end-of-sequence tokens *)
Theorem stopped_mask_or_eos : forall cx t,
  stopped t = true -> t_panicked t = false -> p_panic (t_p t) = false ->
  exists m, m_compute_mask_or_eos cx t = (TOk m, t) /\
            forall i, i < vocab_size (c_trie cx) -> (get m i = true <-> In i (c_eos cx)).
Proof.
  intros cx t Hs Hp Hpp. exists (eos_token_set cx). split.
  - unfold m_compute_mask_or_eos. rewrite Hs. apply m_guard_inner_ok; assumption.
  - intros i Hi. apply eos_token_set_spec. exact Hi.
Qed.

(* the added hypothesis is necessary: with the panic flag set the call is an error *)
Theorem stopped_mask_or_eos_needs_no_panic : forall cx t,
  stopped t = true -> t_panicked t = false -> p_panic (t_p t) = true ->
  m_compute_mask_or_eos cx t = (TErr, m_fail t).
Proof.
  intros cx t Hs Hp Hpp. unfold m_compute_mask_or_eos. rewrite Hs.
  apply m_guard_inner_panic; assumption.
Qed.

(* a concrete counterexample to the original statement *)
Definition cex_pstate : pstate :=
  mk_pstate [] 0 [] false [] 0 0 false 0 None None 0 None false true.
Definition cex_ctx : ctx :=
  mk_ctx (mk_grammar [] 0) [] [] (mk_trie 0 [] [] 0 []) None [] false 0.
Definition cex_tstate : tstate :=
  mk_tstate cex_pstate EndOfSentence [] [] None None None [] false false.

Theorem stopped_mask_or_eos_refuted :
  ~ (forall cx t,
       stopped t = true -> t_panicked t = false ->
       exists m, m_compute_mask_or_eos cx t = (TOk m, t) /\
                 forall i, i < vocab_size (c_trie cx) -> (get m i = true <-> In i (c_eos cx))).
Proof.
  intros H. destruct (H cex_ctx cex_tstate eq_refl eq_refl) as (m & Hm & _).
  rewrite (stopped_mask_or_eos_needs_no_panic cex_ctx cex_tstate eq_refl eq_refl eq_refl) in Hm.
  discriminate.
Qed.

(* ---------- a stop is reported only in an accepting state ---------- *)

Lemma tp_is_accepting_props : forall cx t a t',
  tp_is_accepting cx t = (a, t') ->
  t_stop t' = t_stop t /\ t_acc_cache t' = Some a /\ t_tokens t' = t_tokens t /\
  t_panicked t' = t_panicked t.
Proof.
  intros cx t a t' H. unfold tp_is_accepting in H.
  destruct (t_acc_cache t) as [c|] eqn:Hc.
  - injection H as <- <-. auto.
  - destruct (has_ff_bytes t).
    + injection H as <- <-. cbn. auto.
    + destruct (is_accepting cx (t_p t)) as [a0 p'] eqn:Hacc.
      injection H as <- <-. cbn. auto.
Qed.

(* with an empty cache the answer is the engine's, and only without pending forced bytes *)
Lemma tp_is_accepting_uncached : forall cx t t',
  t_acc_cache t = None -> tp_is_accepting cx t = (true, t') ->
  has_ff_bytes t = false /\ fst (is_accepting cx (t_p t)) = true.
Proof.
  intros cx t t' Hc H. unfold tp_is_accepting in H. rewrite Hc in H.
  destruct (has_ff_bytes t); [discriminate|].
  destruct (is_accepting cx (t_p t)) as [a0 p'] eqn:Hacc.
  injection H as -> _. auto.
Qed.

Lemma tp_apply_token_ok_stop : forall cx t tok u t1,
  tp_apply_token cx t tok = (TOk u, t1) -> t_stop t1 = t_stop t.
Proof.
  intros cx t tok u t1 H. unfold tp_apply_token in H. cbv zeta in H.
  repeat (match type of H with
          | context [if ?c then _ else _] => destruct c eqn:?
          | context [let '(_, _) := ?e in _] => destruct e as [? ?] eqn:?
          end; try discriminate);
  injection H as _ <-; reflexivity.
Qed.

Lemma consume_token_ok_stop : forall cx t tok u t1,
  consume_token cx t tok = (TOk u, t1) -> t_stop t1 = t_stop t.
Proof.
  intros cx t tok u t1 H. unfold consume_token in H.
  destruct (stopped t) eqn:Hs.
  { discriminate. }
  assert (Hgo : forall tm, t_stop tm = t_stop t ->
    (if existsb (N.eqb tok) (c_eos cx)
     then let '(scanned, p') := scan_eos cx (t_p tm) in
          let t1 := with_p tm p' in
          if scanned then (TOk tt, t1)
          else let '(acc, t2) := tp_is_accepting cx t1 in
               if acc then (TOk tt, with_tokens t2 (t_tokens t2 ++ [tok]) (t_bytes t2))
               else tp_apply_token cx t2 tok
     else tp_apply_token cx tm tok) = (TOk u, t1) -> t_stop t1 = t_stop t).
  { intros tm Htm Hgo. cbv zeta in Hgo.
    destruct (existsb (N.eqb tok) (c_eos cx)).
    - destruct (scan_eos cx (t_p tm)) as [scanned p'] eqn:Hscan.
      destruct scanned.
      + injection Hgo as _ <-. exact Htm.
      + destruct (tp_is_accepting cx (with_p tm p')) as [acc t2] eqn:Hacc.
        apply tp_is_accepting_props in Hacc. destruct Hacc as (Hst & _).
        destruct acc.
        * injection Hgo as _ <-. cbn [t_stop with_tokens]. rewrite Hst. exact Htm.
        * apply tp_apply_token_ok_stop in Hgo. rewrite Hgo, Hst. exact Htm.
    - apply tp_apply_token_ok_stop in Hgo. rewrite Hgo. exact Htm. }
  destruct (t_max_tokens t) as [[|mx]|] eqn:Hmax.
  - discriminate.
  - eapply Hgo; [|exact H]. reflexivity.
  - eapply Hgo; [|exact H]. reflexivity.
Qed.

Lemma with_stop_back : forall t r, t_stop t = NotStopped -> with_stop (with_stop t r) NotStopped = t.
Proof.
  intros t r H. destruct t. cbn in *. subst. reflexivity.
Qed.

(* The full description of a commit that newly stops the matcher: consume_token succeeded without
   touching the stop status, check_stop then asked tp_is_accepting and got "accepting" (with no
   forced bytes pending, or the assert of check_stop would have failed the call), the engine cannot
   advance or the last token is an end-of-sequence token, and the only reasons that can be recorded
   are EndOfSentence and NoExtension. *)
Theorem stop_commit_characterisation : forall cx t tok u t',
  stopped t = false -> m_consume_token cx t tok = (TOk u, t') -> stopped t' = true ->
  exists t1 t1',
    consume_token cx t tok = (TOk tt, t1) /\ t_stop t1 = NotStopped /\
    tp_is_accepting cx t1 = (true, t1') /\ has_ff_bytes t1 = false /\
    (can_advance cx (t_p t1') = false \/ last_is_eos cx t1 = true) /\
    check_stop cx t1 = (true, t') /\
    t' = with_stop t1' (if last_is_eos cx t1 then EndOfSentence else NoExtension).
Proof.
  intros cx t tok u t' Hs H Hs'.
  unfold m_consume_token in H. apply m_guard_ok in H. destruct H as (Hp & Hr & Hpp).
  destruct (consume_token cx t tok) as [r t1] eqn:Hc.
  destruct r as [[]|]; [|discriminate].
  destruct (check_stop cx t1) as [d t2] eqn:Hcs.
  injection Hr as _ ->.
  pose proof (consume_token_ok_stop _ _ _ _ _ Hc) as Hst1.
  rewrite (stopped_false_stop _ Hs) in Hst1.
  pose proof Hcs as Hcs0.
  unfold check_stop in Hcs.
  destruct (tp_is_accepting cx t1) as [acc t1'] eqn:Ha.
  pose proof (tp_is_accepting_props _ _ _ _ Ha) as (Hst1' & _).
  rewrite Hst1 in Hst1'.
  destruct (acc && (negb (can_advance cx (t_p t1')) || last_is_eos cx t1)) eqn:Hdone.
  - apply andb_true_iff in Hdone. destruct Hdone as (-> & Hwhy).
    cbn [andb] in Hcs. rewrite negb_involutive in Hcs.
    destruct (has_ff_bytes t1) eqn:Hff.
    + (* the assert fired: the wrapper would have returned an error *)
      injection Hcs as _ <-. cbn in Hpp. discriminate.
    + injection Hcs as <- <-.
      exists t1, t1'. repeat split; try assumption; try reflexivity.
      apply orb_true_iff in Hwhy. destruct Hwhy as [Hw|Hw]; [left|right; exact Hw].
      apply negb_true_iff in Hw. exact Hw.
  - exfalso. injection Hcs as _ <-.
    assert (Hns : t_stop (if acc && negb (negb (has_ff_bytes t1))
                          then with_p t1' (set_panic (t_p t1')) else t1') = NotStopped).
    { destruct (acc && negb (negb (has_ff_bytes t1))); [cbn [t_stop with_p]|]; exact Hst1'. }
    unfold stopped in Hs'. rewrite Hns in Hs'. discriminate.
Qed.

(*FIXED*) (* a stop is reported only by check_stop, and only in an accepting state: if a commit returns
   Ok and the matcher is stopped afterwards although it was not before, the state is accepting *)
Theorem stop_only_when_accepting : forall cx t tok u t',
  stopped t = false -> m_consume_token cx t tok = (TOk u, t') -> stopped t' = true ->
  exists a t'', tp_is_accepting cx (with_stop t' NotStopped) = (a, t'') /\ a = true.
Proof.
  intros cx t tok u t' Hs H Hs'.
  destruct (stop_commit_characterisation _ _ _ _ _ Hs H Hs')
    as (t1 & t1' & Hc & Hst1 & Ha & Hff & Hwhy & Hcs & ->).
  pose proof (tp_is_accepting_props _ _ _ _ Ha) as (Hst1' & Hcache & _).
  rewrite Hst1 in Hst1'.
  rewrite with_stop_back by exact Hst1'.
  exists true, t1'. split; [|reflexivity].
  unfold tp_is_accepting. rewrite Hcache. reflexivity.
Qed.

(* the recorded reason of such a stop *)
Corollary stop_reason_after_commit : forall cx t tok u t',
  stopped t = false -> m_consume_token cx t tok = (TOk u, t') -> stopped t' = true ->
  t_stop t' = EndOfSentence \/ t_stop t' = NoExtension.
Proof.
  intros cx t tok u t' Hs H Hs'.
  destruct (stop_commit_characterisation _ _ _ _ _ Hs H Hs')
    as (t1 & t1' & _ & _ & _ & _ & _ & _ & ->).
  cbn [t_stop with_stop]. destruct (last_is_eos cx t1); auto.
Qed.

(* when the answer was not taken from the cache, the engine itself was accepting *)
Corollary stop_engine_accepting : forall cx t tok u t',
  stopped t = false -> m_consume_token cx t tok = (TOk u, t') -> stopped t' = true ->
  exists t1, consume_token cx t tok = (TOk tt, t1) /\
             (t_acc_cache t1 = None -> fst (is_accepting cx (t_p t1)) = true).
Proof.
  intros cx t tok u t' Hs H Hs'.
  destruct (stop_commit_characterisation _ _ _ _ _ Hs H Hs')
    as (t1 & t1' & Hc & _ & Ha & _ & _ & _ & _).
  exists t1. split; [exact Hc|]. intros Hnone.
  apply (tp_is_accepting_uncached _ _ _ Hnone Ha).
Qed.

(*FIXED*) (* validation never changes the stop status or the committed tokens *)
Theorem validate_keeps_protocol_state : forall cx t toks r t',
  m_validate cx t toks = (TOk r, t') ->
  t_stop t' = t_stop t /\ t_tokens t' = t_tokens t /\ t_bytes t' = t_bytes t.
Proof.
  intros cx t toks r t' H. unfold m_validate in H.
  apply m_guard_ok in H. destruct H as (_ & Hr & _).
  unfold validate_tokens_raw in Hr.
  destruct (stopped t).
  { injection Hr as _ <-. auto. }
  destruct toks as [|tk toks].
  { injection Hr as _ <-. auto. }
  destruct (existsb (fun x => vocab_size (c_trie cx) <=? x) (tk :: toks)); [discriminate|].
  destruct (validate_tokens cx (t_p t) (tk :: toks)) as [n p'] eqn:Hv.
  injection Hr as _ <-. cbn. auto.
Qed.

(*FIXED*) (* rollback of more tokens than were committed is refused and fails the matcher *)
Theorem rollback_too_far_refused : forall cx t n,
  t_panicked t = false -> (length (t_tokens t) < n)%nat ->
  exists t', m_rollback cx t n = (TErr, t') /\ t_panicked t' = true.
Proof.
  intros cx t n Hp Hn. exists (m_fail t). split; [|reflexivity].
  unfold m_rollback, tp_rollback.
  destruct n as [|n]; [exfalso; lia|].
  apply Nat.ltb_lt in Hn. rewrite Hn.
  apply m_guard_inner_err. exact Hp.
Qed.

Print Assumptions stopped_refuses_commit.
Print Assumptions stopped_refuses_mask.
Print Assumptions stopped_mask_or_eos.
Print Assumptions stopped_mask_or_eos_refuted.
Print Assumptions stop_commit_characterisation.
Print Assumptions stop_only_when_accepting.
Print Assumptions validate_keeps_protocol_state.
Print Assumptions rollback_too_far_refused.
