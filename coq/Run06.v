(* Run06.v — case runner for C06/C07 (harness/src/c06.rs): the model of the JSON-schema
   compiler decides each string *)
From Coq Require Import String.
From LLG Require Import Base Sx Regex Numeric JsonModel.
Open Scope string_scope.
Open Scope N_scope.

Definition is_none6 (x : sx) : bool := match x with SY n => bytes_eqb n (sym "none") | _ => false end.
Definition optz6 (x : sx) : option Z := if is_none6 x then None else Some (as_z x).
Definition optn6 (x : sx) : option nat := if is_none6 x then None else Some (N.to_nat (as_n x)).

Fixpoint json_of_sx (fuel : nat) (x : sx) : json :=
  match fuel with
  | O => JNull
  | S f =>
      let h := head_sym x in
      let a := tail_items x in
      let is s := bytes_eqb h (sym s) in
      if is "jbool" then JBool (as_bool (nth_sx a 0))
      else if is "jint" then JInt (as_z (nth_sx a 0))
      else if is "jstr" then JStr (as_bytes (nth_sx a 0))
      else if is "jarr" then JArr (map (json_of_sx f) a)
      else if is "jobj" then JObj (map (fun kv => (as_bytes (nth_sx (as_list kv) 0), json_of_sx f (nth_sx (as_list kv) 1))) a)
      else JNull
  end.

Fixpoint schema_of_sx (fuel : nat) (x : sx) : schema :=
  match fuel with
  | O => SNull
  | S f =>
      let h := head_sym x in
      let a := tail_items x in
      let is s := bytes_eqb h (sym s) in
      if is "bool" then SBool
      else if is "int" then SInt (optz6 (nth_sx a 0)) (optz6 (nth_sx a 1))
      else if is "str" then SStr (N.to_nat (as_n (nth_sx a 0))) (optn6 (nth_sx a 1))
      else if is "const" then SConst (json_of_sx 50 (nth_sx a 0))
      else if is "anyof" then SAnyOf (map (schema_of_sx f) a)
      else if is "arr" then
        SArr (map (schema_of_sx f) (as_list (nth_sx a 0)))
             (if is_none6 (nth_sx a 1) then None else Some (schema_of_sx f (nth_sx a 1)))
             (N.to_nat (as_n (nth_sx a 2))) (optn6 (nth_sx a 3))
      else if is "obj" then
        SObj (map (fun p => let l := as_list p in
                            (as_bytes (nth_sx l 0), (schema_of_sx f (nth_sx l 1), as_bool (nth_sx l 2))))
                  (as_list (nth_sx a 0)))
             (if is_none6 (nth_sx a 1) then None else Some (schema_of_sx f (nth_sx a 1)))
      else SNull
  end.

(* (json6 <schema> (x<bytes> ...)) -> (ok b ...) *)
Definition run_case06 (x : sx) : sx :=
  let a := tail_items x in
  let s := schema_of_sx 50 (nth_sx a 0) in
  tagged "ok" (map (fun w => sb (jaccept s (as_bytes w))) (as_list (nth_sx a 1))).

(* sanity *)
Example ex_obj :
  let s := SObj [(sym "a", (SInt (Some 0%Z) (Some 9%Z), true)); (sym "b", (SBool, false))] None in
  (jaccept s (sym "{""a"":5}"), jaccept s (sym "{""a"":5,""b"":true}"), jaccept s (sym "{""b"":true}"),
   jaccept s (sym "{""a"":10}"), jaccept s (sym "{""b"":true,""a"":5}")) = (true, true, false, false, false).
Proof. vm_compute. reflexivity. Qed.
Example ex_arr :
  let s := SArr [SBool] (Some (SInt None None)) 1%nat (Some 3%nat) in
  (jaccept s (sym "[true]"), jaccept s (sym "[true,1,-2]"), jaccept s (sym "[]"),
   jaccept s (sym "[true,1,2,3]"), jaccept s (sym "[1]")) = (true, true, false, false, false).
Proof. vm_compute. reflexivity. Qed.
Example ex_addl :
  let s := SObj [(sym "a", (SNull, false))] (Some (SStr 1%nat (Some 2%nat))) in
  (jaccept s (sym "{}"), jaccept s (sym "{""x"":""hi""}"), jaccept s (sym "{""a"":null,""x"":""h"",""x"":""h""}"),
   jaccept s (sym "{""x"":""h"",""a"":null}"), jaccept s (sym "{""a"":""h""}")) = (true, true, true, false, false).
Proof. vm_compute. reflexivity. Qed.
