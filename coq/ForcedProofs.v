(* ForcedProofs.v — forced bytes are the only bytes the engine allows.
   STATEMENTS MARKED (*FIXED*) MUST NOT CHANGE. *)
From LLG Require Import Base Params Svob SvobProofs Trie TrieProofs WalkM WalkMProofs
                        Regex RegexProofs Lexer Earley Engine PureEngine
                        EngineInv EngineWalk EngineOps EngineProofs EngineCorollaries.

(* b is the one and only byte the pure engine accepts from frame f *)
Definition only_byte (cx : ctx) (f : pframe) (b : byte) : Prop :=
  b < 256 /\ forall b', b' < 256 -> (ppush cx f b' <> None <-> b' = b).

(* ------------------------------------------------------------------------ *)
(* auxiliary: the byte enumeration                                          *)
(* ------------------------------------------------------------------------ *)
Lemma seqN_in : forall n s b, In b (seqN s n) <-> s <= b < s + N.of_nat n.
Proof.
  induction n as [|n IH]; intros s b.
  - cbn [seqN In]. split; [intros []|lia].
  - cbn [seqN In]. rewrite IH. rewrite Nat2N.inj_succ. lia.
Qed.

Lemma seqN_nodup : forall n s, NoDup (seqN s n).
Proof.
  induction n as [|n IH]; intros s; cbn [seqN]; constructor.
  - rewrite seqN_in. lia.
  - apply IH.
Qed.

Lemma all_bytes_in : forall b, In b (seqN 0 256) <-> b < 256.
Proof.
  intros b. rewrite seqN_in. change (N.of_nat 256) with 256. lia.
Qed.

Lemma filter_none : forall (f : byte -> bool) l,
  (forall x, In x l -> f x = false) -> filter f l = [].
Proof.
  intros f l. induction l as [|a l IH]; intros H; [reflexivity|].
  cbn [filter]. rewrite (H a (or_introl eq_refl)). apply IH.
  intros x Hx. apply H. right. exact Hx.
Qed.

Lemma filter_single : forall (f : byte -> bool) l b, NoDup l -> In b l ->
  (forall x, In x l -> (f x = true <-> x = b)) -> filter f l = [b].
Proof.
  intros f l b. induction l as [|a l IH]; intros Hnd Hin Hf; [destruct Hin|].
  inversion Hnd as [|a' l' Hna Hnd']; subst a' l'.
  cbn [filter]. destruct (N.eq_dec a b) as [->|Hne].
  - rewrite (proj2 (Hf b (or_introl eq_refl)) eq_refl). f_equal.
    apply filter_none. intros x Hx. destruct (f x) eqn:E; [|reflexivity].
    exfalso. apply Hna. rewrite <- (proj1 (Hf x (or_intror Hx)) E). exact Hx.
  - destruct (f a) eqn:E.
    + exfalso. apply Hne. exact (proj1 (Hf a (or_introl eq_refl)) E).
    + apply IH; [exact Hnd'| |].
      * destruct Hin as [Hin|Hin]; [contradiction|exact Hin].
      * intros x Hx. apply Hf. right. exact Hx.
Qed.

(* ------------------------------------------------------------------------ *)
(* auxiliary: exact characterisation of forced_byte / force_loop            *)
(* ------------------------------------------------------------------------ *)
Section ForcedAux.
  Variable cx : ctx.

  Definition accb (f : pframe) (b : byte) : bool :=
    match ppush cx f b with Some _ => true | None => false end.

  Lemma accb_true : forall f b, accb f b = true <-> ppush cx f b <> None.
  Proof.
    intros f b. unfold accb. destruct (ppush cx f b).
    - split; [discriminate|reflexivity].
    - split; [discriminate|intros H; exfalso; apply H; reflexivity].
  Qed.

  (* the probe collects exactly the accepted bytes (most recent first) *)
  Lemma fb_fold_exact : forall l st found s found' s', GoodD cx st ->
    spec_of cx st s -> p_stack s = p_stack st ->
    fold_left (fb_step cx) l (found, s) = (found', s') ->
    over_limit s' = false ->
    found' = rev (filter (accb (abs_top st)) l) ++ found.
  Proof.
    induction l as [|b l IH]; intros st found s found' s' HG HSo Hstk H Hlim; cbn [fold_left] in H.
    - inversion H; subst. reflexivity.
    - unfold fb_step at 2 in H.
      destruct (try_push_byte cx s b) as [ok s1] eqn:Htp.
      pose proof (iw_struct _ _ _ (so_inv _ _ _ HSo)) as HS.
      pose proof (push_byte_post cx _ _ _ _ HS Htp) as HP.
      pose proof (spec_push cx _ _ _ _ _ (good_ne _ _ HG) HSo HP) as HSo1.
      assert (Htop : abs_top s = abs_top st).
      { unfold abs_top. rewrite (top_stack_eq _ _ Hstk).
        apply abs_frame_keep with (num_rows st); [|exact (so_keep _ _ _ HSo)].
        unfold num_rows. lia. }
      destruct ok.
      + destruct (pp_stack _ _ _ _ _ HP) as [fr Hs1]. rewrite Hstk in Hs1.
        assert (Hpop : pop_bytes s1 1 = set_stack s1 (p_stack st)).
        { unfold pop_bytes. rewrite Hs1. reflexivity. }
        rewrite Hpop in H.
        assert (HSo2 : spec_of cx st (set_stack s1 (p_stack st))).
        { apply (spec_set_stack cx st s1 [fr] [] HSo1 (good_ne _ _ HG)). rewrite Hs1. reflexivity. }
        assert (Hlim1 : over_limit s1 = false)
          by exact (lim_back _ _ (ctl_le_trans _ _ _ (ctl_set_stack s1 (p_stack st))
                                    (fb_fold_ctl cx _ _ _ _ _ H)) Hlim).
        pose proof (pp_sim _ _ _ _ _ HP Hlim1) as Hsim. rewrite Htop in Hsim.
        assert (Hacc : accb (abs_top st) b = true).
        { unfold accb. destruct (ppush cx (abs_top st) b); [reflexivity|discriminate Hsim]. }
        rewrite (IH st (b :: found) _ found' s' HG HSo2 eq_refl H Hlim).
        cbn [filter]. rewrite Hacc. cbn [rev]. rewrite <- app_assoc. reflexivity.
      + pose proof (pp_stack _ _ _ _ _ HP) as Hs1. rewrite Hstk in Hs1.
        assert (Hlim1 : over_limit s1 = false)
          by exact (lim_back _ _ (fb_fold_ctl cx _ _ _ _ _ H) Hlim).
        pose proof (pp_sim _ _ _ _ _ HP Hlim1) as Hsim. rewrite Htop in Hsim.
        assert (Hacc : accb (abs_top st) b = false).
        { unfold accb. destruct (ppush cx (abs_top st) b); [destruct Hsim; discriminate|reflexivity]. }
        rewrite (IH st found s1 found' s' HG HSo1 Hs1 H Hlim).
        cbn [filter]. rewrite Hacc. reflexivity.
  Qed.

  (* forced_byte, as long as the item limit is not hit *)
  Lemma forced_byte_exact : forall st ob st', GoodD cx st ->
    forced_byte cx st = (ob, st') -> over_limit st' = false ->
    spec_result cx st st' /\
    match ob with
    | Some b => only_byte cx (abs_top st) b /\ p_accepting cx (abs_stack st) = false
    | None => p_accepting cx (abs_stack st) = true \/ ~ (exists b, only_byte cx (abs_top st) b)
    end.
  Proof.
    intros st ob st' HG H Hlim.
    pose proof all_bytes_in as HLin. pose proof (seqN_nodup 256 0) as HLnd.
    rewrite forced_byte_unfold in H.
    set (L := seqN 0 256) in *. clearbody L.
    destruct (is_accepting cx st) as [acc st1] eqn:Hacc.
    destruct (is_accepting_good cx st acc st1 HG Hacc) as [R1 Ha].
    destruct acc.
    { inversion H; subst ob st'. split; [exact R1|]. left. symmetry. exact (Ha Hlim). }
    destruct (fold_left (fb_step cx) L ([], trie_started st1)) as [found s'] eqn:Hfold.
    inversion H; subst ob st'. clear H.
    pose proof (sr_good _ _ _ R1) as HG1.
    pose proof (started_spec cx st1 HG1) as HS1.
    assert (Hstk1 : p_stack (trie_started st1) = p_stack st1).
    { rewrite trie_started_eq. apply assert_stack. }
    destruct (fb_fold_good cx _ st1 [] _ found s' HG1 HS1 Hstk1 Hfold) as (HS2 & _ & _).
    pose proof (finish_result cx st1 s' HG1 HS2) as R2.
    assert (Hlims : over_limit s' = false) by exact (lim_back _ _ (trie_finished_ctl s') Hlim).
    assert (Hlim1 : over_limit st1 = false).
    { apply (lim_back st1 s'); [|exact Hlims].
      exact (ctl_le_trans _ _ _ (trie_started_ctl st1) (fb_fold_ctl cx _ _ _ _ _ Hfold)). }
    pose proof (Ha Hlim1) as Hacc'.
    pose proof (fb_fold_exact L st1 [] _ found s' HG1 HS1 Hstk1 Hfold Hlims) as Hex.
    rewrite app_nil_r in Hex.
    assert (Htop : abs_top st1 = abs_top st)
      by exact (abs_top_eq st1 st (sr_abs _ _ _ R1) (good_ne _ _ HG)).
    rewrite Htop in Hex.
    split; [exact (spec_result_trans _ _ _ _ R1 R2)|].
    set (F := filter (accb (abs_top st)) L) in *.
    assert (HF : forall x, In x F <-> x < 256 /\ ppush cx (abs_top st) x <> None).
    { intros x. unfold F. rewrite filter_In, HLin, accb_true. reflexivity. }
    assert (HF' : F = rev found) by (rewrite Hex, rev_involutive; reflexivity).
    assert (Hsingle : forall b, only_byte cx (abs_top st) b -> F = [b]).
    { intros b [Hb Hall]. unfold F. apply filter_single.
      - exact HLnd.
      - apply HLin. exact Hb.
      - intros x Hx. rewrite accb_true. apply Hall. apply HLin. exact Hx. }
    destruct found as [|b1 [|b2 rest]].
    - right. intros [b Hb]. rewrite (Hsingle b Hb) in HF'. discriminate HF'.
    - cbn [rev app] in HF'. split; [|symmetry; exact Hacc'].
      assert (Hin1 : In b1 F) by (rewrite HF'; left; reflexivity).
      split; [exact (proj1 (proj1 (HF b1) Hin1))|].
      intros b' Hb'. split.
      + intros Hne. assert (Hin : In b' F) by (apply HF; split; assumption).
        rewrite HF' in Hin. destruct Hin as [E|[]]. symmetry. exact E.
      + intros ->. exact (proj2 (proj1 (HF b1) Hin1)).
    - right. intros [b Hb]. rewrite (Hsingle b Hb) in HF'.
      apply (f_equal (@length byte)) in HF'. rewrite rev_length in HF'. discriminate HF'.
  Qed.

  Lemma assert_abs_top : forall st, abs_top (assert_definitive st) = abs_top st.
  Proof. intros st. destruct (assert_cases st) as [E|E]; rewrite E; reflexivity. Qed.

  (* the forcing loop: as long as the limit is not hit, every byte it commits is
     the only byte allowed at its position *)
  Lemma force_loop_forced : forall fuel st, GoodD cx st ->
    over_limit (force_loop fuel cx st) = false ->
    exists forced,
      p_bytes (force_loop fuel cx st) = p_bytes st ++ forced /\
      p_applied (force_loop fuel cx st) = p_applied st /\
      run pframe (ppush cx) (abs_top st) forced = Some (abs_top (force_loop fuel cx st)) /\
      (forall u b v f, forced = u ++ b :: v ->
         run pframe (ppush cx) (abs_top st) u = Some f -> only_byte cx f b).
  Proof.
    induction fuel as [|fu IH]; intros st HG Hlim.
    - exists []. cbn [force_loop]. rewrite app_nil_r.
      split; [reflexivity|]. split; [reflexivity|]. split; [reflexivity|].
      intros u b v f0 E. destruct u; discriminate E.
    - rewrite force_loop_unfold in *.
      destruct (forced_byte cx st) as [ob st1] eqn:Hfb.
      destruct (forced_byte_good cx st ob st1 HG Hfb) as [R1 _].
      pose proof (sr_good _ _ _ R1) as HG1.
      pose proof (sr_ctl _ _ _ R1) as C1.
      assert (Htop1 : abs_top st1 = abs_top st)
        by exact (abs_top_eq st1 st (sr_abs _ _ _ R1) (good_ne _ _ HG)).
      assert (Hstop : forall r, p_bytes r = p_bytes st1 -> p_applied r = p_applied st1 ->
                abs_top r = abs_top st1 ->
                exists forced,
                  p_bytes r = p_bytes st ++ forced /\
                  p_applied r = p_applied st /\
                  run pframe (ppush cx) (abs_top st) forced = Some (abs_top r) /\
                  (forall u b v f, forced = u ++ b :: v ->
                     run pframe (ppush cx) (abs_top st) u = Some f -> only_byte cx f b)).
      { intros r E1 E2 E3. exists []. rewrite app_nil_r.
        split; [rewrite E1; exact (cl_bytes _ _ C1)|].
        split; [rewrite E2; exact (cl_applied _ _ C1)|].
        split; [cbn [run]; rewrite E3, Htop1; reflexivity|].
        intros u b v f0 E. destruct u; discriminate E. }
      destruct ob as [b|]; [|apply Hstop; reflexivity].
      cbv zeta in *.
      set (st1' := set_items st1 (p_items st1 + 1)%N) in *.
      assert (HG1' : GoodD cx st1') by (apply (GoodD_ext cx st1); try reflexivity; exact HG1).
      destruct (over_limit st1') eqn:Hol; [apply Hstop; reflexivity|].
      destruct (b =? marker)%N; [apply Hstop; reflexivity|].
      destruct (push_definitive cx st1' b) as [ok st2] eqn:Hpd.
      destruct (push_def_post cx st1' b ok st2 HG1' Hpd) as (L2 & D2 & Sim2).
      assert (Hlim2 : over_limit st2 = false).
      { destruct ok; [exact (lim_le_back _ _ (force_loop_lim cx fu st2) Hlim)|exact Hlim]. }
      specialize (Sim2 Hlim2).
      assert (Hlim1 : over_limit st1 = false).
      { apply (lim_le_back st1 st1'); [apply set_items_lim|exact Hol]. }
      destruct (forced_byte_exact st (Some b) st1 HG Hfb Hlim1) as [_ [Honly _]].
      change (abs_top st1') with (abs_top st1) in Sim2. rewrite Htop1 in Sim2.
      destruct (ppush cx (abs_top st) b) as [f'|] eqn:Hpp.
      2:{ exfalso. destruct Honly as [Hb Hall]. apply (proj2 (Hall b Hb) eq_refl). exact Hpp. }
      destruct Sim2 as [-> Habs2].
      destruct (D2 eq_refl) as [Dp Happ2].
      destruct (IH st2 (dp_good _ _ _ _ Dp) Hlim) as (forced2 & B2 & A2 & Run2 & All2).
      pose proof (abs_stack_top st2 _ _ Habs2) as Htop2.
      exists (b :: forced2).
      split.
      { rewrite B2, (dp_bytes _ _ _ _ Dp). change (p_bytes st1') with (p_bytes st1).
        rewrite (cl_bytes _ _ C1), <- app_assoc. reflexivity. }
      split.
      { rewrite A2, Happ2. change (p_applied st1') with (p_applied st1). exact (cl_applied _ _ C1). }
      split.
      { cbn [run]. rewrite Hpp, <- Htop2. exact Run2. }
      intros u b0 v f0 E Hrun. destruct u as [|c u].
      + cbn [app] in E. inversion E; subst b0 v. cbn [run] in Hrun. inversion Hrun; subst f0.
        exact Honly.
      + cbn [app] in E. inversion E; subst c forced2. cbn [run] in Hrun. rewrite Hpp in Hrun.
        apply (All2 u b0 v f0 eq_refl). rewrite Htop2. exact Hrun.
  Qed.
End ForcedAux.

Section Forced.
  Variable cx : ctx.
  Hypothesis Hcore : core_ctx cx.
  Hypothesis Hclears : c_rollback_clears_cache cx = ROLLBACK_CLEARS_CACHE.

  Lemma Hcl' : c_rollback_clears_cache cx = true.
  Proof. rewrite Hclears; reflexivity. Qed.

  (*FIXED*) (* a reported forced byte is the unique continuation, in a non-accepting state *)
  Theorem forced_byte_unique : forall st b st',
    settled cx st -> forced_byte cx st = (Some b, st') -> p_error st' = false ->
    only_byte cx (abs_top st) b /\ p_accepting cx (abs_stack st) = false /\
    abs_stack st' = abs_stack st /\ p_bytes st' = p_bytes st.
  Proof.
    intros st b st' (Hr & Hp & He & Ha) Hfb Herr.
    destruct (reach_tidy cx Hcore Hcl' st Hr He Hp) as (G & T & M).
    assert (Hlim : over_limit st' = false).
    { apply max_none_lim. rewrite (cl_max _ _ (forced_byte_ctl cx _ _ _ Hfb)). exact M. }
    destruct (forced_byte_exact cx st (Some b) st' G Hfb Hlim) as [R [Ho Hacc]].
    split; [exact Ho|]. split; [exact Hacc|]. split; [exact (sr_abs _ _ _ R)|].
    exact (cl_bytes _ _ (sr_ctl _ _ _ R)).
  Qed.

  (*FIXED*) (* no forced byte is reported only when accepting or when there is no unique continuation *)
  Theorem forced_byte_none : forall st st',
    settled cx st -> forced_byte cx st = (None, st') -> p_error st' = false ->
    p_accepting cx (abs_stack st) = true \/ ~ (exists b, only_byte cx (abs_top st) b).
  Proof.
    intros st st' (Hr & Hp & He & Ha) Hfb Herr.
    destruct (reach_tidy cx Hcore Hcl' st Hr He Hp) as (G & T & M).
    assert (Hlim : over_limit st' = false).
    { apply max_none_lim. rewrite (cl_max _ _ (forced_byte_ctl cx _ _ _ Hfb)). exact M. }
    destruct (forced_byte_exact cx st None st' G Hfb Hlim) as [_ H]. exact H.
  Qed.

  (*FIXED*) (* force_bytes: every forced byte is the only byte allowed at its position, and
     committing them is running the pure engine over them *)
  Theorem force_bytes_all_forced : forall st,
    settled cx st -> p_error (force_bytes cx st) = false ->
    exists forced,
      p_bytes (force_bytes cx st) = p_bytes st ++ forced /\
      p_applied (force_bytes cx st) = p_applied st /\
      p_panic (force_bytes cx st) = false /\
      run pframe (ppush cx) (abs_top st) forced = Some (abs_top (force_bytes cx st)) /\
      (forall u b v f, forced = u ++ b :: v ->
         run pframe (ppush cx) (abs_top st) u = Some f -> only_byte cx f b).
  Proof.
    intros st (Hr & Hp & He & Ha) Herr.
    destruct (reach_tidy cx Hcore Hcl' st Hr He Hp) as (G & T & M).
    destruct (force_bytes_good cx st G M Herr) as (_ & T' & _).
    assert (Hpanic : p_panic (force_bytes cx st) = false) by exact (td_panic _ (T' T)).
    clear T'.
    assert (Hmain : exists forced,
      p_bytes (force_bytes cx st) = p_bytes st ++ forced /\
      p_applied (force_bytes cx st) = p_applied st /\
      run pframe (ppush cx) (abs_top st) forced = Some (abs_top (force_bytes cx st)) /\
      (forall u b v f, forced = u ++ b :: v ->
         run pframe (ppush cx) (abs_top st) u = Some f -> only_byte cx f b)).
    2:{ destruct Hmain as (forced & H1 & H2 & H3 & H4). exists forced.
        split; [exact H1|]. split; [exact H2|]. split; [exact Hpanic|]. split; [exact H3|exact H4]. }
    clear Hpanic. revert Herr.
    rewrite force_bytes_unfold. cbv zeta. rewrite (assert_definitive_good cx st G T).
    assert (Hnil : exists forced,
      p_bytes st = p_bytes st ++ forced /\ p_applied st = p_applied st /\
      run pframe (ppush cx) (abs_top st) forced = Some (abs_top st) /\
      (forall u b v f, forced = u ++ b :: v ->
         run pframe (ppush cx) (abs_top st) u = Some f -> only_byte cx f b)).
    { exists []. rewrite app_nil_r. split; [reflexivity|]. split; [reflexivity|].
      split; [reflexivity|]. intros u b v f0 E. destruct u; discriminate E. }
    assert (Hbody : p_error (force_body cx st) = false ->
      exists forced,
        p_bytes (force_body cx st) = p_bytes st ++ forced /\
        p_applied (force_body cx st) = p_applied st /\
        run pframe (ppush cx) (abs_top st) forced = Some (abs_top (force_body cx st)) /\
        (forall u b v f, forced = u ++ b :: v ->
           run pframe (ppush cx) (abs_top st) u = Some f -> only_byte cx f b)).
    { clear Hnil. intros Herr. rewrite force_body_eq in *. cbv zeta in *.
      set (st0 := set_lim st (Some (p_items st + c_max_items cx)%N) (p_error st)) in *.
      set (r := force_loop force_fuel cx st0) in *.
      set (st1 := set_lim r None (p_error r || over_limit r)) in *.
      pose proof (assert_definitive_ctl st1) as C1.
      assert (He1 : p_error st1 = false).
      { psimpl in Herr. rewrite (cl_error _ _ C1) in Herr. exact Herr. }
      assert (Hlim : over_limit r = false).
      { subst st1. qsimpl in He1. apply orb_false_iff in He1. exact (proj2 He1). }
      assert (HG0 : GoodD cx st0) by (apply GoodD_set_lim; exact G).
      destruct (force_loop_forced cx force_fuel st0 HG0 Hlim) as (forced & B & A & Rn & All).
      fold r in B, A, Rn.
      exists forced.
      split.
      { psimpl. rewrite (cl_bytes _ _ C1). exact B. }
      split.
      { psimpl. rewrite (cl_applied _ _ C1). exact A. }
      split; [|exact All].
      match goal with |- _ = Some (abs_top (set_last_force ?x ?v)) =>
        change (abs_top (set_last_force x v)) with (abs_top x) end.
      rewrite assert_abs_top. exact Rn. }
    destruct (p_last_force st) as [n|]; [|exact Hbody].
    destruct (Nat.eqb n (length (p_bytes st))); [intros _; exact Hnil|exact Hbody].
  Qed.

  (*FIXED*) (* hence nothing reachable is lost: every byte string the engine accepts from the
     state agrees with the forced bytes on their common length *)
  Theorem forced_preserves_completions : forall st forced w,
    (forall u b v f, forced = u ++ b :: v ->
       run pframe (ppush cx) (abs_top st) u = Some f -> only_byte cx f b) ->
    Forall (fun c => c < 256) w ->
    run pframe (ppush cx) (abs_top st) w <> None ->
    is_prefix forced w = true \/ is_prefix w forced = true.
  Proof.
    intros st forced. generalize (abs_top st) as f0. clear st.
    induction forced as [|b forced IH]; intros f0 w Hall Hw Hrun.
    - left. reflexivity.
    - destruct w as [|c w]; [right; reflexivity|].
      pose proof (Hall [] b forced f0 eq_refl eq_refl) as [Hb Hone].
      inversion Hw as [|c' w' Hc Hw']; subst c' w'.
      cbn [run] in Hrun.
      destruct (ppush cx f0 c) as [f1|] eqn:Hpp; [|exfalso; apply Hrun; reflexivity].
      assert (Hcb : c = b).
      { apply (proj1 (Hone c Hc)). rewrite Hpp. discriminate. }
      subst c.
      cbn [is_prefix]. rewrite N.eqb_refl. cbn [andb].
      apply (IH f1 w); [|exact Hw'|exact Hrun].
      intros u b0 v f E Hr. apply (Hall (b :: u) b0 v f).
      + rewrite E. reflexivity.
      + cbn [run]. rewrite Hpp. exact Hr.
  Qed.
End Forced.

Print Assumptions forced_byte_unique.
Print Assumptions forced_byte_none.
Print Assumptions force_bytes_all_forced.
Print Assumptions forced_preserves_completions.
