(* Lexer.v — model of parser/src/earley/regexvec.rs + lexer.rs over the regex
   instance: a lexer state is the vector of (lexeme index, derivative) pairs of
   the lexemes still alive; empty derivatives are dropped; lowest-match rule for
   lazy lexemes / forced-end greedy lexemes; `advance`.
   State ids, hash-consing and the lazy transition table are not modelled (a
   state *is* its vector).  Definitions only. *)
From LLG Require Import Base Regex.

Definition lexidx := N.

Record lexeme_spec := mk_lexeme {
  lx_rx : regex;
  lx_lazy : bool;
  lx_skip : bool;
  lx_token_ranges : list (N * N)      (* non-empty: a special-token lexeme *)
}.

Definition lexspec := list lexeme_spec.

Definition lstate := list (lexidx * regex).

Definition lex_get (sp : lexspec) (i : lexidx) : lexeme_spec :=
  nth (N.to_nat i) sp (mk_lexeme Empty false false []).

Fixpoint lstate_eqb (a b : lstate) : bool :=
  match a, b with
  | [], [] => true
  | (i, r) :: a', (j, s) :: b' => (i =? j) && regex_eqb r s && lstate_eqb a' b'
  | _, _ => false
  end.

Definition is_dead (s : lstate) : bool := match s with [] => true | _ => false end.

(* RegexVec::new_with_exprset replaces lexemes whose regex is empty by NO_MATCH *)
Definition lex_rx (sp : lexspec) (i : lexidx) : regex :=
  let r := normalize (lx_rx (lex_get sp i)) in if nonempty r then r else Empty.

(* initial_state(selected): the selected lexemes (ascending index) with a non-empty regex *)
Definition initial_state (sp : lexspec) (selected : list lexidx) : lstate :=
  optmap (fun i => let r := lex_rx sp i in if is_empty_syn r then None else Some (i, r)) selected.

Definition all_lexemes (sp : lexspec) : list lexidx := seqN 0 (length sp).

(* transition: derive each component, drop the empty ones *)
Definition transition (s : lstate) (b : byte) : lstate :=
  optmap (fun '(i, r) => let d := deriv r b in
                         if is_empty_syn d then None else if nonempty d then Some (i, d) else None) s.

(* state description *)
Definition possible (s : lstate) : list lexidx := map fst s.
Definition greedy_accepting (s : lstate) : list lexidx :=
  optmap (fun '(i, r) => if nullable r then Some i else None) s.

(* lowest_match_inner: the lexemes to emit immediately in this state, if any.
   First the lazy lexemes that accept; otherwise, if every component accepts and
   is at forced end of input, all of them. (special-token lexemes: see Special.v) *)
Fixpoint lowest_scan (sp : lexspec) (s : lstate) (all_eoi : bool) (eois lazies : list lexidx)
  : bool * list lexidx * list lexidx :=
  match s with
  | [] => (all_eoi, rev eois, rev lazies)
  | (i, r) :: s' =>
      if negb (nullable r) then lowest_scan sp s' false eois lazies
      else if lx_lazy (lex_get sp i) then
        lowest_scan sp s' (match lazies with [] => false | _ => all_eoi end) eois (i :: lazies)
      else if all_eoi then
        if forced_eoi r then lowest_scan sp s' true (i :: eois) lazies
        else lowest_scan sp s' false eois lazies
      else lowest_scan sp s' false eois lazies
  end.

Definition lazy_accepting (sp : lexspec) (s : lstate) : list lexidx :=
  let '(all_eoi, eois, lazies) := lowest_scan sp s true [] [] in
  match lazies with
  | _ :: _ => lazies
  | [] => if all_eoi then eois else []
  end.

Definition has_lowest_match (sp : lexspec) (s : lstate) : bool :=
  match lazy_accepting sp s with [] => false | _ => true end.

(* which lexemes a pre-lexeme stands for *)
Inductive mlidx :=
| MLSingle (i : lexidx)
| MLGreedy (s : lstate)      (* greedy_accepting of that state *)
| MLLazy (s : lstate).       (* lazy_accepting of that state *)

Definition mlidx_eqb (a b : mlidx) : bool :=
  match a, b with
  | MLSingle i, MLSingle j => i =? j
  | MLGreedy s, MLGreedy t => lstate_eqb s t
  | MLLazy s, MLLazy t => lstate_eqb s t
  | _, _ => false
  end.

Definition lexemes_from_idx (sp : lexspec) (m : mlidx) : list lexidx :=
  match m with
  | MLSingle i => [i]
  | MLGreedy s => greedy_accepting s
  | MLLazy s => lazy_accepting sp s
  end.

Record prelexeme := mk_pre { pl_idx : mlidx; pl_byte : option byte; pl_next_row : bool }.

Inductive lexres :=
| LState (s : lstate) (b : byte)
| LLexeme (p : prelexeme)
| LError.

(* bytes that can start some lexeme of the whole spec *)
Definition allowed_first_byte (sp : lexspec) (b : byte) : bool :=
  negb (is_dead (transition (initial_state sp (all_lexemes sp)) b)).

(* Lexer::advance *)
Definition advance (sp : lexspec) (prev : lstate) (b : byte) : lexres :=
  let st := transition prev b in
  if is_dead st then
    if negb (allowed_first_byte sp b) then LError
    else match greedy_accepting prev with
         | [] => LError
         | _ => LLexeme (mk_pre (MLGreedy prev) (Some b) true)
         end
  else if has_lowest_match sp st then LLexeme (mk_pre (MLLazy st) (Some b) false)
  else LState st b.

Definition try_lexeme_end (prev : lstate) : lexres :=
  match greedy_accepting prev with
  | [] => LError
  | _ => LLexeme (mk_pre (MLGreedy prev) None false)
  end.

Definition force_lexeme_end (prev : lstate) : lexres :=
  match possible prev with
  | i :: _ => LLexeme (mk_pre (MLSingle i) None false)
  | [] => LError
  end.

(* NextByte::ForcedEOI for a whole state: every component is at forced end *)
Definition state_forced_eoi (s : lstate) : bool :=
  match s with [] => false | _ => forallb (fun '(_, r) => forced_eoi r) s end.

Definition check_for_single_byte_lexeme (s : lstate) (b : byte) : option prelexeme :=
  if state_forced_eoi s then Some (mk_pre (MLGreedy s) (Some b) false) else None.

Definition limit_state_to (s : lstate) (allowed : list lexidx) : lstate :=
  filter (fun '(i, _) => existsb (N.eqb i) allowed) s.
