(* FloatRangeProofs.v — decimal (number) ranges of numeric.rs admit exactly the plain decimal
   literals whose value is inside the bounds.  STATEMENTS MARKED (*FIXED*) MUST NOT CHANGE
   (if one is false for the model as written: keep the original in a comment, add the weakest
   hypothesis that makes it true, and prove a *_refuted lemma with the counterexample). *)
From LLG Require Import Base Regex RegexProofs Numeric NumericProofs.
Open Scope Z_scope.

(* a plain decimal literal: optional minus, canonical integer part, optional fraction with
   one or more digits (any number of them, trailing zeros included), no exponent *)
Record plain := mk_plain { p_neg : bool; p_int : list Z; p_frac : list Z; p_dot : bool }.

Definition canon_int (ds : list Z) : Prop :=
  is_digits ds /\ (ds = [0] \/ exists d rest, ds = d :: rest /\ 1 <= d).

Definition plain_dec (p : plain) : dec := mk_dec (p_neg p) (p_int p) (p_frac p).

Definition plain_ok (p : plain) : Prop :=
  canon_int (p_int p) /\ is_digits (p_frac p) /\
  (p_dot p = false -> p_frac p = []) /\ (p_dot p = true -> p_frac p <> []) /\
  (* negative zero is excluded *)
  (p_neg p = true -> dec_is_zero (plain_dec p) = false).

Definition plain_bytes (p : plain) : bytes :=
  (if p_neg p then [45%N] else []) ++ dstr (p_int p) ++
  (if p_dot p then 46%N :: dstr (p_frac p) else []).

(* a bound as float_to_str prints it: canonical integer part, fraction without trailing zeros,
   no negative zero, integer part below 10^18 *)
Definition bound_ok (d : dec) : Prop :=
  canon_int (d_int d) /\ is_digits (d_frac d) /\ trim_zeros (d_frac d) = d_frac d /\
  (d_neg d = true -> dec_is_zero d = false) /\ (length (d_int d) <= 18)%nat.
Definition obound_ok (o : option dec) : Prop := match o with Some d => bound_ok d | None => True end.

Definition dec_le (a b : dec) : bool := negb (dec_lt b a).
Definition in_float_range (l r : option dec) (li ri : bool) (x : dec) : Prop :=
  (match l with Some a => if li then dec_le a x = true else dec_lt a x = true | None => True end) /\
  (match r with Some b => if ri then dec_le x b = true else dec_lt x b = true | None => True end).

(* ================================================================== *)
(* Part A: fractions at a common scale, trim_zeros, lexi_range *)
(* ================================================================== *)

(* ---------- fractions at a common scale ---------- *)
Definition fv (F : list Z) (K : nat) : Z := V F * P10 (K - length F).

Lemma P10_split : forall a b, (a <= b)%nat -> P10 b = P10 a * P10 (b - a).
Proof. intros a b H. rewrite <- P10_add. f_equal. lia. Qed.

Lemma fv_pad : forall (F : list Z) K, V (pad_right F (K - length F)) = fv F K.
Proof. intros F K. apply V_pad. Qed.

Lemma fv_bound : forall F K, is_digits F -> (length F <= K)%nat -> 0 <= fv F K < P10 K.
Proof.
  intros F K HF HK. unfold fv. pose proof (V_bound F HF) as HB.
  rewrite (P10_split (length F) K HK). pose proof (P10_pos (K - length F)) as Hp.
  pose proof (P10_pos (length F)) as Hq. nia.
Qed.

Lemma fv_rescale : forall F k K, (length F <= k)%nat -> (k <= K)%nat ->
  fv F K = fv F k * P10 (K - k).
Proof.
  intros F k K H1 H2. unfold fv.
  replace (K - length F)%nat with ((k - length F) + (K - k))%nat by lia.
  rewrite P10_add. ring.
Qed.

Lemma fv_nil : forall K, fv [] K = 0.
Proof. intros K. unfold fv. rewrite V_nil. lia. Qed.

Lemma frac_le_fv : forall (a b : list Z) K, (length a <= K)%nat -> (length b <= K)%nat ->
  (frac_le a b <-> fv a K <= fv b K).
Proof.
  intros a b K Ha Hb. rewrite frac_le_V, !V_pad.
  set (m := Nat.max (length a) (length b)).
  rewrite (fv_rescale a m K) by lia. rewrite (fv_rescale b m K) by lia.
  unfold fv. replace (m - length a)%nat with (length b - length a)%nat by lia.
  replace (m - length b)%nat with (length a - length b)%nat by lia.
  pose proof (P10_pos (K - m)) as Hp.
  set (x := V a * P10 (length b - length a)). set (y := V b * P10 (length a - length b)).
  split; intros H; nia.
Qed.

Lemma frac_lt_fv : forall (a b : list Z) K, (length a <= K)%nat -> (length b <= K)%nat ->
  (frac_lt a b <-> fv a K < fv b K).
Proof.
  intros a b K Ha Hb. rewrite frac_lt_V, !V_pad.
  set (m := Nat.max (length a) (length b)).
  rewrite (fv_rescale a m K) by lia. rewrite (fv_rescale b m K) by lia.
  unfold fv. replace (m - length a)%nat with (length b - length a)%nat by lia.
  replace (m - length b)%nat with (length a - length b)%nat by lia.
  pose proof (P10_pos (K - m)) as Hp.
  set (x := V a * P10 (length b - length a)). set (y := V b * P10 (length a - length b)).
  split; intros H; nia.
Qed.

Definition zrel (incl : bool) (x y : Z) : Prop := if incl then x <= y else x < y.

Lemma frac_rel_fv : forall incl (a b : list Z) K, (length a <= K)%nat -> (length b <= K)%nat ->
  (frac_rel incl a b <-> zrel incl (fv a K) (fv b K)).
Proof.
  intros [|] a b K Ha Hb; cbn [frac_rel zrel]; [now apply frac_le_fv | now apply frac_lt_fv].
Qed.

(* ---------- trim_zeros ---------- *)
Lemma tz_go_spec : forall l : list Z, exists k, l = repeat 0 k ++ tz_go l /\
  (tz_go l = [] \/ exists d t, tz_go l = d :: t /\ d <> 0).
Proof.
  induction l as [|d l IH].
  - exists 0%nat. split; [reflexivity | now left].
  - cbn [tz_go]. destruct (Z.eqb_spec d 0) as [->|Hd].
    + destruct IH as (k & E & H). exists (S k). split; [|exact H].
      cbn [repeat app]. now rewrite <- E.
    + exists 0%nat. split; [reflexivity|]. right. now exists d, l.
Qed.

Lemma repeat_rev : forall (x : Z) k, rev (repeat x k) = repeat x k.
Proof.
  intros x k. induction k as [|k IH]; [reflexivity|].
  cbn [repeat rev]. rewrite IH. symmetry. apply repeat_cons.
Qed.

Lemma trim_spec : forall x : list Z, exists k, x = trim_zeros x ++ repeat 0 k /\ last (trim_zeros x) 1 <> 0.
Proof.
  intros x. rewrite trim_zeros_eq. destruct (tz_go_spec (rev x)) as (k & E & H).
  unfold digit in *. exists k. split.
  - apply (f_equal (@rev Z)) in E. rewrite rev_involutive, rev_app_distr, repeat_rev in E. exact E.
  - destruct H as [->|(d & t & -> & Hd)]; [cbn [rev last]; lia|].
    cbn [rev]. now rewrite last_last.
Qed.

Lemma trim_digits : forall x : list Z, is_digits x -> is_digits (trim_zeros x).
Proof.
  intros x Hx. destruct (trim_spec x) as (k & E & _). rewrite E in Hx.
  now apply is_digits_app in Hx.
Qed.

Lemma fv_trim : forall (x : list Z) K, (length x <= K)%nat -> fv (trim_zeros x) K = fv x K.
Proof.
  intros x K HK. destruct (trim_spec x) as (k & E & _). revert E.
  generalize (trim_zeros x). unfold digit. intros t E. subst x.
  rewrite app_length, repeat_length in HK.
  unfold fv. rewrite V_app, V_repeat0, app_length, repeat_length.
  replace (K - length t)%nat with (k + (K - (length t + k)))%nat by lia.
  rewrite P10_add. ring.
Qed.

Lemma frac_rel_trim_l : forall incl (x s : list Z), frac_rel incl (trim_zeros x) s <-> frac_rel incl x s.
Proof.
  intros incl x s. pose proof (trim_zeros_length x) as Hl.
  set (K := Nat.max (length x) (length s)).
  rewrite (frac_rel_fv incl (trim_zeros x) s K) by (unfold digit in *; lia).
  rewrite (frac_rel_fv incl x s K) by lia.
  rewrite fv_trim by lia. reflexivity.
Qed.

Lemma frac_rel_trim_r : forall incl (x s : list Z), frac_rel incl s (trim_zeros x) <-> frac_rel incl s x.
Proof.
  intros incl x s. pose proof (trim_zeros_length x) as Hl.
  set (K := Nat.max (length x) (length s)).
  rewrite (frac_rel_fv incl s (trim_zeros x) K) by (unfold digit in *; lia).
  rewrite (frac_rel_fv incl s x K) by lia.
  rewrite fv_trim by lia. reflexivity.
Qed.

Lemma trim_nil_iff : forall x : list Z, is_digits x -> (trim_zeros x = [] <-> V x = 0).
Proof.
  intros x Hx. destruct (trim_spec x) as (k & E & Hlast). split.
  - intros Et. rewrite Et in E. cbn [app] in E. rewrite E. apply V_repeat0.
  - intros HV. destruct (trim_zeros x) as [|d t] eqn:Et; [reflexivity|]. exfalso.
    assert (Hd : is_digits (d :: t)) by (rewrite <- Et; now apply trim_digits).
    pose proof (last_nz_pos (d :: t) Hd ltac:(discriminate) Hlast) as Hpos.
    rewrite E, V_app, V_repeat0 in HV. pose proof (P10_pos (length (repeat 0 k))). nia.
Qed.

Definition nilb (l : list Z) : bool := match l with [] => true | _ => false end.
Lemma nilb_true : forall l, nilb l = true <-> l = [].
Proof. intros [|x l]; cbn [nilb]; split; congruence. Qed.

Lemma frac_rel_nil_r : forall incl x, is_digits x ->
  (frac_rel incl x [] <-> incl = true /\ V x = 0).
Proof.
  intros [|] x Hx; cbn [frac_rel].
  - rewrite frac_le_nil_r. pose proof (V_bound x Hx). split; [intros H0; split; [reflexivity | lia] | intros [_ H0]; lia].
  - split; [intros H; now apply frac_lt_nil_r in H | intros [H _]; discriminate].
Qed.

Lemma frac_rel_nil_l : forall incl x, is_digits x -> 0 < V x -> frac_rel incl [] x.
Proof.
  intros [|] x Hx Hp; cbn [frac_rel]; [now apply frac_le_nil_l | now apply frac_lt_nil_l2].
Qed.

(* ---------- alternatives ---------- *)
Definition anyof (l : list regex) (w : bytes) : Prop := exists p, In p l /\ re_lang p w.

Lemma mk_or_anyof : forall parts w, re_lang (mk_or parts) w <-> anyof parts w.
Proof. exact mk_or_lang. Qed.

Lemma anyof_nil : forall w, anyof [] w <-> False.
Proof. intros w. split; [intros (p & [] & _) | tauto]. Qed.

Lemma anyof_cons : forall p l w, anyof (p :: l) w <-> re_lang p w \/ anyof l w.
Proof.
  intros p l w. unfold anyof. split.
  - intros (q & [<-|Hin] & Hq); [now left | right; now exists q].
  - intros [H|(q & Hin & Hq)]; [exists p; split; [now left | exact H] | exists q; split; [now right | exact Hq]].
Qed.

Lemma anyof_app : forall l1 l2 w, anyof (l1 ++ l2) w <-> anyof l1 w \/ anyof l2 w.
Proof.
  intros l1 l2 w. unfold anyof. split.
  - intros (q & Hin & Hq). apply in_app_iff in Hin. destruct Hin; [left | right]; now exists q.
  - intros [(q & Hin & Hq)|(q & Hin & Hq)]; exists q; (split; [apply in_app_iff; tauto | exact Hq]).
Qed.

Lemma anyof_if : forall (b : bool) q w, anyof (if b then [q] else []) w <-> b = true /\ re_lang q w.
Proof.
  intros [|] q w.
  - rewrite anyof_cons, anyof_nil. tauto.
  - rewrite anyof_nil. split; [tauto | intros [H _]; discriminate].
Qed.

Lemma anyof_one : forall q w, anyof [q] w <-> re_lang q w.
Proof. intros q w. rewrite anyof_cons, anyof_nil. tauto. Qed.

(* ---------- lexi_0_to_x succeeds on a trimmed non-empty bound ---------- *)
Lemma lexi_0_to_x_ok : forall x incl, x <> [] -> last x 1 <> 0 -> exists r, lexi_0_to_x x incl = NOk r.
Proof.
  induction x as [|x0 rest IH]; intros incl Hne Hlast; [congruence|].
  rewrite lexi_0_to_x_cons. destruct rest as [|r1 rest'].
  - destruct incl; cbn [negb].
    + cbn [lexi_0_to_x nbind]. eexists; reflexivity.
    + cbn [last] in Hlast. destruct (Z.eqb_spec x0 0) as [E|_]; [congruence | eexists; reflexivity].
  - rewrite last_cons_ne in Hlast by discriminate.
    destruct (IH incl ltac:(discriminate) Hlast) as (r & ->).
    cbv beta iota delta [nbind]. eexists; reflexivity.
Qed.

(* ---------- lexi_range ---------- *)
Lemma lexi_range_lang : forall ld rd li ri rx s,
  is_digits ld -> is_digits rd -> length ld = length rd -> ld <> rd -> is_digits s ->
  lexi_range ld rd li ri = NOk rx ->
  (re_lang rx (dstr s) <-> s <> [] /\ frac_rel li ld s /\ frac_rel ri s rd).
Proof.
  induction ld as [|l0 lrest IH]; intros rd li ri rx s Hld Hrd Hlen Hne Hs Hrx.
  - destruct rd; [congruence | discriminate].
  - destruct rd as [|r0 rrest]; [discriminate|].
    cbn [length] in Hlen. injection Hlen as Hlen.
    apply is_digits_cons in Hld. destruct Hld as [Hl0 Hlrest].
    apply is_digits_cons in Hrd. destruct Hrd as [Hr0 Hrrest].
    cbn [lexi_range] in Hrx.
    destruct (list_eqb Z.eqb (l0 :: lrest) (r0 :: rrest)) eqn:Eeq.
    { apply list_eqb_Z_eq in Eeq. congruence. }
    destruct (Z.eqb_spec l0 r0) as [E0|N0].
    + subst r0. assert (Hne' : lrest <> rrest) by congruence.
      destruct (lexi_range lrest rrest li ri) as [r|] eqn:Er;
        cbv beta iota delta [nbind] in Hrx; [|discriminate].
      apply NOk_inj in Hrx.
      assert (HIH : forall s', is_digits s' ->
                (re_lang r (dstr s') <-> s' <> [] /\ frac_rel li lrest s' /\ frac_rel ri s' rrest)).
      { intros s' Hs'. now apply IH. }
      assert (Hspec : (s <> [] /\ frac_rel li (l0 :: lrest) s /\ frac_rel ri s (l0 :: rrest)) <->
                      exists s', s = l0 :: s' /\ frac_rel li lrest s' /\ frac_rel ri s' rrest).
      { split.
        - intros (Hn & H1 & H2). destruct s as [|d s']; [congruence|].
          apply is_digits_cons in Hs. destruct Hs as [Hd Hs'].
          apply frac_rel_cons in H1; [|assumption|assumption].
          apply frac_rel_cons in H2; [|assumption|assumption].
          assert (d = l0) by lia. subst d. exists s'. split; [reflexivity|].
          split; [destruct H1 as [?|[_ ?]]; [lia | assumption] | destruct H2 as [?|[_ ?]]; [lia | assumption]].
        - intros (s' & -> & H1 & H2). apply is_digits_cons in Hs. destruct Hs as [Hd Hs'].
          split; [discriminate|]. split; (apply frac_rel_cons; [assumption | assumption |]); right; now split. }
      rewrite Hspec.
      change (match trim_zeros lrest with [] => true | _ :: _ => false end)
        with (nilb (trim_zeros lrest)) in Hrx.
      destruct (li && nilb (trim_zeros lrest)) eqn:Ec; subst rx; rewrite cat_ch_lang by assumption.
      * apply andb_true_iff in Ec. destruct Ec as [Eli Enil]. apply nilb_true in Enil.
        apply trim_nil_iff in Enil; [|assumption].
        assert (HVr : 0 < V rrest).
        { pose proof (V_bound rrest Hrrest). destruct (Z.eq_dec (V rrest) 0) as [E|]; [|lia].
          exfalso. apply Hne'. apply V_same_len_inj; try assumption. lia. }
        split; intros (s' & -> & H); exists s'; (split; [reflexivity|]).
        -- apply opt_lang in H. destruct H as [H|H].
           ++ apply dstr_nil_inv in H. subst s'. split.
              ** apply frac_rel_nil_r; [assumption | now split].
              ** now apply frac_rel_nil_l.
           ++ apply is_digits_cons in Hs. destruct Hs as [_ Hs']. apply HIH in H; tauto.
        -- apply opt_lang. destruct s' as [|d s'']; [now left | right].
           apply is_digits_cons in Hs. destruct Hs as [_ Hs']. apply HIH; [assumption|].
           split; [discriminate | assumption].
      * split; intros (s' & -> & H); exists s'; (split; [reflexivity|]);
          apply is_digits_cons in Hs; destruct Hs as [_ Hs'].
        -- apply HIH in H; tauto.
        -- apply HIH; [assumption|]. split; [|assumption]. intros ->. destruct H as [H _].
           apply frac_rel_nil_r in H; [|assumption]. destruct H as [Eli HV0].
           apply trim_nil_iff in HV0; [|assumption]. apply nilb_true in HV0.
           rewrite Eli, HV0 in Ec. discriminate.
    + destruct (Z.leb_spec r0 l0) as [Hle|Hlt]; [discriminate|].
      cbv zeta in Hrx.
      set (p1 := Cat (ch (dchar l0)) (lexi_x_to_9 (trim_zeros lrest) li)) in Hrx.
      set (p2 := if l0 + 1 <? r0 then [Cat (drange (l0 + 1) (r0 - 1)) (Star dany)] else []) in Hrx.
      assert (Hp1 : re_lang p1 (dstr s) <-> exists s', s = l0 :: s' /\ frac_rel li lrest s').
      { subst p1. rewrite cat_ch_lang by assumption.
        destruct (trim_spec lrest) as (k & _ & Hlast).
        split; intros (s' & -> & H); exists s'; (split; [reflexivity|]);
          apply is_digits_cons in Hs; destruct Hs as [_ Hs'].
        - apply lexi_x_to_9_aux in H; [|now apply trim_digits | assumption | assumption].
          apply frac_rel_trim_l. tauto.
        - apply lexi_x_to_9_aux; [now apply trim_digits | assumption | assumption |].
          split; [now apply frac_rel_trim_l|]. intros -> ->.
          apply frac_rel_nil_r in H; [|assumption]. destruct H; discriminate. }
      assert (Hp2 : anyof p2 (dstr s) <-> exists d s', s = d :: s' /\ l0 < d < r0).
      { subst p2. rewrite anyof_if. rewrite cat_drange_star_lang by (lia || assumption).
        destruct (Z.ltb_spec (l0 + 1) r0) as [Hlt2|Hge2]; split.
        - intros [_ (d & s' & -> & Hd)]. exists d, s'. split; [reflexivity | lia].
        - intros (d & s' & -> & Hd). split; [reflexivity|]. exists d, s'. split; [reflexivity | lia].
        - intros [H _]; discriminate.
        - intros (d & s' & -> & Hd). lia. }
      assert (Hp3 : forall R,
                (forall s', is_digits s' -> (re_lang R (dstr s') <-> frac_rel ri s' rrest)) ->
                (re_lang (Cat (ch (dchar r0)) R) (dstr s) <-> exists s', s = r0 :: s' /\ frac_rel ri s' rrest)).
      { intros R HR. rewrite cat_ch_lang by assumption.
        split; intros (s' & -> & H); exists s'; (split; [reflexivity|]);
          apply is_digits_cons in Hs; destruct Hs as [_ Hs']; now apply HR. }
      assert (Hspec : (s <> [] /\ frac_rel li (l0 :: lrest) s /\ frac_rel ri s (r0 :: rrest)) <->
                (exists s', s = l0 :: s' /\ frac_rel li lrest s') \/
                (exists d s', s = d :: s' /\ l0 < d < r0) \/
                (exists s', s = r0 :: s' /\ frac_rel ri s' rrest)).
      { split.
        - intros (Hn & H1 & H2). destruct s as [|d s']; [congruence|].
          apply is_digits_cons in Hs. destruct Hs as [Hd Hs'].
          apply frac_rel_cons in H1; [|assumption|assumption].
          apply frac_rel_cons in H2; [|assumption|assumption].
          destruct H1 as [H1|[<- H1]].
          + destruct H2 as [H2|[-> H2]].
            * right; left. exists d, s'. split; [reflexivity | lia].
            * right; right. now exists s'.
          + left. now exists s'.
        - intros [(s' & -> & H)|[(d & s' & -> & H)|(s' & -> & H)]];
            apply is_digits_cons in Hs; destruct Hs as [Hd Hs'];
            (split; [discriminate|]);
            (split; (apply frac_rel_cons; [assumption | assumption |])).
          + right. now split.
          + left. lia.
          + left. lia.
          + left. lia.
          + left. lia.
          + right. now split. }
      rewrite Hspec.
      destruct (trim_spec rrest) as (kr & _ & Hlastr).
      pose proof (trim_digits rrest Hrrest) as Hdr.
      destruct (trim_zeros rrest) as [|x0 x'] eqn:Et.
      * assert (HV0 : V rrest = 0) by (apply trim_nil_iff; assumption).
        assert (Hrel0 : forall s', frac_rel ri s' rrest <-> frac_rel ri s' []).
        { intros s'. rewrite <- (frac_rel_trim_r ri rrest s'). now rewrite Et. }
        destruct ri.
        -- cbn [lexi_0_to_x nbind] in Hrx. apply NOk_inj in Hrx. subst rx.
           rewrite mk_or_anyof, anyof_cons, anyof_app, anyof_one, Hp1, Hp2.
           rewrite (Hp3 (Star zero_ch)); [reflexivity|].
           intros s' Hs'. rewrite Hrel0. cbn [frac_rel]. rewrite frac_le_nil_r.
           now apply star_zero_dstr.
        -- apply NOk_inj in Hrx. subst rx.
           rewrite mk_or_anyof, anyof_cons, Hp1, Hp2.
           split; [tauto|]. intros [H|[H|(s' & -> & H)]]; [tauto | tauto |].
           exfalso. apply Hrel0 in H. cbn [frac_rel] in H.
           apply is_digits_cons in Hs. destruct Hs as [_ Hs']. now apply frac_lt_nil_r in H.
      * assert (Hx : exists r, lexi_0_to_x (x0 :: x') ri = NOk r /\
                  rx = mk_or (p1 :: p2 ++ [Cat (ch (dchar r0)) (opt r)])).
        { destruct ri; (destruct (lexi_0_to_x (x0 :: x') _) as [r|] eqn:Er;
            cbv beta iota delta [nbind] in Hrx; [|discriminate]);
            apply NOk_inj in Hrx; exists r; now split. }
        destruct Hx as (r & Er & ->).
        rewrite mk_or_anyof, anyof_cons, anyof_app, anyof_one, Hp1, Hp2.
        rewrite (Hp3 (opt r)); [reflexivity|].
        intros s' Hs'. rewrite opt_lang.
        rewrite (lexi_0_to_x_aux (x0 :: x') ri r s' Hdr Hs' Hlastr Er).
        rewrite <- (frac_rel_trim_r ri rrest s'), Et.
        pose proof (last_nz_pos (x0 :: x') Hdr ltac:(discriminate) Hlastr) as Hpos.
        split.
        -- intros [H|[H _]]; [|assumption]. apply dstr_nil_inv in H. subst s'.
           now apply frac_rel_nil_l.
        -- intros H. destruct s' as [|d s'']; [now left | right]. split; [assumption | discriminate].
Qed.

(* ================================================================== *)
(* Part B: scaled decimals, words of plain literals *)
(* ================================================================== *)

(* ---------- scaled decimals ---------- *)
Definition dig (d : dec) : Prop := is_digits (d_int d) /\ is_digits (d_frac d).
Definition nnz (d : dec) : Prop := d_neg d = true -> dec_is_zero d = false.
Definition mag (d : dec) (K : nat) : Z := V (d_int d) * P10 K + fv (d_frac d) K.
Definition flen (d : dec) : nat := length (d_frac d).

Lemma sc_eq : forall d K, (flen d <= K)%nat ->
  dec_scaled d K = if d_neg d then - mag d K else mag d K.
Proof.
  intros [n I F] K HK. unfold flen, dec_scaled, mag in *. cbn [d_frac d_int d_neg] in *.
  change (val_digits (I ++ pad_right F (K - length F)) 0) with (V (I ++ pad_right F (K - length F))).
  unfold digit in *.
  rewrite V_app, length_pad, V_pad. unfold fv.
  replace (length F + (K - length F))%nat with K by lia. reflexivity.
Qed.

Lemma mag_nonneg : forall d K, dig d -> (flen d <= K)%nat -> 0 <= mag d K.
Proof.
  intros d K [HI HF] HK. unfold mag. pose proof (V_bound _ HI). pose proof (fv_bound _ K HF HK).
  pose proof (P10_pos K). nia.
Qed.

Lemma mag_rescale : forall d k K, (flen d <= k)%nat -> (k <= K)%nat -> mag d K = mag d k * P10 (K - k).
Proof.
  intros d k K H1 H2. unfold mag. rewrite (fv_rescale _ k K H1 H2), (P10_split k K H2). ring.
Qed.

Lemma sc_rescale : forall d k K, (flen d <= k)%nat -> (k <= K)%nat ->
  dec_scaled d K = dec_scaled d k * P10 (K - k).
Proof.
  intros d k K H1 H2. rewrite !sc_eq by lia. rewrite (mag_rescale d k K H1 H2).
  destruct (d_neg d); ring.
Qed.

Lemma dec_cmp_sc : forall a b K, (flen a <= K)%nat -> (flen b <= K)%nat ->
  dec_cmp a b = (dec_scaled a K ?= dec_scaled b K).
Proof.
  intros a b K Ha Hb. unfold dec_cmp. cbv zeta. unfold flen in *.
  set (k := Nat.max (length (d_frac a)) (length (d_frac b))).
  rewrite (sc_rescale a k K), (sc_rescale b k K) by (unfold flen; lia).
  apply Zmult_compare_compat_r. pose proof (P10_pos (K - k)). lia.
Qed.

Lemma forallb_zero : forall ds, is_digits ds -> (forallb (Z.eqb 0) ds = true <-> V ds = 0).
Proof.
  intros ds Hd. pose proof (V_bound ds Hd) as HB. rewrite forallb_forall. split.
  - intros H. assert (HV : V ds <= 0); [|lia]. apply V_zero_iff; [assumption|].
    apply Forall_forall. intros x Hx. apply H in Hx. lia.
  - intros HV x Hx. assert (HF : Forall (fun d => d = 0) ds) by (apply V_zero_iff; [assumption | lia]).
    rewrite Forall_forall in HF. apply HF in Hx. subst x. reflexivity.
Qed.

Lemma sum_zero : forall a b P Q, 0 <= a -> 0 <= b -> 0 < P -> 0 < Q ->
  (a * P + b * Q = 0 <-> a = 0 /\ b = 0).
Proof.
  intros a b P Q Ha Hb HP HQ. split.
  - intros H3. assert (0 <= a * P) by nia. assert (0 <= b * Q) by nia.
    assert (Ea : a * P = 0) by lia. assert (Eb : b * Q = 0) by lia.
    apply Z.mul_eq_0 in Ea. apply Z.mul_eq_0 in Eb. split; lia.
  - intros [-> ->]. lia.
Qed.

Lemma is_zero_mag : forall d K, dig d -> (flen d <= K)%nat -> (dec_is_zero d = true <-> mag d K = 0).
Proof.
  intros d K [HI HF] HK. unfold dec_is_zero. rewrite andb_true_iff, !forallb_zero by assumption.
  unfold mag, fv. pose proof (V_bound _ HI) as HBI. pose proof (V_bound _ HF) as HBF.
  symmetry. apply sum_zero; try apply P10_pos; lia.
Qed.

Lemma sc_neg : forall d K, dig d -> nnz d -> (flen d <= K)%nat -> d_neg d = true -> dec_scaled d K < 0.
Proof.
  intros d K Hd Hz HK Hn. rewrite sc_eq by assumption. rewrite Hn.
  pose proof (mag_nonneg d K Hd HK). specialize (Hz Hn).
  destruct (Z.eq_dec (mag d K) 0) as [E|]; [|lia].
  apply (is_zero_mag d K Hd HK) in E. congruence.
Qed.

Lemma sc_nonneg : forall d K, dig d -> (flen d <= K)%nat -> d_neg d = false ->
  dec_scaled d K = mag d K /\ 0 <= mag d K.
Proof.
  intros d K Hd HK Hn. rewrite sc_eq by assumption. rewrite Hn. split; [reflexivity | now apply mag_nonneg].
Qed.

Definition dec_rel (incl : bool) (a b : dec) : Prop :=
  if incl then dec_le a b = true else dec_lt a b = true.

Lemma dec_lt_sc : forall a b K, (flen a <= K)%nat -> (flen b <= K)%nat ->
  (dec_lt a b = true <-> dec_scaled a K < dec_scaled b K).
Proof.
  intros a b K Ha Hb. unfold dec_lt. rewrite (dec_cmp_sc a b K Ha Hb).
  destruct (Z.compare_spec (dec_scaled a K) (dec_scaled b K)) as [E|E|E];
    split; intros H; try reflexivity; try discriminate; lia.
Qed.

Lemma dec_lt_false_sc : forall a b K, (flen a <= K)%nat -> (flen b <= K)%nat ->
  (dec_lt a b = false <-> dec_scaled b K <= dec_scaled a K).
Proof.
  intros a b K Ha Hb. pose proof (dec_lt_sc a b K Ha Hb) as H.
  destruct (dec_lt a b); split; intros H1; try reflexivity; try discriminate.
  - assert (dec_scaled a K < dec_scaled b K) by now apply H. lia.
  - destruct (Z.lt_ge_cases (dec_scaled a K) (dec_scaled b K)) as [H2|H2]; [|lia].
    apply H in H2. discriminate.
Qed.

Lemma dec_le_sc : forall a b K, (flen a <= K)%nat -> (flen b <= K)%nat ->
  (dec_le a b = true <-> dec_scaled a K <= dec_scaled b K).
Proof.
  intros a b K Ha Hb. unfold dec_le. rewrite negb_true_iff. now apply dec_lt_false_sc.
Qed.

Lemma dec_eq_sc : forall a b K, (flen a <= K)%nat -> (flen b <= K)%nat ->
  (dec_eq a b = true <-> dec_scaled a K = dec_scaled b K).
Proof.
  intros a b K Ha Hb. unfold dec_eq. rewrite (dec_cmp_sc a b K Ha Hb).
  destruct (Z.compare_spec (dec_scaled a K) (dec_scaled b K)) as [E|E|E];
    split; intros H; try reflexivity; try discriminate; lia.
Qed.

Lemma dec_rel_sc : forall incl a b K, (flen a <= K)%nat -> (flen b <= K)%nat ->
  (dec_rel incl a b <-> zrel incl (dec_scaled a K) (dec_scaled b K)).
Proof.
  intros [|] a b K Ha Hb; cbn [dec_rel zrel]; [now apply dec_le_sc | now apply dec_lt_sc].
Qed.

Lemma ifr_eq : forall l r li ri x, in_float_range l r li ri x <->
  (match l with Some a => dec_rel li a x | None => True end) /\
  (match r with Some b => dec_rel ri x b | None => True end).
Proof. reflexivity. Qed.

Lemma lex_rel : forall incl A X fa fx P, 0 <= fa < P -> 0 <= fx < P ->
  (zrel incl (A * P + fa) (X * P + fx) <-> A < X \/ (A = X /\ zrel incl fa fx)).
Proof.
  intros incl A X fa fx P Ha Hx. split.
  - intros H. destruct (Z.lt_trichotomy A X) as [Hlt|[Heq|Hgt]].
    + now left.
    + right. split; [assumption|]. subst X. destruct incl; cbn [zrel] in *; lia.
    + exfalso. assert (P * (A - X - 1) >= 0) by nia. destruct incl; cbn [zrel] in *; nia.
  - intros [H|[-> H]].
    + assert (P * (X - A - 1) >= 0) by nia. destruct incl; cbn [zrel] in *; nia.
    + destruct incl; cbn [zrel] in *; lia.
Qed.

Lemma nn_rel_lex : forall incl a b, dig a -> dig b -> d_neg a = false -> d_neg b = false ->
  (dec_rel incl a b <->
   V (d_int a) < V (d_int b) \/ (V (d_int a) = V (d_int b) /\ frac_rel incl (d_frac a) (d_frac b))).
Proof.
  intros incl a b Ha Hb Na Nb.
  set (K := Nat.max (flen a) (flen b)).
  assert (HKa : (flen a <= K)%nat) by (subst K; lia).
  assert (HKb : (flen b <= K)%nat) by (subst K; lia).
  rewrite (dec_rel_sc incl a b K HKa HKb).
  destruct (sc_nonneg a K Ha HKa Na) as [-> _]. destruct (sc_nonneg b K Hb HKb Nb) as [-> _].
  unfold mag. destruct Ha as [_ HFa]. destruct Hb as [_ HFb].
  rewrite lex_rel by (apply fv_bound; assumption).
  rewrite <- frac_rel_fv by assumption. reflexivity.
Qed.

(* ---------- words of plain literals ---------- *)
Definition ptail (dot : bool) (F : list Z) : bytes := if dot then 46%N :: dstr F else [].
Definition ndh (t : bytes) : Prop := match t with [] => True | c :: _ => c = 46%N end.

Lemma plain_bytes_eq : forall p, plain_bytes p =
  (if p_neg p then [45%N] else []) ++ dstr (p_int p) ++ ptail (p_dot p) (p_frac p).
Proof. reflexivity. Qed.

Lemma ndh_ptail : forall dot F, ndh (ptail dot F).
Proof. intros [|] F; cbn [ptail ndh]; auto. Qed.

Lemma dchar_not_dot : forall d, 0 <= d -> dchar d <> 46%N.
Proof. intros d Hd. unfold dchar. lia. Qed.

Lemma split_unique : forall a b t v, is_digits a -> is_digits b -> ndh t -> ndh v ->
  dstr a ++ t = dstr b ++ v -> a = b /\ t = v.
Proof.
  induction a as [|x a IH]; intros [|y b] t v Ha Hb Ht Hv E; cbn [dstr map app] in E.
  - now split.
  - exfalso. subst t. cbn [ndh] in Ht. apply is_digits_cons in Hb.
    apply (dchar_not_dot y); [lia | assumption].
  - exfalso. subst v. cbn [ndh] in Hv. apply is_digits_cons in Ha.
    apply (dchar_not_dot x); [lia | assumption].
  - injection E as E1 E2. apply is_digits_cons in Ha. destruct Ha as [Hx Ha].
    apply is_digits_cons in Hb. destruct Hb as [Hy Hb].
    apply dchar_inj in E1; [|lia|lia]. subst y.
    destruct (IH b t v Ha Hb Ht Hv E2) as [-> ->]. now split.
Qed.

Lemma canon_head : forall ds, canon ds -> exists d ds', ds = d :: ds' /\ 0 <= d <= 9.
Proof.
  intros ds [Hd [->|(d & ds' & -> & H1)]].
  - exists 0, []. split; [reflexivity | lia].
  - apply is_digits_cons in Hd. exists d, ds'. split; [reflexivity | lia].
Qed.

Definition CI (A : regex) : Prop := forall u, re_lang A u -> exists ds, canon ds /\ u = dstr ds.
Definition TL (B : regex) : Prop := forall v, re_lang B v -> ndh v.

Lemma cat_plain : forall A B p, plain_ok p -> CI A -> TL B ->
  (re_lang (Cat A B) (plain_bytes p) <->
   p_neg p = false /\ re_lang A (dstr (p_int p)) /\ re_lang B (ptail (p_dot p) (p_frac p))).
Proof.
  intros A B p Hp HA HB. destruct Hp as (HcI & HF & _). rewrite plain_bytes_eq, cat_lang. split.
  - intros (u & v & E & Hu & Hv). destruct (HA u Hu) as (ds & Hc & ->). pose proof (HB v Hv) as Hn.
    destruct (p_neg p).
    + exfalso. destruct (canon_head ds Hc) as (d & ds' & -> & Hd).
      cbn [app dstr map] in E. injection E as E _. symmetry in E. revert E. apply dchar_not_minus. lia.
    + cbn [app] in E. apply split_unique in E;
        [| apply (canon_digits _ HcI) | now apply canon_digits | apply ndh_ptail | assumption].
      destruct E as [<- <-]. auto.
  - intros (Hn & Hu & Hv). rewrite Hn. exists (dstr (p_int p)), (ptail (p_dot p) (p_frac p)).
    cbn [app]. auto.
Qed.

Lemma CI_dlit : forall X, canon X -> CI (dlit X).
Proof.
  intros X HX u Hu. apply dlit_lang in Hu; [|now apply canon_digits]. subst u. now exists X.
Qed.

Lemma TL_cat_dot : forall R, TL (Cat dot R).
Proof.
  intros R v Hv. apply cat_lang in Hv. destruct Hv as (u & v' & -> & Hu & _).
  apply dot_lang in Hu. subst u. reflexivity.
Qed.

Lemma TL_opt : forall X, TL X -> TL (opt X).
Proof.
  intros X HX v Hv. apply opt_lang in Hv. destruct Hv as [->|Hv]; [exact I | now apply HX].
Qed.

Lemma tail_cat_dot : forall R dot F,
  re_lang (Cat Numeric.dot R) (ptail dot F) <-> dot = true /\ re_lang R (dstr F).
Proof.
  intros R dt F. rewrite cat_lang. split.
  - intros (u & v & E & Hu & Hv). apply dot_lang in Hu. subst u. destruct dt; cbn [ptail app] in E.
    + injection E as <-. now split.
    + discriminate.
  - intros [-> H]. exists [46%N], (dstr F). split; [reflexivity|]. split; [now apply dot_lang | exact H].
Qed.

Lemma tail_opt_dot : forall R dot F,
  re_lang (opt (Cat Numeric.dot R)) (ptail dot F) <-> dot = false \/ (dot = true /\ re_lang R (dstr F)).
Proof.
  intros R dt F. rewrite opt_lang, tail_cat_dot. split.
  - intros [H|H]; [|now right]. destruct dt; [discriminate | now left].
  - intros [->|H]; [now left | now right].
Qed.

Lemma dlit_self : forall X Y, is_digits X -> is_digits Y -> (re_lang (dlit X) (dstr Y) <-> Y = X).
Proof.
  intros X Y HX HY. rewrite dlit_lang by assumption. split; [now apply dstr_inj | now intros ->].
Qed.

Lemma alt_dlit_dot : forall X R p, plain_ok p -> canon X ->
  (re_lang (Cat (dlit X) (Cat dot R)) (plain_bytes p) <->
   p_neg p = false /\ p_int p = X /\ p_dot p = true /\ re_lang R (dstr (p_frac p))).
Proof.
  intros X R p Hp HX. rewrite (cat_plain _ _ p Hp (CI_dlit X HX) (TL_cat_dot R)).
  destruct Hp as (HcI & _). rewrite dlit_self by (now apply canon_digits).
  rewrite tail_cat_dot. tauto.
Qed.

Lemma alt_dlit_optdot : forall X R p, plain_ok p -> canon X ->
  (re_lang (Cat (dlit X) (opt (Cat dot R))) (plain_bytes p) <->
   p_neg p = false /\ p_int p = X /\ (p_dot p = false \/ re_lang R (dstr (p_frac p)))).
Proof.
  intros X R p Hp HX. rewrite (cat_plain _ _ p Hp (CI_dlit X HX) (TL_opt _ (TL_cat_dot R))).
  destruct Hp as (HcI & _). rewrite dlit_self by (now apply canon_digits).
  rewrite tail_opt_dot. destruct (p_dot p); intuition congruence.
Qed.

Lemma opt_frac_tail : forall dt F, is_digits F -> (dt = true -> F <> []) -> re_lang opt_frac (ptail dt F).
Proof.
  intros dt F HF Hne. unfold opt_frac. apply tail_opt_dot. destruct dt; [right | now left].
  split; [reflexivity|]. apply rep_dany_lang. exists F. split; [assumption|]. split; [|reflexivity].
  change (N.to_nat 1) with 1%nat. destruct F; [now specialize (Hne eq_refl) | cbn [length]; lia].
Qed.

Lemma alt_int_optfrac : forall A L R p, plain_ok p -> (forall u, re_lang A u <-> nn_lang L R u) ->
  (re_lang (Cat A opt_frac) (plain_bytes p) <->
   p_neg p = false /\ L <= V (p_int p) /\ ub R (V (p_int p))).
Proof.
  intros A L R p Hp HA.
  assert (HCI : CI A).
  { intros u Hu. apply HA in Hu. destruct Hu as (ds & Hc & -> & _). now exists ds. }
  unfold opt_frac.
  rewrite (cat_plain _ _ p Hp HCI (TL_opt _ (TL_cat_dot _))).
  destruct Hp as (HcI & HF & _ & Hdot & _). rewrite HA. split.
  - intros (Hn & (ds & Hc & E & H1 & H2) & _).
    apply dstr_inj in E; [| now apply canon_digits | now apply canon_digits]. subst ds. auto.
  - intros (Hn & H1 & H2). split; [assumption|]. split.
    + exists (p_int p). auto.
    + exact (opt_frac_tail _ _ HF Hdot).
Qed.

Lemma rep_zero1_dstr : forall F, is_digits F ->
  (re_lang (Rep zero_ch 1 None) (dstr F) <-> F <> [] /\ V F <= 0).
Proof.
  intros F HF. rewrite (rep_char_lang zero_ch (fun d => d = 0) 1%N zero_ch_lang).
  change (N.to_nat 1) with 1%nat. rewrite (V_zero_iff F HF). split.
  - intros (t & Ht & Hlen & E). apply dstr_inj in E; [| assumption | now apply zeros_digits].
    subst t. split; [|assumption]. intros ->. cbn [length] in Hlen. lia.
  - intros [Hne HZ]. exists F. split; [assumption|]. split; [|reflexivity].
    destruct F; [congruence | cbn [length]; lia].
Qed.

(* ================================================================== *)
(* Part C: bound invariant, literal of a bound (equal bounds) *)
(* ================================================================== *)

(* ---------- bounds invariant ---------- *)
Definition wb (n : nat) (d : dec) : Prop :=
  canon (d_int d) /\ is_digits (d_frac d) /\ last (d_frac d) 1 <> 0 /\ nnz d /\ (length (d_int d) <= n)%nat.

Lemma wb_dig : forall n d, wb n d -> dig d.
Proof. intros n d (Hc & HF & _). split; [now apply canon_digits | assumption]. Qed.

Lemma wb_nnz : forall n d, wb n d -> nnz d.
Proof. intros n d (_ & _ & _ & H & _). exact H. Qed.

Lemma wb_mono : forall n m d, (n <= m)%nat -> wb n d -> wb m d.
Proof. intros n m d Hnm (H1 & H2 & H3 & H4 & H5). unfold wb. splits; try assumption. lia. Qed.

Lemma bound_wb : forall d, bound_ok d -> wb 18 d.
Proof.
  intros d (H1 & H2 & H3 & H4 & H5). unfold wb. splits; try assumption. now apply trim_fix_last.
Qed.

Lemma plain_dig : forall p, plain_ok p -> dig (plain_dec p).
Proof. intros p (Hc & HF & _). split; [apply (canon_digits _ Hc) | exact HF]. Qed.

Lemma plain_nnz : forall p, plain_ok p -> nnz (plain_dec p).
Proof. intros p (_ & _ & _ & _ & H). exact H. Qed.

Lemma sc_zero : forall K, dec_scaled dec_zero K = 0.
Proof.
  intros K. rewrite sc_eq by (unfold flen; cbn [dec_zero d_frac length]; lia).
  cbn [dec_zero d_neg]. unfold mag. cbn [dec_zero d_int d_frac]. rewrite fv_nil, V_one. lia.
Qed.

Lemma sc_negate : forall d K, dec_scaled (dec_negate d) K = - dec_scaled d K.
Proof.
  intros [n I F] K. unfold dec_scaled, dec_negate. cbn [d_neg d_int d_frac]. destruct n; cbn [negb]; lia.
Qed.

Lemma is_neg_eq : forall d, dig d -> nnz d -> dec_is_neg d = d_neg d.
Proof.
  intros d Hd Hz. unfold dec_is_neg.
  assert (HK : (flen d <= flen d)%nat) by lia.
  assert (HK0 : (flen dec_zero <= flen d)%nat) by (unfold flen at 1; cbn [dec_zero d_frac length]; lia).
  destruct (d_neg d) eqn:En.
  - apply (dec_lt_sc d dec_zero (flen d) HK HK0). rewrite sc_zero. now apply sc_neg.
  - apply (dec_lt_false_sc d dec_zero (flen d) HK HK0). rewrite sc_zero.
    destruct (sc_nonneg d (flen d) Hd HK En) as [-> H]. exact H.
Qed.

(* ---------- the literal of a bound and its other spellings ---------- *)
Definition SW (a : regex) (x : bytes) : Prop := forall u, re_lang a u <-> u = x.

Lemma SW_eps : SW Eps [].
Proof. intros u. reflexivity. Qed.

Lemma SW_cat : forall a b x y, SW a x -> SW b y -> SW (Cat a b) (x ++ y).
Proof.
  intros a b x y Ha Hb u. rewrite cat_lang. split.
  - intros (u1 & u2 & -> & H1 & H2). apply Ha in H1. apply Hb in H2. now subst.
  - intros ->. exists x, y. split; [reflexivity|]. split; [now apply Ha | now apply Hb].
Qed.

Lemma SW_minus : SW minus [45%N].
Proof. intros u. apply minus_lang. Qed.
Lemma SW_dot : SW dot [46%N].
Proof. intros u. apply dot_lang. Qed.
Lemma SW_dlit : forall X, is_digits X -> SW (dlit X) (dstr X).
Proof. intros X HX u. now apply dlit_lang. Qed.

Lemma SW_eq : forall a x y, SW a x -> x = y -> SW a y.
Proof. intros a x y H <-. exact H. Qed.

Lemma dec_lit_SW : forall d, dig d ->
  SW (dec_lit d) ((if d_neg d then [45%N] else []) ++ dstr (d_int d) ++
                  match d_frac d with [] => [] | f => 46%N :: dstr f end).
Proof.
  intros [n I F] [HI HF]. cbn [d_neg d_int d_frac] in *. unfold dec_lit. cbn [d_neg d_int d_frac].
  pose proof SW_eps as He. pose proof SW_minus as Hm. pose proof SW_dot as Hdt.
  pose proof (SW_dlit I HI) as HdI.
  destruct n, F as [|f0 F']; cbn [app cat_list fold_right].
  - eapply SW_eq; [exact (SW_cat _ _ _ _ Hm (SW_cat _ _ _ _ HdI He))|].
    cbn [app]. now rewrite !app_nil_r.
  - pose proof (SW_dlit _ HF) as HdF.
    eapply SW_eq; [exact (SW_cat _ _ _ _ Hm (SW_cat _ _ _ _ HdI (SW_cat _ _ _ _ Hdt (SW_cat _ _ _ _ HdF He))))|].
    cbn [app]. now rewrite !app_nil_r.
  - eapply SW_eq; [exact (SW_cat _ _ _ _ HdI He)|]. reflexivity.
  - pose proof (SW_dlit _ HF) as HdF.
    eapply SW_eq; [exact (SW_cat _ _ _ _ HdI (SW_cat _ _ _ _ Hdt (SW_cat _ _ _ _ HdF He)))|].
    cbn [app]. now rewrite !app_nil_r.
Qed.

Lemma plain_split : forall p (n : bool) Il t, plain_ok p -> is_digits Il -> ndh t ->
  (plain_bytes p = (if n then [45%N] else []) ++ dstr Il ++ t <->
   p_neg p = n /\ p_int p = Il /\ ptail (p_dot p) (p_frac p) = t).
Proof.
  intros p n Il t Hp HIl Ht. destruct Hp as (HcI & _). rewrite plain_bytes_eq.
  destruct (canon_head _ HcI) as (d & I' & EI & Hd).
  pose proof (canon_digits _ HcI) as HdI.
  split.
  - intros E. destruct (p_neg p), n; cbn [app] in E.
    + injection E as E. apply split_unique in E; [destruct E; auto | assumption | assumption | apply ndh_ptail | assumption].
    + exfalso. destruct Il as [|y Il']; cbn [dstr map app] in E.
      * subst t. cbn [ndh] in Ht. discriminate.
      * injection E as E _. apply is_digits_cons in HIl. symmetry in E. revert E. apply dchar_not_minus. lia.
    + exfalso. rewrite EI in E. cbn [dstr map app] in E. injection E as E _. revert E. apply dchar_not_minus. lia.
    + apply split_unique in E; [destruct E; auto | assumption | assumption | apply ndh_ptail | assumption].
  - intros (<- & <- & <-). reflexivity.
Qed.

Lemma lit_zeros_frac : forall f F, is_digits f -> last f 1 <> 0 -> is_digits F ->
  ((exists zs, Forall (fun d => d = 0) zs /\ F = f ++ zs) <-> frac_le f F /\ frac_le F f).
Proof.
  induction f as [|x f IH]; intros F Hf Hlast HF.
  - cbn [app]. split.
    + intros (zs & Hz & ->). split; [now apply frac_le_nil_l|]. apply frac_le_nil_r2.
      now apply V_zero_iff.
    + intros [_ H]. exists F. split; [|reflexivity]. apply V_zero_iff; [assumption|].
      now apply frac_le_nil_r1.
  - assert (Hpos : 0 < V (x :: f)) by (apply last_nz_pos; [assumption | discriminate | assumption]).
    apply is_digits_cons in Hf. destruct Hf as [Hx Hf].
    destruct F as [|d F'].
    + split.
      * intros (zs & _ & E). discriminate.
      * intros [H _]. apply frac_le_nil_r1 in H. lia.
    + apply is_digits_cons in HF. destruct HF as [Hd HF'].
      assert (Hlast' : last f 1 <> 0).
      { destruct f as [|y f']; [cbn [last]; lia|]. rewrite last_cons_ne in Hlast by discriminate. exact Hlast. }
      rewrite !frac_le_cons by assumption. specialize (IH F' Hf Hlast' HF'). split.
      * intros (zs & Hz & E). cbn [app] in E. injection E as -> ->.
        assert (H : frac_le f (f ++ zs) /\ frac_le (f ++ zs) f) by (apply IH; now exists zs).
        destruct H. split; right; auto.
      * intros [H1 H2]. assert (x = d) by lia. subst d.
        destruct IH as [_ IH]. destruct IH as (zs & Hz & ->).
        { split; [destruct H1 as [?|[_ ?]]; [lia | assumption] | destruct H2 as [?|[_ ?]]; [lia | assumption]]. }
        exists zs. auto.
Qed.

Lemma dec_lit_zeros_lang : forall n l p, wb n l -> plain_ok p ->
  (re_lang (dec_lit_zeros l) (plain_bytes p) <->
   p_neg p = d_neg l /\ p_int p = d_int l /\
   frac_le (d_frac l) (p_frac p) /\ frac_le (p_frac p) (d_frac l)).
Proof.
  intros n l p Hl Hp. pose proof (dec_lit_SW l (wb_dig _ _ Hl)) as Hx.
  destruct Hl as (HcI & HF & Hlast & _ & _). pose proof (canon_digits _ HcI) as HdI.
  pose proof Hp as (_ & HpF & Hnodot & Hdot & _).
  unfold dec_lit_zeros. rewrite cat_lang.
  destruct (d_frac l) as [|f0 F'] eqn:EF.
  - split.
    + intros (u & v & E & Hu & Hv). apply Hx in Hu. subst u.
      rewrite app_nil_r, <- app_assoc in E.
      assert (Hnv : ndh v) by (exact (TL_opt _ (TL_cat_dot _) v Hv)).
      apply plain_split in E; [|assumption|assumption|assumption].
      destruct E as (E1 & E2 & E3). splits; try assumption; [now apply frac_le_nil_l|].
      apply frac_le_nil_r2. rewrite <- E3 in Hv. apply tail_opt_dot in Hv.
      destruct Hv as [Hv|[_ Hv]].
      * rewrite (Hnodot Hv), V_nil. lia.
      * apply rep_zero1_dstr in Hv; [tauto | assumption].
    + intros (E1 & E2 & _ & H4).
      exists ((if d_neg l then [45%N] else []) ++ dstr (d_int l) ++ []), (ptail (p_dot p) (p_frac p)).
      split; [|split].
      * rewrite app_nil_r, <- app_assoc. apply plain_split; [assumption | assumption | apply ndh_ptail | auto].
      * now apply Hx.
      * apply tail_opt_dot. destruct (p_dot p) eqn:Ed; [right | now left]. split; [reflexivity|].
        apply rep_zero1_dstr; [assumption|]. split; [now apply Hdot | now apply frac_le_nil_r1].
  - rewrite <- (lit_zeros_frac (f0 :: F') (p_frac p) HF Hlast HpF). split.
    + intros (u & v & E & Hu & Hv). apply Hx in Hu. subst u.
      rewrite <- !app_assoc in E. cbn [app] in E.
      apply plain_split in E; [|assumption|assumption|reflexivity].
      destruct E as (E1 & E2 & E3). splits; try assumption.
      apply star_zero_lang in Hv. destruct Hv as (zs & Hz & ->).
      exists zs. split; [assumption|]. destruct (p_dot p); cbn [ptail] in E3; [|discriminate].
      injection E3 as E3. rewrite <- dstr_app in E3.
      change (dchar f0 :: dstr (F' ++ zs)) with (dstr ((f0 :: F') ++ zs)) in E3. apply dstr_inj in E3; [assumption | assumption |].
      apply is_digits_app. split; [assumption | now apply zeros_digits].
    + intros (E1 & E2 & zs & Hz & E3).
      exists ((if d_neg l then [45%N] else []) ++ dstr (d_int l) ++ 46%N :: dstr (f0 :: F')), (dstr zs).
      split; [|split].
      * rewrite <- !app_assoc. cbn [app]. apply plain_split; [assumption | assumption | reflexivity |].
        splits; try assumption. rewrite E3. destruct (p_dot p) eqn:Ed.
        -- cbn [ptail]. now rewrite dstr_app.
        -- exfalso. rewrite (Hnodot eq_refl) in E3. discriminate.
      * now apply Hx.
      * apply star_zero_lang. now exists zs.
Qed.

(* ================================================================== *)
(* Part D: lexicographic form of the specification, groups of alternatives *)
(* ================================================================== *)

Lemma frac_lt_pos : forall a b, is_digits a -> frac_lt a b -> 0 < V b.
Proof.
  intros a b Ha H. rewrite frac_lt_V, !V_pad in H. pose proof (V_bound a Ha) as HB.
  pose proof (P10_pos (length b - length a)). pose proof (P10_pos (length a - length b)). nia.
Qed.

Lemma frac_lt_irrefl : forall x, ~ frac_lt x x.
Proof. intros x H. unfold frac_lt in H. lia. Qed.

Lemma fv_pad_right : forall (x : list Z) k K, (length x + k <= K)%nat -> fv (pad_right x k) K = fv x K.
Proof.
  intros x k K H. unfold fv. rewrite V_pad, length_pad.
  replace (K - length x)%nat with (k + (K - (length x + k)))%nat by lia.
  rewrite P10_add. ring.
Qed.

Lemma frac_rel_pad_l : forall incl (x s : list Z) k, frac_rel incl (pad_right x k) s <-> frac_rel incl x s.
Proof.
  intros incl x s k. set (K := Nat.max (length x + k) (length s)).
  rewrite (frac_rel_fv incl (pad_right x k) s K) by (rewrite ?length_pad; lia).
  rewrite (frac_rel_fv incl x s K) by lia. rewrite fv_pad_right by lia. reflexivity.
Qed.

Lemma frac_rel_pad_r : forall incl (x s : list Z) k, frac_rel incl s (pad_right x k) <-> frac_rel incl s x.
Proof.
  intros incl x s k. set (K := Nat.max (length x + k) (length s)).
  rewrite (frac_rel_fv incl s (pad_right x k) K) by (rewrite ?length_pad; lia).
  rewrite (frac_rel_fv incl s x K) by lia. rewrite fv_pad_right by lia. reflexivity.
Qed.

(* ---------- the specification in lexicographic form ---------- *)
Lemma nn_spec_lex : forall l r li ri p, dig l -> dig r -> d_neg l = false -> d_neg r = false -> plain_ok p ->
  (in_float_range (Some l) (Some r) li ri (plain_dec p) <->
   p_neg p = false /\
   (V (d_int l) < V (p_int p) \/ (V (d_int l) = V (p_int p) /\ frac_rel li (d_frac l) (p_frac p))) /\
   (V (p_int p) < V (d_int r) \/ (V (p_int p) = V (d_int r) /\ frac_rel ri (p_frac p) (d_frac r)))).
Proof.
  intros l r li ri p Dl Dr Nl Nr Hp. rewrite ifr_eq.
  pose proof (plain_dig p Hp) as Dp. pose proof (plain_nnz p Hp) as Zp.
  destruct (p_neg p) eqn:En.
  - split; [|intros [? _]; discriminate]. intros [H1 _]. exfalso.
    set (K := Nat.max (flen l) (flen (plain_dec p))).
    assert (HKl : (flen l <= K)%nat) by (subst K; lia).
    assert (HKp : (flen (plain_dec p) <= K)%nat) by (subst K; lia).
    apply (dec_rel_sc li l (plain_dec p) K HKl HKp) in H1.
    pose proof (sc_neg (plain_dec p) K Dp Zp HKp En) as Hneg.
    destruct (sc_nonneg l K Dl HKl Nl) as [E Hnn]. rewrite E in H1.
    destruct li; cbn [zrel] in H1; lia.
  - rewrite (nn_rel_lex li l (plain_dec p) Dl Dp Nl En).
    rewrite (nn_rel_lex ri (plain_dec p) r Dp Dr En Nr).
    cbn [plain_dec d_int d_frac]. tauto.
Qed.

Lemma lt_lex : forall l r, dig l -> dig r -> nnz r -> d_neg l = false ->
  dec_lt r l = false -> dec_eq l r = false ->
  d_neg r = false /\
  (V (d_int l) < V (d_int r) \/ (V (d_int l) = V (d_int r) /\ frac_lt (d_frac l) (d_frac r))).
Proof.
  intros l r Dl Dr Zr Nl Erl Eeq.
  set (K := Nat.max (flen l) (flen r)).
  assert (HKl : (flen l <= K)%nat) by (subst K; lia).
  assert (HKr : (flen r <= K)%nat) by (subst K; lia).
  apply (dec_lt_false_sc r l K HKr HKl) in Erl.
  assert (Hne : dec_scaled l K <> dec_scaled r K).
  { intros E. apply (dec_eq_sc l r K HKl HKr) in E. congruence. }
  destruct (sc_nonneg l K Dl HKl Nl) as [El Hnn].
  assert (Nr : d_neg r = false).
  { destruct (d_neg r) eqn:En; [|reflexivity]. pose proof (sc_neg r K Dr Zr HKr En). lia. }
  split; [assumption|].
  apply (nn_rel_lex false l r Dl Dr Nl Nr). cbn [dec_rel].
  apply (dec_lt_sc l r K HKl HKr). lia.
Qed.

(* ---------- equal bounds ---------- *)
Lemma eq_case : forall n m l r p, wb n l -> wb m r -> plain_ok p -> dec_eq l r = true ->
  (re_lang (dec_lit_zeros l) (plain_bytes p) <->
   in_float_range (Some l) (Some r) true true (plain_dec p)).
Proof.
  intros n m l r p Hl Hr Hp Eeq. rewrite (dec_lit_zeros_lang n l p Hl Hp), ifr_eq. cbn [dec_rel].
  pose proof (wb_dig _ _ Hl) as Dl. pose proof (wb_nnz _ _ Hl) as Zl.
  pose proof (plain_dig p Hp) as Dp. pose proof (plain_nnz p Hp) as Zp.
  set (K := Nat.max (Nat.max (flen l) (flen r)) (flen (plain_dec p))).
  assert (HKl : (flen l <= K)%nat) by (subst K; lia).
  assert (HKr : (flen r <= K)%nat) by (subst K; lia).
  assert (HKp : (flen (plain_dec p) <= K)%nat) by (subst K; lia).
  rewrite (dec_le_sc l (plain_dec p) K HKl HKp), (dec_le_sc (plain_dec p) r K HKp HKr).
  apply (dec_eq_sc l r K HKl HKr) in Eeq. rewrite <- Eeq.
  rewrite (sc_eq l K HKl), (sc_eq (plain_dec p) K HKp). cbn [plain_dec d_neg].
  pose proof (mag_nonneg l K Dl HKl) as Ml. pose proof (mag_nonneg (plain_dec p) K Dp HKp) as Mp.
  assert (Hzl : d_neg l = true -> mag l K <> 0).
  { intros Hn E. apply (is_zero_mag l K Dl HKl) in E. rewrite (Zl Hn) in E. discriminate. }
  assert (Hzp : p_neg p = true -> mag (plain_dec p) K <> 0).
  { intros Hn E. apply (is_zero_mag _ K Dp HKp) in E. rewrite (Zp Hn) in E. discriminate. }
  destruct Dl as [_ HFl]. destruct Dp as [_ HFp]. cbn [plain_dec d_frac] in HFp.
  pose proof (fv_bound _ K HFl HKl) as Bl. pose proof (fv_bound _ K HFp HKp) as Bp.
  assert (Hmag : mag (plain_dec p) K = mag l K <->
            V (p_int p) = V (d_int l) /\ fv (p_frac p) K = fv (d_frac l) K).
  { unfold mag. cbn [plain_dec d_int d_frac]. pose proof (P10_pos K) as HP. split.
    - intros E.
      assert (V (p_int p) = V (d_int l)); [|split; [assumption | nia]].
      destruct (Z.lt_trichotomy (V (p_int p)) (V (d_int l))) as [H|[H|H]]; [exfalso | assumption | exfalso].
      + assert (P10 K * (V (d_int l) - V (p_int p) - 1) >= 0) by nia. nia.
      + assert (P10 K * (V (p_int p) - V (d_int l) - 1) >= 0) by nia. nia.
    - intros [-> ->]. reflexivity. }
  destruct Hl as (HcIl & _). destruct Hp as (HcI & _).
  rewrite (frac_le_fv (d_frac l) (p_frac p) K HKl HKp), (frac_le_fv (p_frac p) (d_frac l) K HKp HKl).
  split.
  - intros (E1 & E2 & E3 & E4). rewrite E1.
    assert (Em : mag (plain_dec p) K = mag l K) by (apply Hmag; split; [now rewrite E2 | lia]).
    rewrite Em. destruct (d_neg l); lia.
  - intros [H1 H2].
    assert (Esg : p_neg p = d_neg l).
    { destruct (p_neg p) eqn:E1, (d_neg l) eqn:E2; try reflexivity; exfalso.
      - specialize (Hzp eq_refl). lia.
      - specialize (Hzl eq_refl). lia. }
    assert (Em : mag (plain_dec p) K = mag l K) by (rewrite Esg in *; destruct (d_neg l); lia).
    apply Hmag in Em. destruct Em as [Ev Ef]. splits; try assumption; try lia.
    apply canon_unique; assumption.
Qed.

(* ---------- different integer parts: the three groups of alternatives ---------- *)
Lemma canon_V_lt80 : forall ds, canon ds -> (length ds <= 80)%nat -> V ds < P10 80.
Proof.
  intros ds Hc Hlen. pose proof (V_bound ds (canon_digits _ Hc)) as HB.
  pose proof (P10_le (length ds) 80 Hlen). lia.
Qed.

Lemma canon_eq_iff : forall a b, canon a -> canon b -> (a = b <-> V a = V b).
Proof. intros a b Ha Hb. split; [now intros -> | now apply canon_unique]. Qed.

Lemma p1_sem : forall l li p (c1 : bool) (p1 : list regex), plain_ok p -> canon (d_int l) -> is_digits (d_frac l) ->
  last (d_frac l) 1 <> 0 ->
  p1 = (if c1 then [] else [Cat (dlit (d_int l)) (Cat dot (lexi_x_to_9 (d_frac l) li))]) ->
  (anyof p1 (plain_bytes p) <->
   p_neg p = false /\ c1 = false /\ V (p_int p) = V (d_int l) /\ p_dot p = true /\
   frac_rel li (d_frac l) (p_frac p)).
Proof.
  intros l li p c1 p1 Hp HcIl HFl Hlast ->. destruct c1.
  - rewrite anyof_nil. split; [tauto | intros (_ & H & _); discriminate].
  - rewrite anyof_one, (alt_dlit_dot _ _ p Hp HcIl).
    destruct Hp as (HcI & HF & _ & Hdot & _).
    rewrite (canon_eq_iff _ _ HcI HcIl).
    rewrite (lexi_x_to_9_aux (d_frac l) li (p_frac p) HFl HF Hlast). split.
    + intros (H1 & H2 & H3 & H4 & _). auto.
    + intros (H1 & _ & H2 & H3 & H4). splits; auto.
Qed.

Lemma p2_sem : forall L1 R p p2, plain_ok p -> 0 <= L1 -> L1 < P10 80 -> R <= P10 80 ->
  (if L1 <? R then nbind (rx_int_range int_fuel (Some L1) (Some (R - 1)))
                        (fun inner => NOk [Cat inner opt_frac])
   else NOk []) = NOk p2 ->
  (anyof p2 (plain_bytes p) <-> p_neg p = false /\ L1 <= V (p_int p) <= R - 1).
Proof.
  intros L1 R p p2 Hp H0 H80 HR E. destruct (Z.ltb_spec L1 R) as [Hlt|Hge].
  - destruct (rx_int_range int_fuel (Some L1) (Some (R - 1))) as [inner|] eqn:Ein;
      cbv beta iota delta [nbind] in E; [|discriminate].
    apply NOk_inj in E. subst p2. rewrite anyof_one.
    rewrite (alt_int_optfrac inner L1 (Some (R - 1)) p Hp).
    + cbn [ub]. tauto.
    + intros u. apply (int_range_nn int_fuel L1 (Some (R - 1)) inner H0 H80); [cbn [obig]; lia | exact Ein].
  - apply NOk_inj in E. subst p2. rewrite anyof_nil. split; [tauto | lia].
Qed.

Lemma p3_sem : forall r (ri : bool) p (p1 p2 : list regex) rx, plain_ok p -> canon (d_int r) ->
  is_digits (d_frac r) -> last (d_frac r) 1 <> 0 ->
  match d_frac r with
  | [] => if ri then NOk (mk_or (p1 ++ p2 ++ [Cat (dlit (d_int r)) (opt (Cat dot (Rep (ch 48%N) 1 None)))]))
          else NOk (mk_or (p1 ++ p2))
  | _ :: _ => nbind (lexi_0_to_x (d_frac r) ri) (fun r0 =>
                NOk (mk_or (p1 ++ p2 ++ [Cat (dlit (d_int r)) (opt (Cat dot r0))])))
  end = NOk rx ->
  exists p3, rx = mk_or (p1 ++ p2 ++ p3) /\
    (anyof p3 (plain_bytes p) <->
     p_neg p = false /\ V (p_int p) = V (d_int r) /\ frac_rel ri (p_frac p) (d_frac r)).
Proof.
  intros r ri p p1 p2 rx Hp HcIr HFr Hlast Hrx.
  pose proof Hp as (HcI & HF & Hnodot & Hdot & _).
  pose proof (canon_eq_iff _ _ HcI HcIr) as HI.
  revert Hrx HFr Hlast. destruct (d_frac r) as [|x xs]; intros Hrx HFr Hlast.
  - destruct ri; apply NOk_inj in Hrx; subst rx.
    + eexists. split; [reflexivity|]. rewrite anyof_one. change (ch 48%N) with zero_ch.
      rewrite (alt_dlit_optdot _ _ p Hp HcIr), HI, (rep_zero1_dstr _ HF).
      cbn [frac_rel]. rewrite frac_le_nil_r. split.
      * intros (H1 & H2 & [H3|[_ H3]]); splits; try assumption.
        rewrite (Hnodot H3), V_nil. lia.
      * intros (H1 & H2 & H3). splits; try assumption.
        destruct (p_dot p) eqn:Ed; [right | now left]. split; [now apply Hdot | assumption].
    + exists []. split; [now rewrite app_nil_r|]. rewrite anyof_nil. split; [tauto|].
      intros (_ & _ & H). cbn [frac_rel] in H. now apply frac_lt_nil_r in H.
  - destruct (lexi_0_to_x (x :: xs) ri) as [r0|] eqn:E0; cbv beta iota delta [nbind] in Hrx; [|discriminate].
    apply NOk_inj in Hrx. subst rx. eexists. split; [reflexivity|]. rewrite anyof_one.
    rewrite (alt_dlit_optdot _ _ p Hp HcIr), HI.
    rewrite (lexi_0_to_x_aux (x :: xs) ri r0 (p_frac p) HFr HF Hlast E0).
    pose proof (last_nz_pos (x :: xs) HFr ltac:(discriminate) Hlast) as Hpos. split.
    + intros (H1 & H2 & [H3|[H3 _]]); splits; try assumption.
      rewrite (Hnodot H3). now apply frac_rel_nil_l.
    + intros (H1 & H2 & H3). splits; try assumption.
      destruct (p_dot p) eqn:Ed; [right | now left]. split; [assumption|]. intros _. now apply Hdot.
Qed.

Lemma diff_final : forall (c1 dt : bool) (A B : Prop) L R L1 v,
  L < R -> L1 = (if c1 then L else L + 1) -> (c1 = true -> A) -> (c1 = false -> A -> dt = true) ->
  (((c1 = false /\ v = L /\ dt = true /\ A) \/ (L1 <= v <= R - 1) \/ (v = R /\ B)) <->
   ((L < v \/ (L = v /\ A)) /\ (v < R \/ (v = R /\ B)))).
Proof.
  intros c1 dt A B L R L1 v HLR -> HA Hdt. destruct c1.
  - specialize (HA eq_refl). clear Hdt. split.
    + intros [(H & _)|[H|[H1 H2]]]; [discriminate | | ].
      * split; [destruct (Z.eq_dec L v); [right; now split | left; lia] | left; lia].
      * split; [left; lia | right; now split].
    + intros [H1 [H2|[H2 H3]]]; [right; left; lia | right; right; now split].
  - clear HA. specialize (Hdt eq_refl). split.
    + intros [(_ & H1 & H2 & H3)|[H|[H1 H2]]].
      * split; [right; split; [lia | assumption] | left; lia].
      * split; left; lia.
      * split; [left; lia | right; now split].
    + intros [[H1|[H1 H1']] [H2|[H2 H3]]].
      * right; left; lia.
      * right; right; now split.
      * left. splits; auto.
      * lia.
Qed.

(* ================================================================== *)
(* Part E: both bounds, non-negative lower bound *)
(* ================================================================== *)

Lemma SS_nn : forall f l r li ri rx p, wb 80 l -> wb 80 r -> d_neg l = false -> plain_ok p ->
  rx_float_range f (Some l) (Some r) li ri = NOk rx ->
  (re_lang rx (plain_bytes p) <-> in_float_range (Some l) (Some r) li ri (plain_dec p)).
Proof.
  intros f l r li ri rx p Hl Hr Nl Hp Hrx. destruct f as [|f]; [discriminate|].
  cbn [rx_float_range] in Hrx.
  destruct (dec_lt r l) eqn:Erl; [discriminate|].
  destruct (dec_eq l r) eqn:Eeq.
  { destruct (li && ri) eqn:Elr; [|discriminate]. apply NOk_inj in Hrx. subst rx.
    apply andb_true_iff in Elr. destruct Elr as [-> ->].
    exact (eq_case 80 80 l r p Hl Hr Hp Eeq). }
  pose proof (wb_dig _ _ Hl) as Dl. pose proof (wb_dig _ _ Hr) as Dr.
  rewrite (is_neg_eq l Dl (wb_nnz _ _ Hl)), Nl in Hrx. cbv zeta in Hrx.
  destruct (lt_lex l r Dl Dr (wb_nnz _ _ Hr) Nl Erl Eeq) as [Nr Hlr].
  rewrite (nn_spec_lex l r li ri p Dl Dr Nl Nr Hp).
  destruct Hl as (HcIl & HFl & Hlastl & _ & Hlenl). destruct Hr as (HcIr & HFr & Hlastr & _ & Hlenr).
  pose proof (canon_V_lt80 _ HcIl Hlenl) as HVl. pose proof (canon_V_lt80 _ HcIr Hlenr) as HVr.
  pose proof (canon_V_nonneg _ HcIl) as HVl0.
  unfold dec_int_part in Hrx.
  change (val_digits (d_int l) 0) with (V (d_int l)) in Hrx.
  change (val_digits (d_int r) 0) with (V (d_int r)) in Hrx.
  rewrite (digits_of_unique (d_int l) HcIl HVl) in Hrx.
  rewrite (digits_of_unique (d_int r) HcIr HVr) in Hrx.
  pose proof Hp as (HcI & HF & Hnodot & Hdot & _).
  destruct (Z.eqb_spec (V (d_int l)) (V (d_int r))) as [ELR|NLR].
  - (* equal integer parts *)
    assert (Hflt : frac_lt (d_frac l) (d_frac r)) by (destruct Hlr as [?|[_ ?]]; [lia | assumption]).
    set (n := Nat.max (length (d_frac l)) (length (d_frac r))) in Hrx.
    set (ld' := pad_right (d_frac l) (n - length (d_frac l))) in Hrx.
    set (rd' := pad_right (d_frac r) (n - length (d_frac r))) in Hrx.
    destruct (lexi_range ld' rd' li ri) as [lr|] eqn:Elr; cbv beta iota delta [nbind] in Hrx; [|discriminate].
    assert (Hlang : forall s, is_digits s ->
              (re_lang lr (dstr s) <-> s <> [] /\ frac_rel li (d_frac l) s /\ frac_rel ri s (d_frac r))).
    { intros s Hs. rewrite (lexi_range_lang ld' rd' li ri lr s).
      - subst ld' rd'. rewrite frac_rel_pad_l, frac_rel_pad_r. reflexivity.
      - now apply is_digits_pad.
      - now apply is_digits_pad.
      - subst ld' rd'. rewrite !length_pad. unfold digit in *. lia.
      - intros E. apply (frac_lt_irrefl ld'). rewrite E at 2.
        apply (frac_rel_pad_l false). apply (frac_rel_pad_r false). exact Hflt.
      - exact Hs.
      - exact Elr. }
    assert (Hz : forallb (Z.eqb 0) ld' = true <-> V (d_frac l) = 0).
    { rewrite forallb_zero by now apply is_digits_pad. subst ld'. rewrite V_pad.
      pose proof (P10_pos (n - length (d_frac l))). split; [intros H0; apply Z.mul_eq_0 in H0; lia | intros ->; lia]. }
    pose proof (canon_eq_iff _ _ HcI HcIl) as HI.
    destruct (li && forallb (Z.eqb 0) ld') eqn:Ez; apply NOk_inj in Hrx; subst rx.
    + apply andb_true_iff in Ez. destruct Ez as [Eli Ez]. apply Hz in Ez. subst li.
      rewrite (alt_dlit_optdot _ _ p Hp HcIl), (Hlang _ HF), HI. split.
      * intros (Hn & Hv & Hrest). split; [assumption|].
        assert (HAB : frac_rel true (d_frac l) (p_frac p) /\ frac_rel ri (p_frac p) (d_frac r)).
        { destruct Hrest as [Hd|(_ & HA & HB)]; [|now split]. rewrite (Hnodot Hd). split.
          - apply frac_rel_nil_r; [assumption | now split].
          - apply frac_rel_nil_l; [assumption | exact (frac_lt_pos _ _ HFl Hflt)]. }
        destruct HAB. split; right; split; (assumption || lia).
      * intros (Hn & H1 & H2). assert (Hv : V (p_int p) = V (d_int l)) by lia.
        split; [assumption|]. split; [assumption|].
        destruct (p_dot p) eqn:Ed; [right | now left]. split; [now apply Hdot|].
        split; [destruct H1 as [?|[_ ?]]; [lia | assumption] | destruct H2 as [?|[_ ?]]; [lia | assumption]].
    + rewrite (alt_dlit_dot _ _ p Hp HcIl), (Hlang _ HF), HI. split.
      * intros (Hn & Hv & Hd & _ & HA & HB). split; [assumption|]. split; right; split; (assumption || lia).
      * intros (Hn & H1 & H2). assert (Hv : V (p_int p) = V (d_int l)) by lia.
        assert (HA : frac_rel li (d_frac l) (p_frac p)) by (destruct H1 as [?|[_ ?]]; [lia | assumption]).
        assert (HB : frac_rel ri (p_frac p) (d_frac r)) by (destruct H2 as [?|[_ ?]]; [lia | assumption]).
        split; [assumption|]. split; [assumption|].
        destruct (p_dot p) eqn:Ed.
        -- split; [reflexivity|]. split; [now apply Hdot|]. now split.
        -- exfalso. rewrite (Hnodot eq_refl) in HA. apply frac_rel_nil_r in HA; [|assumption].
           destruct HA as [-> HV0]. apply Hz in HV0. rewrite HV0 in Ez. discriminate.
  - (* different integer parts *)
    assert (HLR : V (d_int l) < V (d_int r)) by (destruct Hlr as [?|[? _]]; [assumption | contradiction]).
    set (P1 := Cat (dlit (d_int l)) (Cat dot (lexi_x_to_9 (d_frac l) li))) in Hrx.
    destruct (match d_frac l with
              | [] => if li then (V (d_int l), []) else (V (d_int l) + 1, [P1])
              | _ :: _ => (V (d_int l) + 1, [P1])
              end) as [L1 p1] eqn:Epr.
    set (c1 := nilb (d_frac l) && li).
    assert (Hc1 : L1 = (if c1 then V (d_int l) else V (d_int l) + 1) /\ p1 = (if c1 then [] else [P1])).
    { subst c1. destruct (d_frac l), li; cbn [nilb andb]; injection Epr as <- <-; split; reflexivity. }
    destruct Hc1 as [EL1 Ep1].
    assert (HL1 : V (d_int l) <= L1 <= V (d_int l) + 1) by (rewrite EL1; destruct c1; lia).
    pose proof (p1_sem l li p c1 p1 Hp HcIl HFl Hlastl Ep1) as H1.
    destruct (if L1 <? V (d_int r)
              then nbind (rx_int_range int_fuel (Some L1) (Some (V (d_int r) - 1)))
                         (fun inner => NOk [Cat inner opt_frac])
              else NOk []) as [p2|] eqn:E2; cbv beta iota delta [nbind] in Hrx; [|discriminate].
    pose proof (p2_sem L1 (V (d_int r)) p p2 Hp ltac:(lia) ltac:(lia) ltac:(lia) E2) as H2.
    destruct (p3_sem r ri p p1 p2 rx Hp HcIr HFr Hlastr Hrx) as (p3 & -> & H3).
    rewrite mk_or_anyof, !anyof_app, H1, H2, H3.
    assert (HA1 : c1 = true -> frac_rel li (d_frac l) (p_frac p)).
    { subst c1. intros Hc. apply andb_true_iff in Hc. destruct Hc as [Hnil ->]. apply nilb_true in Hnil.
      rewrite Hnil. cbn [frac_rel]. now apply frac_le_nil_l. }
    assert (HA2 : c1 = false -> frac_rel li (d_frac l) (p_frac p) -> p_dot p = true).
    { intros Hc HA. destruct (p_dot p) eqn:Ed; [reflexivity | exfalso].
      rewrite (Hnodot eq_refl) in HA. apply frac_rel_nil_r in HA; [|assumption]. destruct HA as [-> HV0].
      subst c1. rewrite andb_true_r in Hc.
      destruct (d_frac l) as [|y ys] eqn:EFl; [discriminate|].
      pose proof (last_nz_pos (y :: ys) HFl ltac:(discriminate) Hlastl). lia. }
    pose proof (diff_final c1 (p_dot p) (frac_rel li (d_frac l) (p_frac p))
                  (frac_rel ri (p_frac p) (d_frac r)) (V (d_int l)) (V (d_int r)) L1 (V (p_int p))
                  HLR EL1 HA1 HA2) as Hfin.
    rewrite <- Hfin. clear. tauto.
Qed.

(* ================================================================== *)
(* Part F: both bounds, any signs *)
(* ================================================================== *)

(* ---------- order reasoning at a common scale ---------- *)
Definition oflen (o : option dec) (K : nat) : Prop :=
  match o with Some d => (flen d <= K)%nat | None => True end.

Lemma ifr_sc : forall l r li ri x K, oflen l K -> oflen r K -> (flen x <= K)%nat ->
  (in_float_range l r li ri x <->
   (match l with Some a => zrel li (dec_scaled a K) (dec_scaled x K) | None => True end) /\
   (match r with Some b => zrel ri (dec_scaled x K) (dec_scaled b K) | None => True end)).
Proof.
  intros l r li ri x K Hl Hr Hx. rewrite ifr_eq.
  destruct l as [a|], r as [b|]; cbn [oflen] in *;
    rewrite ?(dec_rel_sc li a x K Hl Hx), ?(dec_rel_sc ri x b K Hx Hr); reflexivity.
Qed.

Definition pabs (p : plain) : plain := mk_plain false (p_int p) (p_frac p) (p_dot p).

Lemma pabs_ok : forall p, plain_ok p -> plain_ok (pabs p).
Proof.
  intros p (H1 & H2 & H3 & H4 & _). unfold plain_ok, pabs. cbn [p_neg p_int p_frac p_dot].
  splits; try assumption. discriminate.
Qed.

Lemma flen_pabs : forall p, flen (plain_dec (pabs p)) = flen (plain_dec p).
Proof. reflexivity. Qed.

Lemma plain_sign : forall p K, plain_ok p -> (flen (plain_dec p) <= K)%nat ->
  (p_neg p = true /\ dec_scaled (plain_dec p) K = - dec_scaled (plain_dec (pabs p)) K /\
   0 < dec_scaled (plain_dec (pabs p)) K) \/
  (p_neg p = false /\ pabs p = p /\ 0 <= dec_scaled (plain_dec p) K).
Proof.
  intros p K Hp HK. pose proof (plain_dig p Hp) as Dp. pose proof (plain_nnz p Hp) as Zp.
  destruct (p_neg p) eqn:En; [left | right].
  - split; [reflexivity|].
    assert (E : plain_dec p = dec_negate (plain_dec (pabs p))).
    { destruct p as [n I F d]. cbn [p_neg] in En. subst n. reflexivity. }
    pose proof (sc_neg _ K Dp Zp HK En) as Hneg.
    rewrite E in Hneg |- *. rewrite sc_negate in Hneg |- *. split; [reflexivity | lia].
  - split; [reflexivity|]. split.
    + destruct p as [n I F d]. cbn [p_neg] in En. subst n. reflexivity.
    + destruct (sc_nonneg _ K Dp HK En) as [-> H]. exact H.
Qed.

Lemma bound_sign : forall n d K, wb n d -> (flen d <= K)%nat ->
  (d_neg d = true /\ dec_scaled d K < 0) \/ (d_neg d = false /\ 0 <= dec_scaled d K).
Proof.
  intros n d K Hd HK. pose proof (wb_dig _ _ Hd) as Dd. pose proof (wb_nnz _ _ Hd) as Zd.
  destruct (d_neg d) eqn:En; [left | right]; (split; [reflexivity|]).
  - now apply sc_neg.
  - destruct (sc_nonneg d K Dd HK En) as [-> H]. exact H.
Qed.

Lemma wb_negate : forall n d, wb n d -> d_neg d = true -> wb n (dec_negate d) /\ d_neg (dec_negate d) = false.
Proof.
  intros n d (H1 & H2 & H3 & H4 & H5) Hn. unfold wb, dec_negate, nnz. cbn [d_neg d_int d_frac].
  rewrite Hn. cbn [negb]. splits; try assumption; try reflexivity. discriminate.
Qed.

Lemma wb_zero : forall n, (1 <= n)%nat -> wb n dec_zero.
Proof.
  intros n Hn. unfold wb, dec_zero, nnz. cbn [d_neg d_int d_frac length last].
  splits; try lia; try discriminate; [apply canon_one; lia | apply is_digits_nil].
Qed.

Lemma flen_negate : forall d, flen (dec_negate d) = flen d.
Proof. reflexivity. Qed.

Lemma flen_zero : flen dec_zero = 0%nat.
Proof. reflexivity. Qed.

Lemma minus_plain : forall a p, plain_ok p ->
  (re_lang (Cat minus a) (plain_bytes p) <-> p_neg p = true /\ re_lang a (plain_bytes (pabs p))).
Proof.
  intros a p Hp. rewrite cat_minus_lang. destruct p as [n I F d]. destruct Hp as (HcI & _).
  cbn [p_int] in HcI. unfold plain_bytes, pabs. cbn [p_neg p_int p_frac p_dot]. destruct n; cbn [app].
  - split.
    + intros (v & E & Hv). injection E as <-. now split.
    + intros [_ H]. eexists. split; [reflexivity | exact H].
  - split; [|intros [H _]; discriminate]. intros (v & E & _). exfalso.
    destruct (canon_head I HcI) as (x & I' & -> & Hx). cbn [dstr map app] in E. injection E as E _.
    revert E. apply dchar_not_minus. lia.
Qed.

(* ---------- both bounds present, any signs ---------- *)
Lemma SS : forall f l r li ri rx p, wb 80 l -> wb 80 r -> plain_ok p ->
  rx_float_range f (Some l) (Some r) li ri = NOk rx ->
  (re_lang rx (plain_bytes p) <-> in_float_range (Some l) (Some r) li ri (plain_dec p)).
Proof.
  intros f l r li ri rx p Hl Hr Hp Hrx.
  destruct (d_neg l) eqn:Nl; [|exact (SS_nn f l r li ri rx p Hl Hr Nl Hp Hrx)].
  destruct f as [|f]; [discriminate|].
  cbn [rx_float_range] in Hrx.
  destruct (dec_lt r l) eqn:Erl; [discriminate|].
  destruct (dec_eq l r) eqn:Eeq.
  { destruct (li && ri) eqn:Elr; [|discriminate]. apply NOk_inj in Hrx. subst rx.
    apply andb_true_iff in Elr. destruct Elr as [-> ->].
    exact (eq_case 80 80 l r p Hl Hr Hp Eeq). }
  rewrite (is_neg_eq l (wb_dig _ _ Hl) (wb_nnz _ _ Hl)), Nl in Hrx.
  rewrite (is_neg_eq r (wb_dig _ _ Hr) (wb_nnz _ _ Hr)) in Hrx.
  set (K := Nat.max (Nat.max (flen l) (flen r)) (flen (plain_dec p))).
  assert (HKl : (flen l <= K)%nat) by (subst K; lia).
  assert (HKr : (flen r <= K)%nat) by (subst K; lia).
  assert (HKp : (flen (plain_dec p) <= K)%nat) by (subst K; lia).
  pose proof (pabs_ok p Hp) as Hpa.
  destruct (wb_negate 80 l Hl Nl) as [Hnl Nnl].
  rewrite (ifr_sc (Some l) (Some r) li ri (plain_dec p) K HKl HKr HKp).
  destruct (bound_sign 80 l K Hl HKl) as [[_ Sl]|[Sl _]]; [|congruence].
  pose proof (plain_sign p K Hp HKp) as Sp.
  destruct (d_neg r) eqn:Nr.
  - (* both negative *)
    destruct (wb_negate 80 r Hr Nr) as [Hnr Nnr].
    destruct (rx_float_range f (Some (dec_negate r)) (Some (dec_negate l)) ri li) as [a|] eqn:Ea;
      cbv beta iota delta [nbind] in Hrx; [|discriminate].
    apply NOk_inj in Hrx. subst rx. rewrite (minus_plain a p Hp).
    rewrite (SS_nn f _ _ ri li a (pabs p) Hnr Hnl Nnr Hpa Ea).
    rewrite (ifr_sc (Some (dec_negate r)) (Some (dec_negate l)) ri li (plain_dec (pabs p)) K HKr HKl HKp).
    rewrite !sc_negate.
    destruct (bound_sign 80 r K Hr HKr) as [[_ Sr]|[Sr _]]; [|congruence].
    destruct Sp as [(En & Es & Hpos)|(En & Ea' & Hnn)]; rewrite En.
    + rewrite Es. destruct li, ri; cbn [zrel]; split; intros H; try split; try reflexivity; lia.
    + split; [intros [H _]; discriminate|]. intros [_ H]. exfalso. destruct ri; cbn [zrel] in H; lia.
  - (* negative lower, non-negative upper bound *)
    destruct (rx_float_range f (Some dec_zero) (Some (dec_negate l)) false li) as [negp|] eqn:En0;
      cbv beta iota delta [nbind] in Hrx; [|discriminate].
    pose proof (SS_nn f _ _ false li negp (pabs p) (wb_zero 80 ltac:(lia)) Hnl eq_refl Hpa En0) as Hnegp.
    rewrite (ifr_sc (Some dec_zero) (Some (dec_negate l)) false li (plain_dec (pabs p)) K
               ltac:(cbn [oflen]; rewrite flen_zero; lia) HKl HKp) in Hnegp.
    rewrite sc_negate, sc_zero in Hnegp.
    destruct (bound_sign 80 r K Hr HKr) as [[Sr _]|[_ Sr]]; [congruence|].
    assert (Hrz : dec_is_zero r = true <-> dec_scaled r K = 0).
    { rewrite (is_zero_mag r K (wb_dig _ _ Hr) HKr).
      destruct (sc_nonneg r K (wb_dig _ _ Hr) HKr Nr) as [-> _]. reflexivity. }
    destruct (negb (dec_is_zero r) || ri) eqn:Ec.
    + destruct (rx_float_range f (Some dec_zero) (Some r) true ri) as [posp|] eqn:Ep0;
        cbv beta iota delta [nbind] in Hrx; [|discriminate].
      apply NOk_inj in Hrx. subst rx.
      pose proof (SS_nn f _ _ true ri posp p (wb_zero 80 ltac:(lia)) Hr eq_refl Hp Ep0) as Hposp.
      rewrite (ifr_sc (Some dec_zero) (Some r) true ri (plain_dec p) K
                 ltac:(cbn [oflen]; rewrite flen_zero; lia) HKr HKp) in Hposp.
      rewrite sc_zero in Hposp.
      rewrite mk_or2_lang, (minus_plain negp p Hp), Hnegp, Hposp.
      destruct Sp as [(En & Es & Hpos)|(En & Ea' & Hnn)]; rewrite En.
      * rewrite Es. destruct li, ri; cbn [zrel]; split; intros H; try lia;
          (left; split; [reflexivity | lia]).
      * destruct li, ri; cbn [zrel]; split; intros H; try lia; (right; lia).
    + apply NOk_inj in Hrx. subst rx. apply orb_false_iff in Ec. destruct Ec as [Ez ->].
      apply negb_false_iff in Ez. apply Hrz in Ez.
      rewrite (minus_plain negp p Hp), Hnegp.
      destruct Sp as [(En & Es & Hpos)|(En & Ea' & Hnn)]; rewrite En.
      * rewrite Es. destruct li; cbn [zrel]; split; intros H; try lia; (split; [reflexivity | lia]).
      * split; [intros [H _]; discriminate|]. cbn [zrel]. lia.
Qed.

(* ================================================================== *)
(* Part G: one-sided ranges *)
(* ================================================================== *)

(* ---------- one-sided ranges ---------- *)
Lemma pow10_wb : forall nd, (nd <= 79)%nat -> wb 80 (pow10_dec nd).
Proof.
  intros nd Hnd. unfold wb, pow10_dec, nnz. cbn [d_neg d_int d_frac last length].
  rewrite repeat_length.
  assert (Hz : is_digits (repeat 0 nd)).
  { unfold is_digits. apply Forall_forall. intros x Hx. apply repeat_spec in Hx. lia. }
  splits; try lia; try discriminate; [apply canon_cons; [lia | assumption] | apply is_digits_nil].
Qed.

Lemma sc_pow10 : forall nd K, dec_scaled (pow10_dec nd) K = P10 nd * P10 K.
Proof.
  intros nd K. rewrite sc_eq by (unfold flen, pow10_dec; cbn [d_frac length]; lia).
  unfold pow10_dec, mag. cbn [d_neg d_int d_frac]. rewrite fv_nil, V_cons, V_repeat0, repeat_length. lia.
Qed.

Lemma flen_pow10 : forall nd, flen (pow10_dec nd) = 0%nat.
Proof. reflexivity. Qed.

Lemma mag_ge_iff : forall d K t, dig d -> (flen d <= K)%nat ->
  (t <= V (d_int d) <-> t * P10 K <= mag d K).
Proof.
  intros d K t [_ HF] HK. unfold mag. pose proof (fv_bound _ K HF HK) as HB.
  pose proof (P10_pos K) as HP. split; intros H.
  - nia.
  - destruct (Z.lt_ge_cases (V (d_int d)) t) as [Hlt|Hge]; [exfalso | assumption].
    assert (P10 K * (t - V (d_int d) - 1) >= 0) by nia. nia.
Qed.

Lemma SN_nn : forall f l li ri rx p, wb 79 l -> d_neg l = false -> plain_ok p ->
  rx_float_range f (Some l) None li ri = NOk rx ->
  (re_lang rx (plain_bytes p) <-> in_float_range (Some l) None li ri (plain_dec p)).
Proof.
  intros f l li ri rx p Hl Nl Hp Hrx. destruct f as [|f]; [discriminate|].
  cbn [rx_float_range] in Hrx.
  pose proof (wb_dig _ _ Hl) as Dl.
  rewrite (is_neg_eq l Dl (wb_nnz _ _ Hl)), Nl in Hrx. cbv zeta in Hrx.
  pose proof (wb_mono 79 80 l ltac:(lia) Hl) as Hl80.
  destruct Hl as (HcIl & HFl & Hlastl & _ & Hlenl).
  assert (HVl : V (d_int l) < P10 80) by (apply canon_V_lt80; [assumption | unfold digit in *; lia]).
  unfold dec_int_part in Hrx. change (val_digits (d_int l) 0) with (V (d_int l)) in Hrx.
  rewrite (num_digits_canon (d_int l) HcIl HVl) in Hrx.
  unfold digit in *. set (nd := @length Z (d_int l)) in *.
  pose proof (canon_len_pos _ HcIl) as Hnd1. fold nd in Hnd1.
  destruct (rx_float_range f (Some l) (Some (pow10_dec nd)) li false) as [a|] eqn:Ea;
    cbv beta iota delta [nbind] in Hrx; [|discriminate].
  apply NOk_inj in Hrx. subst rx. rewrite mk_or2_lang.
  rewrite (SS_nn f l (pow10_dec nd) li false a p Hl80 (pow10_wb nd ltac:(lia)) Nl Hp Ea).
  rewrite (alt_int_optfrac _ (P10 nd) None p Hp).
  2:{ intros u. rewrite (big_tail_lang nd u Hnd1). unfold nn_lang. cbn [ub].
      split; intros (ds & H1 & H2 & H3); exists ds; tauto. }
  cbn [ub].
  set (K := Nat.max (flen l) (flen (plain_dec p))).
  assert (HKl : (flen l <= K)%nat) by (subst K; lia).
  assert (HKp : (flen (plain_dec p) <= K)%nat) by (subst K; lia).
  rewrite (ifr_sc (Some l) (Some (pow10_dec nd)) li false (plain_dec p) K HKl
             ltac:(cbn [oflen]; rewrite flen_pow10; lia) HKp).
  rewrite (ifr_sc (Some l) None li ri (plain_dec p) K HKl I HKp).
  rewrite sc_pow10. cbn [zrel].
  pose proof (P10_pos nd) as HPn. pose proof (P10_pos K) as HPK.
  assert (HT : 0 < P10 nd * P10 K) by nia.
  assert (Hsl : dec_scaled l K < P10 nd * P10 K).
  { destruct (sc_nonneg l K Dl HKl Nl) as [-> _].
    destruct (Z.lt_ge_cases (mag l K) (P10 nd * P10 K)) as [H|H]; [assumption | exfalso].
    apply (mag_ge_iff l K (P10 nd) Dl HKl) in H.
    pose proof (V_bound _ (canon_digits _ HcIl)) as HB. fold nd in HB. lia. }
  destruct (plain_sign p K Hp HKp) as [(En & Es & Hpos)|(En & Ea' & Hnn)]; rewrite En.
  - rewrite Es in *. split.
    + intros [[H _]|[H _]]; [split; [assumption | exact I] | discriminate].
    + intros [H _]. left. split; [assumption | lia].
  - pose proof (plain_dig p Hp) as Dp.
    pose proof (mag_ge_iff (plain_dec p) K (P10 nd) Dp HKp) as Hge.
    destruct (sc_nonneg (plain_dec p) K Dp HKp En) as [Esc _]. rewrite <- Esc in Hge.
    cbn [plain_dec d_int] in Hge. split.
    + intros [[H _]|(_ & H & _)]; (split; [|exact I]); [assumption|].
      apply Hge in H. destruct li; cbn [zrel]; lia.
    + intros [H _].
      destruct (Z.lt_ge_cases (dec_scaled (plain_dec p) K) (P10 nd * P10 K)) as [Hlt|Hge'].
      * left. now split.
      * right. split; [reflexivity|]. split; [now apply Hge | exact I].
Qed.

Lemma SN : forall f l li ri rx p, wb 79 l -> plain_ok p ->
  rx_float_range f (Some l) None li ri = NOk rx ->
  (re_lang rx (plain_bytes p) <-> in_float_range (Some l) None li ri (plain_dec p)).
Proof.
  intros f l li ri rx p Hl Hp Hrx.
  destruct (d_neg l) eqn:Nl; [|exact (SN_nn f l li ri rx p Hl Nl Hp Hrx)].
  destruct f as [|f]; [discriminate|]. cbn [rx_float_range] in Hrx.
  rewrite (is_neg_eq l (wb_dig _ _ Hl) (wb_nnz _ _ Hl)), Nl in Hrx.
  destruct (rx_float_range f (Some l) (Some dec_zero) li false) as [a|] eqn:Ea;
    cbv beta iota delta [nbind] in Hrx; [|discriminate].
  destruct (rx_float_range f (Some dec_zero) None true false) as [b|] eqn:Eb;
    cbv beta iota delta [nbind] in Hrx; [|discriminate].
  apply NOk_inj in Hrx. subst rx. rewrite mk_or2_lang.
  pose proof (wb_mono 79 80 l ltac:(lia) Hl) as Hl80.
  rewrite (SS f l dec_zero li false a p Hl80 (wb_zero 80 ltac:(lia)) Hp Ea).
  rewrite (SN_nn f dec_zero true false b p (wb_zero 79 ltac:(lia)) eq_refl Hp Eb).
  set (K := Nat.max (flen l) (flen (plain_dec p))).
  assert (HKl : (flen l <= K)%nat) by (subst K; lia).
  assert (HKp : (flen (plain_dec p) <= K)%nat) by (subst K; lia).
  assert (HK0 : oflen (Some dec_zero) K) by (cbn [oflen]; rewrite flen_zero; lia).
  rewrite (ifr_sc (Some l) (Some dec_zero) li false (plain_dec p) K HKl HK0 HKp).
  rewrite (ifr_sc (Some dec_zero) None true false (plain_dec p) K HK0 I HKp).
  rewrite (ifr_sc (Some l) None li ri (plain_dec p) K HKl I HKp).
  rewrite sc_zero.
  destruct (bound_sign 80 l K Hl80 HKl) as [[_ Sl]|[Sl _]]; [|congruence].
  destruct li; cbn [zrel]; split; intros H; try (split; [lia | exact I]);
    (destruct (Z.lt_ge_cases (dec_scaled (plain_dec p) K) 0); [left | right]; (split; [lia | first [exact I | lia]])).
Qed.

Lemma zero_alt : forall p K, plain_ok p -> (flen (plain_dec p) <= K)%nat ->
  (re_lang (Cat zero_ch (opt (Cat dot (Rep zero_ch 1 None)))) (plain_bytes p) <->
   dec_scaled (plain_dec p) K = 0).
Proof.
  intros p K Hp HK.
  assert (HCI : CI zero_ch).
  { intros u Hu. apply zero_ch_lang in Hu. destruct Hu as (d & -> & ->). exists [0].
    split; [apply canon_one; lia | reflexivity]. }
  rewrite (cat_plain _ _ p Hp HCI (TL_opt _ (TL_cat_dot _))).
  pose proof (plain_dig p Hp) as Dp. pose proof (plain_nnz p Hp) as Zp.
  pose proof Hp as (HcI & HF & Hnodot & Hdot & _).
  rewrite tail_opt_dot, (rep_zero1_dstr _ HF).
  assert (HI0 : re_lang zero_ch (dstr (p_int p)) <-> V (p_int p) = 0).
  { rewrite (canon_zero_iff _ HcI), zero_ch_lang. split.
    - intros (d & -> & E). change [dchar 0] with (dstr [0]) in E.
      apply dstr_inj in E; [assumption | now apply canon_digits | apply is_digits_one; lia].
    - intros ->. now exists 0. }
  rewrite HI0.
  assert (Hz : dec_is_zero (plain_dec p) = true <-> V (p_int p) = 0 /\ V (p_frac p) = 0).
  { unfold dec_is_zero. cbn [plain_dec d_int d_frac].
    rewrite andb_true_iff, !forallb_zero; [reflexivity | assumption | now apply canon_digits]. }
  pose proof (is_zero_mag (plain_dec p) K Dp HK) as Hm. rewrite Hz in Hm.
  rewrite (sc_eq (plain_dec p) K HK). cbn [plain_dec d_neg] in *.
  pose proof (V_bound _ HF) as HBF.
  destruct (p_neg p) eqn:En.
  - split; [intros [H _]; discriminate|]. intros H. exfalso.
    assert (E0 : mag (plain_dec p) K = 0) by lia. apply Hm in E0. apply Hz in E0.
    unfold nnz in Zp. cbn [plain_dec d_neg] in Zp. rewrite (Zp En) in E0. discriminate.
  - rewrite <- Hm. split.
    + intros (_ & H1 & [H2|[_ [_ H2]]]); (split; [assumption|]); [|lia].
      rewrite (Hnodot H2). reflexivity.
    + intros [H1 H2]. split; [reflexivity|]. split; [assumption|].
      destruct (p_dot p) eqn:Ed; [right | now left]. split; [reflexivity|]. split; [now apply Hdot | lia].
Qed.

Lemma NS : forall f r li ri rx p, wb 79 r -> plain_ok p ->
  rx_float_range f None (Some r) li ri = NOk rx ->
  (re_lang rx (plain_bytes p) <-> in_float_range None (Some r) li ri (plain_dec p)).
Proof.
  intros f r li ri rx p Hr Hp Hrx. destruct f as [|f]; [discriminate|].
  cbn [rx_float_range] in Hrx.
  pose proof (wb_mono 79 80 r ltac:(lia) Hr) as Hr80.
  pose proof (wb_dig _ _ Hr) as Dr.
  set (K := Nat.max (flen r) (flen (plain_dec p))).
  assert (HKr : (flen r <= K)%nat) by (subst K; lia).
  assert (HKp : (flen (plain_dec p) <= K)%nat) by (subst K; lia).
  assert (HK0 : oflen (Some dec_zero) K) by (cbn [oflen]; rewrite flen_zero; lia).
  pose proof (pabs_ok p Hp) as Hpa.
  rewrite (ifr_sc None (Some r) li ri (plain_dec p) K I HKr HKp).
  pose proof (plain_sign p K Hp HKp) as Sp.
  assert (Hpos : forall a, rx_float_range f (Some dec_zero) None false false = NOk a ->
            (re_lang (Cat minus a) (plain_bytes p) <-> dec_scaled (plain_dec p) K < 0)).
  { intros a Ea. rewrite (minus_plain a p Hp).
    rewrite (SN_nn f dec_zero false false a (pabs p) (wb_zero 79 ltac:(lia)) eq_refl Hpa Ea).
    rewrite (ifr_sc (Some dec_zero) None false false (plain_dec (pabs p)) K HK0 I HKp).
    rewrite sc_zero. cbn [zrel].
    destruct Sp as [(En & Es & Hp0)|(En & Ea' & Hnn)]; rewrite En.
    - rewrite Es. split; [lia | intros _; split; [reflexivity | split; [lia | exact I]]].
    - split; [intros [H _]; discriminate | lia]. }
  destruct (dec_is_zero r) eqn:Ez.
  - assert (Sr : dec_scaled r K = 0).
    { rewrite (sc_eq r K HKr). apply (is_zero_mag r K Dr HKr) in Ez. rewrite Ez. destruct (d_neg r); lia. }
    rewrite Sr.
    destruct (rx_float_range f (Some dec_zero) None false false) as [a|] eqn:Ea;
      cbv beta iota delta [nbind] in Hrx; [|discriminate].
    cbv zeta in Hrx. destruct ri; apply NOk_inj in Hrx; subst rx.
    + rewrite mk_or2_lang, (Hpos a eq_refl), (zero_alt p K Hp HKp). cbn [zrel].
      split; intros H; [split; [exact I | lia] | destruct H as [_ H]; lia].
    + rewrite (Hpos a eq_refl). cbn [zrel]. tauto.
  - rewrite (is_neg_eq r Dr (wb_nnz _ _ Hr)) in Hrx.
    destruct (d_neg r) eqn:Nr; cbn [negb] in Hrx.
    + destruct (wb_negate 79 r Hr Nr) as [Hnr Nnr].
      destruct (rx_float_range f (Some (dec_negate r)) None ri false) as [a|] eqn:Ea;
        cbv beta iota delta [nbind] in Hrx; [|discriminate].
      apply NOk_inj in Hrx. subst rx. rewrite (minus_plain a p Hp).
      rewrite (SN_nn f (dec_negate r) ri false a (pabs p) Hnr Nnr Hpa Ea).
      rewrite (ifr_sc (Some (dec_negate r)) None ri false (plain_dec (pabs p)) K HKr I HKp).
      rewrite sc_negate.
      destruct (bound_sign 80 r K Hr80 HKr) as [[_ Sr]|[Sr _]]; [|congruence].
      destruct Sp as [(En & Es & Hp0)|(En & Ea' & Hnn)]; rewrite En.
      * rewrite Es. destruct ri; cbn [zrel]; split; intros H; try (split; [exact I | lia]);
          (split; [reflexivity | split; [lia | exact I]]).
      * split; [intros [H _]; discriminate|]. intros [_ H]. destruct ri; cbn [zrel] in H; lia.
    + destruct (rx_float_range f (Some dec_zero) None false false) as [a|] eqn:Ea;
        cbv beta iota delta [nbind] in Hrx; [|discriminate].
      destruct (rx_float_range f (Some dec_zero) (Some r) true ri) as [b|] eqn:Eb;
        cbv beta iota delta [nbind] in Hrx; [|discriminate].
      apply NOk_inj in Hrx. subst rx. rewrite mk_or2_lang, (Hpos a eq_refl).
      rewrite (SS_nn f dec_zero r true ri b p (wb_zero 80 ltac:(lia)) Hr80 eq_refl Hp Eb).
      rewrite (ifr_sc (Some dec_zero) (Some r) true ri (plain_dec p) K HK0 HKr HKp).
      rewrite sc_zero.
      destruct (bound_sign 80 r K Hr80 HKr) as [[Sr _]|[_ Sr]]; [congruence|].
      destruct ri; cbn [zrel]; split; intros H; try (split; [exact I | lia]);
        (destruct (Z.lt_ge_cases (dec_scaled (plain_dec p) K) 0); [left; lia | right; lia]).
Qed.

Lemma NN : forall p, plain_ok p -> re_lang any_float (plain_bytes p).
Proof.
  intros p (HcI & HF & _ & Hdot & _). rewrite plain_bytes_eq. unfold any_float.
  exists ((if p_neg p then [45%N] else []) ++ dstr (p_int p)), (ptail (p_dot p) (p_frac p) ++ []).
  split; [now rewrite app_nil_r, app_assoc|]. split.
  - apply any_int_lang. exists (p_int p). split; [exact HcI|]. destruct (p_neg p); [now right | now left].
  - exists (ptail (p_dot p) (p_frac p)), []. split; [reflexivity|]. split.
    + now apply opt_frac_tail.
    + apply opt_lang. now left.
Qed.

(* ================================================================== *)
(* Part H: the stated theorems; non-empty ranges compile *)
(* ================================================================== *)

(*FIXED*) (* the decimal range regex accepts a plain decimal literal exactly when its value is
   inside the bounds *)
Theorem float_range_exact : forall l r li ri rx p,
  obound_ok l -> obound_ok r -> plain_ok p ->
  rx_float_range float_fuel l r li ri = NOk rx ->
  (re_lang rx (plain_bytes p) <-> in_float_range l r li ri (plain_dec p)).
Proof.
  intros [l|] [r|] li ri rx p Hl Hr Hp Hrx; cbn [obound_ok] in *.
  - apply (SS float_fuel l r li ri rx p); try assumption;
      (apply (wb_mono 18 80); [lia | now apply bound_wb]).
  - apply (SN float_fuel l li ri rx p); try assumption.
    apply (wb_mono 18 79); [lia | now apply bound_wb].
  - apply (NS float_fuel r li ri rx p); try assumption.
    apply (wb_mono 18 79); [lia | now apply bound_wb].
  - revert Hrx. change float_fuel with (S 39). generalize 39%nat. intros f Hrx.
    cbn [rx_float_range] in Hrx. apply NOk_inj in Hrx. subst rx.
    split; [intros _; split; exact I | intros _; now apply NN].
Qed.

(* ---------- non-empty ranges compile ---------- *)
Lemma lexi_range_ok : forall ld rd li ri, is_digits ld -> is_digits rd -> length ld = length rd ->
  V ld < V rd -> exists rx, lexi_range ld rd li ri = NOk rx.
Proof.
  induction ld as [|l0 lrest IH]; intros [|r0 rrest] li ri Hld Hrd Hlen HV; try discriminate.
  - cbn [length] in Hlen. injection Hlen as Hlen.
    apply is_digits_cons in Hld. destruct Hld as [Hl0 Hlrest].
    apply is_digits_cons in Hrd. destruct Hrd as [Hr0 Hrrest].
    apply V_cons_lt in HV; [|assumption|assumption|assumption].
    cbn [lexi_range].
    destruct (list_eqb Z.eqb (l0 :: lrest) (r0 :: rrest)) eqn:Eeq.
    { apply list_eqb_Z_eq in Eeq. injection Eeq as -> ->. lia. }
    destruct (Z.eqb_spec l0 r0) as [E0|N0].
    + destruct (IH rrest li ri Hlrest Hrrest Hlen) as (r & ->); [destruct HV as [?|[_ ?]]; [lia | assumption]|].
      cbv beta iota delta [nbind]. eexists; reflexivity.
    + destruct (Z.leb_spec r0 l0) as [Hle|Hlt]; [lia|]. cbv zeta.
      destruct (trim_spec rrest) as (k & _ & Hlast).
      destruct (trim_zeros rrest) as [|x xs] eqn:Et.
      * destruct ri; [cbn [lexi_0_to_x nbind]|]; eexists; reflexivity.
      * destruct (lexi_0_to_x_ok (x :: xs) ri ltac:(discriminate) Hlast) as (r & Er).
        destruct ri; rewrite Er; cbv beta iota delta [nbind]; eexists; reflexivity.
Qed.

Lemma p3_ok : forall r (ri : bool) (p1 p2 : list regex), last (d_frac r) 1 <> 0 ->
  exists rx,
  match d_frac r with
  | [] => if ri then NOk (mk_or (p1 ++ p2 ++ [Cat (dlit (digits_of (dec_int_part r))) (opt (Cat dot (Rep (ch 48%N) 1 None)))]))
          else NOk (mk_or (p1 ++ p2))
  | _ :: _ => nbind (lexi_0_to_x (d_frac r) ri) (fun r0 =>
                NOk (mk_or (p1 ++ p2 ++ [Cat (dlit (digits_of (dec_int_part r))) (opt (Cat dot r0))])))
  end = NOk rx.
Proof.
  intros r ri p1 p2 Hlast. destruct (d_frac r) as [|x xs] eqn:EF.
  - destruct ri; eexists; reflexivity.
  - destruct (lexi_0_to_x_ok (x :: xs) ri ltac:(discriminate) Hlast) as (r0 & ->).
    cbv beta iota delta [nbind]. eexists; reflexivity.
Qed.

Lemma small_i64 : forall ds, is_digits ds -> (length ds <= 18)%nat -> 0 <= V ds /\ V ds + 1 < 2 ^ 63.
Proof.
  intros ds Hd Hlen. pose proof (V_bound ds Hd) as HB. pose proof (P10_le _ 18 Hlen) as HP.
  assert (H : P10 18 + 1 < 2 ^ 63) by (vm_compute; reflexivity). lia.
Qed.

Lemma SS_nn_ok : forall f l r li ri, wb 18 l -> wb 18 r -> d_neg l = false ->
  dec_lt r l = false -> dec_eq l r = false ->
  exists rx, rx_float_range (S f) (Some l) (Some r) li ri = NOk rx.
Proof.
  intros f l r li ri Hl Hr Nl Erl Eeq. cbn [rx_float_range]. rewrite Erl, Eeq.
  pose proof (wb_dig _ _ Hl) as Dl. pose proof (wb_dig _ _ Hr) as Dr.
  rewrite (is_neg_eq l Dl (wb_nnz _ _ Hl)), Nl. cbv zeta.
  destruct (lt_lex l r Dl Dr (wb_nnz _ _ Hr) Nl Erl Eeq) as [Nr Hlr].
  destruct Hl as (HcIl & HFl & Hlastl & _ & Hlenl). destruct Hr as (HcIr & HFr & Hlastr & _ & Hlenr).
  destruct (small_i64 _ (canon_digits _ HcIl) Hlenl) as [HL0 HL63].
  destruct (small_i64 _ (canon_digits _ HcIr) Hlenr) as [HR0 HR63].
  unfold dec_int_part.
  change (val_digits (d_int l) 0) with (V (d_int l)).
  change (val_digits (d_int r) 0) with (V (d_int r)).
  destruct (Z.eqb_spec (V (d_int l)) (V (d_int r))) as [ELR|NLR].
  - assert (Hflt : frac_lt (d_frac l) (d_frac r)) by (destruct Hlr as [?|[_ ?]]; [lia | assumption]).
    set (n := Nat.max (@length Z (d_frac l)) (@length Z (d_frac r))).
    apply (frac_lt_fv _ _ n) in Hflt; [| subst n; lia | subst n; lia]. unfold fv in Hflt.
    match goal with |- context [lexi_range ?a ?b li ri] =>
      destruct (lexi_range_ok a b li ri) as (lr & ->) end.
    + now apply is_digits_pad.
    + now apply is_digits_pad.
    + rewrite !length_pad. unfold digit. lia.
    + rewrite !V_pad. exact Hflt.
    + cbv beta iota delta [nbind].
      match goal with |- context [if ?c then _ else _] => destruct c end; eexists; reflexivity.
  - assert (HLR : V (d_int l) < V (d_int r)) by (destruct Hlr as [?|[? _]]; [assumption | contradiction]).
    destruct (match d_frac l with
              | [] => if li then (V (d_int l), [])
                      else (V (d_int l) + 1,
                            [Cat (dlit (digits_of (V (d_int l)))) (Cat dot (lexi_x_to_9 (d_frac l) li))])
              | _ :: _ => (V (d_int l) + 1,
                           [Cat (dlit (digits_of (V (d_int l)))) (Cat dot (lexi_x_to_9 (d_frac l) li))])
              end) as [L1 p1] eqn:Epr.
    assert (HL1 : V (d_int l) <= L1 <= V (d_int l) + 1).
    { destruct (d_frac l), li; injection Epr as <- _; lia. }
    clear Epr.
    destruct (Z.ltb_spec L1 (V (d_int r))) as [Hlt|Hge].
    + destruct (int_range_succeeds L1 (V (d_int r) - 1)) as (inner & ->);
        [unfold i64_ok; lia | unfold i64_ok; lia | lia |].
      cbv beta iota delta [nbind]. apply p3_ok. exact Hlastr.
    + cbv beta iota delta [nbind]. apply p3_ok. exact Hlastr.
Qed.

Lemma dec_lt_false_of : forall a b K, (flen a <= K)%nat -> (flen b <= K)%nat ->
  dec_scaled b K <= dec_scaled a K -> dec_lt a b = false.
Proof. intros a b K Ha Hb H. now apply (dec_lt_false_sc a b K Ha Hb). Qed.

Lemma dec_eq_false_of : forall a b K, (flen a <= K)%nat -> (flen b <= K)%nat ->
  dec_scaled a K <> dec_scaled b K -> dec_eq a b = false.
Proof.
  intros a b K Ha Hb H. destruct (dec_eq a b) eqn:E; [|reflexivity].
  apply (dec_eq_sc a b K Ha Hb) in E. contradiction.
Qed.

Lemma SS_ok : forall f l r li ri, wb 18 l -> wb 18 r -> dec_lt r l = false -> dec_eq l r = false ->
  exists rx, rx_float_range (S (S f)) (Some l) (Some r) li ri = NOk rx.
Proof.
  intros f l r li ri Hl Hr Erl Eeq.
  destruct (d_neg l) eqn:Nl; [|exact (SS_nn_ok (S f) l r li ri Hl Hr Nl Erl Eeq)].
  remember (S f) as f' eqn:Ef. cbn [rx_float_range]. rewrite Erl, Eeq.
  rewrite (is_neg_eq l (wb_dig _ _ Hl) (wb_nnz _ _ Hl)), Nl.
  rewrite (is_neg_eq r (wb_dig _ _ Hr) (wb_nnz _ _ Hr)).
  set (K := Nat.max (flen l) (flen r)).
  assert (HKl : (flen l <= K)%nat) by (subst K; lia).
  assert (HKr : (flen r <= K)%nat) by (subst K; lia).
  assert (HK0 : (flen dec_zero <= K)%nat) by (rewrite flen_zero; lia).
  pose proof (proj1 (dec_lt_false_sc r l K HKr HKl) Erl) as Hle.
  assert (Hne : dec_scaled l K <> dec_scaled r K).
  { intros E. apply (dec_eq_sc l r K HKl HKr) in E. congruence. }
  destruct (bound_sign 18 l K Hl HKl) as [[_ Sl]|[Sl _]]; [|congruence].
  destruct (wb_negate 18 l Hl Nl) as [Hnl Nnl].
  destruct (d_neg r) eqn:Nr.
  - destruct (wb_negate 18 r Hr Nr) as [Hnr Nnr]. subst f'.
    destruct (SS_nn_ok f (dec_negate r) (dec_negate l) ri li Hnr Hnl Nnr) as (a & ->).
    + apply (dec_lt_false_of _ _ K); [assumption | assumption |]. rewrite !sc_negate. lia.
    + apply (dec_eq_false_of _ _ K); [assumption | assumption |]. rewrite !sc_negate. lia.
    + cbv beta iota delta [nbind]. eexists; reflexivity.
  - subst f'.
    destruct (SS_nn_ok f dec_zero (dec_negate l) false li (wb_zero 18 ltac:(lia)) Hnl eq_refl) as (negp & ->).
    + apply (dec_lt_false_of _ _ K); [assumption | assumption |]. rewrite sc_negate, sc_zero. lia.
    + apply (dec_eq_false_of _ _ K); [assumption | assumption |]. rewrite sc_negate, sc_zero. lia.
    + cbv beta iota delta [nbind].
      destruct (bound_sign 18 r K Hr HKr) as [[Sr _]|[_ Sr]]; [congruence|].
      destruct (negb (dec_is_zero r) || ri) eqn:Ec; [|eexists; reflexivity].
      destruct (Z.eq_dec (dec_scaled r K) 0) as [Er0|Er0].
      * assert (Ez : dec_is_zero r = true).
        { apply (is_zero_mag r K (wb_dig _ _ Hr) HKr).
          destruct (sc_nonneg r K (wb_dig _ _ Hr) HKr Nr) as [E _]. lia. }
        rewrite Ez in Ec. cbn [negb orb] in Ec. subst ri.
        cbn [rx_float_range].
        rewrite (dec_lt_false_of r dec_zero K HKr HK0 ltac:(rewrite sc_zero; lia)).
        rewrite (proj2 (dec_eq_sc dec_zero r K HK0 HKr) ltac:(rewrite sc_zero; lia)).
        cbn [andb nbind]. eexists; reflexivity.
      * destruct (SS_nn_ok f dec_zero r true ri (wb_zero 18 ltac:(lia)) Hr eq_refl) as (posp & ->).
        -- apply (dec_lt_false_of _ _ K); [assumption | assumption |]. rewrite sc_zero. lia.
        -- apply (dec_eq_false_of _ _ K); [assumption | assumption |]. rewrite sc_zero. lia.
        -- cbv beta iota delta [nbind]. eexists; reflexivity.
Qed.

(*FIXED*) (* bounds with no satisfying value are rejected when compiled, all others compile *)
Theorem float_range_error_iff_empty : forall l r li ri,
  bound_ok l -> bound_ok r ->
  (rx_float_range float_fuel (Some l) (Some r) li ri = NErr <->
   (dec_lt r l = true \/ (dec_eq l r = true /\ (li && ri) = false))).
Proof.
  intros l r li ri Hl Hr. apply bound_wb in Hl. apply bound_wb in Hr. split.
  - intros Herr. destruct (dec_lt r l) eqn:Erl; [now left | right].
    destruct (dec_eq l r) eqn:Eeq.
    + split; [reflexivity|]. destruct (li && ri) eqn:E; [exfalso | reflexivity].
      revert Herr. change float_fuel with (S 39). generalize 39%nat. intros f Herr.
      cbn [rx_float_range] in Herr. rewrite Erl, Eeq, E in Herr. discriminate.
    + exfalso. destruct (SS_ok 38 l r li ri Hl Hr Erl Eeq) as (rx & Hrx).
      change float_fuel with (S (S 38)) in Herr. congruence.
  - change float_fuel with (S 39). generalize 39%nat. intros f [H|[H1 H2]]; cbn [rx_float_range].
    + rewrite H. reflexivity.
    + set (K := Nat.max (flen l) (flen r)).
      assert (HKl : (flen l <= K)%nat) by (subst K; lia).
      assert (HKr : (flen r <= K)%nat) by (subst K; lia).
      pose proof (proj1 (dec_eq_sc l r K HKl HKr) H1) as E.
      rewrite (dec_lt_false_of r l K HKr HKl ltac:(lia)), H1, H2. reflexivity.
Qed.

Print Assumptions float_range_exact.
Print Assumptions float_range_error_iff_empty.
