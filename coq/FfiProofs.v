(* FfiProofs.v — the C-API mask copies stay inside the engine's mask and the
   caller's buffer and write exactly the bits of real token ids. *)
From LLG Require Import Base Svob SvobProofs Ffi.

Lemma read_words_some : forall src k, (k <= length src)%nat -> read_words src k = Some (firstn k src).
Proof. intros src k H. unfold read_words. apply Nat.leb_le in H. rewrite H. reflexivity. Qed.

(* never reads outside the engine's own mask *)
Theorem par_copy_in_bounds : forall mask dest_len is_stop eos,
  par_copy false mask dest_len is_stop eos <> None.
Proof.
  intros mask dest_len is_stop eos. unfold par_copy.
  destruct mask as [m|].
  - rewrite read_words_some by apply Nat.le_min_l. discriminate.
  - discriminate.
Qed.

(* the version with the bit length does read outside: a 40-token vocabulary
   (2 mask words) and a 3-word destination *)
Theorem par_copy_bitlen_refuted :
  exists m dest_len, svob_wf m /\ par_copy true (Some m) dest_len false 0 = None.
Proof.
  exists (alloc_with_capacity 40 41), 3%nat. split.
  - apply alloc_with_capacity_wf. reflexivity.
  - vm_compute. reflexivity.
Qed.

Lemma length_update_nth : forall {A} (l : list A) i f, length (update_nth l i f) = length l.
Proof. induction l as [|x l IH]; intros [|i] f; cbn; auto. Qed.

(* writes the whole destination, and nothing else *)
Theorem par_copy_length : forall ub mask dest_len is_stop eos d,
  par_copy ub mask dest_len is_stop eos = Some d -> length d = dest_len.
Proof.
  intros ub mask dest_len is_stop eos d. unfold par_copy.
  destruct mask as [m|].
  - set (k := Nat.min _ dest_len). unfold read_words.
    destruct (Nat.leb k (length (words m))) eqn:Hk; [|discriminate].
    apply Nat.leb_le in Hk.
    assert (Hkd : (k <= dest_len)%nat) by (subst k; apply Nat.le_min_r).
    intros H. injection H as <-.
    destruct (is_stop && _); rewrite ?length_update_nth, app_length, firstn_length, repeat_length; lia.
  - intros H. injection H as <-.
    destruct (is_stop && _); rewrite ?length_update_nth; cbn; rewrite repeat_length; lia.
Qed.

Lemma nth_update_nth_same : forall (l : list N) i f, (i < length l)%nat ->
  nth i (update_nth l i f) 0 = f (nth i l 0).
Proof. induction l as [|x l IH]; intros [|i] f H; cbn in *; try lia; auto. apply IH. lia. Qed.
Lemma nth_update_nth_other : forall (l : list N) i j f, i <> j ->
  nth j (update_nth l i f) 0 = nth j l 0.
Proof. induction l as [|x l IH]; intros [|i] [|j] f H; cbn; auto; try congruence. Qed.

Lemma nth_firstn_app_repeat : forall (ws : list N) k n j, (k <= length ws)%nat ->
  nth j (firstn k ws ++ repeat 0 n) 0 = if Nat.ltb j k then nth j ws 0 else 0.
Proof.
  intros ws k n j Hk. destruct (Nat.ltb_spec j k) as [Hj|Hj].
  - rewrite app_nth1 by (rewrite firstn_length; lia).
    revert ws j Hk Hj. induction k as [|k IH]; intros ws j Hk Hj; [lia|].
    destruct ws as [|w ws]; cbn in *; [lia|]. destruct j; auto. apply IH; lia.
  - rewrite app_nth2 by (rewrite firstn_length; lia).
    destruct (Nat.ltb_spec (j - length (firstn k ws)) n) as [H|H].
    + apply nth_repeat.
    + apply nth_overflow. rewrite repeat_length. lia.
Qed.

(* bit-level content of the destination without stop: bit i is the mask's bit i
   when it lies in a copied word, 0 otherwise *)
Theorem par_copy_bits : forall m dest_len eos i,
  par_copy false (Some m) dest_len false eos =
    Some (firstn (Nat.min (length (words m)) dest_len) (words m)
          ++ repeat 0 (dest_len - Nat.min (length (words m)) dest_len)) /\
  forall d, par_copy false (Some m) dest_len false eos = Some d ->
    dest_bit d i = (Nat.ltb (N.to_nat (i / 32)) (Nat.min (length (words m)) dest_len)) && get m i.
Proof.
  intros m dest_len eos i. unfold par_copy.
  rewrite read_words_some by apply Nat.le_min_l. cbn [andb]. split; [reflexivity|].
  intros d H. injection H as <-. unfold dest_bit, get, word_at.
  rewrite nth_firstn_app_repeat by apply Nat.le_min_l.
  destruct (Nat.ltb _ _); cbn [andb]; [reflexivity| apply N.bits_0].
Qed.

(* only bits of real token ids: a mask without excess bits yields a destination
   without bits at or above the vocabulary size (stop aside) *)
Theorem par_copy_no_excess : forall m dest_len eos d i,
  no_excess m -> par_copy false (Some m) dest_len false eos = Some d ->
  vsize m <= i -> dest_bit d i = false.
Proof.
  intros m dest_len eos d i Hne Hd Hi.
  destruct (par_copy_bits m dest_len eos i) as [_ Hb]. rewrite (Hb d Hd).
  rewrite (Hne i Hi). apply andb_false_r.
Qed.

Lemma testbit_set_bit : forall w k j, N.testbit (N.lor w (N.shiftl 1 k)) j = N.testbit w j || (j =? k).
Proof.
  intros w k j. rewrite N.lor_spec. f_equal.
  rewrite N.shiftl_1_l. rewrite N.pow2_bits_eqb. apply N.eqb_sym.
Qed.

Lemma same_word_bit : forall i eos, i / 32 = eos / 32 -> ((i mod 32 =? eos mod 32) = (i =? eos)).
Proof.
  intros i eos Hw. destruct (N.eqb_spec i eos) as [->|Hne].
  - apply N.eqb_refl.
  - apply N.eqb_neq. intro Hm. apply Hne.
    rewrite (N.div_mod i 32), (N.div_mod eos 32) by discriminate. congruence.
Qed.

(* on stop the EOS bit is added when it fits, and only that bit changes *)
Lemma stop_bit : forall (d1 : list N) eos i, (N.to_nat (eos / 32) < length d1)%nat ->
  dest_bit (update_nth d1 (N.to_nat (eos / 32)) (fun w => N.lor w (N.shiftl 1 (eos mod 32)))) i =
  dest_bit d1 i || (i =? eos).
Proof.
  intros d1 eos i Hfit. unfold dest_bit.
  destruct (N.eqb_spec (i / 32) (eos / 32)) as [Hw|Hw].
  - rewrite Hw, nth_update_nth_same by exact Hfit. cbv beta.
    rewrite testbit_set_bit. rewrite (same_word_bit i eos Hw). reflexivity.
  - rewrite nth_update_nth_other by (intro Hx; apply Hw; lia).
    destruct (N.eqb_spec i eos) as [->|Hne]; [congruence|]. now rewrite orb_false_r.
Qed.

Theorem par_copy_stop : forall mask dest_len eos d0 d i,
  par_copy false mask dest_len false eos = Some d0 ->
  par_copy false mask dest_len true eos = Some d ->
  dest_bit d i = dest_bit d0 i || ((i =? eos) && Nat.ltb (N.to_nat (eos / 32)) dest_len).
Proof.
  intros mask dest_len eos d0 d i H0 H1.
  assert (Hlen : length d0 = dest_len) by (eapply par_copy_length; eauto).
  unfold par_copy in H0, H1.
  destruct (match mask with
            | Some m => _
            | None => _ end) as [k copied] eqn:Hc.
  destruct copied as [ws|]; [|discriminate].
  cbn [andb] in H0, H1. injection H0 as H0. subst d0.
  destruct (Nat.ltb_spec (N.to_nat (eos / 32)) dest_len) as [Hfit|Hfit]; injection H1 as H1; subst d.
  - rewrite stop_bit by (rewrite Hlen; exact Hfit). now rewrite andb_true_r.
  - now rewrite andb_false_r, orb_false_r.
Qed.

(* llg_matcher_compute_mask_into with the advertised size succeeds on a token
   set (capacity vocab+1 bits) and returns exactly the mask's words for the vocabulary *)
Theorem mask_into_exact : forall vob vocab,
  vsize vob = vocab -> nwords vob = div_ceil32 (vocab + 1) ->
  mask_into vob (mask_elts vocab) (N.of_nat (4 * mask_elts vocab)) =
    Ok (firstn (mask_elts vocab) (words vob)).
Proof.
  intros vob vocab Hs Hn. unfold mask_into.
  assert (Hle : (mask_elts vocab <= length (words vob))%nat).
  { unfold mask_elts, nwords, lenN in *. apply (f_equal N.to_nat) in Hn.
    rewrite Nat2N.id in Hn. rewrite Hn. unfold div_ceil32.
    assert (Hd : (vocab + 31) / 32 <= (vocab + 1 + 31) / 32) by (apply N.div_le_mono; lia).
    lia. }
  apply Nat.ltb_ge in Hle. rewrite Hle. rewrite N.eqb_refl. reflexivity.
Qed.

Theorem mask_into_wrong_size : forall vob n len,
  N.of_nat (4 * n) <> len -> mask_into vob n len <> Ok (firstn n (words vob)).
Proof.
  intros vob n len H. unfold mask_into.
  destruct (Nat.ltb _ _); [discriminate|].
  apply N.eqb_neq in H. rewrite H. discriminate.
Qed.

Theorem ff_copy_in_bounds : forall v n, (length (fst (ff_copy v n)) <= n)%nat /\
  snd (ff_copy v n) = N.of_nat (length (fst (ff_copy v n))) /\
  (exists rest, v = fst (ff_copy v n) ++ rest).
Proof.
  intros v n. unfold ff_copy; cbn [fst snd]. rewrite firstn_length.
  split; [|split].
  - apply Nat.le_trans with (Nat.min (length v) n); [apply Nat.le_min_l | apply Nat.le_min_r].
  - f_equal. symmetry. apply Nat.min_l. apply Nat.le_min_l.
  - exists (skipn (Nat.min (length v) n) v). symmetry. apply firstn_skipn.
Qed.

Theorem commit_guard_spec : forall vocab t,
  commit_guard vocab t = if t <? vocab then Some t else None.
Proof. reflexivity. Qed.
