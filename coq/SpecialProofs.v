(* SpecialProofs.v — negated token ranges denote exactly the complement within
   the vocabulary.  STATEMENTS MARKED (*FIXED*) MUST NOT CHANGE. *)
From LLG Require Import Base Special.

(* ---------- membership helpers ---------- *)

Lemma in_ranges_cons : forall s e r t,
  in_ranges ((s, e) :: r) t = ((s <=? t) && (t <=? e)) || in_ranges r t.
Proof. reflexivity. Qed.

Lemma in_ranges_app : forall a b t,
  in_ranges (a ++ b) t = in_ranges a t || in_ranges b t.
Proof. intros; apply existsb_app. Qed.

Lemma in_ranges_cons_true : forall s e r t,
  in_ranges ((s, e) :: r) t = true <-> (s <= t /\ t <= e) \/ in_ranges r t = true.
Proof.
  intros. rewrite in_ranges_cons, orb_true_iff, andb_true_iff, !N.leb_le. tauto.
Qed.

Lemma in_ranges_cons_false : forall s e r t,
  in_ranges ((s, e) :: r) t = false <-> ~ (s <= t /\ t <= e) /\ in_ranges r t = false.
Proof.
  intros. rewrite in_ranges_cons, orb_false_iff, andb_false_iff, !N.leb_gt.
  split; intros [H1 H2]; (split; [lia | exact H2]).
Qed.

Lemma in_ranges_snoc_true : forall acc s e t,
  in_ranges (acc ++ [(s, e)]) t = true <-> in_ranges acc t = true \/ (s <= t /\ t <= e).
Proof.
  intros. rewrite in_ranges_app, orb_true_iff, in_ranges_cons_true. simpl.
  intuition discriminate.
Qed.

Lemma in_ranges_below : forall l m t,
  Forall (fun y => m <= fst y) l -> t < m -> in_ranges l t = false.
Proof.
  induction l as [|[s e] l IH]; intros m t HF Hlt; [reflexivity|].
  inversion HF; subst. simpl in *. apply in_ranges_cons_false. split; [lia|eauto].
Qed.

(* ---------- sorting ---------- *)

Fixpoint sorted_fst (l : list (N * N)) : Prop :=
  match l with
  | [] => True
  | x :: l' => Forall (fun y => fst x <= fst y) l' /\ sorted_fst l'
  end.

Lemma ins_range_Forall : forall (P : N * N -> Prop) r l,
  Forall P (ins_range r l) <-> P r /\ Forall P l.
Proof.
  induction l as [|x l IH]; simpl.
  - split; intros H; [inversion H; auto | destruct H; auto].
  - destruct (fst r <? fst x).
    + split; intros H; [inversion H; auto | destruct H; auto].
    + split; intros H.
      * inversion H as [|? ? Hx Hr]; subst. apply IH in Hr. destruct Hr as [Hr Hl].
        split; auto.
      * destruct H as [Hr Hl]. inversion Hl; subst. constructor; auto.
        apply IH; auto.
Qed.

Lemma ins_range_in : forall r l t,
  in_ranges (ins_range r l) t = in_ranges (r :: l) t.
Proof.
  induction l as [|x l IH]; intros t; simpl; [reflexivity|].
  destruct (fst r <? fst x); [reflexivity|].
  change (in_ranges (x :: ins_range r l) t) with
    ((let '(a, b) := x in (a <=? t) && (t <=? b)) || in_ranges (ins_range r l) t).
  rewrite IH. simpl.
  destruct r as [a b], x as [c d]. simpl.
  destruct ((a <=? t) && (t <=? b)), ((c <=? t) && (t <=? d)); reflexivity.
Qed.

Lemma ins_range_sorted : forall r l, sorted_fst l -> sorted_fst (ins_range r l).
Proof.
  induction l as [|x l IH]; intros Hs; simpl.
  - split; [constructor | exact I].
  - destruct Hs as [Hx Hl].
    destruct (N.ltb_spec (fst r) (fst x)) as [Hlt|Hge].
    + simpl. split; [|split; auto].
      constructor; [lia|].
      eapply Forall_impl; [|exact Hx]. simpl. intros; lia.
    + simpl. split; [|auto].
      apply ins_range_Forall. split; [lia | exact Hx].
Qed.

Lemma sort_ranges_in : forall rs t, in_ranges (sort_ranges rs) t = in_ranges rs t.
Proof.
  induction rs as [|r rs IH]; intros t; [reflexivity|].
  unfold sort_ranges in *. simpl. rewrite ins_range_in.
  destruct r as [a b]. rewrite !in_ranges_cons, IH. reflexivity.
Qed.

Lemma sort_ranges_sorted : forall rs, sorted_fst (sort_ranges rs).
Proof.
  induction rs as [|r rs IH]; [exact I|].
  unfold sort_ranges in *. simpl. apply ins_range_sorted; exact IH.
Qed.

Lemma sort_ranges_Forall : forall (P : N * N -> Prop) rs,
  Forall P rs -> Forall P (sort_ranges rs).
Proof.
  induction rs as [|r rs IH]; intros H; [constructor|].
  inversion H; subst. unfold sort_ranges in *. simpl.
  apply ins_range_Forall. split; auto.
Qed.

(* ---------- the loop ---------- *)

Lemma neg_loop_spec : forall sorted current acc current' acc',
  sorted_fst sorted ->
  Forall (fun r => fst r <= snd r) sorted ->
  neg_loop sorted current acc = (current', acc') ->
  current <= current' /\
  Forall (fun r => snd r < current') sorted /\
  forall t, in_ranges acc' t = true <->
            in_ranges acc t = true \/
            (current <= t /\ t < current' /\ in_ranges sorted t = false).
Proof.
  induction sorted as [|[s e] rest IH]; intros current acc current' acc' Hs Hok Hl.
  - simpl in Hl. inversion Hl; subst. split; [lia|]. split; [constructor|].
    intros t. split; [auto|]. intros [H|H]; [auto|lia].
  - simpl in Hl. destruct Hs as [Hlow Hs]. inversion Hok as [|? ? Hse Hok']; subst.
    simpl in Hse, Hlow.
    destruct (N.ltb_spec e current) as [Hskip|Hnsk].
    + destruct (IH _ _ _ _ Hs Hok' Hl) as (Hle & Hall & Hiff).
      split; [exact Hle|]. split; [constructor; [simpl; lia | exact Hall]|].
      intros t. rewrite Hiff, in_ranges_cons_false.
      split; (intros [H|H]; [left; exact H | right]); [|tauto].
      split; [tauto|]. split; [tauto|]. split; [lia|tauto].
    + destruct (IH _ _ _ _ Hs Hok' Hl) as (Hle & Hall & Hiff).
      split; [lia|]. split; [constructor; [simpl; lia | exact Hall]|].
      intros t. rewrite Hiff, in_ranges_cons_false. clear Hiff IH Hl.
      destruct (N.ltb_spec current s) as [Hgap|Hngap].
      * rewrite in_ranges_snoc_true.
        split.
        -- intros [[H|H]|H]; [left; exact H | | ].
           ++ right. split; [lia|]. split; [lia|]. split; [lia|].
              apply in_ranges_below with (m := s); [exact Hlow | lia].
           ++ right. split; [lia|]. split; [tauto|]. split; [lia|tauto].
        -- intros [H|H]; [left; left; exact H|].
           destruct (N.lt_ge_cases t s) as [Hts|Hts].
           ++ left. right. lia.
           ++ right. split; [lia|]. tauto.
      * split.
        -- intros [H|H]; [left; exact H|].
           right. split; [lia|]. split; [tauto|]. split; [lia|tauto].
        -- intros [H|H]; [left; exact H|].
           right. split; [lia|]. tauto.
Qed.

Lemma neg_loop_bound : forall vocab sorted current acc current' acc',
  Forall (fun r => snd r < vocab) sorted ->
  current <= vocab ->
  neg_loop sorted current acc = (current', acc') ->
  current' <= vocab.
Proof.
  induction sorted as [|[s e] rest IH]; intros current acc current' acc' Hok Hc Hl.
  - simpl in Hl. inversion Hl; subst; exact Hc.
  - simpl in Hl. inversion Hok as [|? ? He Hok']; subst. simpl in He.
    destruct (e <? current).
    + eapply IH; eauto.
    + eapply IH; [exact Hok' | | exact Hl]. lia.
Qed.

Lemma neg_loop_wf : forall vocab sorted current acc current' acc',
  Forall (fun r => fst r <= snd r /\ snd r < vocab) sorted ->
  Forall (fun '(a, b) => a <= b /\ b < vocab) acc ->
  neg_loop sorted current acc = (current', acc') ->
  Forall (fun '(a, b) => a <= b /\ b < vocab) acc'.
Proof.
  induction sorted as [|[s e] rest IH]; intros current acc current' acc' Hok Hacc Hl.
  - simpl in Hl. inversion Hl; subst; exact Hacc.
  - simpl in Hl. inversion Hok as [|? ? He Hok']; subst. simpl in He.
    destruct (e <? current).
    + eapply IH; eauto.
    + eapply IH; [exact Hok' | | exact Hl].
      destruct (N.ltb_spec current s) as [Hgap|Hngap]; [|exact Hacc].
      apply Forall_app. split; [exact Hacc|]. constructor; [lia|constructor].
Qed.

(* ---------- preconditions ---------- *)

Lemma ranges_ok_Forall : forall vocab rs,
  ranges_ok vocab rs = true ->
  Forall (fun r => fst r <= snd r /\ snd r < vocab) rs.
Proof.
  intros vocab rs H. unfold ranges_ok in H. apply andb_true_iff in H.
  destruct H as [_ H]. rewrite forallb_forall in H. apply Forall_forall.
  intros [a b] Hin. specialize (H _ Hin). simpl in H.
  apply andb_true_iff in H. rewrite N.leb_le, N.ltb_lt in H. exact H.
Qed.

(*FIXED*)
Theorem negated_ranges_spec : forall vocab rs neg t,
  negated_ranges vocab rs = Some neg ->
  (in_ranges neg t = true <-> t < vocab /\ in_ranges rs t = false).
Proof.
  intros vocab rs neg t H. unfold negated_ranges in H.
  destruct (ranges_ok vocab rs && (0 <? vocab)) eqn:Hpre; [|discriminate].
  apply andb_true_iff in Hpre. destruct Hpre as [Hok Hv]. apply N.ltb_lt in Hv.
  apply ranges_ok_Forall in Hok.
  destruct (neg_loop (sort_ranges rs) 0 []) as [current acc] eqn:Hl.
  inversion H; subst neg; clear H.
  assert (Hok1 : Forall (fun r => fst r <= snd r) (sort_ranges rs)).
  { apply sort_ranges_Forall. eapply Forall_impl; [|exact Hok]. simpl; tauto. }
  assert (Hok2 : Forall (fun r => snd r < vocab) (sort_ranges rs)).
  { apply sort_ranges_Forall. eapply Forall_impl; [|exact Hok]. simpl; tauto. }
  destruct (neg_loop_spec _ _ _ _ _ (sort_ranges_sorted rs) Hok1 Hl) as (_ & Hall & Hiff).
  assert (Hb : current <= vocab).
  { eapply neg_loop_bound; [exact Hok2 | | exact Hl]. lia. }
  assert (Habove : current <= t -> in_ranges rs t = false).
  { intros Hct. rewrite <- sort_ranges_in. clear - Hall Hct.
    induction (sort_ranges rs) as [|[s e] l IH]; [reflexivity|].
    inversion Hall; subst. simpl in *. apply in_ranges_cons_false. split; [lia|auto]. }
  specialize (Hiff t). rewrite sort_ranges_in in Hiff. simpl in Hiff.
  destruct (N.leb_spec current (vocab - 1)) as [Htail|Hnt].
  - rewrite in_ranges_snoc_true, Hiff. split.
    + intros [[H|H]|H]; [discriminate | split; [lia|tauto] | split; [lia|]].
      apply Habove; lia.
    + intros [H1 H2]. destruct (N.lt_ge_cases t current).
      * left. right. split; [lia|]. split; assumption.
      * right. lia.
  - rewrite Hiff. split.
    + intros [H|H]; [discriminate|]. split; [lia|tauto].
    + intros [H1 H2]. right. split; [lia|]. split; [lia|exact H2].
Qed.

(*FIXED*) (* every produced range is well formed and inside the vocabulary *)
Theorem negated_ranges_wf : forall vocab rs neg,
  negated_ranges vocab rs = Some neg ->
  Forall (fun '(a, b) => a <= b /\ b < vocab) neg.
Proof.
  intros vocab rs neg H. unfold negated_ranges in H.
  destruct (ranges_ok vocab rs && (0 <? vocab)) eqn:Hpre; [|discriminate].
  apply andb_true_iff in Hpre. destruct Hpre as [Hok Hv]. apply N.ltb_lt in Hv.
  apply ranges_ok_Forall in Hok.
  destruct (neg_loop (sort_ranges rs) 0 []) as [current acc] eqn:Hl.
  inversion H; subst neg; clear H.
  assert (Hacc : Forall (fun '(a, b) => a <= b /\ b < vocab) acc).
  { eapply neg_loop_wf; [| |exact Hl]; [|constructor].
    apply sort_ranges_Forall. exact Hok. }
  destruct (N.leb_spec current (vocab - 1)) as [Htail|Hnt]; [|exact Hacc].
  apply Forall_app. split; [exact Hacc|]. constructor; [lia|constructor].
Qed.

Print Assumptions negated_ranges_spec.
Print Assumptions negated_ranges_wf.

(* ---------- complement terminals never match the special-token marker ---------- *)
From LLG Require Import Regex RegexProofs.

Lemma no_marker_set_spec : forall b, b < 256 -> bset_mem no_marker_set b = negb (b =? 255).
Proof.
  intros b Hb.
  assert (H : forallb (fun b => Bool.eqb (bset_mem no_marker_set b) (negb (b =? 255))) (seqN 0 256) = true)
    by (vm_compute; reflexivity).
  assert (Hin : In b (seqN 0 256)).
  { clear H. assert (G : forall n s x, s <= x < s + N.of_nat n -> In x (seqN s n)).
    { induction n as [|n IH]; intros s x Hx; [lia|]. cbn [seqN In].
      destruct (N.eq_dec s x) as [->|Hne]; [now left|right; apply IH; lia]. }
    apply G. lia. }
  apply (proj1 (forallb_forall _ _) H) in Hin. now apply Bool.eqb_prop in Hin.
Qed.

Lemma pow_no_marker : forall n w, pow_lang (re_lang (Bytes no_marker_set)) n w -> ~ In 255 w.
Proof.
  induction n as [|n IH]; intros w H; cbn [pow_lang] in H.
  - subst w. intros [].
  - destruct H as (u & v & -> & (b & -> & Hm & Hb) & Hv). intros Hin.
    cbn [app In] in Hin. destruct Hin as [E|Hin].
    + subst b. rewrite (no_marker_set_spec 255 Hb) in Hm. discriminate.
    + exact (IH v Hv Hin).
Qed.

(* with the guard no word containing the marker byte is in the language of a complement terminal:
   in particular no special token (marker byte followed by its name) *)
Theorem lark_not_never_matches_marker : forall r w,
  re_lang (lark_not true r) w -> ~ In 255 w.
Proof.
  intros r w H. unfold lark_not in H. cbn [re_lang] in H. destruct H as [_ (n & _ & _ & Hp)].
  exact (pow_no_marker n w Hp).
Qed.

(* and on words without the marker byte it is the plain complement *)
Theorem lark_not_is_complement_on_text : forall r w, bytes_ok w -> ~ In 255 w ->
  (re_lang (lark_not true r) w <-> ~ re_lang r w).
Proof.
  intros r w Hok Hno. unfold lark_not. cbn [re_lang]. split; [tauto|].
  intros Hn. split; [exact Hn|]. exists (length w). split; [lia|]. split; [exact I|].
  clear Hn. induction w as [|b w IH]; cbn [length pow_lang]; [reflexivity|].
  inversion Hok as [|? ? Hb Hok']; subst.
  exists [b], w. split; [reflexivity|]. split.
  - exists b. split; [reflexivity|]. split; [|exact Hb].
    rewrite (no_marker_set_spec b Hb). apply negb_true_iff. apply N.eqb_neq. intros ->. apply Hno. now left.
  - apply IH; [assumption|]. intros Hin. apply Hno. now right.
Qed.

(* without the guard the complement of a literal contains every special token *)
Theorem lark_not_unguarded_refuted : exists r w, re_lang (lark_not false r) (255 :: w).
Proof.
  exists (Bytes (bset_single 97)), [60; 124; 116; 124; 62]. unfold lark_not. cbn [re_lang].
  intros (b & E & _). discriminate E.
Qed.

Print Assumptions lark_not_never_matches_marker.
Print Assumptions lark_not_is_complement_on_text.
