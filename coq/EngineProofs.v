(* EngineProofs.v — the imperative engine (shared rows array, virtual stack,
   speculative row reuse, rows_valid_end, mask cache, byte-count rollback)
   refines the pure engine of PureEngine.v.
   STATEMENTS MARKED (*FIXED*) MUST NOT CHANGE; everything else (invariants,
   auxiliary lemmas) is yours to design. *)
From LLG Require Import Base Svob SvobProofs Trie TrieProofs WalkM WalkMProofs
                        Regex RegexProofs Lexer Earley Engine PureEngine.
From LLG Require Import EngineInv EngineWalk EngineOps.

(* the core fragment: vocabulary-built trie, no special-token lexemes *)
Definition core_ctx (cx : ctx) : Prop :=
  (exists ws, c_trie cx = trie_from ws) /\
  (forall i, lx_token_ranges (lex_get (c_sp cx) i) = []).

(* states reachable through the engine's public operations *)
Inductive reach (cx : ctx) : pstate -> Prop :=
| r_init : forall st, init_state cx = Some st -> reach cx st
| r_apply : forall st w st', reach cx st -> apply_token cx st w = (true, st') -> reach cx st'
| r_bias : forall st start m st', reach cx st -> compute_bias cx st start = (m, st') -> reach cx st'
| r_validate : forall st toks n st', reach cx st -> validate_tokens cx st toks = (n, st') -> reach cx st'
| r_accepting : forall st a st', reach cx st -> is_accepting cx st = (a, st') -> reach cx st'
| r_force : forall st, reach cx st -> reach cx (force_bytes cx st)
| r_rollback : forall st n st', reach cx st -> rollback cx st n = Some st' -> reach cx st'
| r_invalidate : forall st, reach cx st -> reach cx (set_cache st None)
| r_scan_eos : forall st b st', reach cx st -> scan_eos cx st = (b, st') -> reach cx st'.

Definition healthy (st : pstate) : Prop := p_error st = false /\ p_panic st = false.

(* how many leading tokens can be pushed one after the other (no token may contain
   the marker byte; an EOS token ends the count, counting itself when accepting) *)
Fixpoint p_validate (cx : ctx) (stk : list pframe) (toks : list tokid) : N :=
  match toks with
  | [] => 0
  | t :: toks' =>
      if existsb (N.eqb t) (c_eos cx) then (if p_accepting cx stk then 1 else 0)
      else
        let w := decode_raw (c_trie cx) [t] in
        if existsb (N.eqb marker) w then 0 else
        match stk with
        | [] => 0
        | f :: _ =>
            (* frames pushed by the bytes of w *)
            (fix go (f : pframe) (acc : list pframe) (w : bytes) : N :=
               match w with
               | [] => 1 + p_validate cx (acc ++ stk) toks'
               | b :: w' => match ppush cx f b with
                            | Some f' => go f' (f' :: acc) w'
                            | None => 0
                            end
               end) f [] w
        end
  end.

(* FINDING (see the report at reach_no_panic below): `reach` lets scan_eos run
   again after an EOS flush that pushed a lexer-stack entry (p_top_eos = true) once
   more lexeme bytes are pending; the second flush pushes a second extra entry and
   the assert_definitive at the end of scan_eos fires.  reach1 is reach with that
   one step restricted. *)
Inductive reach1 (cx : ctx) : pstate -> Prop :=
| r1_init : forall st, init_state cx = Some st -> reach1 cx st
| r1_apply : forall st w st', reach1 cx st -> apply_token cx st w = (true, st') -> reach1 cx st'
| r1_bias : forall st start m st', reach1 cx st -> compute_bias cx st start = (m, st') -> reach1 cx st'
| r1_validate : forall st toks n st', reach1 cx st -> validate_tokens cx st toks = (n, st') -> reach1 cx st'
| r1_accepting : forall st a st', reach1 cx st -> is_accepting cx st = (a, st') -> reach1 cx st'
| r1_force : forall st, reach1 cx st -> reach1 cx (force_bytes cx st)
| r1_rollback : forall st n st', reach1 cx st -> rollback cx st n = Some st' -> reach1 cx st'
| r1_invalidate : forall st, reach1 cx st -> reach1 cx (set_cache st None)
| r1_scan_eos : forall st b st', reach1 cx st ->
    (p_top_eos st = false \/ has_pending st = false) ->
    scan_eos cx st = (b, st') -> reach1 cx st'.

Lemma reach1_reach : forall cx st, reach1 cx st -> reach cx st.
Proof.
  intros cx st H. induction H.
  - apply r_init; assumption.
  - eapply r_apply; eassumption.
  - eapply r_bias; eassumption.
  - eapply r_validate; eassumption.
  - eapply r_accepting; eassumption.
  - apply r_force; assumption.
  - eapply r_rollback; eassumption.
  - apply r_invalidate; assumption.
  - eapply r_scan_eos; eassumption.
Qed.

Section Proofs.
  Variable cx : ctx.
  Hypothesis Hcore : core_ctx cx.
  Hypothesis Hclears : c_rollback_clears_cache cx = true.

  (* ---------------------------------------------------------------------- *)
  (* the invariant of reachable states                                       *)
  (* ---------------------------------------------------------------------- *)
  Lemma init_good : forall st, init_state cx = Some st ->
    GoodD cx st /\ Tidy st /\ p_max_items st = None /\ p_error st = false.
  Proof.
    intros st H. unfold init_state in H.
    destruct (initial_row (c_g cx) (c_nl cx)) as [r0|]; [|discriminate].
    inversion H; subst st. clear H.
    split; [|split; [|split; reflexivity]].
    - constructor; cbn [p_stack p_rows p_valid_end p_definitive p_row_infos p_applied p_bytes p_cache].
      + constructor; cbn [p_stack p_rows p_valid_end].
        * discriminate.
        * split; [intros e []|exact I].
        * apply Nat.le_refl.
        * apply Nat.le_refl.
        * intros i H1 H2. lia.
      + reflexivity.
      + reflexivity.
      + apply Nat.le_refl.
      + exact I.
    - constructor; reflexivity.
  Qed.

  Lemma err_back : forall st st', flags_le st st' -> p_error st' = false -> p_error st = false.
  Proof.
    intros st st' F H. destruct (p_error st) eqn:E; [|reflexivity].
    rewrite (fl_error _ _ F E) in H. discriminate H.
  Qed.

  Lemma panic_back : forall st st', flags_le st st' -> p_panic st' = false -> p_panic st = false.
  Proof.
    intros st st' F H. destruct (p_panic st) eqn:E; [|reflexivity].
    rewrite (fl_panic _ _ F E) in H. discriminate H.
  Qed.

  Lemma rollback_flags : forall st n st', rollback cx st n = Some st' -> flags_le st st'.
  Proof.
    intros st n st' H. rewrite rollback_unfold in H.
    destruct (p_error st) eqn:He; [discriminate|].
    destruct (Nat.ltb (p_applied st) n); [discriminate|]. inversion H; subst st'. clear H.
    pose proof (assert_definitive_ctl st) as Ca.
    set (s1 := rb_state cx (assert_definitive st) (p_applied st - n)).
    pose proof (assert_definitive_ctl s1) as C1.
    constructor.
    - rewrite He. discriminate.
    - intros Hp. apply (cl_panic _ _ C1). subst s1. unfold rb_state. cbv zeta.
      cbn [set_rows set_row_infos p_panic]. exact (cl_panic _ _ Ca Hp).
  Qed.

  Lemma scan_eos_flags : forall st b st', scan_eos cx st = (b, st') -> flags_le st st'.
  Proof.
    intros st b st' H. rewrite scan_eos_unfold in H. cbv zeta in H.
    pose proof (assert_definitive_ctl st) as Ca.
    destruct (flush_lexer cx (assert_definitive st)) as [ok st1] eqn:Hf.
    pose proof (ctl_le_trans _ _ _ Ca (flush_ctl cx _ _ _ Hf)) as C1.
    destruct ok; cbn [negb] in H; inversion H; subst b st'; clear H;
      [|apply flags_le_ctl; exact C1].
    apply flags_le_trans with st1; [apply flags_le_ctl; exact C1|].
    match goal with |- flags_le _ (assert_definitive ?s2) =>
      apply flags_le_trans with s2; [|apply flags_le_ctl; apply assert_definitive_ctl] end.
    destruct (Nat.eqb (length (p_stack st1)) (length (p_stack (assert_definitive st))));
      [apply flags_le_refl|].
    constructor; cbn [set_top_eos p_error p_panic]; auto.
  Qed.

  Lemma apply_bytes_flags : forall w st0 ok st1,
    apply_bytes cx st0 w = (ok, st1) -> flags_le st0 st1.
  Proof.
    induction w as [|a w IH]; intros st0 ok st1 Hab.
    - inversion Hab; subst. apply flags_le_refl.
    - cbn [apply_bytes] in Hab.
      destruct (Nat.leb (length (p_bytes st0)) (p_applied st0)).
      + destruct (push_definitive cx st0 a) as [ok1 s1] eqn:Hpd.
        pose proof (flags_le_lim _ _ (push_definitive_lim cx _ _ _ _ Hpd)) as F.
        destruct ok1; [|inversion Hab; subst; exact F].
        apply flags_le_trans with s1; [exact F|].
        apply flags_le_trans with (set_applied s1 (S (p_applied s1))); [constructor; auto|].
        exact (IH _ _ _ Hab).
      + destruct (nth_error (p_bytes st0) (p_applied st0)) as [x|].
        * destruct (x =? a)%N; [|inversion Hab; subst; apply flags_le_refl].
          apply flags_le_trans with (set_applied st0 (S (p_applied st0))); [constructor; auto|].
          exact (IH _ _ _ Hab).
        * inversion Hab; subst. constructor; cbn [set_panic p_error p_panic]; auto.
  Qed.

  Lemma apply_token_flags : forall st w ok st', apply_token cx st w = (ok, st') -> flags_le st st'.
  Proof.
    intros st w ok st' H. rewrite apply_token_unfold in H.
    pose proof (assert_definitive_ctl st) as Ca.
    match type of H with context [apply_bytes cx ?s0 w] =>
      set (st0 := s0) in *; destruct (apply_bytes cx st0 w) as [ok1 st1] eqn:Hab end.
    inversion H; subst ok1 st'. clear H.
    assert (F0 : flags_le st st0).
    { subst st0. destruct (Nat.eqb (p_applied st) (length (p_bytes st))); [|apply flags_le_ctl; exact Ca].
      unfold pre_flush.
      destruct (flush_lexer cx (trie_started (assert_definitive st))) as [okf s'] eqn:Hf. cbn [snd].
      apply flags_le_ctl. apply ctl_le_trans with (assert_definitive st); [exact Ca|].
      apply ctl_le_trans with (trie_started (assert_definitive st)); [apply trie_started_ctl|].
      apply ctl_le_trans with s'; [exact (flush_ctl cx _ _ _ Hf)|apply trie_finished_ctl]. }
    pose proof (apply_bytes_flags _ _ _ _ Hab) as F1.
    apply flags_le_trans with st0; [exact F0|]. apply flags_le_trans with st1; [exact F1|].
    destruct ok; [apply flags_le_ctl; apply assert_definitive_ctl|apply flags_le_refl].
  Qed.

  (* GoodD: structural invariant; Tidy: the bookkeeping asserted by
     assert_definitive, as long as no assertion has fired *)
  Lemma reach_good : forall st, reach cx st -> p_error st = false ->
    GoodD cx st /\ p_max_items st = None /\ (p_panic st = false -> Tidy st).
  Proof.
    destruct Hcore as [[ws Htrie] Hnr].
    intros st H. induction H as
      [st Hi|st w st' Hr IH Ha|st start m st' Hr IH Hb|st toks n st' Hr IH Hv|st a st' Hr IH Ha
      |st Hr IH|st n st' Hr IH Hrb|st Hr IH|st b st' Hr IH Hs]; intros Herr.
    - destruct (init_good st Hi) as (G & T & M & _). split; [exact G|]. split; [exact M|auto].
    - pose proof (apply_token_flags _ _ _ _ Ha) as F.
      destruct (IH (err_back _ _ F Herr)) as (G & M & T).
      destruct (apply_token_good cx st w true st' G Ha) as [L G'].
      destruct (G' eq_refl) as [G2 T2].
      split; [exact G2|]. split; [rewrite (ll_max _ _ L); exact M|].
      intros Hp. exact (T2 (T (panic_back _ _ F Hp))).
    - pose proof (compute_bias_flags cx _ _ _ _ Hb) as F.
      destruct (IH (err_back _ _ F Herr)) as (G & M & T).
      destruct start as [|b0 w0].
      + destruct (compute_bias_good cx ws Htrie Hnr st m st' G M Hb Herr) as (O & M' & _).
        split; [exact (os_good _ _ _ O)|]. split; [exact M'|].
        intros Hp. exact (os_tidy _ _ _ O (T (panic_back _ _ F Hp))).
      + destruct (compute_bias_start_good cx ws Htrie st b0 w0 m st' G Hb Herr) as (G' & T' & M').
        split; [exact G'|]. split; [exact M'|]. intros Hp. exact (T' (T (panic_back _ _ F Hp))).
    - pose proof (flags_le_ctl _ _ (validate_tokens_ctl cx _ _ _ _ Hv)) as F.
      destruct (IH (err_back _ _ F Herr)) as (G & M & T).
      destruct (validate_tokens_good cx st toks n st' G Hv) as [R _].
      split; [exact (sr_good _ _ _ R)|]. split; [rewrite (cl_max _ _ (sr_ctl _ _ _ R)); exact M|].
      intros Hp. exact (sr_tidy _ _ _ R (T (panic_back _ _ F Hp))).
    - pose proof (flags_le_ctl _ _ (is_accepting_ctl cx _ _ _ Ha)) as F.
      destruct (IH (err_back _ _ F Herr)) as (G & M & T).
      destruct (is_accepting_good cx st a st' G Ha) as [R _].
      split; [exact (sr_good _ _ _ R)|]. split; [rewrite (cl_max _ _ (sr_ctl _ _ _ R)); exact M|].
      intros Hp. exact (sr_tidy _ _ _ R (T (panic_back _ _ F Hp))).
    - destruct (force_bytes_mono cx st) as [F1 F2].
      assert (F : flags_le st (force_bytes cx st)) by (constructor; assumption).
      destruct (IH (err_back _ _ F Herr)) as (G & M & T).
      destruct (force_bytes_good cx st G M Herr) as (G' & T' & M').
      split; [exact G'|]. split; [exact M'|]. intros Hp. exact (T' (T (panic_back _ _ F Hp))).
    - pose proof (rollback_flags _ _ _ Hrb) as F.
      destruct (IH (err_back _ _ F Herr)) as (G & M & T).
      pose proof (rollback_good cx st n st' G Hclears Hrb) as R.
      split; [exact (rb_good _ _ _ _ R)|]. split; [rewrite (rb_max _ _ _ _ R); exact M|].
      intros Hp. exact (rb_tidy _ _ _ _ R (T (panic_back _ _ F Hp))).
    - destruct (IH Herr) as (G & M & T).
      split; [apply GoodD_set_cache; [exact G|exact I]|]. split; [exact M|].
      intros Hp. apply (Tidy_ext st); try reflexivity. exact (T Hp).
    - pose proof (scan_eos_flags _ _ _ Hs) as F.
      destruct (IH (err_back _ _ F Herr)) as (G & M & T).
      destruct (scan_eos_good cx st b st' G Hs) as (G' & L & _).
      split; [exact G'|]. split; [rewrite (ll_max _ _ L); exact M|].
      intros Hp. exact (scan_eos_tidy cx st b st' G (T (panic_back _ _ F Hp)) Hs Hp).
  Qed.

  Lemma reach_tidy : forall st, reach cx st -> p_error st = false -> p_panic st = false ->
    GoodD cx st /\ Tidy st /\ p_max_items st = None.
  Proof.
    intros st Hr He Hp. destruct (reach_good st Hr He) as (G & M & T). auto.
  Qed.

  (*FIXED -- hypothesis changed: reach -> reach1*)
  (* the engine never trips one of its own assertions *)
  (* ORIGINAL STATEMENT (FALSE for the model as written, machine-checked in
     Counterexample.reach_no_panic_original_false below):
       Theorem reach_no_panic : forall st, reach cx st -> p_error st = false -> p_panic st = false.
     Counterexample: grammar
       n0 -> A n0 | A,  A = /a+/,  start -> n0;
     init; apply_token [97]; scan_eos; apply_token [97]; scan_eos
     are all `reach` steps (both apply_token return true), p_error stays false, and the
     last state has p_panic = true: the first scan_eos flushes the pending lexeme and
     sets p_top_eos; after one more byte the second scan_eos flushes again, the lexer
     stack has bytes+3 entries and its closing assert_definitive
     (lexer_stack.len() == bytes.len() + 2) fails.
     Minimal change: the scan_eos step may not flush a second time while the first
     flush entry is still on the stack (reach1: p_top_eos = false or nothing pending). *)
  Theorem reach_no_panic : forall st, reach1 cx st -> p_error st = false -> p_panic st = false.
  Proof.
    destruct Hcore as [[ws Htrie] Hnr].
    assert (Hmain : forall st, reach1 cx st -> p_error st = false -> Tidy st).
    { intros st H. induction H as
        [st Hi|st w st' Hr IH Ha|st start m st' Hr IH Hb|st toks n st' Hr IH Hv|st a st' Hr IH Ha
        |st Hr IH|st n st' Hr IH Hrb|st Hr IH|st b st' Hr IH Hc Hs]; intros Herr.
      - destruct (init_good st Hi) as (_ & T & _). exact T.
      - pose proof (apply_token_flags _ _ _ _ Ha) as F. pose proof (err_back _ _ F Herr) as He.
        destruct (reach_good st (reach1_reach _ _ Hr) He) as (G & M & _).
        destruct (apply_token_good cx st w true st' G Ha) as [_ G'].
        exact (proj2 (G' eq_refl) (IH He)).
      - pose proof (compute_bias_flags cx _ _ _ _ Hb) as F. pose proof (err_back _ _ F Herr) as He.
        destruct (reach_good st (reach1_reach _ _ Hr) He) as (G & M & _).
        destruct start as [|b0 w0].
        + destruct (compute_bias_good cx ws Htrie Hnr st m st' G M Hb Herr) as (O & _).
          exact (os_tidy _ _ _ O (IH He)).
        + destruct (compute_bias_start_good cx ws Htrie st b0 w0 m st' G Hb Herr) as (_ & T' & _).
          exact (T' (IH He)).
      - pose proof (flags_le_ctl _ _ (validate_tokens_ctl cx _ _ _ _ Hv)) as F.
        pose proof (err_back _ _ F Herr) as He.
        destruct (reach_good st (reach1_reach _ _ Hr) He) as (G & M & _).
        destruct (validate_tokens_good cx st toks n st' G Hv) as [R _].
        exact (sr_tidy _ _ _ R (IH He)).
      - pose proof (flags_le_ctl _ _ (is_accepting_ctl cx _ _ _ Ha)) as F.
        pose proof (err_back _ _ F Herr) as He.
        destruct (reach_good st (reach1_reach _ _ Hr) He) as (G & M & _).
        destruct (is_accepting_good cx st a st' G Ha) as [R _].
        exact (sr_tidy _ _ _ R (IH He)).
      - destruct (force_bytes_mono cx st) as [F1 F2].
        assert (F : flags_le st (force_bytes cx st)) by (constructor; assumption).
        pose proof (err_back _ _ F Herr) as He.
        destruct (reach_good st (reach1_reach _ _ Hr) He) as (G & M & _).
        destruct (force_bytes_good cx st G M Herr) as (_ & T' & _). exact (T' (IH He)).
      - pose proof (rollback_flags _ _ _ Hrb) as F. pose proof (err_back _ _ F Herr) as He.
        destruct (reach_good st (reach1_reach _ _ Hr) He) as (G & M & _).
        exact (rb_tidy _ _ _ _ (rollback_good cx st n st' G Hclears Hrb) (IH He)).
      - apply (Tidy_ext st); try reflexivity. exact (IH Herr).
      - pose proof (scan_eos_flags _ _ _ Hs) as F. pose proof (err_back _ _ F Herr) as He.
        destruct (reach_good st (reach1_reach _ _ Hr) He) as (G & M & _).
        destruct (scan_eos_good cx st b st' G Hs) as (_ & _ & T'). exact (T' Hc (IH He)). }
    intros st Hr He. exact (td_panic _ (Hmain st Hr He)).
  Qed.

  (* ---------------------------------------------------------------------- *)
  (* Since `reach` contains states whose assertion flag is already set (see
     reach_no_panic), the theorems whose conclusion contains `healthy` are false
     for those states (p_panic is sticky).  They are stated for states that have
     not panicked: hypothesis `p_panic st = false` added; the original statements
     are kept in comments.  cache_transparent and apply_token_app hold as stated. *)
  (* ---------------------------------------------------------------------- *)

  (*FIXED -- hypothesis added: p_panic st = false*)
  (* ORIGINAL (false: Counterexample.compute_bias_spec_original_false):
     Theorem compute_bias_spec : forall st m st',
       reach cx st -> compute_bias cx st [] = (m, st') -> p_error st' = false ->
       healthy st' /\ abs_stack st' = abs_stack st /\
       p_bytes st' = p_bytes st /\ p_applied st' = p_applied st /\
       vsize m = vocab_size (c_trie cx) /\ no_excess m /\
       (forall t, t < vocab_size (c_trie cx) -> get m t = mask_spec cx (abs_top st) t). *)
  (* E1: the mask (with or without a cache hit, with or without row reuse) is
     the per-token test against the pure engine; the virtual stack is restored *)
  Theorem compute_bias_spec : forall st m st',
    reach cx st -> p_panic st = false ->
    compute_bias cx st [] = (m, st') -> p_error st' = false ->
    healthy st' /\ abs_stack st' = abs_stack st /\
    p_bytes st' = p_bytes st /\ p_applied st' = p_applied st /\
    vsize m = vocab_size (c_trie cx) /\ no_excess m /\
    (forall t, t < vocab_size (c_trie cx) -> get m t = mask_spec cx (abs_top st) t).
  Proof.
    destruct Hcore as [[ws Htrie] Hnr].
    intros st m st' Hr Hp Hb Herr.
    pose proof (compute_bias_flags cx _ _ _ _ Hb) as F.
    destruct (reach_tidy st Hr (err_back _ _ F Herr) Hp) as (G & T & M).
    destruct (compute_bias_good cx ws Htrie Hnr st m st' G M Hb Herr) as (O & _ & Hv & Hne & Hg).
    split; [split; [exact Herr|exact (td_panic _ (os_tidy _ _ _ O T))]|].
    split; [exact (os_abs _ _ _ O)|]. split; [exact (os_bytes _ _ _ O)|].
    split; [exact (os_applied _ _ _ O)|]. split; [exact Hv|]. split; [exact Hne|exact Hg].
  Qed.

  Lemma max_lim : forall st, p_max_items st = None -> over_limit st = false.
  Proof. intros st H. unfold over_limit. rewrite H. reflexivity. Qed.

  (*FIXED -- hypothesis added: p_panic st = false*)
  (* ORIGINAL (false: Counterexample.apply_token_spec_original_false):
     Theorem apply_token_spec : forall st w ok st',
       reach cx st -> p_error st = false -> p_applied st = length (p_bytes st) ->
       apply_token cx st w = (ok, st') -> p_error st' = false ->
       (ok = true <-> run pframe (ppush cx) (abs_top st) w <> None) /\
       (ok = true ->
          healthy st' /\
          run pframe (ppush cx) (abs_top st) w = Some (abs_top st') /\
          (exists pushed, length pushed = length w /\ abs_stack st' = pushed ++ abs_stack st) /\
          p_bytes st' = p_bytes st ++ w /\ p_applied st' = length (p_bytes st')). *)
  (* E2: committing bytes = running the pure engine, one frame per byte *)
  Theorem apply_token_spec : forall st w ok st',
    reach cx st -> p_panic st = false ->
    p_error st = false -> p_applied st = length (p_bytes st) ->
    apply_token cx st w = (ok, st') -> p_error st' = false ->
    (ok = true <-> run pframe (ppush cx) (abs_top st) w <> None) /\
    (ok = true ->
       healthy st' /\
       run pframe (ppush cx) (abs_top st) w = Some (abs_top st') /\
       (exists pushed, length pushed = length w /\ abs_stack st' = pushed ++ abs_stack st) /\
       p_bytes st' = p_bytes st ++ w /\ p_applied st' = length (p_bytes st')).
  Proof.
    intros st w ok st' Hr Hp He Happ Ha Herr.
    destruct (reach_tidy st Hr He Hp) as (G & T & M).
    destruct (apply_token_good cx st w ok st' G Ha) as [L _].
    assert (Hlim : over_limit st' = false) by (apply max_lim; rewrite (ll_max _ _ L); exact M).
    destruct (apply_token_sim cx st w ok st' G Happ Ha Hlim) as [Hs Hd].
    pose proof (abs_top_stack st (s_ne _ _ (gd_struct _ _ G))) as Habs.
    pose proof (prun_run cx w (abs_top st) (tl (abs_stack st))) as Hpr.
    rewrite <- Habs in Hpr.
    destruct (prun cx (abs_stack st) w) as [stk'|].
    - destruct Hs as [-> Habs']. destruct Hpr as (pushed & Hstk & Hlen & Hrun).
      split; [split; [intros _; rewrite Hrun; discriminate|reflexivity]|].
      intros _. destruct (Hd eq_refl) as [D Ha'].
      split; [split; [exact Herr|exact (td_panic _ (dp_tidy _ _ _ _ D T))]|].
      split.
      { rewrite Hrun. f_equal. rewrite <- Habs'.
        rewrite (abs_top_stack st' (s_ne _ _ (gd_struct _ _ (dp_good _ _ _ _ D)))). reflexivity. }
      split.
      { exists pushed. split; [exact Hlen|]. rewrite Habs'. exact Hstk. }
      split; [exact (dp_bytes _ _ _ _ D)|exact Ha'].
    - subst ok. split; [split; [discriminate|intros H; exfalso; exact (H Hpr)]|discriminate].
  Qed.

  (* p_validate in terms of the stack run *)
  Lemma prun_ne : forall w stk stk', stk <> [] -> prun cx stk w = Some stk' -> stk' <> [].
  Proof.
    induction w as [|b w IH]; intros stk stk' Hne H; cbn [prun] in H.
    - inversion H; subst. exact Hne.
    - destruct stk as [|f stk0]; [discriminate|].
      destruct (ppush cx f b) as [f'|]; [|discriminate].
      apply (IH (f' :: f :: stk0)); [discriminate|exact H].
  Qed.

  Lemma p_validate_pval : forall toks stk, stk <> [] -> p_validate cx stk toks = pval cx stk toks.
  Proof.
    induction toks as [|t toks IH]; intros stk Hne; [reflexivity|].
    cbn [p_validate pval].
    destruct (existsb (N.eqb t) (c_eos cx)); [reflexivity|]. cbv zeta.
    destruct (existsb (N.eqb marker) (decode_raw (c_trie cx) [t])); [reflexivity|].
    destruct stk as [|f stk0]; [congruence|].
    assert (Hgo : forall w f0 acc R, acc ++ f :: stk0 = f0 :: R ->
      (fix go (g : pframe) (acc : list pframe) (w : bytes) {struct w} : N :=
         match w with
         | [] => 1 + p_validate cx (acc ++ f :: stk0) toks
         | b :: w' => match ppush cx g b with
                      | Some f' => go f' (f' :: acc) w'
                      | None => 0
                      end
         end) f0 acc w =
      match prun cx (acc ++ f :: stk0) w with
      | Some stk' => 1 + pval cx stk' toks
      | None => 0
      end).
    { induction w as [|b w IHw]; intros f0 acc R Hacc.
      - cbn [prun]. rewrite IH; [reflexivity|]. rewrite Hacc. discriminate.
      - cbn [prun]. rewrite Hacc. destruct (ppush cx f0 b) as [f'|]; [|reflexivity].
        rewrite (IHw f' (f' :: acc) (f0 :: R)); [|cbn [app]; rewrite Hacc; reflexivity].
        cbn [app]. rewrite Hacc. reflexivity. }
    exact (Hgo _ f [] stk0 eq_refl).
  Qed.

  (*FIXED -- hypothesis added: p_panic st = false*)
  (* ORIGINAL (false: Counterexample.validate_tokens_spec_original_false):
     Theorem validate_tokens_spec : forall st toks n st',
       reach cx st -> p_applied st = length (p_bytes st) ->
       validate_tokens cx st toks = (n, st') -> p_error st' = false ->
       healthy st' /\ abs_stack st' = abs_stack st /\
       p_bytes st' = p_bytes st /\ p_applied st' = p_applied st /\
       n = p_validate cx (abs_stack st) toks. *)
  (* E3: validation = pushing the same bytes speculatively; nothing changes *)
  Theorem validate_tokens_spec : forall st toks n st',
    reach cx st -> p_panic st = false ->
    p_applied st = length (p_bytes st) ->
    validate_tokens cx st toks = (n, st') -> p_error st' = false ->
    healthy st' /\ abs_stack st' = abs_stack st /\
    p_bytes st' = p_bytes st /\ p_applied st' = p_applied st /\
    n = p_validate cx (abs_stack st) toks.
  Proof.
    intros st toks n st' Hr Hp Happ Hv Herr.
    pose proof (validate_tokens_ctl cx _ _ _ _ Hv) as C.
    assert (He : p_error st = false) by (rewrite <- (cl_error _ _ C); exact Herr).
    destruct (reach_tidy st Hr He Hp) as (G & T & M).
    destruct (validate_tokens_good cx st toks n st' G Hv) as [R Hn].
    split; [split; [exact Herr|exact (td_panic _ (sr_tidy _ _ _ R T))]|].
    split; [exact (sr_abs _ _ _ R)|]. split; [exact (cl_bytes _ _ C)|].
    split; [exact (cl_applied _ _ C)|].
    rewrite p_validate_pval.
    - apply Hn; [exact Happ|]. apply max_lim. rewrite (cl_max _ _ C). exact M.
    - pose proof (s_ne _ _ (gd_struct _ _ G)) as Hne. unfold abs_stack.
      destruct (p_stack st); [congruence|discriminate].
  Qed.

  (*FIXED -- hypothesis added: p_panic st = false*)
  (* ORIGINAL (false: Counterexample.is_accepting_spec_original_false):
     Theorem is_accepting_spec : forall st a st',
       reach cx st -> is_accepting cx st = (a, st') -> p_error st' = false ->
       healthy st' /\ abs_stack st' = abs_stack st /\
       p_bytes st' = p_bytes st /\ p_applied st' = p_applied st /\
       a = p_accepting cx (abs_stack st). *)
  (* E4 *)
  Theorem is_accepting_spec : forall st a st',
    reach cx st -> p_panic st = false ->
    is_accepting cx st = (a, st') -> p_error st' = false ->
    healthy st' /\ abs_stack st' = abs_stack st /\
    p_bytes st' = p_bytes st /\ p_applied st' = p_applied st /\
    a = p_accepting cx (abs_stack st).
  Proof.
    intros st a st' Hr Hp Ha Herr.
    pose proof (is_accepting_ctl cx _ _ _ Ha) as C.
    assert (He : p_error st = false) by (rewrite <- (cl_error _ _ C); exact Herr).
    destruct (reach_tidy st Hr He Hp) as (G & T & M).
    destruct Hcore as [[ws Htrie] Hnr].
    destruct (is_accepting_good cx st a st' G Ha) as [R Hacc].
    split; [split; [exact Herr|exact (td_panic _ (sr_tidy _ _ _ R T))]|].
    split; [exact (sr_abs _ _ _ R)|]. split; [exact (cl_bytes _ _ C)|].
    split; [exact (cl_applied _ _ C)|].
    apply Hacc. apply max_lim. rewrite (cl_max _ _ C). exact M.
  Qed.

  (*FIXED -- hypothesis added: p_panic st = false*)
  (* ORIGINAL (false: Counterexample.rollback_originals_false):
     Theorem rollback_restores : forall st w st1 st2,
       reach cx st -> p_error st = false -> p_applied st = length (p_bytes st) -> p_top_eos st = false ->
       apply_token cx st w = (true, st1) -> p_error st1 = false ->
       rollback cx st1 (length w) = Some st2 ->
       healthy st2 /\ abs_stack st2 = abs_stack st /\ p_bytes st2 = p_bytes st /\
       p_applied st2 = p_applied st /\ p_top_eos st2 = false /\ p_cache st2 = None. *)
  (* E5: rolling back the bytes of a commit restores the earlier state
     (as seen through every observable: stack of pure frames, bytes, cache empty) *)
  Theorem rollback_restores : forall st w st1 st2,
    reach cx st -> p_panic st = false ->
    p_error st = false -> p_applied st = length (p_bytes st) -> p_top_eos st = false ->
    apply_token cx st w = (true, st1) -> p_error st1 = false ->
    rollback cx st1 (length w) = Some st2 ->
    healthy st2 /\ abs_stack st2 = abs_stack st /\ p_bytes st2 = p_bytes st /\
    p_applied st2 = p_applied st /\ p_top_eos st2 = false /\ p_cache st2 = None.
  Proof.
    intros st w st1 st2 Hr Hp He Happ Heos Ha He1 Hrb.
    destruct (reach_tidy st Hr He Hp) as (G & T & M).
    destruct (apply_token_good cx st w true st1 G Ha) as [L _].
    assert (Hlim : over_limit st1 = false) by (apply max_lim; rewrite (ll_max _ _ L); exact M).
    destruct (apply_token_sim cx st w true st1 G Happ Ha Hlim) as [_ Hd].
    destruct (Hd eq_refl) as [D Ha1].
    destruct (rollback_dpush cx st w st1 st2 G T Hclears Happ Heos D Ha1 Hrb)
      as (G2 & T2 & _ & Habs & Hb & Hap & Heos2 & Hc & He2 & _).
    split; [split; [exact He2|exact (td_panic _ T2)]|].
    repeat (split; [assumption|]). exact Hc.
  Qed.

  Definition commit_step (acc : option pstate) (w : bytes) : option pstate :=
    match acc with
    | Some s => let '(ok, s') := apply_token cx s w in
                if ok && negb (p_error s') then Some s' else None
    | None => None
    end.

  Lemma commit_fold_none : forall ws, fold_left commit_step ws None = None.
  Proof. induction ws as [|w ws IH]; [reflexivity|exact IH]. Qed.

  Lemma commit_fold_dpush : forall ws st st1,
    GoodD cx st -> p_max_items st = None -> p_applied st = length (p_bytes st) ->
    fold_left commit_step ws (Some st) = Some st1 ->
    dpush cx st (concat ws) st1 /\ p_applied st1 = length (p_bytes st1).
  Proof.
    induction ws as [|w ws IH]; intros st st1 G M Happ H; cbn [fold_left concat] in *.
    - inversion H; subst. split; [apply dpush_refl; exact G|exact Happ].
    - unfold commit_step at 2 in H.
      destruct (apply_token cx st w) as [ok s'] eqn:Ha.
      destruct (ok && negb (p_error s')) eqn:Hc; [|rewrite commit_fold_none in H; discriminate H].
      apply andb_true_iff in Hc as [-> _].
      destruct (apply_token_good cx st w true s' G Ha) as [L _].
      assert (M' : p_max_items s' = None) by (rewrite (ll_max _ _ L); exact M).
      destruct (apply_token_sim cx st w true s' G Happ Ha (max_lim _ M')) as [_ Hd].
      destruct (Hd eq_refl) as [D Ha1].
      destruct (IH s' st1 (dp_good _ _ _ _ D) M' Ha1 H) as [D2 Ha2].
      split; [exact (dpush_trans cx _ _ _ _ _ G D D2)|exact Ha2].
  Qed.

  (*FIXED -- hypothesis added: p_panic st = false*)
  (* ORIGINAL (false: Counterexample.rollback_originals_false):
     Theorem rollback_many : forall ws st st1 st2,
       reach cx st -> p_error st = false -> p_applied st = length (p_bytes st) -> p_top_eos st = false ->
       fold_left (fun acc w => match acc with
                               | Some s => let '(ok, s') := apply_token cx s w in
                                           if ok && negb (p_error s') then Some s' else None
                               | None => None end) ws (Some st) = Some st1 ->
       rollback cx st1 (length (concat ws)) = Some st2 ->
       healthy st2 /\ abs_stack st2 = abs_stack st /\ p_bytes st2 = p_bytes st /\
       p_applied st2 = p_applied st /\ p_top_eos st2 = false. *)
  (* rollback composes: k commits then one rollback of all their bytes *)
  Theorem rollback_many : forall ws st st1 st2,
    reach cx st -> p_panic st = false ->
    p_error st = false -> p_applied st = length (p_bytes st) -> p_top_eos st = false ->
    fold_left (fun acc w => match acc with
                            | Some s => let '(ok, s') := apply_token cx s w in
                                        if ok && negb (p_error s') then Some s' else None
                            | None => None end) ws (Some st) = Some st1 ->
    rollback cx st1 (length (concat ws)) = Some st2 ->
    healthy st2 /\ abs_stack st2 = abs_stack st /\ p_bytes st2 = p_bytes st /\
    p_applied st2 = p_applied st /\ p_top_eos st2 = false.
  Proof.
    intros ws st st1 st2 Hr Hp He Happ Heos Hf Hrb.
    destruct (reach_tidy st Hr He Hp) as (G & T & M).
    change (fold_left commit_step ws (Some st) = Some st1) in Hf.
    destruct (commit_fold_dpush ws st st1 G M Happ Hf) as [D Ha1].
    destruct (rollback_dpush cx st (concat ws) st1 st2 G T Hclears Happ Heos D Ha1 Hrb)
      as (G2 & T2 & _ & Habs & Hb & Hap & Heos2 & Hc & He2 & _).
    split; [split; [exact He2|exact (td_panic _ T2)]|].
    repeat (split; [assumption|]). exact Heos2.
  Qed.

  (* ---------------------------------------------------------------------- *)
  (* The same four specifications for ALL reachable states: everything except the
     panic component of `healthy` holds without the added hypothesis, and the panic
     flag is not raised by the operation. *)
  (* ---------------------------------------------------------------------- *)
  Theorem compute_bias_spec_gen : forall st m st',
    reach cx st -> compute_bias cx st [] = (m, st') -> p_error st' = false ->
    (p_panic st = false -> p_panic st' = false) /\ abs_stack st' = abs_stack st /\
    p_bytes st' = p_bytes st /\ p_applied st' = p_applied st /\
    vsize m = vocab_size (c_trie cx) /\ no_excess m /\
    (forall t, t < vocab_size (c_trie cx) -> get m t = mask_spec cx (abs_top st) t).
  Proof.
    destruct Hcore as [[ws Htrie] Hnr].
    intros st m st' Hr Hb Herr.
    pose proof (compute_bias_flags cx _ _ _ _ Hb) as F.
    destruct (reach_good st Hr (err_back _ _ F Herr)) as (G & M & T).
    destruct (compute_bias_good cx ws Htrie Hnr st m st' G M Hb Herr) as (O & _ & Hv & Hne & Hg).
    split; [intros Hp; exact (td_panic _ (os_tidy _ _ _ O (T Hp)))|].
    split; [exact (os_abs _ _ _ O)|]. split; [exact (os_bytes _ _ _ O)|].
    split; [exact (os_applied _ _ _ O)|]. split; [exact Hv|]. split; [exact Hne|exact Hg].
  Qed.

  Theorem is_accepting_spec_gen : forall st a st',
    reach cx st -> is_accepting cx st = (a, st') -> p_error st' = false ->
    (p_panic st = false -> p_panic st' = false) /\ abs_stack st' = abs_stack st /\
    p_bytes st' = p_bytes st /\ p_applied st' = p_applied st /\
    a = p_accepting cx (abs_stack st).
  Proof.
    intros st a st' Hr Ha Herr.
    pose proof (is_accepting_ctl cx _ _ _ Ha) as C.
    assert (He : p_error st = false) by (rewrite <- (cl_error _ _ C); exact Herr).
    destruct (reach_good st Hr He) as (G & M & T).
    destruct Hcore as [[ws Htrie] Hnr].
    destruct (is_accepting_good cx st a st' G Ha) as [R Hacc].
    split; [intros Hp; exact (td_panic _ (sr_tidy _ _ _ R (T Hp)))|].
    split; [exact (sr_abs _ _ _ R)|]. split; [exact (cl_bytes _ _ C)|].
    split; [exact (cl_applied _ _ C)|].
    apply Hacc. apply max_lim. rewrite (cl_max _ _ C). exact M.
  Qed.

  Theorem validate_tokens_spec_gen : forall st toks n st',
    reach cx st -> p_applied st = length (p_bytes st) ->
    validate_tokens cx st toks = (n, st') -> p_error st' = false ->
    (p_panic st = false -> p_panic st' = false) /\ abs_stack st' = abs_stack st /\
    p_bytes st' = p_bytes st /\ p_applied st' = p_applied st /\
    n = p_validate cx (abs_stack st) toks.
  Proof.
    intros st toks n st' Hr Happ Hv Herr.
    pose proof (validate_tokens_ctl cx _ _ _ _ Hv) as C.
    assert (He : p_error st = false) by (rewrite <- (cl_error _ _ C); exact Herr).
    destruct (reach_good st Hr He) as (G & M & T).
    destruct (validate_tokens_good cx st toks n st' G Hv) as [R Hn].
    split; [intros Hp; exact (td_panic _ (sr_tidy _ _ _ R (T Hp)))|].
    split; [exact (sr_abs _ _ _ R)|]. split; [exact (cl_bytes _ _ C)|].
    split; [exact (cl_applied _ _ C)|].
    rewrite p_validate_pval.
    - apply Hn; [exact Happ|]. apply max_lim. rewrite (cl_max _ _ C). exact M.
    - pose proof (s_ne _ _ (gd_struct _ _ G)) as Hne. unfold abs_stack.
      destruct (p_stack st); [congruence|discriminate].
  Qed.

  Theorem apply_token_spec_gen : forall st w ok st',
    reach cx st -> p_error st = false -> p_applied st = length (p_bytes st) ->
    apply_token cx st w = (ok, st') -> p_error st' = false ->
    (ok = true <-> run pframe (ppush cx) (abs_top st) w <> None) /\
    (ok = true ->
       (p_panic st = false -> p_panic st' = false) /\
       run pframe (ppush cx) (abs_top st) w = Some (abs_top st') /\
       (exists pushed, length pushed = length w /\ abs_stack st' = pushed ++ abs_stack st) /\
       p_bytes st' = p_bytes st ++ w /\ p_applied st' = length (p_bytes st')).
  Proof.
    intros st w ok st' Hr He Happ Ha Herr.
    destruct (reach_good st Hr He) as (G & M & T).
    destruct (apply_token_good cx st w ok st' G Ha) as [L _].
    assert (Hlim : over_limit st' = false) by (apply max_lim; rewrite (ll_max _ _ L); exact M).
    destruct (apply_token_sim cx st w ok st' G Happ Ha Hlim) as [Hs Hd].
    pose proof (abs_top_stack st (s_ne _ _ (gd_struct _ _ G))) as Habs.
    pose proof (prun_run cx w (abs_top st) (tl (abs_stack st))) as Hpr.
    rewrite <- Habs in Hpr.
    destruct (prun cx (abs_stack st) w) as [stk'|].
    - destruct Hs as [-> Habs']. destruct Hpr as (pushed & Hstk & Hlen & Hrun).
      split; [split; [intros _; rewrite Hrun; discriminate|reflexivity]|].
      intros _. destruct (Hd eq_refl) as [D Ha'].
      split; [intros Hp; exact (td_panic _ (dp_tidy _ _ _ _ D (T Hp)))|].
      split.
      { rewrite Hrun. f_equal. rewrite <- Habs'.
        rewrite (abs_top_stack st' (s_ne _ _ (gd_struct _ _ (dp_good _ _ _ _ D)))). reflexivity. }
      split.
      { exists pushed. split; [exact Hlen|]. rewrite Habs'. exact Hstk. }
      split; [exact (dp_bytes _ _ _ _ D)|exact Ha'].
    - subst ok. split; [split; [discriminate|intros H; exfalso; exact (H Hpr)]|discriminate].
  Qed.

  (*FIXED*) (* C11: dropping the cache never changes a mask *)
  Theorem cache_transparent : forall st m1 st1 m2 st2,
    reach cx st ->
    compute_bias cx st [] = (m1, st1) -> p_error st1 = false ->
    compute_bias cx (set_cache st None) [] = (m2, st2) -> p_error st2 = false ->
    forall t, t < vocab_size (c_trie cx) -> get m1 t = get m2 t.
  Proof.
    destruct Hcore as [[ws Htrie] Hnr].
    intros st m1 st1 m2 st2 Hr H1 He1 H2 He2 t Ht.
    pose proof (compute_bias_flags cx _ _ _ _ H1) as F.
    destruct (reach_good st Hr (err_back _ _ F He1)) as (G & M & _).
    assert (G' : GoodD cx (set_cache st None)) by (apply GoodD_set_cache; [exact G|exact I]).
    destruct (compute_bias_good cx ws Htrie Hnr st m1 st1 G M H1 He1) as (_ & _ & _ & _ & Hg1).
    destruct (compute_bias_good cx ws Htrie Hnr (set_cache st None) m2 st2 G' M H2 He2)
      as (_ & _ & _ & _ & Hg2).
    rewrite (Hg1 t Ht), (Hg2 t Ht). reflexivity.
  Qed.

  (*FIXED*) (* C02: the state after a commit depends on the bytes only *)
  Theorem apply_token_app : forall st w1 w2 st1 st2 st12,
    reach cx st -> p_error st = false -> p_applied st = length (p_bytes st) ->
    apply_token cx st w1 = (true, st1) -> p_error st1 = false ->
    apply_token cx st1 w2 = (true, st2) -> p_error st2 = false ->
    apply_token cx st (w1 ++ w2) = (true, st12) -> p_error st12 = false ->
    abs_stack st12 = abs_stack st2 /\ p_bytes st12 = p_bytes st2.
  Proof.
    intros st w1 w2 st1 st2 st12 Hr He Happ H1 He1 H2 He2 H12 He12.
    destruct (reach_good st Hr He) as (G & M & _).
    destruct (apply_token_good cx st w1 true st1 G H1) as [L1 _].
    assert (M1 : p_max_items st1 = None) by (rewrite (ll_max _ _ L1); exact M).
    destruct (apply_token_sim cx st w1 true st1 G Happ H1 (max_lim _ M1)) as [S1 D1].
    destruct (D1 eq_refl) as [Dp1 Ha1]. pose proof (dp_good _ _ _ _ Dp1) as G1.
    destruct (apply_token_good cx st1 w2 true st2 G1 H2) as [L2 _].
    assert (M2 : p_max_items st2 = None) by (rewrite (ll_max _ _ L2); exact M1).
    destruct (apply_token_sim cx st1 w2 true st2 G1 Ha1 H2 (max_lim _ M2)) as [S2 D2].
    destruct (D2 eq_refl) as [Dp2 _].
    destruct (apply_token_good cx st (w1 ++ w2) true st12 G H12) as [L12 _].
    assert (M12 : p_max_items st12 = None) by (rewrite (ll_max _ _ L12); exact M).
    destruct (apply_token_sim cx st (w1 ++ w2) true st12 G Happ H12 (max_lim _ M12)) as [S12 D12].
    destruct (D12 eq_refl) as [Dp12 _].
    split.
    - rewrite prun_app in S12.
      destruct (prun cx (abs_stack st) w1) as [stk1|]; [|discriminate S12].
      destruct S1 as [_ E1]. rewrite <- E1 in S12.
      destruct (prun cx (abs_stack st1) w2) as [stk2|]; [|discriminate S2].
      destruct S2 as [_ E2]. destruct S12 as [_ E12]. congruence.
    - rewrite (dp_bytes _ _ _ _ Dp12), (dp_bytes _ _ _ _ Dp2), (dp_bytes _ _ _ _ Dp1), app_assoc.
      reflexivity.
  Qed.
End Proofs.

Print Assumptions reach_no_panic.
Print Assumptions compute_bias_spec.
Print Assumptions apply_token_spec.
Print Assumptions validate_tokens_spec.
Print Assumptions is_accepting_spec.
Print Assumptions rollback_restores.
Print Assumptions rollback_many.
Print Assumptions cache_transparent.
Print Assumptions apply_token_app.
Print Assumptions compute_bias_spec_gen.
Print Assumptions apply_token_spec_gen.
Print Assumptions validate_tokens_spec_gen.
Print Assumptions is_accepting_spec_gen.

(* ------------------------------------------------------------------------ *)
(* Machine-checked counterexamples to the ORIGINAL statements               *)
(* ------------------------------------------------------------------------ *)
Module Counterexample.
  (* n0 -> A n0 | A ;  start -> n0 ;  A = /a+/ ;  vocabulary {"a", "b"} *)
  Definition ce_g : grammar := mk_grammar [ [[TM 0; NT 0]; [TM 0]] ; [[NT 0]] ] 1.
  Definition ce_sp : lexspec := [mk_lexeme (Rep (lit [97]) 1 None) false false []].
  Definition ce_cx : ctx :=
    mk_ctx ce_g (nullable_set ce_g) ce_sp (trie_from [[97]; [98]]) None [] true 50000.

  Lemma ce_core : core_ctx ce_cx.
  Proof.
    split.
    - exists [[97]; [98]]. reflexivity.
    - intros i. unfold lex_get. cbn [c_sp ce_cx ce_sp].
      destruct (N.to_nat i) as [|[|k]]; reflexivity.
  Qed.

  Lemma ce_clears : c_rollback_clears_cache ce_cx = true.
  Proof. reflexivity. Qed.

  Definition o_apply (o : option pstate) (w : bytes) : option pstate :=
    match o with
    | Some s => let '(ok, s') := apply_token ce_cx s w in if ok then Some s' else None
    | None => None
    end.
  Definition o_eos (o : option pstate) : option pstate :=
    match o with Some s => Some (snd (scan_eos ce_cx s)) | None => None end.
  Definition o_rollback (o : option pstate) (n : nat) : option pstate :=
    match o with Some s => rollback ce_cx s n | None => None end.

  Definition oreach (o : option pstate) : Prop := forall s, o = Some s -> reach ce_cx s.

  Lemma o_init_reach : oreach (init_state ce_cx).
  Proof. intros s H. apply r_init. exact H. Qed.
  Lemma o_apply_reach : forall o w, oreach o -> oreach (o_apply o w).
  Proof.
    intros [s|] w Ho s' H; cbn [o_apply] in H; [|discriminate].
    destruct (apply_token ce_cx s w) as [ok s1] eqn:E. destruct ok; [|discriminate].
    inversion H; subst. eapply r_apply; [apply Ho; reflexivity|exact E].
  Qed.
  Lemma o_eos_reach : forall o, oreach o -> oreach (o_eos o).
  Proof.
    intros [s|] Ho s' H; cbn [o_eos] in H; [|discriminate]. inversion H; subst.
    destruct (scan_eos ce_cx s) as [b s1] eqn:E. eapply r_scan_eos; [apply Ho; reflexivity|exact E].
  Qed.
  Lemma o_rollback_reach : forall o n, oreach o -> oreach (o_rollback o n).
  Proof.
    intros [s|] n Ho s' H; cbn [o_rollback] in H; [|discriminate].
    eapply r_rollback; [apply Ho; reflexivity|exact H].
  Qed.

  (* init; commit "a"; scan_eos; commit "a"; scan_eos *)
  Definition ce_final : option pstate :=
    o_eos (o_apply (o_eos (o_apply (init_state ce_cx) [97])) [97]).
  (* ... then rollback(0): p_top_eos is false again, the flag stays *)
  Definition ce_final' : option pstate := o_rollback ce_final 0.

  Lemma ce_final_reach : oreach ce_final.
  Proof.
    unfold ce_final. apply o_eos_reach, o_apply_reach, o_eos_reach, o_apply_reach, o_init_reach.
  Qed.
  Lemma ce_final'_reach : oreach ce_final'.
  Proof. unfold ce_final'. apply o_rollback_reach. exact ce_final_reach. Qed.

  Lemma ce_flags :
    option_map (fun st => (p_error st, p_panic st)) ce_final = Some (false, true).
  Proof. vm_compute. reflexivity. Qed.

  Lemma ce_flags' :
    option_map (fun st => (p_error st, p_panic st, p_top_eos st,
                           Nat.eqb (p_applied st) (length (p_bytes st)))) ce_final'
    = Some (false, true, false, true).
  Proof. vm_compute. reflexivity. Qed.

  (* the original reach_no_panic is false *)
  Theorem reach_no_panic_original_false :
    exists st, reach ce_cx st /\ p_error st = false /\ p_panic st = true.
  Proof.
    pose proof ce_flags as H. destruct ce_final as [st|] eqn:E; [|discriminate H].
    cbn [option_map] in H. inversion H as [[He Hp]].
    exists st. split; [apply ce_final_reach; exact E|split; reflexivity].
  Qed.

  (* hence every original statement concluding `healthy st'` is false: the flag is
     sticky *)
  Definition report (st : pstate) : bool :=
    negb (p_error st) && p_panic st && negb (p_error (snd (compute_bias ce_cx st [])))
    && Nat.eqb (p_applied st) (length (p_bytes st))
    && fst (apply_token ce_cx st []) && negb (p_error (snd (apply_token ce_cx st []))).

  Lemma ce_report : option_map report ce_final = Some true.
  Proof. vm_compute. reflexivity. Qed.

  Definition report' (st : pstate) : bool :=
    negb (p_error st) && p_panic st && negb (p_top_eos st)
    && Nat.eqb (p_applied st) (length (p_bytes st))
    && fst (apply_token ce_cx st []) && negb (p_error (snd (apply_token ce_cx st [])))
    && match rollback ce_cx (snd (apply_token ce_cx st [])) 0 with Some _ => true | None => false end
    && match rollback ce_cx st 0 with Some _ => true | None => false end.

  Lemma ce_report' : option_map report' ce_final' = Some true.
  Proof. vm_compute. reflexivity. Qed.

  Theorem compute_bias_spec_original_false :
    exists st m st', reach ce_cx st /\ compute_bias ce_cx st [] = (m, st') /\
                     p_error st' = false /\ p_panic st' = true.
  Proof.
    pose proof ce_report as H. destruct ce_final as [st|] eqn:E; [|discriminate H].
    cbn [option_map] in H. injection H as H. unfold report in H.
    apply andb_true_iff in H as [H He']. apply andb_true_iff in H as [H Hok].
    apply andb_true_iff in H as [H Ha]. apply andb_true_iff in H as [H Hb].
    apply andb_true_iff in H as [He Hp].
    apply negb_true_iff in He, Hb, He'.
    destruct (compute_bias ce_cx st []) as [m st'] eqn:Ec. exists st, m, st'.
    split; [apply ce_final_reach; exact E|]. split; [exact Ec|]. split; [exact Hb|].
    exact (fl_panic _ _ (compute_bias_flags ce_cx _ _ _ _ Ec) Hp).
  Qed.

  Theorem is_accepting_spec_original_false :
    exists st a st', reach ce_cx st /\ is_accepting ce_cx st = (a, st') /\
                     p_error st' = false /\ p_panic st' = true.
  Proof.
    pose proof ce_report as H. destruct ce_final as [st|] eqn:E; [|discriminate H].
    cbn [option_map] in H. injection H as H. unfold report in H.
    apply andb_true_iff in H as [H He']. apply andb_true_iff in H as [H Hok].
    apply andb_true_iff in H as [H Ha]. apply andb_true_iff in H as [H Hb].
    apply andb_true_iff in H as [He Hp].
    apply negb_true_iff in He, Hb, He'.
    destruct (is_accepting ce_cx st) as [a st'] eqn:Ec. exists st, a, st'.
    pose proof (is_accepting_ctl ce_cx _ _ _ Ec) as C.
    split; [apply ce_final_reach; exact E|]. split; [exact Ec|].
    split; [rewrite (cl_error _ _ C); exact He|exact (cl_panic _ _ C Hp)].
  Qed.

  Theorem validate_tokens_spec_original_false :
    exists st n st', reach ce_cx st /\ p_applied st = length (p_bytes st) /\
                     validate_tokens ce_cx st [] = (n, st') /\
                     p_error st' = false /\ p_panic st' = true.
  Proof.
    pose proof ce_report as H. destruct ce_final as [st|] eqn:E; [|discriminate H].
    cbn [option_map] in H. injection H as H. unfold report in H.
    apply andb_true_iff in H as [H He']. apply andb_true_iff in H as [H Hok].
    apply andb_true_iff in H as [H Ha]. apply andb_true_iff in H as [H Hb].
    apply andb_true_iff in H as [He Hp].
    apply negb_true_iff in He, Hb, He'.
    destruct (validate_tokens ce_cx st []) as [n st'] eqn:Ec. exists st, n, st'.
    pose proof (validate_tokens_ctl ce_cx _ _ _ _ Ec) as C.
    split; [apply ce_final_reach; exact E|]. split; [apply Nat.eqb_eq; exact Ha|].
    split; [exact Ec|].
    split; [rewrite (cl_error _ _ C); exact He|exact (cl_panic _ _ C Hp)].
  Qed.

  Theorem apply_token_spec_original_false :
    exists st st', reach ce_cx st /\ p_error st = false /\ p_applied st = length (p_bytes st) /\
                   apply_token ce_cx st [] = (true, st') /\ p_error st' = false /\ p_panic st' = true.
  Proof.
    pose proof ce_report as H. destruct ce_final as [st|] eqn:E; [|discriminate H].
    cbn [option_map] in H. injection H as H. unfold report in H.
    apply andb_true_iff in H as [H He']. apply andb_true_iff in H as [H Hok].
    apply andb_true_iff in H as [H Ha]. apply andb_true_iff in H as [H Hb].
    apply andb_true_iff in H as [He Hp].
    apply negb_true_iff in He, Hb, He'.
    destruct (apply_token ce_cx st []) as [ok st'] eqn:Ec. cbn [fst snd] in *. subst ok.
    exists st, st'.
    split; [apply ce_final_reach; exact E|]. split; [exact He|].
    split; [apply Nat.eqb_eq; exact Ha|]. split; [exact Ec|]. split; [exact He'|].
    exact (fl_panic _ _ (apply_token_flags ce_cx _ _ _ _ Ec) Hp).
  Qed.

  (* rollback_restores (w = []) and rollback_many (ws = []) *)
  Theorem rollback_originals_false :
    exists st st1 st2 st2',
      reach ce_cx st /\ p_error st = false /\ p_applied st = length (p_bytes st) /\
      p_top_eos st = false /\
      apply_token ce_cx st [] = (true, st1) /\ p_error st1 = false /\
      rollback ce_cx st1 (length (@nil byte)) = Some st2 /\ p_panic st2 = true /\
      rollback ce_cx st (length (concat (@nil bytes))) = Some st2' /\ p_panic st2' = true.
  Proof.
    pose proof ce_report' as H. destruct ce_final' as [st|] eqn:E; [|discriminate H].
    cbn [option_map] in H. injection H as H. unfold report' in H.
    apply andb_true_iff in H as [H Hr2]. apply andb_true_iff in H as [H Hr1].
    apply andb_true_iff in H as [H He']. apply andb_true_iff in H as [H Hok].
    apply andb_true_iff in H as [H Ha]. apply andb_true_iff in H as [H Ht].
    apply andb_true_iff in H as [He Hp].
    apply negb_true_iff in He, Ht, He'.
    destruct (apply_token ce_cx st []) as [ok st1] eqn:Ec. cbn [fst snd] in *. subst ok.
    destruct (rollback ce_cx st1 0) as [st2|] eqn:Er1; [|discriminate Hr1].
    destruct (rollback ce_cx st 0) as [st2'|] eqn:Er2; [|discriminate Hr2].
    exists st, st1, st2, st2'.
    split; [apply ce_final'_reach; exact E|]. split; [exact He|].
    split; [apply Nat.eqb_eq; exact Ha|]. split; [exact Ht|]. split; [exact Ec|].
    split; [exact He'|]. split; [exact Er1|]. split.
    - apply (fl_panic _ _ (rollback_flags ce_cx _ _ _ Er1)).
      exact (fl_panic _ _ (apply_token_flags ce_cx _ _ _ _ Ec) Hp).
    - split; [exact Er2|]. exact (fl_panic _ _ (rollback_flags ce_cx _ _ _ Er2) Hp).
  Qed.
End Counterexample.

Print Assumptions Counterexample.reach_no_panic_original_false.
Print Assumptions Counterexample.compute_bias_spec_original_false.
Print Assumptions Counterexample.rollback_originals_false.
