(* Earley.v — model of the Earley part of parser/src/earley/parser.rs for the
   core fragment (no nested grammars, no parameters, no captures): grammar,
   items, scan, single-pass agenda with nullable handling, allowed lexemes.
   Definitions only. *)
From LLG Require Import Base Regex Lexer.

(* ---------- grammar ---------- *)
Inductive gsym := NT (i : N) | TM (lx : lexidx).

Record grammar := mk_grammar {
  g_rules : list (list (list gsym));     (* per nonterminal: alternatives *)
  g_start : N
}.

Definition nt_alts (g : grammar) (i : N) : list (list gsym) := nth (N.to_nat i) (g_rules g) [].

(* nullable nonterminals by fixpoint iteration *)
Definition sym_nullable (nl : list bool) (s : gsym) : bool :=
  match s with
  | NT i => nth (N.to_nat i) nl false
  | TM _ => false          (* lexemes are never empty (empty lexemes are not allowed) *)
  end.

Definition nullable_step (g : grammar) (nl : list bool) : list bool :=
  map (fun alts => existsb (fun rhs => forallb (sym_nullable nl) rhs) alts) (g_rules g).

Fixpoint nullable_iter (fuel : nat) (g : grammar) (nl : list bool) : list bool :=
  match fuel with
  | O => nl
  | S f => let nl' := nullable_step g nl in
           if list_eqb Bool.eqb nl nl' then nl else nullable_iter f g nl'
  end.

Definition nullable_set (g : grammar) : list bool :=
  nullable_iter (S (length (g_rules g))) g (map (fun _ => false) (g_rules g)).

(* ---------- items ---------- *)
Record item := mk_item { it_nt : N; it_alt : N; it_dot : N; it_start : N }.

Definition item_eqb (a b : item) : bool :=
  (it_nt a =? it_nt b) && (it_alt a =? it_alt b) && (it_dot a =? it_dot b) && (it_start a =? it_start b).

Definition item_rhs (g : grammar) (it : item) : list gsym :=
  nth (N.to_nat (it_alt it)) (nt_alts g (it_nt it)) [].

Definition after_dot (g : grammar) (it : item) : option gsym :=
  nth_error (item_rhs g it) (N.to_nat (it_dot it)).

Definition advance_dot (it : item) : item :=
  mk_item (it_nt it) (it_alt it) (it_dot it + 1) (it_start it).

Definition initial_items (nt : N) (nalts : nat) (start : N) : list item :=
  map (fun a => mk_item nt a 0 start) (seqN 0 nalts).

Record row := mk_row {
  r_items : list item;
  r_allowed : list lexidx;       (* lexemes allowed next (ascending, no duplicates) *)
  r_lexeme : mlidx               (* the pre-lexeme that produced the row *)
}.

Definition add_unique (its : list item) (it : item) : list item :=
  if existsb (item_eqb it) its then its else its ++ [it].

Fixpoint insert_sorted_n (x : N) (l : list N) : list N :=
  match l with
  | [] => [x]
  | y :: l' => if x <? y then x :: l else if x =? y then l else y :: insert_sorted_n x l'
  end.

(* process_agenda: single pass over the (growing) item list of the working row.
   rows_before: rows 0 .. curr_idx-1 (index 0 first). *)
Fixpoint agenda (fuel : nat) (g : grammar) (nl : list bool) (rows_before : list row) (curr_idx : N)
         (its : list item) (ptr : nat) (allowed : list lexidx) : list item * list lexidx :=
  match fuel with
  | O => (its, allowed)
  | S f =>
      match nth_error its ptr with
      | None => (its, allowed)
      | Some it =>
          match after_dot g it with
          | None =>
              (* complete item: completion, only for items started in earlier rows *)
              if it_start it <? curr_idx then
                let src := r_items (nth (N.to_nat (it_start it)) rows_before (mk_row [] [] (MLSingle 0))) in
                let its' := fold_left (fun acc it' =>
                                         match after_dot g it' with
                                         | Some (NT n) => if n =? it_nt it then add_unique acc (advance_dot it') else acc
                                         | _ => acc
                                         end) src its in
                agenda f g nl rows_before curr_idx its' (S ptr) allowed
              else agenda f g nl rows_before curr_idx its (S ptr) allowed
          | Some (TM lx) =>
              agenda f g nl rows_before curr_idx its (S ptr) (insert_sorted_n lx allowed)
          | Some (NT n) =>
              let its1 := fold_left add_unique
                                    (initial_items n (length (nt_alts g n)) curr_idx) its in
              let its2 := if nth (N.to_nat n) nl false then add_unique its1 (advance_dot it) else its1 in
              agenda f g nl rows_before curr_idx its2 (S ptr) allowed
          end
      end
  end.

(* a bound on the number of distinct items of one row *)
Definition item_bound (g : grammar) (curr_idx : N) : nat :=
  S (fold_left (fun acc alts => acc + fold_left (fun a rhs => a + S (length rhs)) alts 0)%nat
               (g_rules g) 0%nat * S (N.to_nat curr_idx)).

Definition close_row (g : grammar) (nl : list bool) (rows_before : list row)
           (seed : list item) (lexeme : mlidx) : option row :=
  let curr_idx := lenN rows_before in
  let '(its, allowed) := agenda (item_bound g curr_idx) g nl rows_before curr_idx seed 0 [] in
  match its with
  | [] => None
  | _ => Some (mk_row its allowed lexeme)
  end.

Definition initial_row (g : grammar) (nl : list bool) : option row :=
  close_row g nl [] (initial_items (g_start g) (length (nt_alts g (g_start g))) 0) (MLSingle 0).

(* scan: advance the items whose terminal after the dot is in the lexeme set *)
Definition scan_row (g : grammar) (nl : list bool) (sp : lexspec) (rows_before : list row)
           (lexeme : mlidx) : option row :=
  match rev rows_before with
  | [] => None
  | top :: _ =>
      let set := lexemes_from_idx sp lexeme in
      let seed := optmap (fun it => match after_dot g it with
                                    | Some (TM lx) => if existsb (N.eqb lx) set then Some (advance_dot it) else None
                                    | _ => None
                                    end) (r_items top) in
      close_row g nl rows_before seed lexeme
  end.

Definition row_is_accepting (g : grammar) (r : row) : bool :=
  existsb (fun it => match after_dot g it with
                     | None => it_nt it =? g_start g
                     | Some _ => false
                     end) (r_items r).

(* can_advance_inner: some item has a terminal after the dot *)
Definition row_can_advance (g : grammar) (r : row) : bool :=
  existsb (fun it => match after_dot g it with Some (TM _) => true | _ => false end) (r_items r).
