(* Run09.v — case runner for C09 (harness/src/c09.rs) *)
From Coq Require Import String.
From LLG Require Import Base Params Sx Regex Repeat ObjCount.
Open Scope string_scope.
Open Scope N_scope.

Definition hi_of (z : Z) : option nat := if (z <? 0)%Z then None else Some (Z.to_nat z).

Definition run_case09 (x : sx) : sx :=
  let h := head_sym x in
  let a := tail_items x in
  let is s := bytes_eqb h (sym s) in
  let lo := N.to_nat (as_n (nth_sx a 0)) in
  let hi := hi_of (as_z (nth_sx a 1)) in
  let bound := N.to_nat (as_n (nth_sx a 2)) in
  let all := seq 0 (S bound) in
  let show (f : nat -> bool) := tagged "ok" [sns (map N.of_nat (filter f all))] in
  if is "repeat" then
    (* grammar-level encoding with the factorisation constant read from grammar_builder.rs *)
    let s := count_set bound (grepeat (N.to_nat REPEAT_K) GElt lo hi) in
    show (cs_get s)
  else if is "repeat2" then
    (* two repetitions of the same rule in one grammar: x{lo,hi} ";" x{lo2,hi2} — the counts are independent *)
    let lo2 := N.to_nat (as_n (nth_sx a 3)) in
    let hi2 := hi_of (as_z (nth_sx a 4)) in
    let s1 := count_set bound (grepeat (N.to_nat REPEAT_K) GElt lo hi) in
    let s2 := count_set bound (grepeat (N.to_nat REPEAT_K) GElt lo2 hi2) in
    tagged "ok" [sns (flat_map (fun c1 => map (fun c2 => N.of_nat (c1 * 100 + c2)) (filter (cs_get s2) all))
                               (filter (cs_get s1) all))]
  else if is "rxrepeat" then
    let r := normalize (Rep (lit [97]) (N.of_nat lo) (match hi with Some h => Some (N.of_nat h) | None => None end)) in
    show (fun c => re_match r (repeat 97 c))
  else if is "objsizes" then
    (* (objsizes lo hi bound r has_tail): member counts admitted next to r required declared members *)
    let r := N.to_nat (as_n (nth_sx a 3)) in
    let t := as_bool (nth_sx a 4) in
    match obj_plan r lo hi t with
    | None => tagged "err" []
    | Some _ => show (obj_admits r lo hi t)
    end
  else if is "range" then
    show (fun c => Nat.leb lo c && match hi with Some h => Nat.leb c h | None => true end)
  else SL [SY (sym "unknown")].
