(* ParamProofs.v — parameter expressions act on one field only; the DNF of a condition is the condition *)
From Coq Require Import List NArith Bool Lia.
From LLG Require Import Param.
Import ListNotations.
Open Scope N_scope.

(* ---------- auxiliary arithmetic: a number split into  hi | f | lo  with abstract radices ---------- *)
Lemma parts_div A B hi f lo : lo < A -> ((hi*B+f)*A+lo) / A = hi*B+f.
Proof. intros. symmetry. apply (N.div_unique _ _ _ lo); lia. Qed.

Lemma parts_mod A B hi f lo : lo < A -> ((hi*B+f)*A+lo) mod A = lo.
Proof. intros. symmetry. apply (N.mod_unique _ _ (hi*B+f)); lia. Qed.

Lemma parts_field A B hi f lo : lo < A -> f < B -> ((hi*B+f)*A+lo) / A mod B = f.
Proof. intros. rewrite parts_div by assumption. symmetry. apply (N.mod_unique _ _ hi); lia. Qed.

Lemma parts_hi A B hi f lo : lo < A -> f < B -> ((hi*B+f)*A+lo) / (A*B) = hi.
Proof.
  intros. symmetry. apply (N.div_unique _ _ _ (f*A+lo)); [|lia].
  assert ((f+1)*A <= B*A) by (apply N.mul_le_mono_r; lia). lia.
Qed.

Lemma parts_lt A B C hi f lo : lo < A -> f < B -> hi < C -> (hi*B+f)*A+lo < A*B*C.
Proof.
  intros.
  assert ((f+1)*A <= B*A) by (apply N.mul_le_mono_r; lia).
  assert ((hi+1)*(B*A) <= C*(B*A)) by (apply N.mul_le_mono_r; lia).
  lia.
Qed.

Lemma recompose p A B : A <> 0 -> B <> 0 -> p = (p/A/B*B + (p/A) mod B)*A + p mod A.
Proof.
  intros HA HB. pose proof (N.div_mod p A HA) as H1. pose proof (N.div_mod (p/A) B HB) as H2.
  rewrite (N.mul_comm (p/A/B) B), <- H2, (N.mul_comm (p/A) A). exact H1.
Qed.

Lemma pow2_nz n : 2 ^ n <> 0.
Proof. apply N.pow_nonzero. discriminate. Qed.

Lemma decomp r p : pref_ok r -> p < W ->
  exists A B C hi f lo,
    A = 2 ^ px r /\ B = 2 ^ plen r /\ 2 ^ py r = A * B /\ W = A * B * C /\
    0 < A /\ 0 < B /\ lo < A /\ f < B /\ hi < C /\
    p = (hi*B+f)*A+lo /\ pfield r p = f /\ pones r = B - 1.
Proof.
  intros [Hxy Hy] Hp.
  exists (2 ^ px r), (2 ^ plen r), (2 ^ (64 - py r)), (p / 2 ^ px r / 2 ^ plen r), (pfield r p), (p mod 2 ^ px r).
  pose proof (pow2_nz (px r)) as HA. pose proof (pow2_nz (plen r)) as HB.
  assert (HW : W = 2 ^ px r * 2 ^ plen r * 2 ^ (64 - py r)).
  { unfold W, plen. rewrite <- !N.pow_add_r. f_equal. lia. }
  refine (conj eq_refl (conj eq_refl (conj _ (conj HW (conj _ (conj _ (conj _ (conj _ (conj _ (conj _ (conj eq_refl eq_refl))))))))))).
  - unfold plen. rewrite <- N.pow_add_r. f_equal. lia.
  - lia.
  - lia.
  - apply N.mod_lt; assumption.
  - unfold pfield. apply N.mod_lt; assumption.
  - rewrite N.div_div by assumption. apply N.div_lt_upper_bound.
    + apply N.neq_mul_0; split; assumption.
    + rewrite <- HW. exact Hp.
  - unfold pfield. apply recompose; assumption.
Qed.

(*FIXED*)
Lemma pfield_le_ones : forall r p, pfield r p <= pones r.
Proof.
  intros r p. unfold pfield, pones.
  pose proof (N.mod_lt (p / 2 ^ px r) (2 ^ plen r) (pow2_nz _)). lia.
Qed.

(* all facts about the increment in one place *)
Lemma incr_all r p : pref_ok r -> p < W ->
  let q := pexpr_eval (EIncr r) p in
  pfield r q = N.min (pfield r p + 1) (pones r) /\
  q mod 2 ^ px r = p mod 2 ^ px r /\ q / 2 ^ py r = p / 2 ^ py r /\ q < W.
Proof.
  intros Hok Hp.
  destruct (decomp r p Hok Hp) as (A&B&C&hi&f&lo&HA&HB&Hy&HW&HA0&HB0&Hlo&Hf&Hhi&Hpe&Hfield&Hones).
  cbv zeta. unfold pexpr_eval. rewrite Hfield, Hones.
  destruct (N.eqb_spec f (B-1)) as [E|E].
  - rewrite Hfield. repeat split; try assumption. lia.
  - assert (Hf1 : f + 1 < B) by lia.
    assert (Hq : p + 2 ^ px r = (hi*B+(f+1))*A+lo) by (rewrite <- HA, Hpe; lia).
    assert (Hlt : p + 2 ^ px r < W).
    { rewrite Hq, HW. apply parts_lt; assumption. }
    rewrite (N.mod_small _ _ Hlt).
    repeat split; try assumption.
    + unfold pfield. rewrite Hq, <- HA, <- HB, parts_field by assumption. lia.
    + rewrite Hq, <- HA, Hpe, !parts_mod by assumption. reflexivity.
    + rewrite Hq, Hy, Hpe, !parts_hi by assumption. reflexivity.
Qed.

Lemma decr_all r p : pref_ok r -> p < W ->
  let q := pexpr_eval (EDecr r) p in
  pfield r q = pfield r p - 1 /\
  q mod 2 ^ px r = p mod 2 ^ px r /\ q / 2 ^ py r = p / 2 ^ py r /\ q < W.
Proof.
  intros Hok Hp.
  destruct (decomp r p Hok Hp) as (A&B&C&hi&f&lo&HA&HB&Hy&HW&HA0&HB0&Hlo&Hf&Hhi&Hpe&Hfield&Hones).
  cbv zeta. unfold pexpr_eval. rewrite Hfield.
  destruct (N.eqb_spec f 0) as [E|E].
  - rewrite Hfield. repeat split; try assumption. lia.
  - assert (Hf1 : f - 1 < B) by lia.
    assert (Hq : p - 2 ^ px r = (hi*B+(f-1))*A+lo).
    { rewrite <- HA, Hpe. assert (Hg : f = (f-1)+1) by lia.
      remember (f-1) as g. rewrite Hg. lia. }
    repeat split.
    + unfold pfield. rewrite Hq, <- HA, <- HB, parts_field by assumption. reflexivity.
    + rewrite Hq, <- HA, Hpe, !parts_mod by assumption. reflexivity.
    + rewrite Hq, Hy, Hpe, !parts_hi by assumption. reflexivity.
    + lia.
Qed.

(* saturating increment: the field goes up by one unless it is all ones *)
(*FIXED*)
Theorem incr_field : forall r p, pref_ok r -> p < W ->
  pfield r (pexpr_eval (EIncr r) p) = N.min (pfield r p + 1) (pones r).
Proof. intros r p Hok Hp. apply (incr_all r p Hok Hp). Qed.

(* ... nothing below bit x and nothing from bit y upwards changes, and there is no wrap-around *)
(*FIXED*)
Theorem incr_other_bits : forall r p, pref_ok r -> p < W ->
  pexpr_eval (EIncr r) p mod 2 ^ px r = p mod 2 ^ px r /\
  pexpr_eval (EIncr r) p / 2 ^ py r = p / 2 ^ py r /\
  pexpr_eval (EIncr r) p < W.
Proof. intros r p Hok Hp. apply (incr_all r p Hok Hp). Qed.

(*FIXED*)
Theorem decr_field : forall r p, pref_ok r -> p < W ->
  pfield r (pexpr_eval (EDecr r) p) = pfield r p - 1.
Proof. intros r p Hok Hp. apply (decr_all r p Hok Hp). Qed.

(*FIXED*)
Theorem decr_other_bits : forall r p, pref_ok r -> p < W ->
  pexpr_eval (EDecr r) p mod 2 ^ px r = p mod 2 ^ px r /\
  pexpr_eval (EDecr r) p / 2 ^ py r = p / 2 ^ py r /\
  pexpr_eval (EDecr r) p < W.
Proof. intros r p Hok Hp. apply (decr_all r p Hok Hp). Qed.

(* a field lying entirely below bit x only depends on the number mod 2^x *)
Lemma field_low_arith A B D k m : A <> 0 -> B <> 0 ->
  ((A*B*D*k + m) / A) mod B = (m / A) mod B.
Proof.
  intros HA HB. replace (A*B*D*k+m) with ((k*D*B)*A + m) by lia.
  rewrite N.div_add_l by assumption. rewrite N.add_comm, N.mod_add by assumption. reflexivity.
Qed.

Lemma pfield_low r' x q : px r' < py r' -> py r' <= x -> pfield r' q = pfield r' (q mod 2 ^ x).
Proof.
  intros H1 H2. unfold pfield.
  assert (E : 2 ^ x = 2 ^ px r' * 2 ^ plen r' * 2 ^ (x - py r')).
  { unfold plen. rewrite <- !N.pow_add_r. f_equal. lia. }
  pose proof (N.div_mod q (2 ^ x) (pow2_nz x)) as Hq.
  remember (q mod 2 ^ x) as m. remember (q / 2 ^ x) as k.
  rewrite Hq, E. apply field_low_arith; apply pow2_nz.
Qed.

(* a field lying entirely above bit y only depends on the number / 2^y *)
Lemma pfield_high r' y q : y <= px r' ->
  pfield r' q = (q / 2 ^ y / 2 ^ (px r' - y)) mod 2 ^ plen r'.
Proof.
  intros H. unfold pfield. rewrite N.div_div by apply pow2_nz.
  rewrite <- N.pow_add_r. do 3 f_equal. lia.
Qed.

Lemma other_field_same r r' p q : pref_ok r -> pref_ok r' ->
  (py r' <= px r \/ py r <= px r') ->
  q mod 2 ^ px r = p mod 2 ^ px r -> q / 2 ^ py r = p / 2 ^ py r ->
  pfield r' q = pfield r' p.
Proof.
  intros Hok [Hxy' Hy'] [Hd|Hd] Hm Hh.
  - rewrite (pfield_low r' (px r) q), (pfield_low r' (px r) p) by assumption. now rewrite Hm.
  - rewrite (pfield_high r' (py r) q), (pfield_high r' (py r) p) by assumption. now rewrite Hh.
Qed.

(* a field that does not overlap the incremented / decremented one keeps its value *)
(*FIXED*)
Theorem incr_decr_other_field : forall r r' p, pref_ok r -> pref_ok r' -> p < W ->
  (py r' <= px r \/ py r <= px r') ->
  pfield r' (pexpr_eval (EIncr r) p) = pfield r' p /\ pfield r' (pexpr_eval (EDecr r) p) = pfield r' p.
Proof.
  intros r r' p Hok Hok' Hp Hd.
  destruct (incr_all r p Hok Hp) as (_ & Hm & Hh & _).
  destruct (decr_all r p Hok Hp) as (_ & Hm' & Hh' & _).
  split; apply (other_field_same r r'); assumption.
Qed.

(* ---------- DNF ---------- *)
Lemma clause_app a b p : clause_eval (a ++ b) p = clause_eval a p && clause_eval b p.
Proof. unfold clause_eval. apply forallb_app. Qed.

Lemma dnf_and_one ca b p :
  existsb (fun cl => clause_eval cl p) (map (fun cb => ca ++ cb) b) =
  clause_eval ca p && existsb (fun cl => clause_eval cl p) b.
Proof.
  induction b as [|cb b IH]; simpl.
  - now rewrite andb_false_r.
  - rewrite IH, clause_app, andb_orb_distrib_r. reflexivity.
Qed.

(*FIXED*)
Lemma dnf_and_eval : forall a b p, dnf_eval (dnf_and a b) p = dnf_eval a p && dnf_eval b p.
Proof.
  intros a b p. unfold dnf_eval, dnf_and.
  induction a as [|ca a IH]; simpl.
  - reflexivity.
  - rewrite existsb_app.
    etransitivity; [apply f_equal2; [apply dnf_and_one | exact IH]|].
    rewrite andb_orb_distrib_l. reflexivity.
Qed.

(*FIXED*)
Lemma dnf_or_eval : forall a b p, dnf_eval (dnf_or a b) p = dnf_eval a p || dnf_eval b p.
Proof. intros. unfold dnf_eval, dnf_or. apply existsb_app. Qed.

(* the DNF built for a condition (and for its negation) evaluates like the condition, for every parameter *)
(*FIXED*)
Theorem dnf_exact : forall c neg p, dnf_eval (dnf true c neg) p = xorb neg (pcond_eval c p).
Proof.
  induction c as [|o r v|o r k|a IHa b IHb|a IHa b IHb|a IHa]; intros neg p.
  - destruct neg; reflexivity.
  - destruct neg; unfold dnf_eval, clause_eval; cbn [dnf existsb forallb pcond_eval andb];
      destruct (cmp_eval _ _ _); reflexivity.
  - destruct neg; unfold dnf_eval, clause_eval; cbn [dnf existsb forallb pcond_eval andb];
      destruct (cmp_eval _ _ _); reflexivity.
  - destruct neg; simpl dnf.
    + rewrite dnf_or_eval, IHa, IHb, !xorb_true_l. cbn [pcond_eval]. now rewrite negb_andb.
    + rewrite dnf_and_eval, IHa, IHb, !xorb_false_l. reflexivity.
  - destruct neg; simpl dnf.
    + rewrite dnf_and_eval, IHa, IHb, !xorb_true_l. cbn [pcond_eval]. now rewrite negb_orb.
    + rewrite dnf_or_eval, IHa, IHb, !xorb_false_l. reflexivity.
  - simpl. rewrite IHa. destruct neg, (pcond_eval a p); reflexivity.
Qed.

(* the variant that returns the one-clause DNF for `true` also under a negation is wrong *)
(*FIXED*)
Theorem dnf_true_under_negation_refuted :
  exists c p, dnf_eval (dnf false c false) p <> pcond_eval c p.
Proof. exists (CNot CTrue), 0. vm_compute. discriminate. Qed.

(* non-vacuity: incr([2:4]) on 0b1100 saturates, on 0b0100 gives 0b1000; bit 0..1 and 4.. untouched *)
Example incr_example :
  pexpr_eval (EIncr (mk_pref 2 4)) 12 = 12 /\ pexpr_eval (EIncr (mk_pref 2 4)) 5 = 9 /\
  pexpr_eval (EDecr (mk_pref 2 4)) 3 = 3 /\ pexpr_eval (EDecr (mk_pref 2 4)) 23 = 19.
Proof. vm_compute. repeat split. Qed.

Print Assumptions incr_field.
Print Assumptions dnf_exact.
