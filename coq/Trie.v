(* Trie.v — model of toktrie/src/toktree.rs: TrieBuilder (insert with the
   duplicate rule, serialize with subtree sizes and num_parents), TokTrie
   navigation, the branch-free DFS walk add_bias_inner over a stack
   recognizer, has_valid_extensions, greedy tokenisation, filter, chop_tokens.
   Definitions only. *)
From LLG Require Import Base Svob.

(* ---------- builder ------------------------------------------------------ *)
Inductive tree := T (b : byte) (tok : option tokid) (children : list tree).

Definition tree_byte (t : tree) := match t with T b _ _ => b end.
Definition tree_tok (t : tree) := match t with T _ k _ => k end.
Definition tree_children (t : tree) := match t with T _ _ c => c end.

Definition is_some {A} (o : option A) : bool := match o with Some _ => true | None => false end.

(* fresh chain for the word b :: w ending in a token *)
Fixpoint new_chain (w : bytes) (b : byte) (tok : tokid) : tree :=
  match w with
  | [] => T b (Some tok) []
  | b' :: w' => T b None [new_chain w' b' tok]
  end.

(* TrieBuilder::insert below a node whose children are cs.  A child with the
   right byte is followed unless this is the word's last byte and that child
   already carries a token (duplicate word): then a new sibling is appended. *)
Fixpoint ins (w : bytes) (tok : tokid) (cs : list tree) {struct w} : list tree :=
  match w with
  | [] => cs
  | b :: rest =>
      let is_last := match rest with [] => true | _ => false end in
      (fix go (cs : list tree) : list tree :=
         match cs with
         | [] => [new_chain rest b tok]
         | T cb ctok cch :: cs' =>
             if (cb =? b) && negb (is_last && is_some ctok) then
               (if is_last then T cb (Some tok) cch
                else T cb ctok (ins rest tok cch)) :: cs'
             else T cb ctok cch :: go cs'
         end) cs
  end.

Definition root_byte : byte := 255.

Definition insert (t : tree) (w : bytes) (tok : tokid) : tree :=
  match t with T b k cs => T b k (ins w tok cs) end.

(* lexicographic order on byte strings (Vec<u8>::cmp) *)
Fixpoint bytes_leb (a b : bytes) : bool :=
  match a, b with
  | [], _ => true
  | _ :: _, [] => false
  | x :: a', y :: b' => if x <? y then true else if y <? x then false else bytes_leb a' b'
  end.

(* stable sort of ids by their words (sort_by is stable) *)
Fixpoint insert_sorted (x : tokid * bytes) (l : list (tokid * bytes)) : list (tokid * bytes) :=
  match l with
  | [] => [x]
  | y :: l' => if bytes_leb (snd x) (snd y) then x :: l else y :: insert_sorted x l'
  end.
(* inserting from the right keeps equal words in id order *)
Definition sort_vocab (ws : list (tokid * bytes)) : list (tokid * bytes) :=
  fold_right insert_sorted [] ws.

Definition number {A} (l : list A) : list (N * A) := combine (seqN 0 (length l)) l.

Definition build_tree (sorted : list (tokid * bytes)) : tree :=
  fold_left (fun t '(i, w) => match w with [] => t | _ => insert t w i end)
            sorted (T root_byte None []).

(* ---------- serialized nodes -------------------------------------------- *)
Record node := mk_node { nbyte : byte; ntok : option tokid; nsub : N; npar : N }.

(* serialize_node(node, data, num_parents): stored num_parents is max 1;
   the last child receives num_parents + 1 (raw), the others 1 *)
Fixpoint ser (t : tree) (par : N) : list node :=
  match t with
  | T b tok cs =>
      let body :=
        (fix serc (cs : list tree) : list node :=
           match cs with
           | [] => []
           | c :: cs' => ser c (match cs' with [] => par + 1 | _ => 1 end) ++ serc cs'
           end) cs in
      mk_node b tok (1 + lenN body) (if par =? 0 then 1 else par) :: body
  end.

Fixpoint ser_forest (cs : list tree) (par : N) : list node :=
  match cs with
  | [] => []
  | c :: cs' => ser c (match cs' with [] => par + 1 | _ => 1 end) ++ ser_forest cs' par
  end.

(* bit packing of TrieNode (bits = token<<8 | byte, bits2 = (parents-1) | size<<PARENT_BITS) *)
Definition NO_TOKEN : N := 16777215.      (* 0xffffff *)
Definition pack_node (parent_bits : N) (n : node) : N * N :=
  (N.lor (N.shiftl (match ntok n with Some t => t | None => NO_TOKEN end) 8) (nbyte n),
   N.lor (npar n - 1) (N.shiftl (nsub n) parent_bits)).
Definition unpack_node (parent_bits : N) (p : N * N) : node :=
  let '(b1, b2) := p in
  let r := N.shiftr b1 8 in
  mk_node (N.land b1 255) (if r =? NO_TOKEN then None else Some r)
          (N.shiftr b2 parent_bits) (N.land b2 (N.ones parent_bits) + 1).
Definition node_packable (parent_bits : N) (n : node) : bool :=
  (nbyte n <? 256) && (match ntok n with Some t => t <? NO_TOKEN | None => true end)
  && (1 <=? npar n) && (npar n <=? 2 ^ parent_bits) && (nsub n <? 2 ^ (32 - parent_bits)).

(* ---------- the trie ----------------------------------------------------- *)
Record trie := mk_trie {
  vocab_size : N;
  tokens : list bytes;           (* token_offsets + token_data *)
  nodes : list node;
  max_token_len : N;
  sorted_vocab : list tokid
}.

Definition max_len (ws : list bytes) : N := fold_left (fun m w => N.max m (lenN w)) ws 0.

Definition trie_from (ws : list bytes) : trie :=
  let sorted := sort_vocab (number ws) in
  mk_trie (lenN ws) ws (ser (build_tree sorted) 0) (max_len ws) (map fst sorted).

Definition token (tr : trie) (t : tokid) : bytes := nth (N.to_nat t) (tokens tr) [].

Definition filter_trie (tr : trie) (f : svob) : trie :=
  let keep t := get f t in
  let sorted := optmap (fun t => if keep t then Some (t, token tr t) else None) (sorted_vocab tr) in
  let ws := map (fun t => if keep t then token tr t else []) (seqN 0 (N.to_nat (vocab_size tr))) in
  mk_trie (vocab_size tr) ws (ser (build_tree sorted) 0) (max_len ws) (sorted_vocab tr).

(* children offsets of the node at offset off: off+1, then += subtree_size *)
Fixpoint children_from (fuel : nat) (ns : list node) (cur end_ : N) : list N :=
  match fuel with
  | O => []
  | S f =>
      if cur <? end_ then
        match nthN ns cur with
        | Some n => cur :: children_from f ns (cur + N.max 1 (nsub n)) end_
        | None => []
        end
      else []
  end.
Definition node_children (ns : list node) (off : N) : list N :=
  match nthN ns off with
  | Some n => children_from (length ns) ns (off + 1) (off + nsub n)
  | None => []
  end.

Definition child_at_byte (ns : list node) (off : N) (b : byte) : option N :=
  find (fun c => match nthN ns c with Some n => nbyte n =? b | None => false end)
       (node_children ns off).

Fixpoint child_at_bytes (ns : list node) (off : N) (w : bytes) : option N :=
  match w with
  | [] => Some off
  | b :: w' => match child_at_byte ns off b with
               | Some c => child_at_bytes ns c w'
               | None => None
               end
  end.

Definition node_tok (ns : list node) (off : N) : option tokid :=
  match nthN ns off with Some n => ntok n | None => None end.

Definition token_id_at_bytes (tr : trie) (w : bytes) : option tokid :=
  match child_at_bytes (nodes tr) 0 w with Some c => node_tok (nodes tr) c | None => None end.

(* prefix_token_id: longest prefix of w that is a token; (0,0) if none *)
Fixpoint prefix_tok_loop (ns : list node) (off : N) (w : bytes) (idx : N) (last : tokid * N)
  : tokid * N :=
  match w with
  | [] => last
  | b :: w' =>
      match child_at_byte ns off b with
      | None => last
      | Some c =>
          let last' := match node_tok ns c with Some t => (t, idx + 1) | None => last end in
          prefix_tok_loop ns c w' (idx + 1) last'
      end
  end.
Definition prefix_token_id (tr : trie) (w : bytes) : tokid * N :=
  prefix_tok_loop (nodes tr) 0 w 0 (0, 0).
Definition token_id (tr : trie) (w : bytes) : option tokid :=
  let '(t, l) := prefix_token_id tr w in if l =? lenN w then Some t else None.

Definition has_extensions (tr : trie) (w : bytes) : bool :=
  match child_at_bytes (nodes tr) 0 w with
  | Some c => match nthN (nodes tr) c with Some n => 1 <? nsub n | None => false end
  | None => false
  end.

(* greedy_tokenize: longest-match, skipping a byte when nothing matches *)
Fixpoint greedy_loop (fuel : nat) (tr : trie) (w : bytes) : list tokid :=
  match fuel with
  | O => []
  | S f =>
      match w with
      | [] => []
      | _ :: _ =>
          let '(t, l) := prefix_token_id tr w in
          if l =? 0 then greedy_loop f tr (tl w)
          else t :: greedy_loop f tr (skipn (N.to_nat l) w)
      end
  end.
Definition greedy_tokenize (tr : trie) (w : bytes) : list tokid := greedy_loop (length w) tr w.

Definition marker : byte := 255.

Definition is_special_token (tr : trie) (t : tokid) : bool :=
  match token tr t with b :: _ => b =? marker | [] => false end.

(* decimal digits of a token id, most significant first *)
Fixpoint dec_digits_fuel (fuel : nat) (n : N) (acc : bytes) : bytes :=
  match fuel with
  | O => acc
  | S f => let acc' := (48 + n mod 10) :: acc in
           if n <? 10 then acc' else dec_digits_fuel f (n / 10) acc'
  end.
Definition dec_digits (n : N) : bytes := dec_digits_fuel 40 n [].

(* "\xFF[id]" *)
Definition decode_as_special (t : tokid) : bytes := marker :: 91 :: dec_digits t ++ [93].

Definition token_len (tr : trie) (t : tokid) : N :=
  let b := token tr t in
  match b with
  | [] => lenN (dec_digits t) + 3
  | x :: _ => if x =? marker then lenN (dec_digits t) + 3 else lenN b
  end.

Definition decode_raw (tr : trie) (ts : list tokid) : bytes :=
  flat_map (fun t => let b := token tr t in
                     match b with
                     | [] => decode_as_special t
                     | x :: _ => if x =? marker then decode_as_special t else b
                     end) ts.

(* decode(tokens) with include_special = true *)
Definition decode (tr : trie) (ts : list tokid) : bytes :=
  flat_map (fun t => let b := token tr t in
                     match b with
                     | [] => [60; 91] ++ dec_digits t ++ [93; 62]      (* <[id]> *)
                     | x :: b' => if x =? marker then b' else b
                     end) ts.

(* sorted_tokens: DFS listing (token, bytes) *)
Fixpoint sorted_tokens_loop (ns : list node) (np : nat) (cur : bytes (* reversed *))
         (acc : list (tokid * bytes)) : list (tokid * bytes) :=
  match ns with
  | [] => rev acc
  | n :: ns' =>
      let cur1 := nbyte n :: skipn np cur in
      let acc' := match ntok n with Some t => (t, rev cur1) :: acc | None => acc end in
      sorted_tokens_loop ns' (if nsub n =? 1 then N.to_nat (npar n) else 0) cur1 acc'
  end.
Definition sorted_tokens (tr : trie) : list (tokid * bytes) :=
  sorted_tokens_loop (tl (nodes tr)) 0 [] [].

(* ---------- the walk over a stack recognizer ----------------------------- *)
Section Walk.
  Variable St : Type.
  Variable push : St -> byte -> option St.

  (* stack: top first, never empty *)
  Definition pop_chk (n : nat) (stk : list St) : option (list St) :=
    if Nat.ltb n (length stk) then Some (skipn n stk) else None.

  Definition try_push (stk : list St) (b : byte) : option (list St) :=
    match stk with
    | [] => None
    | s :: _ => match push s b with Some s' => Some (s' :: stk) | None => None end
    end.

  (* trie_finished for a stack recognizer: drop everything above the bottom *)
  Definition trie_finished (stk : list St) : list St :=
    match rev stk with [] => [] | s :: _ => [s] end.

  (* add_bias_inner over the nodes following the start node (its subtree
     without itself).  `skip` counts nodes jumped over by p += subtree_size.
     None = stack underflow (pop below the bottom = panic / UB in the code). *)
  Fixpoint walk (defl : tokid) (ns : list node) (skip : nat) (np : nat) (stk : list St)
           (toks : svob) (visited : N) : option (nat * list St * svob * N) :=
    match ns with
    | [] => Some (np, stk, toks, visited)
    | n :: ns' =>
        match skip with
        | S k => walk defl ns' k np stk toks visited
        | O =>
            match pop_chk np stk with
            | None => None
            | Some stk1 =>
                match try_push stk1 (nbyte n) with
                | Some stk2 =>
                    let tok := match ntok n with Some t => t | None => defl end in
                    walk defl ns' 0 (if nsub n =? 1 then N.to_nat (npar n) else 0) stk2
                         (allow_token toks tok) (visited + 1)
                | None =>
                    walk defl ns' (N.to_nat (nsub n - 1)) (N.to_nat (npar n - 1)) stk1
                         toks (visited + 1)
                end
            end
        end
    end.

  (* the nodes strictly inside the subtree rooted at offset off *)
  Definition subtree_body (ns : list node) (off : N) : list node :=
    match nthN ns off with
    | Some n => firstn (N.to_nat (nsub n - 1)) (skipn (N.to_nat off + 1) ns)
    | None => []
    end.

  (* has_valid_extensions: same walk, stops at the first pushed token node *)
  Fixpoint walk_any (ns : list node) (skip : nat) (np : nat) (stk : list St) : option bool :=
    match ns with
    | [] => Some false
    | n :: ns' =>
        match skip with
        | S k => walk_any ns' k np stk
        | O =>
            match pop_chk np stk with
            | None => None
            | Some stk1 =>
                match try_push stk1 (nbyte n) with
                | Some stk2 =>
                    if is_some (ntok n) then Some true
                    else walk_any ns' 0 (if nsub n =? 1 then N.to_nat (npar n) else 0) stk2
                | None => walk_any ns' (N.to_nat (nsub n - 1)) (N.to_nat (npar n - 1)) stk1
                end
            end
        end
    end.

  Definition has_valid_extensions (tr : trie) (stk : list St) (start : bytes) : option bool :=
    match child_at_bytes (nodes tr) 0 start with
    | None => Some false
    | Some off => walk_any (subtree_body (nodes tr) off) 0 0 stk
    end.

  (* byte-level acceptance of a word from a state *)
  Fixpoint run (s : St) (w : bytes) : option St :=
    match w with
    | [] => Some s
    | b :: w' => match push s b with Some s' => run s' w' | None => None end
    end.
End Walk.

(* FixedRecognizer: accepts exactly the prefixes of `bytes` *)
Definition fixed_push (target : bytes) (ptr : N) (b : byte) : option N :=
  match nthN target ptr with
  | Some x => if x =? b then Some (ptr + 1) else None
  | None => None
  end.

Section AddBias.
  Variable St : Type.
  Variable push : St -> byte -> option St.

  (* add_bias with an empty start, up to and including the final
     r.pop_bytes(next_pop); returns (stack, toks incl. fake slot, nodes_walked) *)
  Definition add_bias0 {S'} (push' : S' -> byte -> option S') (tr : trie)
             (stk : list S') (toks : svob) : option (list S' * svob * N) :=
    let defl := vocab_size tr in
    match walk S' push' defl (subtree_body (nodes tr) 0) 0 0 stk toks 0 with
    | None => None
    | Some (np, stk', toks', visited) =>
        match pop_chk S' np stk' with
        | None => None
        | Some stk'' => Some (stk'', toks', visited + 1)
        end
    end.

  Definition add_bias (tr : trie) (stk : list St) (toks : svob) (start : bytes)
    : option (list St * svob) :=
    match start with
    | [] => match add_bias0 push tr stk toks with
            | Some (stk', toks', _) =>
                Some (trie_finished St stk', disallow_token toks' (vocab_size tr))
            | None => None
            end
    | _ :: _ =>
        match add_bias0 (fixed_push start) tr [0] toks with
        | None => None
        | Some (_, toks1', _) =>
            let toks1 := disallow_token toks1' (vocab_size tr) in
            match child_at_bytes (nodes tr) 0 start with
            | None => Some (stk, toks1)
            | Some off =>
                let defl := vocab_size tr in
                match walk St push defl (subtree_body (nodes tr) off) 0 0 stk toks1 0 with
                | None => None
                | Some (_, stk', toks', _) =>
                    Some (trie_finished St stk', disallow_token toks' defl)
                end
            end
        end
    end.
End AddBias.

Definition alloc_token_set (tr : trie) : svob :=
  alloc_with_capacity (vocab_size tr) (vocab_size tr + 1).

(* ---------- chop_tokens -------------------------------------------------- *)
Section Chop.
  Variable St : Type.
  Variable push : St -> byte -> option St.

  Definition lastn {A} (n : nat) (l : list A) : list A := skipn (length l - n) l.

  Fixpoint chop_count (tr : trie) (rev_toks : list tokid) (chop_bytes : N) (idx : N) (cur : N)
    : option (N * N) :=
    match rev_toks with
    | [] => None                                  (* unreachable!() *)
    | t :: r' =>
        let cur' := cur + token_len tr t in
        if chop_bytes <=? cur' then Some (idx, cur') else chop_count tr r' chop_bytes (idx + 1) cur'
    end.

  Fixpoint chop_scan (tr : trie) (stk : list St) (toks : list tokid) (suff : bytes)
    : option (N * N) :=
    match suff with
    | [] => Some (0, 0)
    | _ :: suff' =>
        match has_valid_extensions St push tr stk suff with
        | None => None
        | Some true => chop_count tr (rev toks) (lenN suff) 1 0
        | Some false => chop_scan tr stk toks suff'
        end
    end.

  Definition chop_tokens (tr : trie) (stk : list St) (toks : list tokid) : option (N * N) :=
    let suff := decode_raw tr (lastn 4 toks) in
    let suff := lastn (N.to_nat (max_token_len tr)) suff in
    chop_scan tr stk toks suff.
End Chop.

(* ---------- naive specification ----------------------------------------- *)
(* tokens the walk must report from state s with start prefix `start` *)
Definition bias_spec {St} (push : St -> byte -> option St) (ws : list bytes) (s : St)
           (start : bytes) (t : tokid) : bool :=
  match nthN ws t with
  | None => false
  | Some w =>
      match w with
      | [] => false
      | _ :: _ =>
          (is_prefix w start)
          || (is_prefix start w
              && negb (Nat.eqb (length w) (length start))
              && is_some (run St push s (skipn (length start) w)))
      end
  end.
