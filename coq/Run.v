(* Run.v — dispatch of correspondence cases to the per-property runners *)
From Coq Require Import String.
From LLG Require Import Base Params Sx Run16 RunEngine RunFfi Run09 Run04 Run05 Run08 Run18 Run15 Run19 Run06.
Open Scope string_scope.
Open Scope N_scope.

Definition run_case (prop : bytes) (x : sx) : sx :=
  if bytes_eqb (head_sym x) (sym "noop") then x   (* implementation-only comparison, nothing to model *)
  else if bytes_eqb prop (sym "C16") then run_case16 x
  else if bytes_eqb prop (sym "C17") then run_case17 x
  else if bytes_eqb prop (sym "C09") then run_case09 x
  else if bytes_eqb prop (sym "C04") then run_case04 x
  else if bytes_eqb prop (sym "C05") then run_case05 x
  else if bytes_eqb prop (sym "C08") then run_case08 x
  else if bytes_eqb prop (sym "C15") then run_case15 x
  else if bytes_eqb prop (sym "C19") then run_case19 x
  else if bytes_eqb (head_sym x) (sym "json6") then run_case06 x
  else if bytes_eqb (head_sym x) (sym "lcm") || bytes_eqb (head_sym x) (sym "multof") then run_case08 x
  else if bytes_eqb (head_sym x) (sym "stopctl") || bytes_eqb (head_sym x) (sym "cfg") then run_case18 x
  else if bytes_eqb (head_sym x) (sym "session") then run_session ROLLBACK_CLEARS_CACHE (tail_items x)
  else SL [SY (sym "unknown-property")].
