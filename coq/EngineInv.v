(* EngineInv.v — structural invariant of the imperative engine state and the
   one-step simulation of the pure engine (ppush / p_flush) by
   try_push_byte / flush_lexer.  Auxiliary file for EngineProofs.v. *)
From LLG Require Import Base Svob SvobProofs Trie TrieProofs WalkM
                        Regex RegexProofs Lexer Earley Engine PureEngine.
Local Open Scope nat_scope.

(* projections of the record setters, and nothing else *)
Ltac psimpl :=
  cbn [p_rows p_valid_end p_stack p_definitive p_bytes p_applied p_row_infos p_top_eos
       p_trie_stack p_cache p_last_force p_items p_max_items p_error p_panic
       set_rows set_stack set_row_infos set_panic set_items set_cache set_spec set_applied
       set_last_force f_row f_lst f_byte pf_rows pf_lst pf_byte fst snd].
Tactic Notation "psimpl" "in" hyp(H) :=
  cbn [p_rows p_valid_end p_stack p_definitive p_bytes p_applied p_row_infos p_top_eos
       p_trie_stack p_cache p_last_force p_items p_max_items p_error p_panic
       set_rows set_stack set_row_infos set_panic set_items set_cache set_spec set_applied
       set_last_force f_row f_lst f_byte pf_rows pf_lst pf_byte fst snd] in H.
Tactic Notation "psimpl" "in" "*" :=
  cbn [p_rows p_valid_end p_stack p_definitive p_bytes p_applied p_row_infos p_top_eos
       p_trie_stack p_cache p_last_force p_items p_max_items p_error p_panic
       set_rows set_stack set_row_infos set_panic set_items set_cache set_spec set_applied
       set_last_force f_row f_lst f_byte pf_rows pf_lst pf_byte fst snd] in *.

(* ------------------------------------------------------------------------ *)
(* lists                                                                    *)
(* ------------------------------------------------------------------------ *)
Lemma firstn_S_nth : forall {A} (l : list A) n d,
  n < length l -> firstn (S n) l = firstn n l ++ [nth n l d].
Proof.
  intros A l. induction l as [|x l IH]; intros n d Hn; cbn [length] in Hn; [lia|].
  destruct n as [|n]; [reflexivity|].
  cbn [firstn nth app]. f_equal. apply IH. lia.
Qed.

Lemma last_snoc : forall {A} (l : list A) x d, last (l ++ [x]) d = x.
Proof.
  intros A l x d. induction l as [|y l IH]; [reflexivity|].
  cbn [app]. destruct (l ++ [x]) eqn:E.
  - destruct l; discriminate E.
  - cbn [last]. cbn [last] in IH. exact IH.
Qed.

Lemma last_firstn_S : forall {A} (l : list A) n d,
  n < length l -> last (firstn (S n) l) d = nth n l d.
Proof. intros A l n d Hn. rewrite (firstn_S_nth l n d Hn). apply last_snoc. Qed.

Lemma firstn_le_eq : forall {A} (l l' : list A) n k,
  k <= n -> firstn n l' = firstn n l -> firstn k l' = firstn k l.
Proof.
  intros A l l' n k Hk E.
  replace k with (Nat.min k n) by lia.
  rewrite <- (firstn_firstn l' k n), <- (firstn_firstn l k n), E. reflexivity.
Qed.

Lemma nth_firstn_eq : forall {A} (l l' : list A) n k d,
  k < n -> firstn n l' = firstn n l -> nth k l' d = nth k l d.
Proof.
  intros A l l' n k d Hk E.
  assert (H : forall (m : list A) k n, k < n -> nth k (firstn n m) d = nth k m d).
  { intros m. induction m as [|x m IH]; intros k0 n0 Hk0.
    - rewrite firstn_nil. reflexivity.
    - destruct n0 as [|n0]; [lia|]. destruct k0 as [|k0]; [reflexivity|].
      cbn [firstn nth]. apply IH. lia. }
  rewrite <- (H l' k n Hk), <- (H l k n Hk), E. reflexivity.
Qed.

Lemma firstn_update_nth : forall {A} (l : list A) i f, firstn i (update_nth l i f) = firstn i l.
Proof.
  intros A l. induction l as [|x l IH]; intros i f; [reflexivity|].
  destruct i as [|i]; [reflexivity|]. cbn [update_nth firstn]. f_equal. apply IH.
Qed.

Lemma firstn_set_nth : forall {A} (l : list A) i x, i <= length l -> firstn i (set_nth l i x) = firstn i l.
Proof.
  intros A l i x Hi. unfold set_nth. destruct (Nat.eqb_spec i (length l)) as [E|E].
  - subst i. rewrite firstn_app, Nat.sub_diag, firstn_all. cbn [firstn]. apply app_nil_r.
  - apply firstn_update_nth.
Qed.

Lemma nth_set_nth : forall {A} (l : list A) i x d, i <= length l -> nth i (set_nth l i x) d = x.
Proof.
  intros A l i x d Hi. unfold set_nth. destruct (Nat.eqb_spec i (length l)) as [E|E].
  - subst i. rewrite app_nth2 by lia. rewrite Nat.sub_diag. reflexivity.
  - rewrite nth_update_nth_eq by lia. reflexivity.
Qed.

Lemma length_set_nth : forall {A} (l : list A) i x, i <= length l -> i < length (set_nth l i x).
Proof.
  intros A l i x Hi. unfold set_nth. destruct (Nat.eqb_spec i (length l)) as [E|E].
  - rewrite app_length. cbn [length]. lia.
  - rewrite length_update_nth. lia.
Qed.

Lemma hd_skipn_nth : forall {A} (l : list A) n d, hd d (skipn n l) = nth n l d.
Proof.
  intros A l. induction l as [|x l IH]; intros n d.
  - destruct n; reflexivity.
  - destruct n as [|n]; [reflexivity|]. cbn [skipn nth]. apply IH.
Qed.

Lemma skipn_app_exact : forall {A} (l1 l2 : list A) n, n = length l1 -> skipn n (l1 ++ l2) = l2.
Proof.
  intros A l1 l2 n ->. rewrite skipn_app, skipn_all, Nat.sub_diag. reflexivity.
Qed.

Lemma skipn_nil_iff : forall {A} (l : list A) n, n < length l -> skipn n l <> [].
Proof.
  intros A l n Hn E. assert (H : length (skipn n l) = 0) by (rewrite E; reflexivity).
  rewrite skipn_length in H. lia.
Qed.

(* ------------------------------------------------------------------------ *)
(* boolean equalities                                                       *)
(* ------------------------------------------------------------------------ *)
Lemma lstate_eqb_eq : forall a b, lstate_eqb a b = true -> a = b.
Proof.
  induction a as [|[i r] a IH]; intros [|[j s] b] H; cbn [lstate_eqb] in H;
    try discriminate; [reflexivity|].
  apply andb_true_iff in H as [H H3]. apply andb_true_iff in H as [H1 H2].
  apply N.eqb_eq in H1. apply regex_eqb_eq in H2. subst. f_equal. apply IH. exact H3.
Qed.

Lemma mlidx_eqb_eq : forall a b, mlidx_eqb a b = true -> a = b.
Proof.
  intros [i|s|s] [j|t|t] H; cbn [mlidx_eqb] in H; try discriminate.
  - apply N.eqb_eq in H. subst. reflexivity.
  - apply lstate_eqb_eq in H. subst. reflexivity.
  - apply lstate_eqb_eq in H. subst. reflexivity.
Qed.

(* the only fact about the Earley scan the refinement needs *)
Lemma scan_row_lexeme : forall g nl sp rows lx r,
  scan_row g nl sp rows lx = Some r -> r_lexeme r = lx.
Proof.
  intros g nl sp rows lx r H. unfold scan_row in H.
  destruct (rev rows) as [|t _]; [discriminate|].
  unfold close_row in H.
  match type of H with context [agenda ?a ?b ?c ?d ?e ?f ?g ?h] =>
    destruct (agenda a b c d e f g h) as [its allowed] end.
  destruct its; [discriminate|]. inversion H. reflexivity.
Qed.

Global Opaque scan_row initial_state transition advance agenda.

(* ------------------------------------------------------------------------ *)
(* monotone stacks                                                          *)
(* ------------------------------------------------------------------------ *)
Fixpoint mono (stk : list lframe) : Prop :=
  match stk with
  | [] => True
  | e :: stk' => (forall e', In e' stk' -> f_row e' <= f_row e) /\ mono stk'
  end.

Lemma mono_top : forall stk e, mono stk -> In e stk -> f_row e <= f_row (hd dead_frame stk).
Proof.
  intros [|x stk] e Hm Hin; [destruct Hin|].
  cbn [hd]. destruct Hin as [->|Hin]; [lia|]. destruct Hm as [H _]. apply H. exact Hin.
Qed.

Lemma mono_skipn : forall n stk, mono stk -> mono (skipn n stk).
Proof.
  induction n as [|n IH]; intros stk Hm; [exact Hm|].
  destruct stk as [|x stk]; [exact I|]. cbn [skipn]. apply IH. exact (proj2 Hm).
Qed.

Lemma mono_app_r : forall ex stk, mono (ex ++ stk) -> mono stk.
Proof.
  intros ex stk Hm. rewrite <- (skipn_app_exact ex stk (length ex) eq_refl).
  apply mono_skipn. exact Hm.
Qed.

Lemma mono_cons : forall fr stk,
  mono stk -> f_row (hd dead_frame stk) <= f_row fr -> mono (fr :: stk).
Proof.
  intros fr stk Hm Hle. split; [|exact Hm].
  intros e' Hin. pose proof (mono_top stk e' Hm Hin). lia.
Qed.

Lemma hd_skipn_le : forall n stk, mono stk -> n < length stk ->
  f_row (hd dead_frame (skipn n stk)) <= f_row (hd dead_frame stk).
Proof.
  intros n stk Hm Hn. apply mono_top; [exact Hm|].
  rewrite hd_skipn_nth. apply nth_In. exact Hn.
Qed.

Lemma in_skipn : forall {A} n (l : list A) x, In x (skipn n l) -> In x l.
Proof.
  intros A n l x H. rewrite <- (firstn_skipn n l). apply in_or_app. right. exact H.
Qed.

(* ------------------------------------------------------------------------ *)
(* relations between states: what an operation leaves alone                  *)
(* ------------------------------------------------------------------------ *)
Record ctl_le (st st' : pstate) : Prop := mk_ctl_le {
  cl_bytes : p_bytes st' = p_bytes st;
  cl_applied : p_applied st' = p_applied st;
  cl_top_eos : p_top_eos st' = p_top_eos st;
  cl_cache : p_cache st' = p_cache st;
  cl_last_force : p_last_force st' = p_last_force st;
  cl_max : p_max_items st' = p_max_items st;
  cl_error : p_error st' = p_error st;
  cl_items : (p_items st <= p_items st')%N;
  cl_panic : p_panic st = true -> p_panic st' = true
}.

Record mode_eq (st st' : pstate) : Prop := mk_mode_eq {
  me_def : p_definitive st' = p_definitive st;
  me_ts : p_trie_stack st' = p_trie_stack st;
  me_panic : p_panic st' = p_panic st
}.

Lemma ctl_le_refl : forall st, ctl_le st st.
Proof. intros st. constructor; try reflexivity. auto. Qed.

Lemma ctl_le_trans : forall a b c, ctl_le a b -> ctl_le b c -> ctl_le a c.
Proof.
  intros a b c [A1 A2 A3 A4 A5 A6 A7 A8 A9] [B1 B2 B3 B4 B5 B6 B7 B8 B9].
  constructor; try congruence; [lia|auto].
Qed.

Lemma mode_eq_refl : forall st, mode_eq st st.
Proof. intros st. constructor; reflexivity. Qed.

Lemma mode_eq_trans : forall a b c, mode_eq a b -> mode_eq b c -> mode_eq a c.
Proof. intros a b c [] []. constructor; congruence. Qed.

Lemma lim_back : forall st st', ctl_le st st' -> over_limit st' = false -> over_limit st = false.
Proof.
  intros st st' H. unfold over_limit. rewrite (cl_max _ _ H).
  destruct (p_max_items st) as [m|]; [|reflexivity].
  intros Hl. apply N.ltb_ge in Hl. apply N.ltb_ge. pose proof (cl_items _ _ H). lia.
Qed.

Lemma top_stack_eq : forall st st', p_stack st' = p_stack st -> top st' = top st.
Proof. intros st st' H. unfold top. rewrite H. reflexivity. Qed.

Lemma num_rows_stack_eq : forall st st', p_stack st' = p_stack st -> num_rows st' = num_rows st.
Proof. intros st st' H. unfold num_rows. rewrite (top_stack_eq _ _ H). reflexivity. Qed.

(* ------------------------------------------------------------------------ *)
(* abstraction lemmas                                                       *)
(* ------------------------------------------------------------------------ *)
Lemma abs_frame_keep : forall st st' e n,
  f_row e < n -> firstn n (p_rows st') = firstn n (p_rows st) ->
  abs_frame st' e = abs_frame st e.
Proof.
  intros st st' e n He Hk. unfold abs_frame. f_equal.
  apply firstn_le_eq with n; [lia|exact Hk].
Qed.

Lemma abs_map_keep : forall st st' stk n,
  (forall e, In e stk -> f_row e < n) -> firstn n (p_rows st') = firstn n (p_rows st) ->
  map (abs_frame st') stk = map (abs_frame st) stk.
Proof.
  intros st st' stk n Hall Hk. apply map_ext_in. intros e He.
  apply abs_frame_keep with n; [apply Hall; exact He|exact Hk].
Qed.

Lemma abs_frame_inj : forall st st' e e',
  f_row e < length (p_rows st) -> f_row e' < length (p_rows st') ->
  abs_frame st' e' = abs_frame st e ->
  e' = e /\ firstn (S (f_row e)) (p_rows st') = firstn (S (f_row e)) (p_rows st).
Proof.
  intros st st' [r l b] [r' l' b'] Hr Hr' E. psimpl in *.
  assert (E1 : pf_rows (abs_frame st' (mk_frame r' l' b')) = pf_rows (abs_frame st (mk_frame r l b)))
    by (rewrite E; reflexivity).
  assert (E2 : pf_lst (abs_frame st' (mk_frame r' l' b')) = pf_lst (abs_frame st (mk_frame r l b)))
    by (rewrite E; reflexivity).
  assert (E3 : pf_byte (abs_frame st' (mk_frame r' l' b')) = pf_byte (abs_frame st (mk_frame r l b)))
    by (rewrite E; reflexivity).
  cbn [abs_frame pf_rows pf_lst pf_byte f_row f_lst f_byte] in E1, E2, E3. subst l' b'.
  assert (Hlen : length (firstn (S r') (p_rows st')) = length (firstn (S r) (p_rows st)))
    by (rewrite E1; reflexivity).
  rewrite !firstn_length_le in Hlen by lia.
  assert (r' = r) by lia. subst r'. split; [reflexivity|exact E1].
Qed.

(* ------------------------------------------------------------------------ *)
(* the structural invariant                                                 *)
(* ------------------------------------------------------------------------ *)
Section Inv.
Variable cx : ctx.

(* every stored row below rows_valid_end is the scan of its predecessors with
   its own lexeme: this is what makes speculative row reuse sound *)
Definition rows_valid (rows : list row) (ve : nat) : Prop :=
  forall i, 1 <= i -> i < ve ->
    scan_row (c_g cx) (c_nl cx) (c_sp cx) (firstn i rows) (r_lexeme (nth i rows dummy_row))
    = Some (nth i rows dummy_row).

Record Struct (st : pstate) : Prop := mk_Struct {
  s_ne : p_stack st <> [];
  s_mono : mono (p_stack st);
  s_top : num_rows st <= p_valid_end st;
  s_ve : p_valid_end st <= length (p_rows st);
  s_rows : rows_valid (p_rows st) (p_valid_end st)
}.

Lemma rows_valid_le : forall rows ve ve', ve' <= ve -> rows_valid rows ve -> rows_valid rows ve'.
Proof. intros rows ve ve' Hle H i H1 H2. apply H; lia. Qed.

Lemma struct_in_range : forall st e, Struct st -> In e (p_stack st) -> f_row e < num_rows st.
Proof.
  intros st e HS Hin. unfold num_rows, top.
  pose proof (mono_top _ _ (s_mono _ HS) Hin). lia.
Qed.

Lemma struct_range_len : forall st e, Struct st -> In e (p_stack st) -> f_row e < length (p_rows st).
Proof.
  intros st e HS Hin. pose proof (struct_in_range st e HS Hin).
  pose proof (s_top _ HS). pose proof (s_ve _ HS). lia.
Qed.

Lemma top_in : forall st, p_stack st <> [] -> In (top st) (p_stack st).
Proof. intros st H. unfold top. destruct (p_stack st); [congruence|]. left. reflexivity. Qed.

Lemma struct_ext : forall st st',
  p_stack st' = p_stack st -> p_rows st' = p_rows st -> p_valid_end st' = p_valid_end st ->
  Struct st -> Struct st'.
Proof.
  intros st st' Hs Hr Hv [H1 H2 H3 H4 H5].
  constructor; rewrite ?(num_rows_stack_eq _ _ Hs), ?Hs, ?Hr, ?Hv; assumption.
Qed.

(* ---- advance_parser_core ---- *)
Definition core_frame (st' : pstate) (pre : prelexeme) (nr : nat) : lframe :=
  let tb := if pl_next_row pre then pl_byte pre else None in
  let s0 := start_state_of cx (row_at st' nr) in
  mk_frame nr (match tb with Some b => transition s0 b | None => s0 end) tb.

Definition core_write (st : pstate) (nr : nat) (r : row) : pstate :=
  let st1 := set_rows st (set_nth (p_rows st) nr r) (S nr) in
  let st2 := set_items st1 (p_items st1 + lenN (r_items r))%N in
  if p_definitive st2 then set_row_infos st2 (S (Nat.min (p_row_infos st2) nr)) else st2.

Lemma core_unfold : forall st pre,
  advance_parser_core cx st pre =
  if over_limit st then None else
  if negb (p_definitive st) && Nat.ltb (num_rows st) (p_valid_end st)
     && mlidx_eqb (r_lexeme (row_at st (num_rows st))) (pl_idx pre)
  then Some (core_frame st pre (num_rows st), st)
  else match scan_row (c_g cx) (c_nl cx) (c_sp cx) (firstn (num_rows st) (p_rows st)) (pl_idx pre) with
       | None => None
       | Some r => Some (core_frame (core_write st (num_rows st) r) pre (num_rows st),
                         core_write st (num_rows st) r)
       end.
Proof.
  intros st pre. unfold advance_parser_core. cbv zeta.
  destruct (over_limit st); [reflexivity|].
  destruct (negb (p_definitive st) && Nat.ltb (num_rows st) (p_valid_end st)
            && mlidx_eqb (r_lexeme (row_at st (num_rows st))) (pl_idx pre)); [reflexivity|].
  destruct (scan_row (c_g cx) (c_nl cx) (c_sp cx) (firstn (num_rows st) (p_rows st)) (pl_idx pre));
    reflexivity.
Qed.

Lemma core_write_rows : forall st nr r, p_rows (core_write st nr r) = set_nth (p_rows st) nr r.
Proof. intros. unfold core_write. cbv zeta. psimpl. destruct (p_definitive st); reflexivity. Qed.
Lemma core_write_ve : forall st nr r, p_valid_end (core_write st nr r) = S nr.
Proof. intros. unfold core_write. cbv zeta. psimpl. destruct (p_definitive st); reflexivity. Qed.
Lemma core_write_stack : forall st nr r, p_stack (core_write st nr r) = p_stack st.
Proof. intros. unfold core_write. cbv zeta. psimpl. destruct (p_definitive st); reflexivity. Qed.
Lemma core_write_ri : forall st nr r,
  p_row_infos (core_write st nr r) =
  if p_definitive st then S (Nat.min (p_row_infos st) nr) else p_row_infos st.
Proof. intros. unfold core_write. cbv zeta. psimpl. destruct (p_definitive st); reflexivity. Qed.
Lemma core_write_ctl : forall st nr r, ctl_le st (core_write st nr r).
Proof.
  intros. unfold core_write. cbv zeta. psimpl.
  destruct (p_definitive st); constructor; psimpl; try reflexivity; try lia; auto.
Qed.
Lemma core_write_mode : forall st nr r, mode_eq st (core_write st nr r).
Proof.
  intros. unfold core_write. cbv zeta. psimpl.
  destruct (p_definitive st); constructor; psimpl; try reflexivity; auto.
Qed.

Record core_post (st : pstate) (pre : prelexeme) (fr : lframe) (st' : pstate) : Prop := {
  cp_lim : over_limit st = false;
  cp_ctl : ctl_le st st';
  cp_mode : mode_eq st st';
  cp_stack : p_stack st' = p_stack st;
  cp_keep : firstn (num_rows st) (p_rows st') = firstn (num_rows st) (p_rows st);
  cp_top : num_rows st < p_valid_end st';
  cp_ve : p_valid_end st' <= length (p_rows st');
  cp_rows : rows_valid (p_rows st') (p_valid_end st');
  cp_frow : f_row fr = num_rows st;
  cp_fbyte : f_byte fr = (if pl_next_row pre then pl_byte pre else None);
  cp_pure : p_advance_core cx (firstn (num_rows st) (p_rows st)) pre = Some (abs_frame st' fr);
  cp_ri : p_row_infos st' =
          if p_definitive st then S (Nat.min (p_row_infos st) (num_rows st)) else p_row_infos st
}.

Lemma core_sim : forall st pre, Struct st ->
  match advance_parser_core cx st pre with
  | None => over_limit st = true \/
            p_advance_core cx (firstn (num_rows st) (p_rows st)) pre = None
  | Some (fr, st') => core_post st pre fr st'
  end.
Proof.
  intros st pre HS. rewrite core_unfold.
  destruct (over_limit st) eqn:Hol; [left; reflexivity|].
  pose proof (s_top _ HS) as Htop. pose proof (s_ve _ HS) as Hve.
  destruct (negb (p_definitive st) && Nat.ltb (num_rows st) (p_valid_end st)
            && mlidx_eqb (r_lexeme (row_at st (num_rows st))) (pl_idx pre)) eqn:Hre.
  - apply andb_true_iff in Hre as [Hre Hml]. apply andb_true_iff in Hre as [Hnd Hlt].
    apply negb_true_iff in Hnd. apply Nat.ltb_lt in Hlt. apply mlidx_eqb_eq in Hml.
    assert (Hone : 1 <= num_rows st) by (unfold num_rows; lia).
    pose proof (s_rows _ HS (num_rows st) Hone Hlt) as Hsc.
    unfold row_at in Hml. rewrite Hml in Hsc.
    constructor.
    + exact Hol.
    + apply ctl_le_refl.
    + apply mode_eq_refl.
    + reflexivity.
    + reflexivity.
    + exact Hlt.
    + exact Hve.
    + exact (s_rows _ HS).
    + reflexivity.
    + reflexivity.
    + unfold p_advance_core. rewrite Hsc. unfold abs_frame, core_frame. cbv zeta. psimpl.
      rewrite (firstn_S_nth (p_rows st) (num_rows st) dummy_row) by lia.
      reflexivity.
    + rewrite Hnd. reflexivity.
  - destruct (scan_row (c_g cx) (c_nl cx) (c_sp cx) (firstn (num_rows st) (p_rows st)) (pl_idx pre))
      as [r|] eqn:Hsc.
    2:{ right. unfold p_advance_core. rewrite Hsc. reflexivity. }
    assert (Hnr : num_rows st <= length (p_rows st)) by lia.
    constructor.
    + exact Hol.
    + apply core_write_ctl.
    + apply core_write_mode.
    + apply core_write_stack.
    + rewrite core_write_rows. apply firstn_set_nth. exact Hnr.
    + rewrite core_write_ve. lia.
    + rewrite core_write_ve, core_write_rows. apply length_set_nth. exact Hnr.
    + rewrite core_write_ve, core_write_rows. intros i Hi1 Hi2.
      destruct (Nat.eq_dec i (num_rows st)) as [->|Hne].
      * rewrite firstn_set_nth, nth_set_nth by exact Hnr.
        rewrite (scan_row_lexeme _ _ _ _ _ _ Hsc). exact Hsc.
      * assert (Hi3 : i < num_rows st) by lia.
        pose proof (firstn_set_nth (p_rows st) (num_rows st) r Hnr) as Hk.
        rewrite (firstn_le_eq _ _ (num_rows st) i (Nat.lt_le_incl _ _ Hi3) Hk).
        rewrite (nth_firstn_eq _ _ (num_rows st) i dummy_row Hi3 Hk).
        apply (s_rows _ HS); lia.
    + reflexivity.
    + reflexivity.
    + unfold p_advance_core. rewrite Hsc. unfold abs_frame, core_frame. cbv zeta. psimpl.
      rewrite core_write_rows.
      rewrite (firstn_S_nth _ (num_rows st) dummy_row) by (apply length_set_nth; exact Hnr).
      unfold start_state_of, row_at. rewrite core_write_rows.
      rewrite firstn_set_nth, nth_set_nth by exact Hnr. reflexivity.
    + apply core_write_ri.
Qed.

(* ---- one push (try_push_byte / flush) against the pure engine ---- *)
Record push_post (st : pstate) (res : option pframe) (ok : bool) (st' : pstate) : Prop := {
  pp_ctl : ctl_le st st';
  pp_mode : mode_eq st st';
  pp_struct : Struct st';
  pp_keep : firstn (num_rows st) (p_rows st') = firstn (num_rows st) (p_rows st);
  pp_stack : if ok then exists fr, p_stack st' = fr :: p_stack st else p_stack st' = p_stack st;
  pp_ri_spec : p_definitive st = false -> p_row_infos st' = p_row_infos st;
  pp_ri_def : p_definitive st = true -> p_row_infos st = num_rows st -> ok = true ->
              p_row_infos st' = num_rows st';
  pp_sim : over_limit st' = false ->
           match res with Some f' => ok = true /\ abs_top st' = f' | None => ok = false end
}.

Lemma struct_core : forall st pre fr st1, Struct st -> core_post st pre fr st1 -> Struct st1.
Proof.
  intros st pre fr st1 HS HC. constructor.
  - rewrite (cp_stack _ _ _ _ HC). exact (s_ne _ HS).
  - rewrite (cp_stack _ _ _ _ HC). exact (s_mono _ HS).
  - rewrite (num_rows_stack_eq _ _ (cp_stack _ _ _ _ HC)). pose proof (cp_top _ _ _ _ HC). lia.
  - exact (cp_ve _ _ _ _ HC).
  - exact (cp_rows _ _ _ _ HC).
Qed.

Lemma struct_push_frame : forall st1 fr stk,
  Struct st1 -> mono stk -> stk <> [] -> f_row (hd dead_frame stk) <= f_row fr ->
  S (f_row fr) <= p_valid_end st1 ->
  Struct (set_stack st1 (fr :: stk)).
Proof.
  intros st1 fr stk HS Hm Hne Hle Hve. constructor; psimpl.
  - discriminate.
  - apply mono_cons; assumption.
  - unfold num_rows, top. psimpl. cbn [hd]. exact Hve.
  - exact (s_ve _ HS).
  - exact (s_rows _ HS).
Qed.

Lemma ap_post : forall st pre ok st', Struct st ->
  advance_parser cx st pre = (ok, st') ->
  push_post st (p_advance_parser cx (abs_top st) pre) ok st'.
Proof.
  intros st pre ok st' HS H. unfold advance_parser in H.
  destruct (over_limit st) eqn:Hol.
  { inversion H; subst ok st'. constructor; try reflexivity; try assumption.
    - apply ctl_le_refl.
    - apply mode_eq_refl.
    - intros _ _ Hf. discriminate Hf.
    - intros Hf. rewrite Hol in Hf. discriminate Hf. }
  cbv zeta in H.
  pose proof (core_sim st pre HS) as Hc.
  destruct (advance_parser_core cx st pre) as [[fr st1]|] eqn:Hcore.
  2:{ inversion H; subst ok st'. constructor; try reflexivity; try assumption.
      - apply ctl_le_refl.
      - apply mode_eq_refl.
      - intros _ _ Hf. discriminate Hf.
      - intros _. destruct Hc as [Hc|Hc]; [rewrite Hol in Hc; discriminate Hc|].
        unfold p_advance_parser. change (pf_rows (abs_top st)) with (firstn (num_rows st) (p_rows st)).
        rewrite Hc. reflexivity. }
  pose proof (struct_core _ _ _ _ HS Hc) as HS1.
  pose proof (cp_stack _ _ _ _ Hc) as Hstk1.
  pose proof (cp_frow _ _ _ _ Hc) as Hfrow.
  pose proof (cp_top _ _ _ _ Hc) as Htop1.
  assert (Htopfr : f_row (hd dead_frame (p_stack st1)) <= f_row fr).
  { rewrite Hstk1, Hfrow. unfold num_rows, top. lia. }
  assert (Hne1 : p_stack st1 <> []) by (rewrite Hstk1; exact (s_ne _ HS)).
  assert (Hmono1 : mono (p_stack st1)) by (rewrite Hstk1; exact (s_mono _ HS)).
  assert (Hpure : p_advance_parser cx (abs_top st) pre =
                  if pl_next_row pre && is_dead (f_lst fr) then None
                  else match (match f_byte fr with
                              | Some b => check_for_single_byte_lexeme (f_lst fr) b
                              | None => None end) with
                       | Some second => p_advance_core cx (firstn (S (f_row fr)) (p_rows st1)) second
                       | None => Some (abs_frame st1 fr)
                       end).
  { unfold p_advance_parser. change (pf_rows (abs_top st)) with (firstn (num_rows st) (p_rows st)).
    rewrite (cp_pure _ _ _ _ Hc). reflexivity. }
  rewrite Hpure.
  destruct (pl_next_row pre && is_dead (f_lst fr)) eqn:Hdead.
  { (* dead start state *)
    inversion H; subst ok st'.
    assert (Hrows : p_rows (if p_definitive st1 then set_row_infos st1 (Nat.min (p_row_infos st1) (num_rows st)) else st1) = p_rows st1)
      by (destruct (p_definitive st1); reflexivity).
    assert (Hve : p_valid_end (if p_definitive st1 then set_row_infos st1 (Nat.min (p_row_infos st1) (num_rows st)) else st1) = p_valid_end st1)
      by (destruct (p_definitive st1); reflexivity).
    assert (Hstk : p_stack (if p_definitive st1 then set_row_infos st1 (Nat.min (p_row_infos st1) (num_rows st)) else st1) = p_stack st1)
      by (destruct (p_definitive st1); reflexivity).
    constructor.
    - apply ctl_le_trans with st1; [exact (cp_ctl _ _ _ _ Hc)|].
      destruct (p_definitive st1); constructor; psimpl; try reflexivity; auto.
    - apply mode_eq_trans with st1; [exact (cp_mode _ _ _ _ Hc)|].
      destruct (p_definitive st1); constructor; psimpl; try reflexivity; auto.
    - apply (struct_ext st1); assumption.
    - rewrite Hrows. exact (cp_keep _ _ _ _ Hc).
    - rewrite Hstk. exact Hstk1.
    - intros Hd. rewrite (me_def _ _ (cp_mode _ _ _ _ Hc)), Hd. cbv iota.
      rewrite (cp_ri _ _ _ _ Hc), Hd. reflexivity.
    - intros _ _ Hf. discriminate Hf.
    - intros _. reflexivity. }
  destruct (match f_byte fr with
            | Some b => check_for_single_byte_lexeme (f_lst fr) b
            | None => None end) as [second|] eqn:Hsb.
  2:{ (* plain push *)
      inversion H; subst ok st'.
      constructor.
      - apply ctl_le_trans with st1; [exact (cp_ctl _ _ _ _ Hc)|].
        constructor; psimpl; try reflexivity; auto.
      - apply mode_eq_trans with st1; [exact (cp_mode _ _ _ _ Hc)|].
        constructor; psimpl; try reflexivity; auto.
      - apply struct_push_frame; try assumption. rewrite Hfrow. exact Htop1.
      - psimpl. exact (cp_keep _ _ _ _ Hc).
      - exists fr. psimpl. rewrite Hstk1. reflexivity.
      - intros Hd. psimpl. rewrite (cp_ri _ _ _ _ Hc), Hd. reflexivity.
      - intros Hd Hri _. psimpl. rewrite (cp_ri _ _ _ _ Hc), Hd, Hri.
        unfold num_rows at 3, top. psimpl. cbn [hd]. rewrite Hfrow. lia.
      - intros _. split; [reflexivity|]. unfold abs_top, top. psimpl. cbn [hd]. reflexivity. }
  (* single-byte lexeme chained *)
  set (fr0 := mk_frame (f_row fr) (f_lst fr) None) in *.
  set (st2 := set_stack st1 (fr0 :: p_stack st1)) in *.
  assert (HS2 : Struct st2).
  { apply struct_push_frame; try assumption. subst fr0. psimpl. rewrite Hfrow. exact Htop1. }
  assert (Hnr2 : num_rows st2 = S (f_row fr)) by reflexivity.
  pose proof (core_sim st2 second HS2) as Hc2.
  destruct (advance_parser_core cx st2 second) as [[fr2 st3]|] eqn:Hcore2.
  2:{ inversion H; subst ok st'.
      constructor.
      - apply ctl_le_trans with st1; [exact (cp_ctl _ _ _ _ Hc)|].
        constructor; psimpl; try reflexivity; auto.
      - apply mode_eq_trans with st1; [exact (cp_mode _ _ _ _ Hc)|].
        constructor; psimpl; try reflexivity; auto.
      - apply (struct_ext st1); try reflexivity. exact HS1.
      - psimpl. exact (cp_keep _ _ _ _ Hc).
      - psimpl. exact Hstk1.
      - intros Hd. psimpl. change (p_row_infos st2) with (p_row_infos st1).
        rewrite (cp_ri _ _ _ _ Hc), Hd. reflexivity.
      - intros _ _ Hf. discriminate Hf.
      - intros Hlim. destruct Hc2 as [Hc2|Hc2].
        + change (over_limit st2 = false) in Hlim. rewrite Hlim in Hc2. discriminate Hc2.
        + change (firstn (num_rows st2) (p_rows st2)) with (firstn (S (f_row fr)) (p_rows st1)) in Hc2.
          rewrite Hc2. reflexivity. }
  inversion H; subst ok st'.
  pose proof (cp_stack _ _ _ _ Hc2) as Hstk3.
  pose proof (cp_frow _ _ _ _ Hc2) as Hfrow2. rewrite Hnr2 in Hfrow2.
  pose proof (cp_top _ _ _ _ Hc2) as Htop3. rewrite Hnr2 in Htop3.
  pose proof (struct_core _ _ _ _ HS2 Hc2) as HS3.
  constructor.
  - apply ctl_le_trans with st1; [exact (cp_ctl _ _ _ _ Hc)|].
    apply ctl_le_trans with st3.
    + pose proof (cp_ctl _ _ _ _ Hc2) as [X1 X2 X3 X4 X5 X6 X7 X8 X9]. constructor; assumption.
    + constructor; psimpl; try reflexivity; auto.
  - apply mode_eq_trans with st1; [exact (cp_mode _ _ _ _ Hc)|].
    apply mode_eq_trans with st3.
    + pose proof (cp_mode _ _ _ _ Hc2) as [X1 X2 X3]. constructor; assumption.
    + constructor; psimpl; try reflexivity; auto.
  - apply struct_push_frame; try assumption; lia.
  - psimpl. pose proof (cp_keep _ _ _ _ Hc2) as Hk2. rewrite Hnr2 in Hk2.
    change (p_rows st2) with (p_rows st1) in Hk2.
    rewrite (firstn_le_eq _ _ (S (f_row fr)) (num_rows st) ltac:(lia) Hk2).
    exact (cp_keep _ _ _ _ Hc).
  - exists fr2. psimpl. rewrite Hstk1. reflexivity.
  - intros Hd. psimpl. rewrite (cp_ri _ _ _ _ Hc2).
    change (p_definitive st2) with (p_definitive st1).
    rewrite (me_def _ _ (cp_mode _ _ _ _ Hc)), Hd.
    change (p_row_infos st2) with (p_row_infos st1).
    rewrite (cp_ri _ _ _ _ Hc), Hd. reflexivity.
  - intros Hd Hri _. psimpl. rewrite (cp_ri _ _ _ _ Hc2).
    change (p_definitive st2) with (p_definitive st1).
    rewrite (me_def _ _ (cp_mode _ _ _ _ Hc)), Hd.
    change (p_row_infos st2) with (p_row_infos st1).
    rewrite (cp_ri _ _ _ _ Hc), Hd, Hri, Hnr2.
    unfold num_rows at 3, top. psimpl. cbn [hd]. rewrite Hfrow2, Hfrow. lia.
  - intros _.
    pose proof (cp_pure _ _ _ _ Hc2) as Hp2.
    change (firstn (num_rows st2) (p_rows st2)) with (firstn (S (f_row fr)) (p_rows st1)) in Hp2.
    rewrite Hp2. split; [reflexivity|]. unfold abs_top, top. psimpl. cbn [hd]. reflexivity.
Qed.

Lemma alp_post : forall st res ok st', Struct st ->
  advance_lexer_or_parser cx st res (top st) = (ok, st') ->
  push_post st (p_lex cx (abs_top st) res) ok st'.
Proof.
  intros st res ok st' HS H. destruct res as [s b|pre|]; cbn [advance_lexer_or_parser p_lex] in *.
  - inversion H; subst ok st'. constructor.
    + constructor; psimpl; try reflexivity; auto.
    + constructor; psimpl; try reflexivity; auto.
    + apply struct_push_frame; try apply HS.
      psimpl. unfold top. lia.
    + reflexivity.
    + eexists. reflexivity.
    + intros _. reflexivity.
    + intros _ Hri _. psimpl. rewrite Hri. reflexivity.
    + intros _. split; reflexivity.
  - apply ap_post; assumption.
  - inversion H; subst ok st'. constructor; try reflexivity; try assumption.
    + apply ctl_le_refl.
    + apply mode_eq_refl.
    + intros _ _ Hf. discriminate Hf.
Qed.

Lemma push_byte_post : forall st b ok st', Struct st ->
  try_push_byte cx st b = (ok, st') -> push_post st (ppush cx (abs_top st) b) ok st'.
Proof. intros st b ok st' HS H. unfold try_push_byte in H. apply alp_post; assumption. Qed.

Lemma push_post_old : forall st res ok st', Struct st -> push_post st res ok st' ->
  map (abs_frame st') (p_stack st) = abs_stack st.
Proof.
  intros st res ok st' HS HP. unfold abs_stack.
  apply abs_map_keep with (num_rows st); [|exact (pp_keep _ _ _ _ HP)].
  intros e He. apply struct_in_range; assumption.
Qed.

Lemma abs_top_hd : forall st fr stk, p_stack st = fr :: stk -> abs_top st = abs_frame st fr.
Proof. intros st fr stk H. unfold abs_top, top. rewrite H. reflexivity. Qed.

Lemma push_post_abs : forall st res ok st', Struct st -> push_post st res ok st' ->
  over_limit st' = false ->
  match res with
  | Some f' => ok = true /\ abs_stack st' = f' :: abs_stack st
  | None => ok = false /\ abs_stack st' = abs_stack st
  end.
Proof.
  intros st res ok st' HS HP Hlim.
  pose proof (pp_sim _ _ _ _ HP Hlim) as Hsim.
  pose proof (pp_stack _ _ _ _ HP) as Hstk.
  pose proof (push_post_old _ _ _ _ HS HP) as Hold.
  destruct res as [f'|].
  - destruct Hsim as [-> Htop]. split; [reflexivity|].
    destruct Hstk as [fr Hstk]. unfold abs_stack at 1. rewrite Hstk. cbn [map].
    rewrite Hold. rewrite <- Htop. rewrite (abs_top_hd _ _ _ Hstk). reflexivity.
  - subst ok. split; [reflexivity|]. unfold abs_stack at 1. rewrite Hstk. exact Hold.
Qed.

(* pending lexeme bytes *)
Lemma pending_loop_abs : forall st stk k,
  (forall e, In e stk -> f_row e < length (p_rows st)) ->
  pending_loop stk k = p_pending_loop (map (abs_frame st) stk) (S k).
Proof.
  intros st stk k. induction stk as [|e stk IH]; intros Hall; [reflexivity|].
  cbn [pending_loop map p_pending_loop]. unfold abs_frame at 1 2. psimpl.
  rewrite firstn_length_le by (apply Nat.le_succ_l, Hall; left; reflexivity).
  cbn [Nat.eqb]. destruct (negb (Nat.eqb (f_row e) k)); [reflexivity|].
  destruct (f_byte e); [reflexivity|]. apply IH. intros e' He'. apply Hall. right. exact He'.
Qed.

Lemma has_pending_abs : forall st, Struct st -> has_pending st = p_pending (abs_stack st).
Proof.
  intros st HS. unfold has_pending, p_pending, abs_stack, top.
  pose proof (struct_range_len st) as Hr.
  destruct (p_stack st) as [|e stk] eqn:E; [exfalso; exact (s_ne _ HS E)|].
  cbn [hd map].
  assert (Hlen : length (pf_rows (abs_frame st e)) = S (f_row e)).
  { unfold abs_frame. psimpl. apply firstn_length_le. apply Nat.le_succ_l, Hr; [exact HS|left; reflexivity]. }
  rewrite Hlen.
  change (abs_frame st e :: map (abs_frame st) stk) with (map (abs_frame st) (e :: stk)).
  apply pending_loop_abs. intros e' He'. apply Hr; assumption.
Qed.

Lemma core_fbyte : forall st pre fr st1,
  advance_parser_core cx st pre = Some (fr, st1) ->
  f_byte fr = if pl_next_row pre then pl_byte pre else None.
Proof.
  intros st pre fr st1 H. rewrite core_unfold in H.
  destruct (over_limit st); [discriminate|].
  destruct (negb (p_definitive st) && Nat.ltb (num_rows st) (p_valid_end st)
            && mlidx_eqb (r_lexeme (row_at st (num_rows st))) (pl_idx pre)).
  - inversion H. reflexivity.
  - destruct (scan_row (c_g cx) (c_nl cx) (c_sp cx) (firstn (num_rows st) (p_rows st)) (pl_idx pre));
      [|discriminate]. inversion H. reflexivity.
Qed.

Lemma flush_fail : forall st st', flush_lexer cx st = (false, st') -> st' = st.
Proof.
  intros st st' H. unfold flush_lexer in H.
  destruct (negb (has_pending st)); [inversion H; reflexivity|].
  cbv zeta in H. unfold try_lexeme_end in H.
  destruct (greedy_accepting (f_lst (top st))) as [|i l];
    cbn [advance_lexer_or_parser] in H; [inversion H; reflexivity|].
  unfold advance_parser in H. destruct (over_limit st); [inversion H; reflexivity|].
  cbv zeta in H.
  destruct (advance_parser_core cx st (mk_pre (MLGreedy (f_lst (top st))) None false))
    as [[fr st1]|] eqn:Hc; [|inversion H; reflexivity].
  rewrite (core_fbyte _ _ _ _ Hc) in H. cbn [pl_next_row pl_byte andb] in H. inversion H.
Qed.

Record flush_post (st : pstate) (ok : bool) (st' : pstate) : Prop := {
  fp_ctl : ctl_le st st';
  fp_mode : mode_eq st st';
  fp_struct : Struct st';
  fp_keep : firstn (num_rows st) (p_rows st') = firstn (num_rows st) (p_rows st);
  fp_stack : p_stack st' = p_stack st \/ exists fr, p_stack st' = fr :: p_stack st;
  fp_fail : ok = false -> st' = st;
  fp_ri_spec : p_definitive st = false -> p_row_infos st' = p_row_infos st;
  fp_ri_def : p_definitive st = true -> p_row_infos st = num_rows st ->
              p_row_infos st' = num_rows st';
  fp_sim : over_limit st' = false ->
           match p_flush cx (abs_stack st) with
           | Some f' => ok = true /\ abs_top st' = f'
           | None => ok = false
           end
}.

Lemma p_flush_unfold : forall st, Struct st ->
  p_flush cx (abs_stack st) =
  if negb (has_pending st) then Some (abs_top st)
  else p_lex cx (abs_top st) (try_lexeme_end (f_lst (top st))).
Proof.
  intros st HS. rewrite (has_pending_abs st HS). unfold abs_stack, abs_top, top.
  destruct (p_stack st) as [|e stk] eqn:E; [exfalso; exact (s_ne _ HS E)|].
  reflexivity.
Qed.

Lemma flush_post_holds : forall st ok st', Struct st ->
  flush_lexer cx st = (ok, st') -> flush_post st ok st'.
Proof.
  intros st ok st' HS H.
  assert (Hfail : ok = false -> st' = st).
  { intros ->. apply flush_fail. exact H. }
  unfold flush_lexer in H.
  destruct (negb (has_pending st)) eqn:Hp.
  - inversion H; subst ok st'. constructor; try reflexivity; try assumption.
    + apply ctl_le_refl.
    + apply mode_eq_refl.
    + left. reflexivity.
    + intros _ Hri. exact Hri.
    + intros _. rewrite (p_flush_unfold st HS), Hp. split; reflexivity.
  - cbv zeta in H. pose proof (alp_post _ _ _ _ HS H) as HP.
    constructor.
    + exact (pp_ctl _ _ _ _ HP).
    + exact (pp_mode _ _ _ _ HP).
    + exact (pp_struct _ _ _ _ HP).
    + exact (pp_keep _ _ _ _ HP).
    + pose proof (pp_stack _ _ _ _ HP) as Hs. destruct ok; [right; exact Hs|left; exact Hs].
    + exact Hfail.
    + exact (pp_ri_spec _ _ _ _ HP).
    + intros Hd Hri. destruct ok.
      * apply (pp_ri_def _ _ _ _ HP); auto.
      * rewrite (Hfail eq_refl). exact Hri.
    + intros Hlim. rewrite (p_flush_unfold st HS), Hp. exact (pp_sim _ _ _ _ HP Hlim).
Qed.

(* ---- pop_bytes ---- *)
Lemma pop_struct : forall st n, Struct st -> n < length (p_stack st) -> Struct (pop_bytes st n).
Proof.
  intros st n HS Hn. unfold pop_bytes. constructor; psimpl.
  - apply skipn_nil_iff. exact Hn.
  - apply mono_skipn. exact (s_mono _ HS).
  - unfold num_rows, top. psimpl.
    pose proof (hd_skipn_le n _ (s_mono _ HS) Hn). pose proof (s_top _ HS) as Ht.
    unfold num_rows, top in Ht. lia.
  - exact (s_ve _ HS).
  - exact (s_rows _ HS).
Qed.

Lemma pop_abs_stack : forall st n, abs_stack (pop_bytes st n) = skipn n (abs_stack st).
Proof. intros st n. unfold abs_stack, pop_bytes. psimpl. rewrite skipn_map. reflexivity. Qed.

Lemma pop_ctl : forall st n, ctl_le st (pop_bytes st n).
Proof. intros. unfold pop_bytes. constructor; psimpl; try reflexivity; auto. Qed.

Lemma pop_mode : forall st n, mode_eq st (pop_bytes st n).
Proof. intros. unfold pop_bytes. constructor; psimpl; try reflexivity; auto. Qed.

(* ------------------------------------------------------------------------ *)
(* the mask cache                                                           *)
(* ------------------------------------------------------------------------ *)
Lemma ppush_byte_irrel : forall rows ls b1 b2 c,
  ppush cx (mk_pframe rows ls b1) c = ppush cx (mk_pframe rows ls b2) c.
Proof. intros. reflexivity. Qed.

Lemma mask_spec_byte_irrel : forall rows ls b1 b2 t,
  mask_spec cx (mk_pframe rows ls b1) t = mask_spec cx (mk_pframe rows ls b2) t.
Proof.
  intros rows ls b1 b2 t. unfold mask_spec. f_equal. unfold bias_spec.
  destruct (nthN (tokens (c_trie cx)) t) as [w|]; [|reflexivity].
  destruct w as [|x w]; [reflexivity|].
  cbn [is_prefix length Nat.eqb negb skipn orb andb run].
  rewrite (ppush_byte_irrel rows ls b1 b2 x). reflexivity.
Qed.

Definition cache_ok (st : pstate) : Prop :=
  match p_cache st with
  | None => True
  | Some (ls, ri, hp, m) =>
      ri <= f_row (top st) /\ vsize m = vocab_size (c_trie cx) /\ no_excess m /\
      forall t, (t < vocab_size (c_trie cx))%N ->
        get m t = mask_spec cx (mk_pframe (firstn (S ri) (p_rows st)) ls None) t
  end.

Lemma cache_ok_keep : forall st st',
  p_cache st' = p_cache st -> f_row (top st) <= f_row (top st') ->
  firstn (num_rows st) (p_rows st') = firstn (num_rows st) (p_rows st) ->
  cache_ok st -> cache_ok st'.
Proof.
  intros st st' Hc Htop Hk H. unfold cache_ok in *. rewrite Hc.
  destruct (p_cache st) as [[[[ls ri] hp] m]|]; [|exact I].
  destruct H as (H1 & H2 & H3 & H4). split; [lia|]. split; [exact H2|]. split; [exact H3|].
  intros t Ht. rewrite (H4 t Ht).
  rewrite (firstn_le_eq _ _ (num_rows st) (S ri) ltac:(unfold num_rows; lia) Hk). reflexivity.
Qed.

(* ------------------------------------------------------------------------ *)
(* definitive states, speculative excursions                                *)
(* ------------------------------------------------------------------------ *)
Record GoodD (st : pstate) : Prop := {
  gd_struct : Struct st;
  gd_def : p_definitive st = true;
  gd_ri : p_row_infos st = num_rows st;
  gd_app : p_applied st <= length (p_bytes st);
  gd_cache : cache_ok st
}.

(* no assertion has fired so far and the byte / stack bookkeeping agrees *)
Record Tidy (st : pstate) : Prop := {
  td_len : length (p_stack st) = length (p_bytes st) + (if p_top_eos st then 2 else 1);
  td_panic : p_panic st = false
}.

(* s is a speculative state of an excursion started (trie_started) at st *)
Record InvW (st s : pstate) : Prop := {
  iw_struct : Struct s;
  iw_ctl : ctl_le st s;
  iw_def : p_definitive s = false;
  iw_ts : p_trie_stack s = length (p_stack st);
  iw_panic : p_panic s = p_panic (assert_definitive st);
  iw_ri : p_row_infos s = p_row_infos st
}.

Record spec_of (st s : pstate) : Prop := {
  so_inv : InvW st s;
  so_stack : exists extra, p_stack s = extra ++ p_stack st;
  so_keep : firstn (num_rows st) (p_rows s) = firstn (num_rows st) (p_rows st)
}.

Lemma definitive_ok_good : forall st, GoodD st -> Tidy st -> definitive_ok st = true.
Proof.
  intros st HG HT. unfold definitive_ok.
  rewrite (gd_def _ HG), <- (gd_ri _ HG), (td_len _ HT), !Nat.eqb_refl. reflexivity.
Qed.

Lemma assert_definitive_good : forall st, GoodD st -> Tidy st -> assert_definitive st = st.
Proof. intros st HG HT. unfold assert_definitive. rewrite (definitive_ok_good st HG HT). reflexivity. Qed.

Lemma assert_cases : forall st, assert_definitive st = st \/ assert_definitive st = set_panic st.
Proof. intros st. unfold assert_definitive. destruct (definitive_ok st); [left|right]; reflexivity. Qed.

Lemma assert_definitive_ctl : forall st, ctl_le st (assert_definitive st).
Proof.
  intros st. unfold assert_definitive. destruct (definitive_ok st);
    constructor; psimpl; try reflexivity; auto.
Qed.

Lemma GoodD_set_panic : forall st, GoodD st -> GoodD (set_panic st).
Proof.
  intros st HG. constructor; psimpl.
  - apply (struct_ext st); try reflexivity. exact (gd_struct _ HG).
  - exact (gd_def _ HG).
  - exact (gd_ri _ HG).
  - exact (gd_app _ HG).
  - exact (gd_cache _ HG).
Qed.

Lemma GoodD_assert : forall st, GoodD st -> GoodD (assert_definitive st).
Proof.
  intros st HG. destruct (assert_cases st) as [-> | ->]; [exact HG|apply GoodD_set_panic; exact HG].
Qed.

Lemma trie_started_eq : forall st,
  trie_started st = set_spec (assert_definitive st) false (length (p_stack st)) (num_rows st).
Proof.
  intros st. unfold trie_started, assert_definitive. destruct (definitive_ok st); reflexivity.
Qed.

Lemma trie_started_ctl : forall st, ctl_le st (trie_started st).
Proof.
  intros st. unfold trie_started, assert_definitive. destruct (definitive_ok st);
    constructor; psimpl; try reflexivity; auto.
Qed.

Lemma trie_finished_ctl : forall st, ctl_le st (trie_finished st).
Proof.
  intros st. unfold trie_finished, assert_definitive. cbv zeta.
  repeat match goal with |- context [if ?c then _ else _] => destruct c end;
    constructor; psimpl; try reflexivity; auto.
Qed.

Lemma started_spec : forall st, GoodD st -> spec_of st (trie_started st).
Proof.
  intros st HG. pose proof (gd_struct _ HG) as HS.
  rewrite trie_started_eq.
  destruct (assert_cases st) as [E|E]; rewrite E.
  all: constructor; [|exists []; reflexivity|reflexivity].
  all: constructor; psimpl; try reflexivity.
  all: try (solve [constructor; psimpl; try reflexivity; auto]).
  all: try (rewrite E; reflexivity).
  all: constructor; psimpl;
    [exact (s_ne _ HS)|exact (s_mono _ HS)|apply Nat.le_refl| |
     apply rows_valid_le with (p_valid_end st); [exact (s_top _ HS)|exact (s_rows _ HS)]].
  all: pose proof (s_top _ HS); pose proof (s_ve _ HS); lia.
Qed.

Lemma spec_nr_le : forall st s, p_stack st <> [] -> spec_of st s -> num_rows st <= num_rows s.
Proof.
  intros st s Hne HSo. destruct (so_stack _ _ HSo) as [ex Hex].
  pose proof (s_mono _ (iw_struct _ _ (so_inv _ _ HSo))) as Hm.
  assert (Hin : In (top st) (p_stack s)).
  { rewrite Hex. apply in_or_app. right. apply top_in. exact Hne. }
  pose proof (mono_top _ _ Hm Hin). unfold num_rows, top in *. lia.
Qed.

Lemma invw_push : forall st s res ok s',
  InvW st s -> push_post s res ok s' -> InvW st s'.
Proof.
  intros st s res ok s' HI HP. constructor.
  - exact (pp_struct _ _ _ _ HP).
  - apply ctl_le_trans with s; [exact (iw_ctl _ _ HI)|exact (pp_ctl _ _ _ _ HP)].
  - rewrite (me_def _ _ (pp_mode _ _ _ _ HP)). exact (iw_def _ _ HI).
  - rewrite (me_ts _ _ (pp_mode _ _ _ _ HP)). exact (iw_ts _ _ HI).
  - rewrite (me_panic _ _ (pp_mode _ _ _ _ HP)). exact (iw_panic _ _ HI).
  - rewrite (pp_ri_spec _ _ _ _ HP (iw_def _ _ HI)). exact (iw_ri _ _ HI).
Qed.

Lemma invw_pop : forall st s n, InvW st s -> n < length (p_stack s) -> InvW st (pop_bytes s n).
Proof.
  intros st s n HI Hn. constructor.
  - apply pop_struct; [exact (iw_struct _ _ HI)|exact Hn].
  - apply ctl_le_trans with s; [exact (iw_ctl _ _ HI)|apply pop_ctl].
  - exact (iw_def _ _ HI).
  - exact (iw_ts _ _ HI).
  - exact (iw_panic _ _ HI).
  - exact (iw_ri _ _ HI).
Qed.

(* replacing the stack of a speculative state by a suffix-compatible one *)
Lemma invw_set_stack : forall st s stk,
  InvW st s -> stk <> [] -> mono stk -> f_row (hd dead_frame stk) <= f_row (top s) ->
  InvW st (set_stack s stk).
Proof.
  intros st s stk HI Hne Hm Hle. pose proof (iw_struct _ _ HI) as HS. constructor; psimpl.
  - constructor; psimpl; try assumption.
    + pose proof (s_top _ HS) as Ht. unfold num_rows, top in *. psimpl. lia.
    + exact (s_ve _ HS).
    + exact (s_rows _ HS).
  - apply ctl_le_trans with s; [exact (iw_ctl _ _ HI)|constructor; psimpl; try reflexivity; auto].
  - exact (iw_def _ _ HI).
  - exact (iw_ts _ _ HI).
  - exact (iw_panic _ _ HI).
  - exact (iw_ri _ _ HI).
Qed.

Lemma spec_push : forall st s res ok s',
  p_stack st <> [] -> spec_of st s -> push_post s res ok s' -> spec_of st s'.
Proof.
  intros st s res ok s' Hne HSo HP. constructor.
  - exact (invw_push _ _ _ _ _ (so_inv _ _ HSo) HP).
  - destruct (so_stack _ _ HSo) as [ex Hex]. pose proof (pp_stack _ _ _ _ HP) as Hs.
    destruct ok.
    + destruct Hs as [fr Hs]. exists (fr :: ex). rewrite Hs, Hex. reflexivity.
    + exists ex. rewrite Hs. exact Hex.
  - pose proof (spec_nr_le _ _ Hne HSo) as Hle.
    rewrite (firstn_le_eq _ _ (num_rows s) (num_rows st) Hle (pp_keep _ _ _ _ HP)).
    exact (so_keep _ _ HSo).
Qed.

(* the old frames of a speculative state keep their abstraction *)
Lemma spec_abs_base : forall st s, Struct st -> spec_of st s ->
  map (abs_frame s) (p_stack st) = abs_stack st.
Proof.
  intros st s HS HSo. unfold abs_stack.
  apply abs_map_keep with (num_rows st); [|exact (so_keep _ _ HSo)].
  intros e He. apply struct_in_range; assumption.
Qed.

Lemma trie_finished_eq : forall s stk,
  p_definitive s = false -> p_row_infos s <= num_rows s ->
  skipn (length (p_stack s) - p_trie_stack s) (p_stack s) = stk ->
  definitive_ok (set_spec (set_stack s stk) true (p_trie_stack s) (p_valid_end s)) = true ->
  trie_finished s = set_spec (set_stack s stk) true (p_trie_stack s) (S (f_row (hd dead_frame stk))).
Proof.
  intros s stk Hd Hri Hsk Hok. unfold trie_finished. cbv zeta. rewrite Hd. cbn [orb].
  assert (Hlt : Nat.ltb (num_rows s) (p_row_infos s) = false) by (apply Nat.ltb_ge; exact Hri).
  rewrite Hlt. psimpl. rewrite Hsk. unfold assert_definitive. rewrite Hok. reflexivity.
Qed.

Lemma tf_fields : forall s,
  p_rows (trie_finished s) = p_rows s /\
  p_stack (trie_finished s) = skipn (length (p_stack s) - p_trie_stack s) (p_stack s) /\
  p_valid_end (trie_finished s) =
    S (f_row (hd dead_frame (skipn (length (p_stack s) - p_trie_stack s) (p_stack s)))) /\
  p_definitive (trie_finished s) = true /\
  p_row_infos (trie_finished s) = p_row_infos s.
Proof.
  intros s. unfold trie_finished, assert_definitive. cbv zeta.
  repeat match goal with |- context [if ?c then _ else _] => destruct c end;
    repeat split; reflexivity.
Qed.

Record finish_post (st s s' : pstate) : Prop := {
  fi_good : GoodD s';
  fi_stack : p_stack s' = p_stack st;
  fi_rows : p_rows s' = p_rows s;
  fi_keep : firstn (num_rows st) (p_rows s') = firstn (num_rows st) (p_rows st);
  fi_abs : abs_stack s' = abs_stack st;
  fi_ctl : ctl_le st s';
  fi_items : p_items s' = p_items s;
  fi_tidy : Tidy st -> Tidy s'
}.

Lemma spec_finish : forall st s, GoodD st -> spec_of st s -> finish_post st s (trie_finished s).
Proof.
  intros st s HG HSo. pose proof (gd_struct _ HG) as HS.
  pose proof (so_inv _ _ HSo) as HI. pose proof (iw_struct _ _ HI) as HSs.
  pose proof (iw_ctl _ _ HI) as Hctl.
  destruct (so_stack _ _ HSo) as [ex Hex].
  pose proof (spec_nr_le _ _ (s_ne _ HS) HSo) as Hnr.
  assert (Hsk : skipn (length (p_stack s) - p_trie_stack s) (p_stack s) = p_stack st).
  { rewrite (iw_ts _ _ HI), Hex. apply skipn_app_exact. rewrite app_length. lia. }
  destruct (tf_fields s) as (Hr & Hs & Hv & Hd & Hri). rewrite Hsk in Hs, Hv.
  pose proof (trie_finished_ctl s) as Cf.
  assert (Hkeep : firstn (num_rows st) (p_rows s) = firstn (num_rows st) (p_rows st))
    by exact (so_keep _ _ HSo).
  assert (Hnrf : num_rows (trie_finished s) = num_rows st) by (unfold num_rows, top; rewrite Hs; reflexivity).
  constructor.
  - constructor.
    + constructor.
      * rewrite Hs. exact (s_ne _ HS).
      * rewrite Hs. exact (s_mono _ HS).
      * rewrite Hnrf, Hv. apply Nat.le_refl.
      * rewrite Hv, Hr. pose proof (s_top _ HSs). pose proof (s_ve _ HSs).
        unfold num_rows, top in *. lia.
      * rewrite Hv, Hr. apply rows_valid_le with (p_valid_end s); [|exact (s_rows _ HSs)].
        pose proof (s_top _ HSs). unfold num_rows, top in *. lia.
    + exact Hd.
    + rewrite Hri, Hnrf, (iw_ri _ _ HI). exact (gd_ri _ HG).
    + rewrite (cl_bytes _ _ Cf), (cl_applied _ _ Cf), (cl_bytes _ _ Hctl), (cl_applied _ _ Hctl).
      exact (gd_app _ HG).
    + apply (cache_ok_keep st).
      * rewrite (cl_cache _ _ Cf). exact (cl_cache _ _ Hctl).
      * unfold top. rewrite Hs. apply Nat.le_refl.
      * rewrite Hr. exact Hkeep.
      * exact (gd_cache _ HG).
  - exact Hs.
  - exact Hr.
  - rewrite Hr. exact Hkeep.
  - unfold abs_stack at 1. rewrite Hs.
    apply abs_map_keep with (num_rows st); [|rewrite Hr; exact Hkeep].
    intros e He. apply struct_in_range; assumption.
  - exact (ctl_le_trans _ _ _ Hctl Cf).
  - unfold trie_finished, assert_definitive. cbv zeta.
    repeat match goal with |- context [if ?c then _ else _] => destruct c end; reflexivity.
  - intros HT.
    assert (Heq : trie_finished s =
                  set_spec (set_stack s (p_stack st)) true (p_trie_stack s) (num_rows st)).
    { apply trie_finished_eq.
      - exact (iw_def _ _ HI).
      - rewrite (iw_ri _ _ HI), (gd_ri _ HG). exact Hnr.
      - exact Hsk.
      - unfold definitive_ok. psimpl.
        change (num_rows (set_spec (set_stack s (p_stack st)) true (p_trie_stack s) (p_valid_end s)))
          with (num_rows st).
        rewrite (iw_ri _ _ HI), <- (gd_ri _ HG), Nat.eqb_refl.
        rewrite (cl_bytes _ _ Hctl), (cl_top_eos _ _ Hctl), (td_len _ HT), Nat.eqb_refl. reflexivity. }
    rewrite Heq. constructor; psimpl.
    + rewrite (cl_bytes _ _ Hctl), (cl_top_eos _ _ Hctl). exact (td_len _ HT).
    + rewrite (iw_panic _ _ HI), (assert_definitive_good st HG HT). exact (td_panic _ HT).
Qed.

(* ------------------------------------------------------------------------ *)
(* unconditional frame lemmas (no invariant needed)                         *)
(* ------------------------------------------------------------------------ *)
Lemma ctl_set_stack : forall st stk, ctl_le st (set_stack st stk).
Proof. intros. constructor; psimpl; try reflexivity; auto. Qed.

Lemma core_ctl : forall st pre fr st1,
  advance_parser_core cx st pre = Some (fr, st1) -> ctl_le st st1.
Proof.
  intros st pre fr st1 H. rewrite core_unfold in H.
  destruct (over_limit st); [discriminate|].
  destruct (negb (p_definitive st) && Nat.ltb (num_rows st) (p_valid_end st)
            && mlidx_eqb (r_lexeme (row_at st (num_rows st))) (pl_idx pre)).
  - inversion H; subst. apply ctl_le_refl.
  - destruct (scan_row (c_g cx) (c_nl cx) (c_sp cx) (firstn (num_rows st) (p_rows st)) (pl_idx pre));
      [|discriminate]. inversion H; subst. apply core_write_ctl.
Qed.

Lemma ap_ctl : forall st pre ok st', advance_parser cx st pre = (ok, st') -> ctl_le st st'.
Proof.
  intros st pre ok st' H. unfold advance_parser in H.
  destruct (over_limit st); [inversion H; subst; apply ctl_le_refl|].
  cbv zeta in H.
  destruct (advance_parser_core cx st pre) as [[fr st1]|] eqn:Hc;
    [|inversion H; subst; apply ctl_le_refl].
  pose proof (core_ctl _ _ _ _ Hc) as H1.
  destruct (pl_next_row pre && is_dead (f_lst fr)).
  { inversion H; subst. apply ctl_le_trans with st1; [exact H1|].
    destruct (p_definitive st1); constructor; psimpl; try reflexivity; auto. }
  destruct (match f_byte fr with
            | Some b => check_for_single_byte_lexeme (f_lst fr) b
            | None => None end) as [second|].
  2:{ inversion H; subst. apply ctl_le_trans with st1; [exact H1|apply ctl_set_stack]. }
  destruct (advance_parser_core cx (set_stack st1 (mk_frame (f_row fr) (f_lst fr) None :: p_stack st1)) second)
    as [[fr2 st3]|] eqn:Hc2.
  - inversion H; subst. apply ctl_le_trans with st1; [exact H1|].
    apply ctl_le_trans with (set_stack st1 (mk_frame (f_row fr) (f_lst fr) None :: p_stack st1));
      [apply ctl_set_stack|].
    apply ctl_le_trans with st3; [exact (core_ctl _ _ _ _ Hc2)|apply ctl_set_stack].
  - inversion H; subst. apply ctl_le_trans with st1; [exact H1|].
    constructor; psimpl; try reflexivity; auto.
Qed.

Lemma alp_ctl : forall st res curr ok st',
  advance_lexer_or_parser cx st res curr = (ok, st') -> ctl_le st st'.
Proof.
  intros st res curr ok st' H. destruct res as [s b|pre|]; cbn [advance_lexer_or_parser] in H.
  - inversion H; subst. apply ctl_set_stack.
  - exact (ap_ctl _ _ _ _ H).
  - inversion H; subst. apply ctl_le_refl.
Qed.

Lemma try_push_ctl : forall st b ok st', try_push_byte cx st b = (ok, st') -> ctl_le st st'.
Proof. intros st b ok st' H. unfold try_push_byte in H. exact (alp_ctl _ _ _ _ _ H). Qed.

Lemma flush_ctl : forall st ok st', flush_lexer cx st = (ok, st') -> ctl_le st st'.
Proof.
  intros st ok st' H. unfold flush_lexer in H.
  destruct (negb (has_pending st)); [inversion H; subst; apply ctl_le_refl|].
  exact (alp_ctl _ _ _ _ _ H).
Qed.

Lemma acc_inner_ctl : forall st a st', is_accepting_inner cx st = (a, st') -> ctl_le st st'.
Proof.
  intros st a st' H. unfold is_accepting_inner in H.
  destruct (flush_lexer cx st) as [ok s2] eqn:Hf. inversion H; subst. exact (flush_ctl _ _ _ Hf).
Qed.

Lemma is_accepting_ctl : forall st a st', is_accepting cx st = (a, st') -> ctl_le st st'.
Proof.
  intros st a st' H. unfold is_accepting in H.
  destruct (is_accepting_inner cx (trie_started st)) as [r s2] eqn:Hf. inversion H; subst.
  apply ctl_le_trans with (trie_started st); [apply trie_started_ctl|].
  apply ctl_le_trans with s2; [exact (acc_inner_ctl _ _ _ Hf)|apply trie_finished_ctl].
Qed.

(* ------------------------------------------------------------------------ *)
(* more on speculative excursions                                           *)
(* ------------------------------------------------------------------------ *)
Lemma invw_flush : forall st s ok s', InvW st s -> flush_post s ok s' -> InvW st s'.
Proof.
  intros st s ok s' HI HP. constructor.
  - exact (fp_struct _ _ _ HP).
  - apply ctl_le_trans with s; [exact (iw_ctl _ _ HI)|exact (fp_ctl _ _ _ HP)].
  - rewrite (me_def _ _ (fp_mode _ _ _ HP)). exact (iw_def _ _ HI).
  - rewrite (me_ts _ _ (fp_mode _ _ _ HP)). exact (iw_ts _ _ HI).
  - rewrite (me_panic _ _ (fp_mode _ _ _ HP)). exact (iw_panic _ _ HI).
  - rewrite (fp_ri_spec _ _ _ HP (iw_def _ _ HI)). exact (iw_ri _ _ HI).
Qed.

Lemma spec_flush : forall st s ok s',
  p_stack st <> [] -> spec_of st s -> flush_post s ok s' -> spec_of st s'.
Proof.
  intros st s ok s' Hne HSo HP. constructor.
  - exact (invw_flush _ _ _ _ (so_inv _ _ HSo) HP).
  - destruct (so_stack _ _ HSo) as [ex Hex].
    destruct (fp_stack _ _ _ HP) as [Hs|[fr Hs]].
    + exists ex. rewrite Hs. exact Hex.
    + exists (fr :: ex). rewrite Hs, Hex. reflexivity.
  - pose proof (spec_nr_le _ _ Hne HSo) as Hle.
    rewrite (firstn_le_eq _ _ (num_rows s) (num_rows st) Hle (fp_keep _ _ _ HP)).
    exact (so_keep _ _ HSo).
Qed.

(* dropping frames pushed during the excursion *)
Lemma spec_set_stack : forall st s ex ex',
  spec_of st s -> p_stack st <> [] -> p_stack s = ex ++ ex' ++ p_stack st ->
  spec_of st (set_stack s (ex' ++ p_stack st)).
Proof.
  intros st s ex ex' HSo Hne Hs. pose proof (so_inv _ _ HSo) as HI.
  pose proof (s_mono _ (iw_struct _ _ HI)) as Hm. rewrite Hs in Hm.
  constructor.
  - apply invw_set_stack; [exact HI| | |].
    + destruct ex'; [exact Hne|discriminate].
    + exact (mono_app_r _ _ Hm).
    + apply mono_top; [exact (s_mono _ (iw_struct _ _ HI))|].
      rewrite Hs. apply in_or_app. right.
      destruct (ex' ++ p_stack st) as [|x l] eqn:E.
      * destruct ex'; [exfalso; exact (Hne E)|discriminate E].
      * left. reflexivity.
  - exists ex'. reflexivity.
  - exact (so_keep _ _ HSo).
Qed.

Lemma abs_stack_set_stack : forall s stk, abs_stack (set_stack s stk) = map (abs_frame s) stk.
Proof. reflexivity. Qed.

Lemma curr_row_abs : forall s, Struct s -> last (pf_rows (abs_top s)) dummy_row = curr_row s.
Proof.
  intros s HS. unfold abs_top, abs_frame, curr_row, row_at. psimpl.
  apply last_firstn_S. apply struct_range_len; [exact HS|]. apply top_in. exact (s_ne _ HS).
Qed.

Lemma abs_top_stack : forall s, p_stack s <> [] -> abs_stack s = abs_top s :: tl (abs_stack s).
Proof.
  intros s Hne. unfold abs_stack, abs_top, top. destruct (p_stack s); [congruence|]. reflexivity.
Qed.

Lemma abs_stack_top : forall s f stk, abs_stack s = f :: stk -> abs_top s = f.
Proof.
  intros s f stk H. unfold abs_stack, abs_top, top in *.
  destruct (p_stack s); [discriminate|]. cbn [map hd] in *. congruence.
Qed.

Lemma frames_inj : forall st s l2 l,
  (forall e, In e l2 -> f_row e < length (p_rows s)) ->
  (forall e, In e l -> f_row e < length (p_rows st)) ->
  map (abs_frame s) l2 = map (abs_frame st) l ->
  l2 = l /\ forall e, In e l -> firstn (S (f_row e)) (p_rows s) = firstn (S (f_row e)) (p_rows st).
Proof.
  intros st s l2. induction l2 as [|e2 l2 IH]; intros [|e l] H2 H1 E; cbn [map] in E;
    try discriminate.
  - split; [reflexivity|]. intros e [].
  - pose proof (f_equal (@hd _ (abs_frame st e)) E) as E0.
    pose proof (f_equal (@tl _) E) as E'. cbn [hd tl] in E0, E'.
    destruct (abs_frame_inj st s e e2) as [-> Hk];
      [apply H1; left; reflexivity|apply H2; left; reflexivity|exact E0|].
    destruct (IH l) as [-> Hall].
    + intros x Hx. apply H2. right. exact Hx.
    + intros x Hx. apply H1. right. exact Hx.
    + exact E'.
    + split; [reflexivity|]. intros x [->|Hx]; [exact Hk|apply Hall; exact Hx].
Qed.

Lemma abs_suffix_spec : forall st s X,
  Struct st -> InvW st s -> abs_stack s = X ++ abs_stack st -> spec_of st s.
Proof.
  intros st s X HS HI E. unfold abs_stack in E.
  apply map_eq_app in E. destruct E as (l1 & l2 & Hl & _ & E2).
  pose proof (iw_struct _ _ HI) as HSs.
  destruct (frames_inj st s l2 (p_stack st)) as [-> Hall].
  - intros e He. apply struct_range_len; [exact HSs|]. rewrite Hl. apply in_or_app. right. exact He.
  - intros e He. apply struct_range_len; assumption.
  - exact E2.
  - constructor; [exact HI|exists l1; exact Hl|].
    apply (Hall (top st)). apply top_in. exact (s_ne _ HS).
Qed.

Lemma GoodD_ext : forall st st',
  p_stack st' = p_stack st -> p_rows st' = p_rows st -> p_valid_end st' = p_valid_end st ->
  p_definitive st' = p_definitive st -> p_row_infos st' = p_row_infos st ->
  p_bytes st' = p_bytes st -> p_applied st' = p_applied st ->
  p_cache st' = p_cache st ->
  GoodD st -> GoodD st'.
Proof.
  intros st st' E1 E2 E3 E4 E5 E6 E7 E9 HG.
  constructor.
  - apply (struct_ext st); try assumption. exact (gd_struct _ HG).
  - rewrite E4. exact (gd_def _ HG).
  - rewrite E5, (num_rows_stack_eq _ _ E1). exact (gd_ri _ HG).
  - rewrite E6, E7. exact (gd_app _ HG).
  - apply (cache_ok_keep st); try assumption.
    + rewrite (top_stack_eq _ _ E1). apply Nat.le_refl.
    + rewrite E2. reflexivity.
    + exact (gd_cache _ HG).
Qed.

Lemma Tidy_ext : forall st st',
  p_stack st' = p_stack st -> p_bytes st' = p_bytes st -> p_top_eos st' = p_top_eos st ->
  p_panic st' = p_panic st -> Tidy st -> Tidy st'.
Proof.
  intros st st' E1 E2 E3 E4 [H1 H2]. constructor.
  - rewrite E1, E2, E3. exact H1.
  - rewrite E4. exact H2.
Qed.

(* is_accepting_inner on a speculative state *)
Lemma acc_inner_spec : forall st s a s',
  p_stack st <> [] -> spec_of st s -> is_accepting_inner cx s = (a, s') ->
  spec_of st s' /\
  (p_stack s' = p_stack s \/ exists fr, p_stack s' = fr :: p_stack s) /\
  firstn (num_rows s) (p_rows s') = firstn (num_rows s) (p_rows s) /\
  (over_limit s' = false -> a = p_accepting cx (abs_stack s)).
Proof.
  intros st s a s' Hne HSo H. unfold is_accepting_inner in H.
  destruct (flush_lexer cx s) as [ok s2] eqn:Hf. inversion H; subst a s'. clear H.
  pose proof (iw_struct _ _ (so_inv _ _ HSo)) as HS.
  pose proof (flush_post_holds _ _ _ HS Hf) as HP.
  split; [exact (spec_flush _ _ _ _ Hne HSo HP)|].
  split; [exact (fp_stack _ _ _ HP)|].
  split; [exact (fp_keep _ _ _ HP)|].
  intros Hlim. pose proof (fp_sim _ _ _ HP Hlim) as Hsim. unfold p_accepting.
  destruct (p_flush cx (abs_stack s)) as [f'|].
  - destruct Hsim as [-> <-]. rewrite (curr_row_abs _ (fp_struct _ _ _ HP)). reflexivity.
  - rewrite Hsim. reflexivity.
Qed.
End Inv.
