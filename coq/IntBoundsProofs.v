(* IntBoundsProofs.v — the rounding of fractional / exclusive bounds of integer schemas is exact *)
From Coq Require Import Lia.
From LLG Require Import Base Regex RegexProofs Numeric NumericProofs FloatRangeProofs IntBounds.
Open Scope Z_scope.

Definition dec_digits (d : dec) : Prop := is_digits (d_int d) /\ is_digits (d_frac d).
Definition bound_digits (b : option (dec * bool)) : Prop :=
  match b with Some (d, _) => dec_digits d | None => True end.
(* the rounded bound fits an i64 (the code converts with `as i64`) *)
Definition bound_fits (b : option (dec * bool)) : Prop :=
  match b with Some (d, _) => val_digits (d_int d) 0 < 2 ^ 62 | None => True end.

(* ---------- auxiliary facts ---------- *)
Lemma scaled_k : forall d,
  dec_scaled d (dec_k d) =
  if d_neg d then - (V (d_int d) * P10 (dec_k d) + V (d_frac d))
  else V (d_int d) * P10 (dec_k d) + V (d_frac d).
Proof.
  intros d. rewrite sc_eq by (unfold flen, dec_k; lia).
  unfold mag, fv, dec_k. rewrite Nat.sub_diag, P10_0, Z.mul_1_r. reflexivity.
Qed.

(* the arithmetic facts all the rounding lemmas need *)
Lemma dec_facts : forall d, dec_digits d ->
  0 <= V (d_int d) /\ 0 <= V (d_frac d) < P10 (dec_k d) /\
  (frac_is_zero d = true <-> V (d_frac d) = 0).
Proof.
  intros d [HI HF]. pose proof (V_bound _ HI). pose proof (V_bound _ HF).
  unfold dec_k, frac_is_zero. split; [lia|]. split; [assumption|].
  now apply forallb_zero.
Qed.

Lemma frac_zero_cases : forall d, dec_digits d ->
  (frac_is_zero d = true /\ V (d_frac d) = 0) \/ (frac_is_zero d = false /\ 0 < V (d_frac d)).
Proof.
  intros d Hd. destruct (dec_facts d Hd) as (_ & HB & HZ).
  destruct (frac_is_zero d) eqn:E.
  - left. split; [reflexivity|]. now apply HZ.
  - right. split; [reflexivity|].
    destruct (Z.eq_dec (V (d_frac d)) 0) as [E0|NE]; [|lia].
    apply HZ in E0. discriminate.
Qed.

(*FIXED*)
Lemma norm_int_lo_exact : forall d excl z,
  dec_digits d -> (norm_int_lo d excl <= z <-> above d excl z).
Proof.
  intros d excl z Hd. destruct (dec_facts d Hd) as (HI & HB & _).
  unfold norm_int_lo, above, dec_ceil. rewrite scaled_k.
  change (val_digits (d_int d) 0) with (V (d_int d)).
  change (10 ^ Z.of_nat (dec_k d)) with (P10 (dec_k d)).
  set (I := V (d_int d)) in *. set (F := V (d_frac d)) in *. set (P := P10 (dec_k d)) in *.
  destruct (frac_zero_cases d Hd) as [[-> HF]|[-> HF]]; fold F in HF;
    destruct (d_neg d), excl; split; intros H; nia.
Qed.

(*FIXED*)
Lemma norm_int_hi_exact : forall d excl z,
  dec_digits d -> (z <= norm_int_hi d excl <-> below d excl z).
Proof.
  intros d excl z Hd. destruct (dec_facts d Hd) as (HI & HB & _).
  unfold norm_int_hi, below, dec_floor. rewrite scaled_k.
  change (val_digits (d_int d) 0) with (V (d_int d)).
  change (10 ^ Z.of_nat (dec_k d)) with (P10 (dec_k d)).
  set (I := V (d_int d)) in *. set (F := V (d_frac d)) in *. set (P := P10 (dec_k d)) in *.
  destruct (frac_zero_cases d Hd) as [[-> HF]|[-> HF]]; fold F in HF;
    destruct (d_neg d), excl; split; intros H; nia.
Qed.

Lemma norm_lo_i64 : forall d excl, dec_digits d -> val_digits (d_int d) 0 < 2 ^ 62 ->
  i64_ok (norm_int_lo d excl).
Proof.
  intros d excl Hd Hf. destruct (dec_facts d Hd) as (HI & _ & _). unfold V in HI.
  unfold i64_ok, norm_int_lo, dec_ceil.
  assert (2 ^ 63 = 2 * 2 ^ 62) by reflexivity.
  destruct excl, (frac_is_zero d), (d_neg d); lia.
Qed.

Lemma norm_hi_i64 : forall d excl, dec_digits d -> val_digits (d_int d) 0 < 2 ^ 62 ->
  i64_ok (norm_int_hi d excl).
Proof.
  intros d excl Hd Hf. destruct (dec_facts d Hd) as (HI & _ & _). unfold V in HI.
  unfold i64_ok, norm_int_hi, dec_floor.
  assert (2 ^ 63 = 2 * 2 ^ 62) by reflexivity.
  destruct excl, (frac_is_zero d), (d_neg d); lia.
Qed.

Lemma norm_lo_opt_ok : forall lo, bound_digits lo -> bound_fits lo -> opt_ok (norm_bound norm_int_lo lo).
Proof.
  intros [[d e]|] Hd Hf; cbn [norm_bound opt_ok]; [|exact I]. now apply norm_lo_i64.
Qed.

Lemma norm_hi_opt_ok : forall hi, bound_digits hi -> bound_fits hi -> opt_ok (norm_bound norm_int_hi hi).
Proof.
  intros [[d e]|] Hd Hf; cbn [norm_bound opt_ok]; [|exact I]. now apply norm_hi_i64.
Qed.

Lemma in_opt_range_dec : forall lo hi z, bound_digits lo -> bound_digits hi ->
  (in_opt_range (norm_bound norm_int_lo lo) (norm_bound norm_int_hi hi) z <-> in_dec_bounds lo hi z).
Proof.
  intros lo hi z Hlo Hhi. unfold in_opt_range, in_dec_bounds.
  assert (A : match norm_bound norm_int_lo lo with Some a => a <= z | None => True end <->
              match lo with Some (d, e) => above d e z | None => True end).
  { destruct lo as [[d e]|]; cbn [norm_bound]; [|tauto]. now apply norm_int_lo_exact. }
  assert (B : match norm_bound norm_int_hi hi with Some b => z <= b | None => True end <->
              match hi with Some (d, e) => below d e z | None => True end).
  { destruct hi as [[d e]|]; cbn [norm_bound]; [|tauto]. now apply norm_int_hi_exact. }
  tauto.
Qed.

(* stated as a rewriting lemma: letting the conversion test compare rx_int_bounds with
   rx_int_range by unfolding the 200 levels of fuel does not terminate in practice *)
Lemma rx_int_bounds_eq : forall lo hi,
  rx_int_bounds lo hi = rx_int_range int_fuel (norm_bound norm_int_lo lo) (norm_bound norm_int_hi hi).
Proof. intros. unfold rx_int_bounds. reflexivity. Qed.

(*FIXED*)
Theorem int_bounds_exact : forall lo hi rx z,
  bound_digits lo -> bound_digits hi -> bound_fits lo -> bound_fits hi -> Z.abs z < 10 ^ 80 ->
  rx_int_bounds lo hi = NOk rx ->
  (re_lang rx (int_literal z) <-> in_dec_bounds lo hi z).
Proof.
  intros lo hi rx z Hdl Hdh Hfl Hfh Hz Hrx. rewrite rx_int_bounds_eq in Hrx.
  rewrite (int_range_exact _ _ rx z (norm_lo_opt_ok lo Hdl Hfl) (norm_hi_opt_ok hi Hdh Hfh) Hz Hrx).
  apply in_opt_range_dec; assumption.
Qed.

(*FIXED*)
Theorem int_bounds_error_iff_empty : forall l r el er,
  dec_digits l -> dec_digits r -> bound_fits (Some (l, el)) -> bound_fits (Some (r, er)) ->
  (rx_int_bounds (Some (l, el)) (Some (r, er)) = NErr <->
   forall z, ~ in_dec_bounds (Some (l, el)) (Some (r, er)) z).
Proof.
  intros l r el er Hl Hr Hfl Hfr. rewrite rx_int_bounds_eq. cbn [norm_bound].
  cbn [bound_fits] in Hfl, Hfr.
  rewrite (int_range_error_iff_empty _ _ (norm_lo_i64 l el Hl Hfl) (norm_hi_i64 r er Hr Hfr)).
  unfold in_dec_bounds. split.
  - intros Hlt z [Ha Hb].
    apply (norm_int_lo_exact l el z Hl) in Ha. apply (norm_int_hi_exact r er z Hr) in Hb. lia.
  - intros Hall. destruct (Z.lt_ge_cases (norm_int_hi r er) (norm_int_lo l el)) as [Hlt|Hge]; [assumption|].
    exfalso. apply (Hall (norm_int_lo l el)). split.
    + apply (norm_int_lo_exact l el _ Hl). lia.
    + apply (norm_int_hi_exact r er _ Hr). lia.
Qed.

(* non-vacuity: exclusiveMinimum -2.5, maximum 3.0 *)
Example int_bounds_example :
  exists rx, rx_int_bounds (Some (mk_dec true [2] [5], true)) (Some (mk_dec false [3] [0], false)) = NOk rx /\
  re_lang rx (int_literal (-2)) /\ ~ re_lang rx (int_literal (-3)) /\ re_lang rx (int_literal 3) /\
  ~ re_lang rx (int_literal 4).
Proof.
  eexists. split; [vm_compute; reflexivity|].
  match goal with |- re_lang ?r _ /\ _ => set (rx := r) end.
  assert (D1 : dec_digits (mk_dec true [2] [5])).
  { split; cbn [d_int d_frac]; repeat constructor; lia. }
  assert (D2 : dec_digits (mk_dec false [3] [0])).
  { split; cbn [d_int d_frac]; repeat constructor; lia. }
  assert (E : forall z, Z.abs z < 10 ->
    (re_lang rx (int_literal z) <-> -25 < z * 10 /\ z * 10 <= 30)).
  { intros z Hz.
    assert (Hz' : Z.abs z < 10 ^ 80) by (assert (10 < 10 ^ 80) by reflexivity; lia).
    rewrite (int_bounds_exact (Some (mk_dec true [2] [5], true)) (Some (mk_dec false [3] [0], false)) rx z).
    - unfold in_dec_bounds, above, below.
      change (dec_scaled (mk_dec true [2] [5]) (dec_k (mk_dec true [2] [5]))) with (-25).
      change (dec_scaled (mk_dec false [3] [0]) (dec_k (mk_dec false [3] [0]))) with 30.
      change (10 ^ Z.of_nat (dec_k (mk_dec true [2] [5]))) with 10.
      change (10 ^ Z.of_nat (dec_k (mk_dec false [3] [0]))) with 10. tauto.
    - exact D1.
    - exact D2.
    - vm_compute. reflexivity.
    - vm_compute. reflexivity.
    - exact Hz'.
    - subst rx. vm_compute. reflexivity. }
  clearbody rx.
  repeat split.
  - apply E; lia.
  - intros H. apply E in H; lia.
  - apply E; lia.
  - intros H. apply E in H; lia.
Qed.

Print Assumptions int_bounds_exact.
Print Assumptions int_bounds_error_iff_empty.
Print Assumptions int_bounds_example.
