(* SubstringProofs.v — substring_rx denotes exactly the contiguous runs of chunks *)
From LLG Require Import Base Regex RegexProofs Substring.
Open Scope N_scope.

Lemma map_skipn' : forall (A B : Type) (f : A -> B) n (l : list A), skipn n (map f l) = map f (skipn n l).
Proof. induction n as [|n IH]; intros [|x l]; cbn; auto. Qed.
Lemma map_firstn' : forall (A B : Type) (f : A -> B) n (l : list A), firstn n (map f l) = map f (firstn n l).
Proof. induction n as [|n IH]; intros [|x l]; cbn; auto. now rewrite IH. Qed.

Lemma prefixes_lang : forall chunks w, Forall bytes_ok chunks ->
  (re_lang (prefixes_rx chunks) w <-> exists n, w = concat (firstn n chunks)).
Proof.
  induction chunks as [|c r IH]; intros w Hok; cbn [prefixes_rx re_lang].
  - split; [intros ->; exists 0%nat; reflexivity|]. intros [n ->]. now destruct n.
  - inversion Hok as [|? ? Hc Hr]; subst. split.
    + intros [->|(u & v & -> & Hu & Hv)]; [exists 0%nat; reflexivity|].
      apply (lit_lang c u Hc) in Hu. subst u.
      apply (IH v Hr) in Hv. destruct Hv as [n ->]. exists (S n). reflexivity.
    + intros [n ->]. destruct n as [|n]; [left; reflexivity|].
      right. exists c, (concat (firstn n r)). split; [reflexivity|].
      split; [now apply lit_lang|]. apply IH; [assumption|]. now exists n.
Qed.

Theorem substring_lang : forall chunks w, Forall bytes_ok chunks ->
  (re_lang (substring_rx chunks) w <-> chunk_run chunks w).
Proof.
  induction chunks as [|c r IH]; intros w Hok.
  - cbn [substring_rx re_lang]. unfold chunk_run. split.
    + intros ->. exists 0%nat, 0%nat. reflexivity.
    + intros (i & n & ->). destruct i, n; reflexivity.
  - inversion Hok as [|? ? Hc Hr]; subst.
    change (substring_rx (c :: r)) with (Alt (prefixes_rx (c :: r)) (substring_rx r)).
    cbn [re_lang]. rewrite (prefixes_lang (c :: r) w Hok), (IH w Hr). unfold chunk_run. split.
    + intros [[n ->]|(i & n & ->)]; [exists 0%nat, n; reflexivity | exists (S i), n; reflexivity].
    + intros (i & n & ->). destruct i as [|i]; [left; exists n; reflexivity | right; exists i, n; reflexivity].
Qed.

(* for single-byte chunks (substring_chars over ASCII text) these are the substrings *)
Corollary substring_chars_lang : forall (s : bytes) w, bytes_ok s ->
  (re_lang (substring_rx (map (fun b => [b]) s)) w <-> exists u v, s = u ++ w ++ v).
Proof.
  intros s w Hs. rewrite substring_lang.
  - unfold chunk_run. split.
    + intros (i & n & ->). exists (firstn i s), (skipn n (skipn i s)).
      rewrite map_skipn', map_firstn'.
      assert (E : forall l : bytes, concat (map (fun b => [b]) l) = l).
      { induction l as [|x l IHl]; [reflexivity|]. cbn. now rewrite IHl. }
      rewrite E. rewrite firstn_skipn. now rewrite firstn_skipn.
    + intros (u & v & ->). exists (length u), (length w).
      rewrite map_skipn', map_firstn'.
      assert (E : forall l : bytes, concat (map (fun b => [b]) l) = l).
      { induction l as [|x l IHl]; [reflexivity|]. cbn. now rewrite IHl. }
      rewrite E. rewrite skipn_app, Nat.sub_diag, skipn_all. cbn [app skipn].
      rewrite firstn_app, Nat.sub_diag, firstn_all. cbn [firstn]. now rewrite app_nil_r.
  - apply Forall_forall. intros x Hx. apply in_map_iff in Hx. destruct Hx as (b & <- & Hb).
    unfold bytes_ok in *. constructor; [|constructor]. rewrite Forall_forall in Hs. now apply Hs.
Qed.

Print Assumptions substring_lang.
Print Assumptions substring_chars_lang.
