(* Properties/C17.v — the C API mask copies stay inside the engine's mask and
   the caller's buffer and write exactly the bits of real token ids.
   PAR_COPY_USES_BITLEN is regenerated from parser/src/ffi_par.rs on every run. *)
From LLG Require Import Base Params Svob SvobProofs Ffi FfiProofs.

(* never reads outside the engine's own mask, whatever destination length *)
Theorem C17_par_copy_reads_inside_mask : forall mask dest_len is_stop eos,
  par_copy PAR_COPY_USES_BITLEN mask dest_len is_stop eos <> None.
Proof. exact par_copy_in_bounds. Qed.
Print Assumptions C17_par_copy_reads_inside_mask.

(* writes exactly the caller's buffer length *)
Theorem C17_par_copy_fills_buffer : forall mask dest_len is_stop eos d,
  par_copy PAR_COPY_USES_BITLEN mask dest_len is_stop eos = Some d -> length d = dest_len.
Proof. exact (par_copy_length PAR_COPY_USES_BITLEN). Qed.
Print Assumptions C17_par_copy_fills_buffer.

(* every destination bit is the engine's mask bit when it lies in a copied word, zero otherwise *)
Theorem C17_par_copy_bits : forall m dest_len eos i d,
  par_copy PAR_COPY_USES_BITLEN (Some m) dest_len false eos = Some d ->
  dest_bit d i = (Nat.ltb (N.to_nat (i / 32)) (Nat.min (length (words m)) dest_len)) && get m i.
Proof. intros m dest_len eos i d H. exact (proj2 (par_copy_bits m dest_len eos i) d H). Qed.
Print Assumptions C17_par_copy_bits.

(* only bits of real token ids *)
Theorem C17_par_copy_no_id_above_vocab : forall m dest_len eos d i,
  no_excess m -> par_copy PAR_COPY_USES_BITLEN (Some m) dest_len false eos = Some d ->
  vsize m <= i -> dest_bit d i = false.
Proof. exact par_copy_no_excess. Qed.
Print Assumptions C17_par_copy_no_id_above_vocab.

(* on stop exactly the EOS bit is added, when it fits *)
Theorem C17_par_copy_stop_bit : forall mask dest_len eos d0 d i,
  par_copy PAR_COPY_USES_BITLEN mask dest_len false eos = Some d0 ->
  par_copy PAR_COPY_USES_BITLEN mask dest_len true eos = Some d ->
  dest_bit d i = dest_bit d0 i || ((i =? eos) && Nat.ltb (N.to_nat (eos / 32)) dest_len).
Proof. exact par_copy_stop. Qed.
Print Assumptions C17_par_copy_stop_bit.

(* llg_matcher_compute_mask_into: succeeds exactly for the advertised size *)
Theorem C17_mask_into_exact : forall vob vocab,
  vsize vob = vocab -> nwords vob = div_ceil32 (vocab + 1) ->
  mask_into vob (mask_elts vocab) (N.of_nat (4 * mask_elts vocab)) =
    Ok (firstn (mask_elts vocab) (words vob)).
Proof. exact mask_into_exact. Qed.
Print Assumptions C17_mask_into_exact.

Theorem C17_mask_into_rejects_other_sizes : forall vob n len,
  N.of_nat (4 * n) <> len -> mask_into vob n len <> Ok (firstn n (words vob)).
Proof. exact mask_into_wrong_size. Qed.
Print Assumptions C17_mask_into_rejects_other_sizes.

Theorem C17_ff_copy_in_bounds : forall v n, (length (fst (ff_copy v n)) <= n)%nat /\
  snd (ff_copy v n) = N.of_nat (length (fst (ff_copy v n))) /\
  (exists rest, v = fst (ff_copy v n) ++ rest).
Proof. exact ff_copy_in_bounds. Qed.
Print Assumptions C17_ff_copy_in_bounds.

(* the statement with the mask length in bits is false: witness kept as the replay
   of the defect fixed in /repo (known_findings.json: fixed) *)
Theorem C17_bit_length_variant_refuted :
  exists m dest_len, svob_wf m /\ par_copy true (Some m) dest_len false 0 = None.
Proof. exact par_copy_bitlen_refuted. Qed.
Print Assumptions C17_bit_length_variant_refuted.

(* non-vacuity: a 40-token vocabulary, 3-word destination *)
Example C17_example :
  par_copy PAR_COPY_USES_BITLEN (Some (set (alloc_with_capacity 40 41) 39 true)) 3 true 5
  = Some [32; 128; 0].
Proof. vm_compute. reflexivity. Qed.
