(* Properties/C20.v — arbitrary input never crashes, corrupts or hangs the engine.
   The part of the property that is logic: no history of legal calls reaches one of the engine's
   internal assertions; no result is returned after an internal panic; a failed engine keeps
   reporting its failure; token ids outside the vocabulary are refused before any lookup; the
   multipleOf arithmetic never returns a wrapped product.  (Aborts, stack depth and running time
   of the compiled Rust are runtime behaviour: child-process harness, see DESIGN.md.) *)
From LLG Require Import Base Params Svob SvobProofs Trie TrieProofs WalkM WalkMProofs
                        Regex RegexProofs Lexer Earley Engine PureEngine
                        EngineInv EngineWalk EngineOps EngineProofs TokParser MatcherProofs
                        Numeric NumericProofs.
Open Scope N_scope.

Theorem C20_no_internal_assertion_on_any_history : forall cx, core_ctx cx -> c_rollback_clears_cache cx = ROLLBACK_CLEARS_CACHE ->
  forall st, reach1 cx st -> p_error st = false -> p_panic st = false.
Proof. intros cx Hcore Hcl. assert (H : c_rollback_clears_cache cx = true) by (rewrite Hcl; reflexivity).
       exact (reach_no_panic cx Hcore H). Qed.
Print Assumptions C20_no_internal_assertion_on_any_history.

Theorem C20_failed_engine_keeps_failing : forall cx t, t_panicked t = true ->
  (forall tok, m_consume_token cx t tok = (TErr, t)) /\
  m_compute_mask cx t = (TErr, t) /\
  m_compute_mask_or_eos cx t = (TErr, t) /\
  (forall toks, m_validate cx t toks = (TErr, t)) /\
  (forall n, m_rollback cx t n = (TErr, t)) /\
  m_reset cx t = (TErr, t) /\
  m_is_accepting cx t = (TErr, t) /\
  m_ff_bytes cx t = ([], t) /\
  m_ff_tokens cx t = ([], t) /\
  m_invalidate_cache t = t /\
  m_is_stopped t = true /\ m_stop_reason t = InternalError.
Proof. exact failed_matcher_is_sticky. Qed.
Print Assumptions C20_failed_engine_keeps_failing.

Theorem C20_no_result_after_internal_panic : forall cx t,
  (forall tok u t', m_consume_token cx t tok = (TOk u, t') -> p_panic (t_p t') = false) /\
  (forall m t', m_compute_mask cx t = (TOk m, t') -> p_panic (t_p t') = false) /\
  (forall toks n t', m_validate cx t toks = (TOk n, t') -> p_panic (t_p t') = false) /\
  (forall n u t', m_rollback cx t n = (TOk u, t') -> p_panic (t_p t') = false).
Proof. exact matcher_ok_no_panic. Qed.
Print Assumptions C20_no_result_after_internal_panic.

Theorem C20_token_id_out_of_range_refused : forall cx t tok,
  vocab_size (c_trie cx) <= tok -> fst (tp_apply_token cx t tok) = TErr.
Proof. exact out_of_range_token_refused. Qed.
Print Assumptions C20_token_id_out_of_range_refused.

Theorem C20_validate_out_of_range_refused : forall cx t toks tok,
  In tok toks -> vocab_size (c_trie cx) <= tok -> stopped t = false ->
  fst (validate_tokens_raw cx t toks) = TErr.
Proof. exact out_of_range_validate_refused. Qed.
Print Assumptions C20_validate_out_of_range_refused.

Open Scope Z_scope.
(* no result after an arithmetic overflow: with the variant read from numeric.rs the combined
   multipleOf is the exact lcm or an error *)
Theorem C20_lcm_exact_or_error : forall ca ea cb eb c e,
  0 < ca < 2 ^ 32 -> 0 < cb < 2 ^ 32 -> 0 <= ea -> 0 <= eb ->
  decimal_lcm LCM_CHECKED (ca, ea) (cb, eb) = Some (c, e) ->
  let s := Z.max ea eb in
  c * 10 ^ (s - e) = Z.lcm (ca * 10 ^ (s - ea)) (cb * 10 ^ (s - eb)) /\ 0 <= e <= s.
Proof. exact lcm_checked_exact. Qed.
Print Assumptions C20_lcm_exact_or_error.

(* the unchecked product (the pinned code before 200da95) returns a wrong step *)
Theorem C20_wrapping_lcm_refuted :
  exists a b c, decimal_lcm false (a, 0) (b, 0) = Some (c, 0) /\ c <> Z.lcm a b /\ 0 < a < 2 ^ 32 /\ 0 < b < 2 ^ 32.
Proof. exact lcm_wrapping_refuted. Qed.
Print Assumptions C20_wrapping_lcm_refuted.

(* no result after an overflow in the multipleOf remainder arithmetic (u32, derivre): exact for
   every value the guard lets through; without the guard 4294901760 is not a multiple of itself *)
Theorem C20_multiple_of_no_wrap : forall c ds,
  multiple_of_compiles MULTIPLE_OF_GUARD c 0 = true -> 0 <= c -> is_digits ds -> ds <> [] ->
  (multiple_of_accepts_int c ds = true <-> (c | val_digits ds 0)).
Proof. exact multiple_of_guarded_exact. Qed.
Print Assumptions C20_multiple_of_no_wrap.

Theorem C20_unguarded_multiple_of_refuted :
  exists c ds, 0 < c < 2 ^ 32 /\ is_digits ds /\ (c | val_digits ds 0) /\ multiple_of_accepts_int c ds = false.
Proof. exact multiple_of_unguarded_refuted. Qed.
Print Assumptions C20_unguarded_multiple_of_refuted.
