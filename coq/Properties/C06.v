(* Properties/C06.v — output generated under a JSON-schema constraint always validates
   (modelled fragment of the schema compiler, see JsonModel.v) *)
From LLG Require Import Base Regex RegexProofs Numeric NumericProofs JsonModel JsonSeqProofs JsonProofs.
Open Scope N_scope.

(* every string the grammar admits spells a valid instance of the schema, with the listed
   object members at most once and in the schema's order (keys matched only by
   additionalProperties may repeat: the documented departure) *)
Theorem C06_every_admitted_string_is_a_valid_instance : forall s w,
  schema_ok s -> bytes_ok w -> jaccept s w = true ->
  exists v, spells v w /\ valid s v /\ ordered s v.
Proof. exact json_sound. Qed.
Print Assumptions C06_every_admitted_string_is_a_valid_instance.

(* object members: exactly the comma-separated selections containing every required member *)
Theorem C06_object_members_exact : forall items langs, realises items langs ->
  mlang (m_oseq items false) (fun u => exists ws, picks langs ws /\ u = join_comma ws) /\
  mlang (m_oseq items true) (fun u => exists ws, picks langs ws /\ u = pre_comma ws).
Proof. exact m_oseq_exact. Qed.
Print Assumptions C06_object_members_exact.

(* arrays: minItems <= n <= maxItems, the i-th item from prefixItems[i] or items *)
Theorem C06_array_items_exact : forall prefix items minI maxI Lp Li,
  Forall2 mlang prefix Lp -> Forall nonempty_lang Lp ->
  match items, Li with
  | Some a, Some A => mlang a A /\ nonempty_lang A
  | None, None => True
  | _, _ => False
  end ->
  mlang (m_array prefix items minI maxI)
        (fun u => exists ws, u = 91 :: join_comma ws ++ [93] /\
                             (minI <= length ws)%nat /\ opt_le (length ws) maxI /\
                             (forall i w, nth_error ws i = Some w -> slot_lang Lp Li i w) /\
                             (items = None -> (minI <= length prefix)%nat)).
Proof. exact m_array_exact. Qed.
Print Assumptions C06_array_items_exact.

(* additional properties / array tails: between max(min,1) and max comma-separated items *)
Theorem C06_bounded_sequence_exact : forall item A min_elts max_elts, mlang item A -> nonempty_lang A ->
  mlang (m_bseq item min_elts max_elts)
        (fun u => exists ws, Forall A ws /\ ws <> [] /\ (min_elts <= length ws)%nat /\
                             opt_le (Nat.pred (length ws)) (option_map Nat.pred max_elts) /\
                             u = join_comma ws).
Proof. exact m_bseq_exact. Qed.
Print Assumptions C06_bounded_sequence_exact.
