(* Properties/C03.v — allowed tokens never lead into a dead end: what holds, and the
   machine-checked witness that the unrestricted statement is false by design of the
   lexer/parser split (known finding: greedy lexeme conflict). *)
From LLG Require Import Base Svob Trie Regex RegexProofs Lexer Earley EarleyAgenda EarleyProofs
                        Engine PureEngine DeadEnd.

(* parser half: in a productive grammar, whenever the recogniser keeps going after a lexeme
   sequence, that sequence can be completed to a derivable one *)
Theorem C03_parser_rows_are_completable : forall g sp ls,
  wf_grammar g -> productive g ->
  (exists rows, earley_run g (nullable_set g) sp
                  (match initial_row g (nullable_set g) with Some r0 => [r0] | None => [] end) ls = Some rows
                /\ initial_row g (nullable_set g) <> None) ->
  exists ls', lderives g (NT (g_start g)) (ls ++ ls').
Proof. intros g sp ls Hwf Hp H. exact (proj1 (earley_viable g sp ls Hwf Hp) H). Qed.
Print Assumptions C03_parser_rows_are_completable.

(* lexer half: a residual the lexer keeps because the emptiness test answered "non-empty"
   has a completion *)
Theorem C03_kept_residual_has_completion : forall fuel r,
  nonempty_fuel fuel r = Some true -> exists w, re_lang r w.
Proof. exact nonempty_fuel_true. Qed.
Print Assumptions C03_kept_residual_has_completion.

(* the lexer is only ever started with lexemes some item can scan *)
Theorem C03_allowed_lexemes_are_wanted : forall g nl sp ls r0 rows r lx,
  initial_row g nl = Some r0 -> earley_run g nl sp [r0] ls = Some rows -> In r rows ->
  (In lx (r_allowed r) <-> exists it, In it (r_items r) /\ after_dot g it = Some (TM lx)).
Proof. exact allowed_lexemes_exact_run. Qed.
Print Assumptions C03_allowed_lexemes_are_wanted.

(* the unrestricted statement is false: start: A B, A: /a+/, B: /ab/ — after the first 'a'
   (an allowed token) the only allowed byte is 'a', the state never changes and never accepts *)
Theorem C03_unrestricted_statement_refuted :
  ppush de_cx de_f0 a_byte = Some de_f1 /\
  (forall w f, Forall (fun b => b < 256) w -> run pframe (ppush de_cx) de_f1 w = Some f -> f = de_f1) /\
  (forall rest, p_accepting de_cx (de_f1 :: rest) = false) /\
  ppush de_cx de_f1 a_byte = Some de_f1.
Proof.
  split; [exact de_first_a_accepted|]. split; [exact no_dead_end_refuted|].
  split; [exact de_not_accepting|exact de_loop].
Qed.
Print Assumptions C03_unrestricted_statement_refuted.
