(* Properties/C14.v — clones sharing lexer tables are independent of the schedule. *)
From LLG Require Import Base Clones ClonesProofs.

Theorem C14_schedule_independent : forall (St : Type) (step : St -> byte -> St) (st_eqb : St -> St -> bool),
  (forall a b, st_eqb a b = true <-> a = b) ->
  forall dflt sched m cs m' cs' i,
    memo_wf St step st_eqb dflt m ->
    Forall (fun id => (id < length (m_states St m))%nat) cs ->
    Forall (fun '(j, _) => (j < length cs)%nat) sched ->
    (i < length cs)%nat ->
    run_schedule St step st_eqb dflt m cs sched = (m', cs') ->
    abs_id St m' (nth i cs' 0%nat) dflt =
      pure_run St step (abs_id St m (nth i cs 0%nat) dflt) (bytes_of i sched).
Proof. exact schedule_independent. Qed.
Print Assumptions C14_schedule_independent.

Theorem C14_schedules_agree : forall (St : Type) (step : St -> byte -> St) (st_eqb : St -> St -> bool),
  (forall a b, st_eqb a b = true <-> a = b) ->
  forall dflt s1 s2 m cs m1 cs1 m2 cs2 i,
    memo_wf St step st_eqb dflt m ->
    Forall (fun id => (id < length (m_states St m))%nat) cs ->
    Forall (fun '(j, _) => (j < length cs)%nat) s1 ->
    Forall (fun '(j, _) => (j < length cs)%nat) s2 ->
    (i < length cs)%nat ->
    bytes_of i s1 = bytes_of i s2 ->
    run_schedule St step st_eqb dflt m cs s1 = (m1, cs1) ->
    run_schedule St step st_eqb dflt m cs s2 = (m2, cs2) ->
    abs_id St m1 (nth i cs1 0%nat) dflt = abs_id St m2 (nth i cs2 0%nat) dflt.
Proof. exact schedules_agree. Qed.
Print Assumptions C14_schedules_agree.

(* one shared transition: the memo only grows and old ids keep their meaning *)
Theorem C14_shared_tables_append_only : forall (St : Type) (step : St -> byte -> St) (st_eqb : St -> St -> bool),
  (forall a b, st_eqb a b = true <-> a = b) ->
  forall dflt m id b m' id',
    memo_wf St step st_eqb dflt m -> (id < length (m_states St m))%nat ->
    transition St step st_eqb dflt m id b = (m', id') ->
    memo_wf St step st_eqb dflt m' /\
    (id' < length (m_states St m'))%nat /\
    abs_id St m' id' dflt = step (abs_id St m id dflt) b /\
    (exists extra, m_states St m' = m_states St m ++ extra).
Proof. exact transition_refines. Qed.
Print Assumptions C14_shared_tables_append_only.
