(* Properties/C11.v — internal caching never changes a mask *)
From LLG Require Import Base Params Svob SvobProofs Trie TrieProofs WalkM WalkMProofs
                        Regex RegexProofs Lexer Earley Engine PureEngine
                        EngineInv EngineWalk EngineOps EngineProofs EngineCorollaries.

Theorem C11_cache_invalidation_irrelevant : forall cx, core_ctx cx -> c_rollback_clears_cache cx = ROLLBACK_CLEARS_CACHE ->
  forall st m1 st1 m2 st2,
    reach cx st ->
    compute_bias cx st [] = (m1, st1) -> p_error st1 = false ->
    compute_bias cx (set_cache st None) [] = (m2, st2) -> p_error st2 = false ->
    forall t, t < vocab_size (c_trie cx) -> get m1 t = get m2 t.
Proof. intros cx Hcore Hcl. exact (mask_cache_independent cx Hcore Hcl). Qed.
Print Assumptions C11_cache_invalidation_irrelevant.

Theorem C11_mask_twice : forall cx, core_ctx cx -> c_rollback_clears_cache cx = ROLLBACK_CLEARS_CACHE ->
  forall st m1 st1 m2 st2,
    settled cx st ->
    compute_bias cx st [] = (m1, st1) -> p_error st1 = false ->
    compute_bias cx st1 [] = (m2, st2) -> p_error st2 = false ->
    forall t, t < vocab_size (c_trie cx) -> get m1 t = get m2 t.
Proof. intros cx Hcore Hcl. exact (mask_twice cx Hcore Hcl). Qed.
Print Assumptions C11_mask_twice.

Theorem C11_queries_leave_no_trace : forall cx, core_ctx cx -> c_rollback_clears_cache cx = ROLLBACK_CLEARS_CACHE ->
  forall st toks n st1 a st2 m st3 m' st3',
    settled cx st ->
    validate_tokens cx st toks = (n, st1) -> p_error st1 = false ->
    is_accepting cx st1 = (a, st2) -> p_error st2 = false ->
    compute_bias cx st2 [] = (m, st3) -> p_error st3 = false ->
    compute_bias cx st [] = (m', st3') -> p_error st3' = false ->
    forall t, t < vocab_size (c_trie cx) -> get m t = get m' t.
Proof. intros cx Hcore Hcl. exact (queries_leave_no_trace cx Hcore Hcl). Qed.
Print Assumptions C11_queries_leave_no_trace.

(* with a rollback that keeps the cache the statement is false: the witness is the defect fixed in /repo *)
Theorem C11_masks_depend_only_on_pure_state : forall cx, core_ctx cx -> c_rollback_clears_cache cx = ROLLBACK_CLEARS_CACHE ->
  forall st m st',
    reach cx st -> p_panic st = false ->
    compute_bias cx st [] = (m, st') -> p_error st' = false ->
    forall t, t < vocab_size (c_trie cx) -> get m t = mask_spec cx (abs_top st) t.
Proof. intros cx Hcore Hcl st m st' Hr Hp Hb He.
       assert (H : c_rollback_clears_cache cx = true) by (rewrite Hcl; reflexivity).
       exact (proj2 (proj2 (proj2 (proj2 (proj2 (proj2 (compute_bias_spec cx Hcore H st m st' Hr Hp Hb He))))))). Qed.
Print Assumptions C11_masks_depend_only_on_pure_state.
