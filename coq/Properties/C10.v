(* Properties/C10.v — the slicing optimisation never changes a mask. *)
From LLG Require Import Base Slicer SlicerProofs.

(* whatever slice tree (nested / overlapping slices), whatever subset of slices the
   containment test accepts, as long as the test is sound: bit for bit the unsliced mask *)
Theorem C10_sliced_mask_equals_unsliced : forall acc matches top subsume_possible,
  slice_wf top -> oracle_sound acc matches top ->
  forall t, compute_bias_sliced acc matches top subsume_possible t = compute_bias_plain acc top t.
Proof. exact slicer_transparent. Qed.
Print Assumptions C10_sliced_mask_equals_unsliced.

(* per slice: contributes exactly its accepted tokens, or nothing *)
Theorem C10_slice_contribution : forall acc matches s trg ok trg',
  slice_wf s -> oracle_sound acc matches s ->
  apply acc matches s trg = (ok, trg') ->
  forall t, trg' t = if ok then trg t || (s_toks s t && acc t) else trg t.
Proof. exact apply_spec. Qed.
Print Assumptions C10_slice_contribution.

(* the soundness of the containment test is what the property rests on *)
Theorem C10_unsound_containment_breaks_it :
  exists acc matches top, slice_wf top /\
    exists t, compute_bias_sliced acc matches top true t <> compute_bias_plain acc top t.
Proof. exact unsound_oracle_changes_mask. Qed.
Print Assumptions C10_unsound_containment_breaks_it.
