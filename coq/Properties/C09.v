(* Properties/C09.v — repetition counts are exact.
   REPEAT_K is regenerated from parser/src/grammar_builder.rs on every run; the
   theorems hold for every K >= 2, the side condition is re-checked by computation. *)
From LLG Require Import Base Params Regex RegexProofs Repeat RepeatProofs ObjCount ObjCountProofs.
Local Open Scope nat_scope.

Lemma K_ok : 2 <= N.to_nat REPEAT_K.
Proof. vm_compute. repeat constructor. Qed.

(* x{lo,hi} on a rule admits exactly the counts lo..hi of the element *)
Theorem C09_rule_repetition_bounded : forall lo hi k,
  lo <= hi -> (counts (grepeat (N.to_nat REPEAT_K) GElt lo (Some hi)) k <-> lo <= k <= hi).
Proof. exact (grepeat_elt_counts (N.to_nat REPEAT_K) K_ok). Qed.
Print Assumptions C09_rule_repetition_bounded.

(* x{lo,} *)
Theorem C09_rule_repetition_unbounded : forall lo k,
  counts (grepeat (N.to_nat REPEAT_K) GElt lo None) k <-> lo <= k.
Proof. exact (grepeat_elt_counts_unbounded (N.to_nat REPEAT_K) K_ok). Qed.
Print Assumptions C09_rule_repetition_unbounded.

(* as languages: the union of the powers lo..hi of the element's language, for any element language *)
Theorem C09_rule_repetition_language : forall (A : Type) (L : list A -> Prop) lo hi w,
  lo <= hi ->
  (glang L (grepeat (N.to_nat REPEAT_K) GElt lo (Some hi)) w <-> exists j, lo <= j <= hi /\ lpow L j w).
Proof. intros A L lo hi w H. exact (grepeat_lang L (N.to_nat REPEAT_K) lo hi w K_ok H). Qed.
Print Assumptions C09_rule_repetition_language.

Theorem C09_rule_repetition_language_unbounded : forall (A : Type) (L : list A -> Prop) lo w,
  glang L (grepeat (N.to_nat REPEAT_K) GElt lo None) w <-> exists j, lo <= j /\ lpow L j w.
Proof. intros A L lo w. exact (grepeat_lang_unbounded L (N.to_nat REPEAT_K) lo w K_ok). Qed.
Print Assumptions C09_rule_repetition_language_unbounded.

(* nested repetition: repeating a compound element multiplies counts block-wise *)
Theorem C09_nested_repetition : forall e lo hi k,
  lo <= hi ->
  (counts (grepeat (N.to_nat REPEAT_K) e lo (Some hi)) k <-> exists j, lo <= j <= hi /\ cpow (counts e) j k).
Proof. exact (grepeat_counts_bounded (N.to_nat REPEAT_K) K_ok). Qed.
Print Assumptions C09_nested_repetition.

(* x?, x*, x+ *)
Theorem C09_optional : forall e k, counts (goptional e) k <-> k = 0 \/ counts e k.
Proof. exact optional_counts. Qed.
Print Assumptions C09_optional.
Theorem C09_star : forall k, counts (GStar GElt) k.
Proof. exact star_elt_counts. Qed.
Print Assumptions C09_star.
Theorem C09_plus : forall k, counts (GPlus GElt) k <-> 1 <= k.
Proof. exact plus_elt_counts. Qed.
Print Assumptions C09_plus.

(* repetition inside a regex / on a terminal: the derivative matcher decides the
   denotation, whose Rep clause is "between lo and hi factors" *)
Theorem C09_regex_repetition : forall a lo hi w,
  bytes_ok w ->
  (re_match (Rep a lo hi) w = true <->
   exists n : nat, (N.to_nat lo <= n) /\
                   (match hi with Some h => n <= N.to_nat h | None => True end) /\
                   pow_lang (re_lang a) n w).
Proof. intros a lo hi w Hw. rewrite (re_match_correct (Rep a lo hi) w Hw). reflexivity. Qed.
Print Assumptions C09_regex_repetition.

(* the executable count sets used by the correspondence check decide `counts` *)
Theorem C09_count_set_decides : forall bound e k,
  k <= bound -> (cs_get (count_set bound e) k = true <-> counts e k).
Proof. exact count_set_correct. Qed.
Print Assumptions C09_count_set_decides.

(* non-vacuity: K = 4 shapes: 3..14 crosses the 3K threshold *)
Example C09_example :
  filter (cs_get (count_set 18 (grepeat (N.to_nat REPEAT_K) GElt 3 (Some 14)))) (seq 0 19)
  = [3; 4; 5; 6; 7; 8; 9; 10; 11; 12; 13; 14].
Proof. vm_compute. reflexivity. Qed.

(* min/maxProperties (and min/maxItems after prefixItems) next to r required declared members:
   the counts are reduced by r and handed to bounded_sequence for the additional members
   (coq/ObjCount.v, from schema.rs mk_object_schema and compiler.rs gen_json_object); exactly the
   sizes in range are admitted, with additionalProperties closed exactly r ... *)
Theorem C09_object_sizes_exact : forall r lo hi has_tail c,
  obj_admits r lo hi has_tail c = true <-> size_ok r lo hi has_tail c.
Proof. exact obj_admits_exact. Qed.
Print Assumptions C09_object_sizes_exact.

(* ... and the schema is rejected exactly when no size fits *)
Theorem C09_object_sizes_rejected_iff_empty : forall r lo hi has_tail,
  obj_plan r lo hi has_tail = None <-> forall c, ~ size_ok r lo hi has_tail c.
Proof. exact obj_rejected_iff_empty. Qed.
Print Assumptions C09_object_sizes_rejected_iff_empty.
