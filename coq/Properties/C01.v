(* Properties/C01.v — the token mask is exactly the set of tokens the engine accepts next.
   Engine = the imperative model of parser.rs (shared rows, virtual stack, row reuse, cache),
   proved to refine the pure byte-level engine of PureEngine.v; ROLLBACK_CLEARS_CACHE is
   regenerated from parser.rs on every run. *)
From LLG Require Import Base Params Svob SvobProofs Trie TrieProofs WalkM WalkMProofs
                        Regex RegexProofs Lexer Earley Engine PureEngine
                        EngineInv EngineWalk EngineOps EngineProofs EngineCorollaries.

Theorem C01_mask_is_per_token_test : forall cx, core_ctx cx -> c_rollback_clears_cache cx = ROLLBACK_CLEARS_CACHE ->
  forall st m st1 t w,
    settled cx st -> text_token cx t w ->
    compute_bias cx st [] = (m, st1) -> p_error st1 = false ->
    (get m t = true <-> run pframe (ppush cx) (abs_top st) w <> None).
Proof. intros cx Hcore Hcl. exact (mask_iff_run cx Hcore Hcl). Qed.
Print Assumptions C01_mask_is_per_token_test.

Theorem C01_mask_iff_commit : forall cx, core_ctx cx -> c_rollback_clears_cache cx = ROLLBACK_CLEARS_CACHE ->
  forall st m st1 t w ok st2,
    settled cx st -> text_token cx t w ->
    compute_bias cx st [] = (m, st1) -> p_error st1 = false ->
    apply_token cx st1 w = (ok, st2) -> p_error st2 = false ->
    (get m t = true <-> ok = true).
Proof. intros cx Hcore Hcl. exact (mask_iff_commit cx Hcore Hcl). Qed.
Print Assumptions C01_mask_iff_commit.

Theorem C01_mask_iff_validate : forall cx, core_ctx cx -> c_rollback_clears_cache cx = ROLLBACK_CLEARS_CACHE ->
  forall st m st1 t w n st2,
    settled cx st -> text_token cx t w ->
    decode_raw (c_trie cx) [t] = w ->
    compute_bias cx st [] = (m, st1) -> p_error st1 = false ->
    validate_tokens cx st1 [t] = (n, st2) -> p_error st2 = false ->
    (get m t = true <-> n = 1).
Proof. intros cx Hcore Hcl. exact (mask_iff_validate cx Hcore Hcl). Qed.
Print Assumptions C01_mask_iff_validate.

(* validating a sequence = the number of leading tokens the pure engine can push one after the other *)
Theorem C01_validate_is_longest_committable_prefix : forall cx, core_ctx cx -> c_rollback_clears_cache cx = ROLLBACK_CLEARS_CACHE ->
  forall st toks n st',
    reach cx st -> p_panic st = false -> p_applied st = length (p_bytes st) ->
    validate_tokens cx st toks = (n, st') -> p_error st' = false ->
    healthy st' /\ abs_stack st' = abs_stack st /\
    p_bytes st' = p_bytes st /\ p_applied st' = p_applied st /\
    n = p_validate cx (abs_stack st) toks.
Proof. intros cx Hcore Hcl. assert (H : c_rollback_clears_cache cx = true) by (rewrite Hcl; reflexivity).
       exact (validate_tokens_spec cx Hcore H). Qed.
Print Assumptions C01_validate_is_longest_committable_prefix.

(* the accepting flag (which decides EOS in the mask) is the pure engine's *)
Theorem C01_accepting_is_pure : forall cx, core_ctx cx -> c_rollback_clears_cache cx = ROLLBACK_CLEARS_CACHE ->
  forall st a st',
    reach cx st -> p_panic st = false ->
    is_accepting cx st = (a, st') -> p_error st' = false ->
    healthy st' /\ abs_stack st' = abs_stack st /\
    p_bytes st' = p_bytes st /\ p_applied st' = p_applied st /\
    a = p_accepting cx (abs_stack st).
Proof. intros cx Hcore Hcl. assert (H : c_rollback_clears_cache cx = true) by (rewrite Hcl; reflexivity).
       exact (is_accepting_spec cx Hcore H). Qed.
Print Assumptions C01_accepting_is_pure.

(* no id at or above the vocabulary, virtual stack restored *)
Theorem C01_mask_well_formed : forall cx, core_ctx cx -> c_rollback_clears_cache cx = ROLLBACK_CLEARS_CACHE ->
  forall st m st',
    reach cx st -> p_panic st = false ->
    compute_bias cx st [] = (m, st') -> p_error st' = false ->
    healthy st' /\ abs_stack st' = abs_stack st /\
    p_bytes st' = p_bytes st /\ p_applied st' = p_applied st /\
    vsize m = vocab_size (c_trie cx) /\ no_excess m /\
    (forall t, t < vocab_size (c_trie cx) -> get m t = mask_spec cx (abs_top st) t).
Proof. intros cx Hcore Hcl. assert (H : c_rollback_clears_cache cx = true) by (rewrite Hcl; reflexivity).
       exact (compute_bias_spec cx Hcore H). Qed.
Print Assumptions C01_mask_well_formed.

(* legal calls never trip one of the engine's own assertions *)
Theorem C01_no_internal_assertion : forall cx, core_ctx cx -> c_rollback_clears_cache cx = ROLLBACK_CLEARS_CACHE ->
  forall st, reach1 cx st -> p_error st = false -> p_panic st = false.
Proof. intros cx Hcore Hcl. assert (H : c_rollback_clears_cache cx = true) by (rewrite Hcl; reflexivity).
       exact (reach_no_panic cx Hcore H). Qed.
Print Assumptions C01_no_internal_assertion.
