(* Properties/C08.v — numeric bound keywords admit exactly the numbers inside the bounds *)
From LLG Require Import Base Params Regex RegexProofs Numeric NumericProofs FloatRangeProofs IntBounds IntBoundsProofs.
Open Scope Z_scope.

(* integer ranges (rx_int_range of numeric.rs): an integer literal is accepted exactly when
   its value is within the bounds; any combination of present / absent i64 bounds.
   |z| < 10^80 is the size up to which the model's digits_of renders z (fuel); i64 bounds
   are far inside it *)
Theorem C08_integer_range_exact : forall l r rx z,
  opt_ok l -> opt_ok r -> Z.abs z < 10 ^ 80 ->
  rx_int_range int_fuel l r = NOk rx ->
  (re_lang rx (int_literal z) <-> in_opt_range l r z).
Proof. exact int_range_exact. Qed.
Print Assumptions C08_integer_range_exact.

(* nothing that is not a plain integer literal is accepted (the one extra spelling is "-0") *)
Theorem C08_integer_range_only_literals : forall l r rx w,
  opt_ok l -> opt_ok r -> (length w <= 80)%nat ->
  rx_int_range int_fuel l r = NOk rx -> re_lang rx w ->
  (exists z, w = int_literal z) \/ w = [45%N; 48%N].
Proof. exact int_range_only_literals. Qed.
Print Assumptions C08_integer_range_only_literals.

(* bounds with no satisfying value are rejected at compile time, all others compile *)
Theorem C08_empty_integer_range_rejected : forall l r,
  i64_ok l -> i64_ok r -> (rx_int_range int_fuel (Some l) (Some r) = NErr <-> r < l).
Proof. exact int_range_error_iff_empty. Qed.
Print Assumptions C08_empty_integer_range_rejected.

(* the fraction comparisons the decimal ranges are assembled from: a digit string s after
   the decimal point is accepted exactly when 0.s is above / below 0.x; strings with
   trailing zeros and strings shorter or longer than the bound included *)
Theorem C08_fraction_at_least : forall x incl s,
  is_digits x -> is_digits s -> trim_zeros x = x ->
  (re_lang (lexi_x_to_9 x incl) (dstr s) <->
   (if incl then frac_le x s else frac_lt x s) /\ (incl = false -> s <> [])).
Proof. exact lexi_x_to_9_sem. Qed.
Print Assumptions C08_fraction_at_least.

Theorem C08_fraction_at_most : forall x incl rx s,
  is_digits x -> is_digits s -> trim_zeros x = x ->
  lexi_0_to_x x incl = NOk rx ->
  (re_lang rx (dstr s) <-> (if incl then frac_le s x else frac_lt s x) /\ (x <> [] -> s <> [])).
Proof. exact lexi_0_to_x_sem. Qed.
Print Assumptions C08_fraction_at_most.

(* multipleOf under allOf: the combined step is the exact least common multiple, or the
   schema is rejected; the code's variant is read from numeric.rs (LCM_CHECKED) *)
Theorem C08_multiple_of_lcm_exact : forall ca ea cb eb c e,
  0 < ca < 2 ^ 32 -> 0 < cb < 2 ^ 32 -> 0 <= ea -> 0 <= eb ->
  decimal_lcm LCM_CHECKED (ca, ea) (cb, eb) = Some (c, e) ->
  let s := Z.max ea eb in
  c * 10 ^ (s - e) = Z.lcm (ca * 10 ^ (s - ea)) (cb * 10 ^ (s - eb)) /\ 0 <= e <= s.
Proof. exact lcm_checked_exact. Qed.
Print Assumptions C08_multiple_of_lcm_exact.

(* multipleOf as matched (derivre's u32 remainder arithmetic): for every value the compile-time
   guard lets through — variant read from json/compiler.rs — an unsigned integer literal is
   accepted exactly when the value divides it *)
Theorem C08_multiple_of_exact : forall c ds,
  multiple_of_compiles MULTIPLE_OF_GUARD c 0 = true -> 0 <= c -> is_digits ds -> ds <> [] ->
  (multiple_of_accepts_int c ds = true <-> (c | val_digits ds 0)).
Proof. exact multiple_of_guarded_exact. Qed.
Print Assumptions C08_multiple_of_exact.

(* decimal (number) ranges: every combination of present / absent, inclusive / exclusive bounds
   (as float_to_str prints them: canonical integer part below 10^18, fraction without trailing
   zeros); a plain decimal literal — optional minus, canonical integer part, optional fraction
   with any number of digits, no exponent, negative zero excluded — is accepted exactly when
   its value is inside the bounds *)
Theorem C08_decimal_range_exact : forall l r li ri rx p,
  obound_ok l -> obound_ok r -> plain_ok p ->
  rx_float_range float_fuel l r li ri = NOk rx ->
  (re_lang rx (plain_bytes p) <-> in_float_range l r li ri (plain_dec p)).
Proof. exact float_range_exact. Qed.
Print Assumptions C08_decimal_range_exact.

(* combinations with no satisfying value are rejected when compiled, all others compile *)
Theorem C08_empty_decimal_range_rejected : forall l r li ri,
  bound_ok l -> bound_ok r ->
  (rx_float_range float_fuel (Some l) (Some r) li ri = NErr <->
   (dec_lt r l = true \/ (dec_eq l r = true /\ (li && ri) = false))).
Proof. exact float_range_error_iff_empty. Qed.
Print Assumptions C08_empty_decimal_range_rejected.

(* integer schemas with fractional and / or exclusive bounds (normalize_integer_bounds rounds them
   to the inclusive integer bounds rx_int_range is called with): an integer literal is accepted
   exactly when its value lies inside the bounds as written; bound_fits: the rounded bound fits the
   i64 the code converts to *)
Theorem C08_integer_schema_decimal_bounds_exact : forall lo hi rx z,
  bound_digits lo -> bound_digits hi -> bound_fits lo -> bound_fits hi -> Z.abs z < 10 ^ 80 ->
  rx_int_bounds lo hi = NOk rx ->
  (re_lang rx (int_literal z) <-> in_dec_bounds lo hi z).
Proof. exact int_bounds_exact. Qed.
Print Assumptions C08_integer_schema_decimal_bounds_exact.

(* ... and such a schema is rejected at compile time exactly when no integer lies inside *)
Theorem C08_integer_schema_no_integer_rejected : forall l r el er,
  dec_digits l -> dec_digits r -> bound_fits (Some (l, el)) -> bound_fits (Some (r, er)) ->
  (rx_int_bounds (Some (l, el)) (Some (r, er)) = NErr <->
   forall z, ~ in_dec_bounds (Some (l, el)) (Some (r, er)) z).
Proof. exact int_bounds_error_iff_empty. Qed.
Print Assumptions C08_integer_schema_no_integer_rejected.
