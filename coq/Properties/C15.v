(* Properties/C15.v — grammar optimisation preserves the language *)
From LLG Require Import Base Optimize OptimizeProofs.
Local Open Scope nat_scope.

(* the optimisation as applied (Grammar::optimize = two passes of expand_shortcuts): every special
   symbol — the start symbol, captures, token limits, sub-grammar boundaries — derives exactly the
   same sequences of terminals before and after *)
Theorem C15_optimize_preserves_language : forall g term s w,
  owf g term -> s < length g -> o_special (osym_at g s) = true ->
  (oderives (optimize g) term s w <-> oderives g term s w).
Proof. exact optimize_preserves. Qed.
Print Assumptions C15_optimize_preserves_language.

Theorem C15_one_pass_preserves_every_kept_symbol : forall g term s w,
  owf g term -> s < length g -> kept g s ->
  (oderives (expand_shortcuts g) term s w <-> oderives g term s w).
Proof. exact expand_preserves. Qed.
Print Assumptions C15_one_pass_preserves_every_kept_symbol.

Theorem C15_special_symbols_are_kept : forall g i,
  i < length g -> o_special (osym_at g i) = true -> kept g i /\
  o_special (osym_at (expand_shortcuts g) i) = true.
Proof. exact special_kept. Qed.
Print Assumptions C15_special_symbols_are_kept.

Theorem C15_output_well_formed : forall g term, owf g term -> owf (expand_shortcuts g) term.
Proof. exact expand_wf. Qed.
Print Assumptions C15_output_well_formed.
