(* Properties/C02.v — acceptance depends on the bytes, not on the token split *)
From LLG Require Import Base Params Svob SvobProofs Trie TrieProofs WalkM WalkMProofs
                        Regex RegexProofs Lexer Earley Engine PureEngine
                        EngineInv EngineWalk EngineOps EngineProofs EngineCorollaries.

Theorem C02_commit_split_irrelevant : forall cx, core_ctx cx -> c_rollback_clears_cache cx = ROLLBACK_CLEARS_CACHE ->
  forall st w1 w2 st1 st2 st12,
    settled cx st ->
    apply_token cx st w1 = (true, st1) -> p_error st1 = false ->
    apply_token cx st1 w2 = (true, st2) -> p_error st2 = false ->
    apply_token cx st (w1 ++ w2) = (true, st12) -> p_error st12 = false ->
    abs_stack st12 = abs_stack st2 /\ p_bytes st12 = p_bytes st2.
Proof. intros cx Hcore Hcl. exact (commit_split_irrelevant cx Hcore Hcl). Qed.
Print Assumptions C02_commit_split_irrelevant.

Theorem C02_multibyte_iff_bytewise : forall cx, core_ctx cx -> c_rollback_clears_cache cx = ROLLBACK_CLEARS_CACHE ->
  forall st w,
    settled cx st ->
    (run pframe (ppush cx) (abs_top st) w <> None <->
     exists frames, length frames = length w /\
       (fix chain (f : pframe) (w : bytes) (fs : list pframe) : Prop :=
          match w, fs with
          | [], [] => True
          | b :: w', f' :: fs' => ppush cx f b = Some f' /\ chain f' w' fs'
          | _, _ => False
          end) (abs_top st) w frames).
Proof. intros cx Hcore Hcl. exact (multibyte_iff_bytewise cx). Qed.
Print Assumptions C02_multibyte_iff_bytewise.

Theorem C02_run_concatenation : forall cx, core_ctx cx -> c_rollback_clears_cache cx = ROLLBACK_CLEARS_CACHE ->
  forall (f : pframe) w1 w2,
    run pframe (ppush cx) f (w1 ++ w2) =
    match run pframe (ppush cx) f w1 with Some f' => run pframe (ppush cx) f' w2 | None => None end.
Proof. intros cx Hcore Hcl. exact (run_app cx). Qed.
Print Assumptions C02_run_concatenation.

Theorem C02_allowed_iff_bytes_accepted : forall cx, core_ctx cx -> c_rollback_clears_cache cx = ROLLBACK_CLEARS_CACHE ->
  forall st m st1 t w,
    settled cx st -> text_token cx t w ->
    compute_bias cx st [] = (m, st1) -> p_error st1 = false ->
    (get m t = true <-> run pframe (ppush cx) (abs_top st) w <> None).
Proof. intros cx Hcore Hcl. exact (mask_iff_run cx Hcore Hcl). Qed.
Print Assumptions C02_allowed_iff_bytes_accepted.

