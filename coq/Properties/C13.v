(* Properties/C13.v — fast-forward bytes are genuinely forced and change nothing. *)
From LLG Require Import Base Params Svob SvobProofs Trie TrieProofs WalkM WalkMProofs
                        Regex RegexProofs Lexer Earley Engine PureEngine
                        EngineInv EngineWalk EngineOps EngineProofs EngineCorollaries ForcedProofs.

Theorem C13_forced_byte_is_the_only_byte : forall cx,
  core_ctx cx -> c_rollback_clears_cache cx = ROLLBACK_CLEARS_CACHE ->
  forall st b st',
    settled cx st -> forced_byte cx st = (Some b, st') -> p_error st' = false ->
    only_byte cx (abs_top st) b /\ p_accepting cx (abs_stack st) = false /\
    abs_stack st' = abs_stack st /\ p_bytes st' = p_bytes st.
Proof. intros cx Hcore Hcl. exact (forced_byte_unique cx Hcore Hcl). Qed.
Print Assumptions C13_forced_byte_is_the_only_byte.

Theorem C13_no_forced_byte_means_choice_or_accepting : forall cx,
  core_ctx cx -> c_rollback_clears_cache cx = ROLLBACK_CLEARS_CACHE ->
  forall st st',
    settled cx st -> forced_byte cx st = (None, st') -> p_error st' = false ->
    p_accepting cx (abs_stack st) = true \/ ~ (exists b, only_byte cx (abs_top st) b).
Proof. intros cx Hcore Hcl. exact (forced_byte_none cx Hcore Hcl). Qed.
Print Assumptions C13_no_forced_byte_means_choice_or_accepting.

(* every byte force_bytes appends is the only byte allowed at its position; committing them is
   running the pure engine over them *)
Theorem C13_force_bytes_all_forced : forall cx,
  core_ctx cx -> c_rollback_clears_cache cx = ROLLBACK_CLEARS_CACHE ->
  forall st,
    settled cx st -> p_error (force_bytes cx st) = false ->
    exists forced,
      p_bytes (force_bytes cx st) = p_bytes st ++ forced /\
      p_applied (force_bytes cx st) = p_applied st /\
      p_panic (force_bytes cx st) = false /\
      run pframe (ppush cx) (abs_top st) forced = Some (abs_top (force_bytes cx st)) /\
      (forall u b v f, forced = u ++ b :: v ->
         run pframe (ppush cx) (abs_top st) u = Some f -> only_byte cx f b).
Proof. intros cx Hcore Hcl. exact (force_bytes_all_forced cx Hcore Hcl). Qed.
Print Assumptions C13_force_bytes_all_forced.

(* committing the forced bytes leaves the same set of reachable outputs: every byte string the
   engine accepts from the state agrees with the forced bytes on their common length *)
Theorem C13_forcing_loses_no_output : forall cx st forced w,
  (forall u b v f, forced = u ++ b :: v ->
     run pframe (ppush cx) (abs_top st) u = Some f -> only_byte cx f b) ->
  Forall (fun c => c < 256) w ->
  run pframe (ppush cx) (abs_top st) w <> None ->
  is_prefix forced w = true \/ is_prefix w forced = true.
Proof. intros cx. exact (forced_preserves_completions cx). Qed.
Print Assumptions C13_forcing_loses_no_output.
