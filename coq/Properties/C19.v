(* Properties/C19.v — special tokens only where the grammar names them: the set a negated
   token-range reference denotes. *)
From LLG Require Import Base Params Regex RegexProofs Special SpecialProofs.

Theorem C19_negated_ranges_are_the_complement : forall vocab rs neg t,
  negated_ranges vocab rs = Some neg ->
  (in_ranges neg t = true <-> t < vocab /\ in_ranges rs t = false).
Proof. exact negated_ranges_spec. Qed.
Print Assumptions C19_negated_ranges_are_the_complement.

Theorem C19_negated_ranges_inside_vocabulary : forall vocab rs neg,
  negated_ranges vocab rs = Some neg -> Forall (fun '(a, b) => a <= b /\ b < vocab) neg.
Proof. exact negated_ranges_wf. Qed.
Print Assumptions C19_negated_ranges_inside_vocabulary.

(* text positions written with the complement operator: with the variant read from
   lark/compiler.rs no word containing the marker byte — so no special token, whatever its name —
   is in the language of the compiled terminal; on ordinary text it is the plain complement *)
Theorem C19_complement_never_matches_marker : forall r w,
  re_lang (lark_not LARK_NOT_EXCLUDES_MARKER r) w -> ~ In 255 w.
Proof. exact lark_not_never_matches_marker. Qed.
Print Assumptions C19_complement_never_matches_marker.

Theorem C19_complement_on_text : forall r w, bytes_ok w -> ~ In 255 w ->
  (re_lang (lark_not LARK_NOT_EXCLUDES_MARKER r) w <-> ~ re_lang r w).
Proof. exact lark_not_is_complement_on_text. Qed.
Print Assumptions C19_complement_on_text.

(* the bare complement (the pinned code before 76c360c) contains every special token *)
Theorem C19_unguarded_complement_refuted : exists r w, re_lang (lark_not false r) (255 :: w).
Proof. exact lark_not_unguarded_refuted. Qed.
Print Assumptions C19_unguarded_complement_refuted.
