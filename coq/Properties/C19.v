(* Properties/C19.v — special tokens only where the grammar names them: the set a negated
   token-range reference denotes. *)
From LLG Require Import Base Special SpecialProofs.

Theorem C19_negated_ranges_are_the_complement : forall vocab rs neg t,
  negated_ranges vocab rs = Some neg ->
  (in_ranges neg t = true <-> t < vocab /\ in_ranges rs t = false).
Proof. exact negated_ranges_spec. Qed.
Print Assumptions C19_negated_ranges_are_the_complement.

Theorem C19_negated_ranges_inside_vocabulary : forall vocab rs neg,
  negated_ranges vocab rs = Some neg -> Forall (fun '(a, b) => a <= b /\ b < vocab) neg.
Proof. exact negated_ranges_wf. Qed.
Print Assumptions C19_negated_ranges_inside_vocabulary.
