(* Properties/C04.v — a regular-expression constraint admits exactly the regex's
   language.  The regex theory the engine relies on (derivative = left quotient,
   nullability, normalisation, emptiness) against the denotation re_lang; byte
   level throughout, so a token may end inside a UTF-8 character. *)
From LLG Require Import Base Regex RegexProofs Substring SubstringProofs.

(* complete strings: the derivative matcher decides the denotation *)
Theorem C04_match_iff_language : forall r w, bytes_ok w -> (re_match r w = true <-> re_lang r w).
Proof. exact re_match_correct. Qed.
Print Assumptions C04_match_iff_language.

(* the state after the bytes u denotes exactly the strings that complete u *)
Theorem C04_residual_is_left_quotient : forall u r w,
  bytes_ok u -> (re_lang (deriv_word r u) w <-> re_lang r (u ++ w)).
Proof. exact deriv_word_correct. Qed.
Print Assumptions C04_residual_is_left_quotient.

Theorem C04_derivative_step : forall r c w, c < 256 -> (re_lang (deriv r c) w <-> re_lang r (c :: w)).
Proof. exact deriv_correct. Qed.
Print Assumptions C04_derivative_step.

(* |, concatenation, repetition, & and ~ of Lark terminals: normalisation keeps the language *)
Theorem C04_normalisation_preserves_language : forall r w, re_lang (normalize r) w <-> re_lang r w.
Proof. exact normalize_lang. Qed.
Print Assumptions C04_normalisation_preserves_language.

Theorem C04_nullable_iff_empty_string : forall r, nullable r = true <-> re_lang r [].
Proof. exact nullable_correct. Qed.
Print Assumptions C04_nullable_iff_empty_string.

(* a token is allowed only if some completion exists: a residual the emptiness
   check calls non-empty has a witness; And/Not-free residuals are decided exactly *)
Theorem C04_nonempty_has_witness : forall fuel r,
  nonempty_fuel fuel r = Some true -> exists w, re_lang r w.
Proof. exact nonempty_fuel_true. Qed.
Print Assumptions C04_nonempty_has_witness.

Theorem C04_nonempty_exact_without_and_not : forall r,
  has_and_not r = false -> (nonempty_simple r = true <-> exists w, re_lang r w).
Proof. exact nonempty_simple_correct. Qed.
Print Assumptions C04_nonempty_exact_without_and_not.

(* forced end of a lexeme: only the empty string remains *)
Theorem C04_forced_end : forall r w, forced_eoi r = true -> (re_lang r w <-> w = []).
Proof. exact forced_eoi_sound. Qed.
Print Assumptions C04_forced_end.

Theorem C04_literal : forall u w, bytes_ok u -> (re_lang (lit u) w <-> w = u).
Proof. exact lit_lang. Qed.
Print Assumptions C04_literal.

(* non-vacuity: (ab|c){1,2} & ~abab on a few strings *)
Example C04_example :
  let ab := lit [97; 98] in
  let r := And (Rep (Alt ab (Bytes (bset_single 99))) 1 (Some 2)) (Not (Cat ab ab)) in
  map (re_match r) [[97;98]; [97;98;97;98]; [97;98;99]; [99]; []] = [true; false; true; true; false].
Proof. vm_compute. reflexivity. Qed.

(* %regex substring: exactly the contiguous runs of chunks of the source (the empty run included) *)
Theorem C04_substring : forall chunks w, Forall bytes_ok chunks ->
  (re_lang (substring_rx chunks) w <-> chunk_run chunks w).
Proof. exact substring_lang. Qed.
Print Assumptions C04_substring.

Theorem C04_substring_chars : forall (s : bytes) w, bytes_ok s ->
  (re_lang (substring_rx (map (fun b => [b]) s)) w <-> exists u v, s = u ++ w ++ v).
Proof. exact substring_chars_lang. Qed.
Print Assumptions C04_substring_chars.
