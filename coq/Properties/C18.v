(* Properties/C18.v — stop, end-of-sequence and accepting status are mutually consistent *)
From LLG Require Import Base Regex RegexProofs Trie StopCtrl StopCtrlProofs StopRunProofs
                        Svob WalkM Lexer Earley Engine PureEngine TokParser MatcherProofs TokParserProofs.

(* ---- the stop-sequence controller ---- *)
(* returns nothing once stopped *)
Theorem C18_silent_after_stop : forall tr stop_tokens S st ts,
  sc_stopped st = true -> Forall (fun o => o = []) (sc_run tr stop_tokens S st ts).
Proof. exact silent_after_stop. Qed.
Print Assumptions C18_silent_after_stop.

Theorem C18_stopped_is_sticky : forall tr stop_tokens S st t,
  sc_stopped st = true -> sc_stopped (snd (sc_commit tr stop_tokens S st t)) = true.
Proof. exact stopped_is_sticky. Qed.
Print Assumptions C18_stopped_is_sticky.

(* while running nothing is lost or invented: returned text + held-back text = decoded text *)
Theorem C18_output_plus_pending_is_text : forall tr stop_tokens S ts st o st',
  sc_stopped st = false ->
  (o, st') = (concat (sc_run tr stop_tokens S st ts),
              fold_left (fun s t => snd (sc_commit tr stop_tokens S s t)) ts st) ->
  sc_stopped st' = false ->
  o ++ sc_pending st' = sc_pending st ++ concat (map (tok_text tr) ts).
Proof. exact output_plus_pending_is_text. Qed.
Print Assumptions C18_output_plus_pending_is_text.

(* a stop token ends the run with exactly the text before it *)
Theorem C18_stop_token_cut : forall tr stop_tokens S st t,
  sc_stopped st = false -> existsb (N.eqb t) stop_tokens = true ->
  sc_commit tr stop_tokens S st t = (sc_pending st, mk_sc true (sc_partials st) []).
Proof. exact stop_token_cut. Qed.
Print Assumptions C18_stop_token_cut.

(* stop strings / regex: the set of live partial matches is exact, so a match is reported
   exactly when some non-empty suffix of the text matches *)
Theorem C18_partials_step : forall S seg ps b,
  b < 256 -> partials_live S seg ps -> partials_live S (seg ++ [b]) (step_partials S ps b).
Proof. exact step_partials_live. Qed.
Print Assumptions C18_partials_step.

Theorem C18_reported_match_is_a_match : forall S seg ps n,
  bytes_ok seg -> partials_live S seg ps -> completed ps = Some n ->
  ends_with_match S seg n /\ (0 < n)%nat.
Proof. exact completed_sound_live. Qed.
Print Assumptions C18_reported_match_is_a_match.

Theorem C18_no_match_missed : forall S seg ps n,
  bytes_ok seg -> partials_live S seg ps -> ends_with_match S seg n -> (0 < n)%nat ->
  exists m, completed ps = Some m.
Proof. exact completed_complete_live. Qed.
Print Assumptions C18_no_match_missed.

(* never splits a UTF-8 character: the cut is inside the data and keeps complete ASCII whole *)
Theorem C18_utf8_cut_bounds : forall data,
  (valid_utf8_len data <= length data)%nat /\
  (Forall (fun b => b < 128) data -> valid_utf8_len data = length data).
Proof. exact valid_utf8_len_bounds. Qed.
Print Assumptions C18_utf8_cut_bounds.

(* ---- the whole run ---- *)
(* a match completes: the text returned over the whole run is exactly the decoded text before the
   first match to complete (the shortest one ending at that byte is removed), and the controller
   is stopped *)
Theorem C18_run_stops_at_first_match : forall tr S ts p n,
  Forall (ordinary tr) ts ->
  let text := concat (map (token tr) ts) in
  match_ends_at S text p n ->
  (forall p' n', match_ends_at S text p' n' -> (p <= p')%nat) ->
  (forall n', match_ends_at S text p n' -> (n <= n')%nat) ->
  concat (sc_run tr [] (Some S) sc_init ts) = firstn (p - n) text /\
  sc_stopped (final_state tr S ts) = true.
Proof. exact run_stops_at_first_match. Qed.
Print Assumptions C18_run_stops_at_first_match.

(* no match completes: not stopped, nothing lost *)
Theorem C18_run_without_match : forall tr S ts,
  Forall (ordinary tr) ts ->
  let text := concat (map (token tr) ts) in
  (forall p n, ~ match_ends_at S text p n) ->
  sc_stopped (final_state tr S ts) = false /\
  concat (sc_run tr [] (Some S) sc_init ts) ++ sc_pending (final_state tr S ts) = text.
Proof. exact run_without_match. Qed.
Print Assumptions C18_run_without_match.

(* every returned piece is cut by the UTF-8 rule *)
Theorem C18_returned_piece_is_utf8_cut : forall tr S st t o st',
  sc_stopped st = false -> ordinary tr t ->
  sc_commit tr [] (Some S) st t = (o, st') -> sc_stopped st' = false ->
  exists avail, o = firstn (valid_utf8_len avail) (sc_pending st ++ token tr t) /\
                (exists k, avail = firstn k (sc_pending st ++ token tr t)).
Proof. exact returned_piece_is_utf8_cut. Qed.
Print Assumptions C18_returned_piece_is_utf8_cut.

(* ---- the matcher interface: invalid calls fail loudly and permanently ---- *)
Theorem C18_failed_matcher_is_sticky : forall cx t, t_panicked t = true ->
  (forall tok, m_consume_token cx t tok = (TErr, t)) /\
  m_compute_mask cx t = (TErr, t) /\
  m_compute_mask_or_eos cx t = (TErr, t) /\
  (forall toks, m_validate cx t toks = (TErr, t)) /\
  (forall n, m_rollback cx t n = (TErr, t)) /\
  m_reset cx t = (TErr, t) /\
  m_is_accepting cx t = (TErr, t) /\
  m_ff_bytes cx t = ([], t) /\
  m_ff_tokens cx t = ([], t) /\
  m_invalidate_cache t = t /\
  m_is_stopped t = true /\ m_stop_reason t = InternalError.
Proof. exact failed_matcher_is_sticky. Qed.
Print Assumptions C18_failed_matcher_is_sticky.

Theorem C18_every_error_fails_the_matcher : forall cx t,
  (forall tok t', m_consume_token cx t tok = (TErr, t') -> t_panicked t' = true) /\
  (forall t', m_compute_mask cx t = (TErr, t') -> t_panicked t' = true) /\
  (forall t', m_compute_mask_or_eos cx t = (TErr, t') -> t_panicked t' = true) /\
  (forall toks t', m_validate cx t toks = (TErr, t') -> t_panicked t' = true) /\
  (forall n t', m_rollback cx t n = (TErr, t') -> t_panicked t' = true) /\
  (forall t', m_is_accepting cx t = (TErr, t') -> t_panicked t' = true).
Proof. exact matcher_error_fails. Qed.
Print Assumptions C18_every_error_fails_the_matcher.

Theorem C18_out_of_range_token_refused : forall cx t tok,
  vocab_size (c_trie cx) <= tok -> fst (tp_apply_token cx t tok) = TErr.
Proof. exact out_of_range_token_refused. Qed.
Print Assumptions C18_out_of_range_token_refused.

(* ---- at and after a stop ---- *)
(* after a stop no further token is accepted *)
Theorem C18_stopped_refuses_commit : forall cx t tok,
  stopped t = true -> t_panicked t = false ->
  exists t', m_consume_token cx t tok = (TErr, t') /\ t_panicked t' = true.
Proof. exact stopped_refuses_commit. Qed.
Print Assumptions C18_stopped_refuses_commit.

(* asking for a mask is an error ... *)
Theorem C18_stopped_refuses_mask : forall cx t,
  stopped t = true -> t_panicked t = false ->
  exists t', m_compute_mask cx t = (TErr, t') /\ t_panicked t' = true.
Proof. exact stopped_refuses_mask. Qed.
Print Assumptions C18_stopped_refuses_mask.

(* ... or, through compute_mask_or_eos, yields exactly the end-of-sequence tokens *)
Theorem C18_stopped_mask_is_eos_only : forall cx t,
  stopped t = true -> t_panicked t = false -> p_panic (t_p t) = false ->
  exists m, m_compute_mask_or_eos cx t = (TOk m, t) /\
            forall i, i < vocab_size (c_trie cx) -> (get m i = true <-> In i (c_eos cx)).
Proof. exact stopped_mask_or_eos. Qed.
Print Assumptions C18_stopped_mask_is_eos_only.

(* a successful commit leaves the matcher stopped only if check_stop saw an accepting state *)
Theorem C18_stop_only_when_accepting : forall cx t tok u t',
  stopped t = false -> m_consume_token cx t tok = (TOk u, t') -> stopped t' = true ->
  exists a t'', tp_is_accepting cx (with_stop t' NotStopped) = (a, t'') /\ a = true.
Proof. exact stop_only_when_accepting. Qed.
Print Assumptions C18_stop_only_when_accepting.

(* validation never changes the protocol state; rolling back too far is refused for good *)
Theorem C18_validate_keeps_protocol_state : forall cx t toks r t',
  m_validate cx t toks = (TOk r, t') ->
  t_stop t' = t_stop t /\ t_tokens t' = t_tokens t /\ t_bytes t' = t_bytes t.
Proof. exact validate_keeps_protocol_state. Qed.
Print Assumptions C18_validate_keeps_protocol_state.

Theorem C18_rollback_too_far_refused : forall cx t n,
  t_panicked t = false -> (length (t_tokens t) < n)%nat ->
  exists t', m_rollback cx t n = (TErr, t') /\ t_panicked t' = true.
Proof. exact rollback_too_far_refused. Qed.
Print Assumptions C18_rollback_too_far_refused.
