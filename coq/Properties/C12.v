(* Properties/C12.v — rolling back tokens restores exactly the earlier state *)
From LLG Require Import Base Params Svob SvobProofs Trie TrieProofs WalkM WalkMProofs
                        Regex RegexProofs Lexer Earley Engine PureEngine
                        EngineInv EngineWalk EngineOps EngineProofs EngineCorollaries.

Theorem C12_rollback_restores : forall cx, core_ctx cx -> c_rollback_clears_cache cx = ROLLBACK_CLEARS_CACHE ->
  forall st w st1 st2,
    reach cx st -> p_panic st = false ->
    p_error st = false -> p_applied st = length (p_bytes st) -> p_top_eos st = false ->
    apply_token cx st w = (true, st1) -> p_error st1 = false ->
    rollback cx st1 (length w) = Some st2 ->
    healthy st2 /\ abs_stack st2 = abs_stack st /\ p_bytes st2 = p_bytes st /\
    p_applied st2 = p_applied st /\ p_top_eos st2 = false /\ p_cache st2 = None.
Proof. intros cx Hcore Hcl. assert (H : c_rollback_clears_cache cx = true) by (rewrite Hcl; reflexivity).
       exact (rollback_restores cx Hcore H). Qed.
Print Assumptions C12_rollback_restores.

(* k commits, one rollback of all their bytes *)
Theorem C12_rollback_many : forall cx, core_ctx cx -> c_rollback_clears_cache cx = ROLLBACK_CLEARS_CACHE ->
  forall ws st st1 st2,
    reach cx st -> p_panic st = false ->
    p_error st = false -> p_applied st = length (p_bytes st) -> p_top_eos st = false ->
    fold_left (fun acc w => match acc with
                            | Some s => let '(ok, s') := apply_token cx s w in
                                        if ok && negb (p_error s') then Some s' else None
                            | None => None end) ws (Some st) = Some st1 ->
    rollback cx st1 (length (concat ws)) = Some st2 ->
    healthy st2 /\ abs_stack st2 = abs_stack st /\ p_bytes st2 = p_bytes st /\
    p_applied st2 = p_applied st /\ p_top_eos st2 = false.
Proof. intros cx Hcore Hcl. assert (H : c_rollback_clears_cache cx = true) by (rewrite Hcl; reflexivity).
       exact (rollback_many cx Hcore H). Qed.
Print Assumptions C12_rollback_many.

Theorem C12_same_mask_after_rollback : forall cx, core_ctx cx -> c_rollback_clears_cache cx = ROLLBACK_CLEARS_CACHE ->
  forall st w st1 st2 m st3 m' st3',
    settled cx st -> p_top_eos st = false ->
    apply_token cx st w = (true, st1) -> p_error st1 = false ->
    rollback cx st1 (length w) = Some st2 ->
    compute_bias cx st2 [] = (m, st3) -> p_error st3 = false ->
    compute_bias cx st [] = (m', st3') -> p_error st3' = false ->
    forall t, t < vocab_size (c_trie cx) -> get m t = get m' t.
Proof. intros cx Hcore Hcl. exact (rollback_then_mask cx Hcore Hcl). Qed.
Print Assumptions C12_same_mask_after_rollback.

Theorem C12_same_accepting_after_rollback : forall cx, core_ctx cx -> c_rollback_clears_cache cx = ROLLBACK_CLEARS_CACHE ->
  forall st w st1 st2 a st3 a' st3',
    settled cx st -> p_top_eos st = false ->
    apply_token cx st w = (true, st1) -> p_error st1 = false ->
    rollback cx st1 (length w) = Some st2 ->
    is_accepting cx st2 = (a, st3) -> p_error st3 = false ->
    is_accepting cx st = (a', st3') -> p_error st3' = false ->
    a = a'.
Proof. intros cx Hcore Hcl. exact (rollback_then_accepting cx Hcore Hcl). Qed.
Print Assumptions C12_same_accepting_after_rollback.

