(* Properties/C16.v — vocabulary handling matches a naive model.
   Statements only; each closed by `exact <lemma>` with Print Assumptions. *)
From LLG Require Import Base Params Svob SvobProofs Trie TrieProofs Tokenizers TokenizersProofs.

(* The set of tokens the trie walk reports for a byte-level acceptor equals the
   set found by testing each token separately (every vocabulary: duplicates,
   empty entries, prefixes, any fan-out, any depth; every acceptor `push`;
   every recogniser stack; every initial content of the mask). *)
Theorem C16_walk_equals_per_token_test :
  forall (St : Type) (push : St -> byte -> option St) ws s stk0 toks,
    get_pre toks (lenN ws) = true ->
    exists toks',
      add_bias St push (trie_from ws) (s :: stk0) toks [] =
        Some (trie_finished St (s :: stk0), toks') /\
      vsize toks' = vsize toks /\ nwords toks' = nwords toks /\
      (forall t, t < lenN ws -> get toks' t = get toks t || bias_spec push ws s [] t) /\
      get toks' (lenN ws) = false /\
      (forall t, lenN ws < t -> get toks' t = get toks t).
Proof. exact add_bias_correct. Qed.
Print Assumptions C16_walk_equals_per_token_test.

Theorem C16_walk_restores_stack :
  forall (St : Type) (push : St -> byte -> option St) ws s stk0 toks,
    get_pre toks (lenN ws) = true ->
    exists toks' n, add_bias0 push (trie_from ws) (s :: stk0) toks = Some (s :: stk0, toks', n).
Proof. exact add_bias0_stack. Qed.
Print Assumptions C16_walk_restores_stack.

(* no mask ever contains an id at or above the vocabulary size *)
Theorem C16_no_id_at_or_above_vocab :
  forall St (push : St -> byte -> option St) ws s stk0 toks',
    add_bias St push (trie_from ws) (s :: stk0) (alloc_token_set (trie_from ws)) [] =
      Some (trie_finished St (s :: stk0), toks') ->
    no_excess toks' /\ vsize toks' = lenN ws.
Proof. exact add_bias_no_excess. Qed.
Print Assumptions C16_no_id_at_or_above_vocab.

(* the trie maps every token to its bytes and back: the builder stores every
   non-empty word under its own id and nothing else *)
Theorem C16_builder_stores_vocabulary :
  forall (ws : list bytes) w k,
    forest_has (tree_children (build_tree (sort_vocab (number ws)))) w k <->
    (nthN ws k = Some w /\ w <> []).
Proof. exact build_tree_spec. Qed.
Print Assumptions C16_builder_stores_vocabulary.

Theorem C16_node_packing_roundtrip :
  forall n, PARENT_BITS <= 24 -> node_packable PARENT_BITS n = true ->
            unpack_node PARENT_BITS (pack_node PARENT_BITS n) = n.
Proof. intros n. exact (pack_unpack PARENT_BITS n). Qed.
Print Assumptions C16_node_packing_roundtrip.

(* token-set operations behave like operations on a plain set of integers *)
Theorem C16_set_algebra_bit : forall v i b j,
  set_pre v i = true -> get (set v i b) j = if j =? i then b else get v j.
Proof. exact get_set. Qed.
Print Assumptions C16_set_algebra_bit.

Theorem C16_set_algebra_range : forall v s e j,
  svob_wf v -> allow_range_pre v s e = true ->
  get (allow_range v s e) j = get v j || ((s <=? j) && (j <=? e)).
Proof. exact get_allow_range. Qed.
Print Assumptions C16_set_algebra_range.

Theorem C16_set_algebra_negated : forall v j,
  svob_wf v -> get (negated v) j = (j <? vsize v) && negb (get v j).
Proof. exact get_negated. Qed.
Print Assumptions C16_set_algebra_negated.

Theorem C16_set_algebra_or : forall v o j,
  svob_wf v -> no_excess o -> or_pre v o = true ->
  get (vor v o) j = get v j || get o j.
Proof. exact get_vor. Qed.
Print Assumptions C16_set_algebra_or.

Theorem C16_set_algebra_and : forall v o j,
  svob_wf o -> no_excess v -> same_size_pre v o = true ->
  get (vand v o) j = get v j && get o j.
Proof. exact get_vand. Qed.
Print Assumptions C16_set_algebra_and.

Theorem C16_set_algebra_or_minus : forall v o m j,
  svob_wf v -> svob_wf m -> no_excess o -> no_excess v -> or_minus_pre v o m = true ->
  get (or_minus v o m) j = get v j || (get o j && negb (get m j)).
Proof. exact get_or_minus. Qed.
Print Assumptions C16_set_algebra_or_minus.

Theorem C16_to_list_sorted_members : forall v,
  svob_wf v -> to_list v = filter (get v) (seqN 0 (N.to_nat (vsize v))).
Proof. exact to_list_spec. Qed.
Print Assumptions C16_to_list_sorted_members.

Theorem C16_first_bit_set : forall v,
  Forall (fun w => w < 2 ^ 32) (words v) ->
  first_bit_set v = find (get v) (seqN 0 (N.to_nat (cap_bits v))).
Proof. exact first_bit_set_spec. Qed.
Print Assumptions C16_first_bit_set.

(* non-vacuity: a concrete vocabulary with duplicates, a prefix chain and an
   empty entry, walked with an acceptor that rejects some tokens *)
Example C16_walk_example :
  let ws : list bytes := [[97]; [98]; [97;98]; [97]; []; [97;98;99]; [99;100]] in
  let push := fun (s : N) (b : byte) => if (b =? 97) || (b =? 98) then Some (s + 1) else None in
  match add_bias N push (trie_from ws) [0] (alloc_token_set (trie_from ws)) [] with
  | Some (stk, v) => stk = [0] /\ to_list v = [0; 1; 2; 3] /\ get_pre (alloc_token_set (trie_from ws)) (lenN ws) = true
  | None => False
  end.
Proof. vm_compute. repeat split; reflexivity. Qed.

(* ---- vocabularies loaded from tokenizer descriptions ---- *)
(* byte-level tokenizer.json: with the self-mapped ranges read from the adapter's source the
   alphabet is a bijection between the 256 bytes and the code points of vocabulary entries *)
Fixpoint nodupb (l : list N) : bool :=
  match l with [] => true | x :: r => negb (existsb (N.eqb x) r) && nodupb r end.
Lemma nodupb_sound : forall l, nodupb l = true -> NoDup l.
Proof.
  induction l as [|x r IH]; intros H; constructor; cbn [nodupb] in H; apply andb_prop in H; destruct H as [H1 H2].
  - intros Hin. apply negb_true_iff in H1. assert (E : existsb (N.eqb x) r = true).
    { apply existsb_exists. exists x. split; [exact Hin | apply N.eqb_refl]. }
    congruence.
  - now apply IH.
Qed.
Lemma alphabet_chars_distinct : NoDup (map fst (char_map SELF_MAPPED_RANGES)).
Proof. apply nodupb_sound. vm_compute. reflexivity. Qed.

(* every byte string has a spelling, and the entry spelled so stands for exactly that string *)
Theorem C16_byte_level_entry_bytes : forall w, Forall (fun b => b < 256) w ->
  decode_byte_level SELF_MAPPED_RANGES (encode_byte_level SELF_MAPPED_RANGES w) = Some w.
Proof. exact (decode_encode SELF_MAPPED_RANGES alphabet_chars_distinct). Qed.
Print Assumptions C16_byte_level_entry_bytes.

(* the spelling is unique: two different entries never stand for the same bytes *)
Theorem C16_byte_level_spelling_unique : forall cs w,
  decode_byte_level SELF_MAPPED_RANGES cs = Some w -> cs = encode_byte_level SELF_MAPPED_RANGES w.
Proof. exact (decode_unique SELF_MAPPED_RANGES). Qed.
Print Assumptions C16_byte_level_spelling_unique.

(* byte-fallback tokenizer.json: the entry <0xNN> is the byte NN *)
Theorem C16_byte_fallback_hex : forall sp b, b < 256 -> byte_fallback_bytes sp (hex_name b) = FOk [b].
Proof. exact byte_fallback_hex. Qed.
Print Assumptions C16_byte_fallback_hex.
