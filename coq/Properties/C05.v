(* Properties/C05.v — a context-free grammar admits exactly the grammar's language:
   the single-pass Earley recogniser of the model (completion only for items
   started in earlier rows, nullable symbols advanced at prediction time) against
   derivations over lexeme sequences; empty productions, left / right / mutual
   recursion and ambiguity are all covered by the quantification over grammars. *)
From LLG Require Import Base Regex Lexer Earley EarleyAgenda EarleyProofs Params Param ParamProofs.

Theorem C05_accepts_only_derivable : forall g sp ls,
  wf_grammar g -> earley_accepts g sp ls = true -> lderives g (NT (g_start g)) ls.
Proof. exact earley_sound. Qed.
Print Assumptions C05_accepts_only_derivable.

Theorem C05_accepts_every_derivable : forall g sp ls,
  wf_grammar g -> lderives g (NT (g_start g)) ls -> earley_accepts g sp ls = true.
Proof. exact earley_complete. Qed.
Print Assumptions C05_accepts_every_derivable.

(* a lexeme is allowed next exactly when the sequence so far plus that lexeme is a
   prefix of some derivable sequence (productive grammars) *)
Theorem C05_viable_prefixes : forall g sp ls,
  wf_grammar g -> productive g ->
  ((exists rows, earley_run g (nullable_set g) sp
                   (match initial_row g (nullable_set g) with Some r0 => [r0] | None => [] end) ls = Some rows
                 /\ initial_row g (nullable_set g) <> None)
   <-> exists ls', lderives g (NT (g_start g)) (ls ++ ls')).
Proof. exact earley_viable. Qed.
Print Assumptions C05_viable_prefixes.

(* empty productions *)
Theorem C05_nullable_exact : forall g n,
  wf_grammar g -> (N.to_nat n < length (g_rules g))%nat ->
  (nth (N.to_nat n) (nullable_set g) false = true <-> lderives g (NT n) []).
Proof. exact nullable_set_correct. Qed.
Print Assumptions C05_nullable_exact.

(* the lexer is only ever started with the lexemes the grammar can continue with *)
Theorem C05_allowed_lexemes_exact : forall g nl sp ls r0 rows r lx,
  initial_row g nl = Some r0 -> earley_run g nl sp [r0] ls = Some rows -> In r rows ->
  (In lx (r_allowed r) <-> exists it, In it (r_items r) /\ after_dot g it = Some (TM lx)).
Proof. exact allowed_lexemes_exact_run. Qed.
Print Assumptions C05_allowed_lexemes_exact.

(* non-vacuity: S -> A S b | eps ; A -> a | eps  (ambiguous, nullable, recursive) *)
Example C05_example :
  let g := mk_grammar [[[NT 1; NT 0; TM 1]; []]; [[TM 0]; []]; [[NT 0]]] 2 in
  map (earley_accepts g []) [[]; [0; 1]; [1]; [0; 0; 1; 1]; [0]; [1; 0]] = [true; true; true; true; false; false].
Proof. vm_compute. reflexivity. Qed.

(* ---------- parametric rules (coq/Param.v) ---------- *)
(* incr([x:y]) is a saturating increment of its own field: the field goes up by one unless it is all
   ones; nothing below bit x or from bit y upwards changes, and the 64-bit value does not wrap *)
Theorem C05_param_incr_field : forall r p, pref_ok r -> (p < W)%N ->
  pfield r (pexpr_eval (EIncr r) p) = N.min (pfield r p + 1) (pones r).
Proof. exact incr_field. Qed.
Print Assumptions C05_param_incr_field.

Theorem C05_param_incr_other_bits : forall r p, pref_ok r -> (p < W)%N ->
  (pexpr_eval (EIncr r) p mod 2 ^ px r = p mod 2 ^ px r /\
   pexpr_eval (EIncr r) p / 2 ^ py r = p / 2 ^ py r /\
   pexpr_eval (EIncr r) p < W)%N.
Proof. exact incr_other_bits. Qed.
Print Assumptions C05_param_incr_other_bits.

Theorem C05_param_decr_field : forall r p, pref_ok r -> (p < W)%N ->
  pfield r (pexpr_eval (EDecr r) p) = (pfield r p - 1)%N.
Proof. exact decr_field. Qed.
Print Assumptions C05_param_decr_field.

Theorem C05_param_decr_other_bits : forall r p, pref_ok r -> (p < W)%N ->
  (pexpr_eval (EDecr r) p mod 2 ^ px r = p mod 2 ^ px r /\
   pexpr_eval (EDecr r) p / 2 ^ py r = p / 2 ^ py r /\
   pexpr_eval (EDecr r) p < W)%N.
Proof. exact decr_other_bits. Qed.
Print Assumptions C05_param_decr_other_bits.

(* counters kept in different bit ranges of one parameter do not disturb one another *)
Theorem C05_param_other_field_untouched : forall r r' p, pref_ok r -> pref_ok r' -> (p < W)%N ->
  (py r' <= px r \/ py r <= px r')%N ->
  pfield r' (pexpr_eval (EIncr r) p) = pfield r' p /\ pfield r' (pexpr_eval (EDecr r) p) = pfield r' p.
Proof. exact incr_decr_other_field. Qed.
Print Assumptions C05_param_other_field_untouched.

(* the disjunctive normal form by which the conditions for deriving the empty string are combined
   evaluates like the condition (or its negation) for every parameter value; the treatment of the
   constant `true` under a negation is read from earley/grammar.rs (NOT_TRUE_IS_FALSE): for the
   other variant the statement is false (ParamProofs.dnf_true_under_negation_refuted) *)
Theorem C05_param_condition_dnf_exact : forall c neg p,
  dnf_eval (dnf NOT_TRUE_IS_FALSE c neg) p = xorb neg (pcond_eval c p).
Proof. exact dnf_exact. Qed.
Print Assumptions C05_param_condition_dnf_exact.
