(* Properties/C05.v — a context-free grammar admits exactly the grammar's language:
   the single-pass Earley recogniser of the model (completion only for items
   started in earlier rows, nullable symbols advanced at prediction time) against
   derivations over lexeme sequences; empty productions, left / right / mutual
   recursion and ambiguity are all covered by the quantification over grammars. *)
From LLG Require Import Base Regex Lexer Earley EarleyAgenda EarleyProofs.

Theorem C05_accepts_only_derivable : forall g sp ls,
  wf_grammar g -> earley_accepts g sp ls = true -> lderives g (NT (g_start g)) ls.
Proof. exact earley_sound. Qed.
Print Assumptions C05_accepts_only_derivable.

Theorem C05_accepts_every_derivable : forall g sp ls,
  wf_grammar g -> lderives g (NT (g_start g)) ls -> earley_accepts g sp ls = true.
Proof. exact earley_complete. Qed.
Print Assumptions C05_accepts_every_derivable.

(* a lexeme is allowed next exactly when the sequence so far plus that lexeme is a
   prefix of some derivable sequence (productive grammars) *)
Theorem C05_viable_prefixes : forall g sp ls,
  wf_grammar g -> productive g ->
  ((exists rows, earley_run g (nullable_set g) sp
                   (match initial_row g (nullable_set g) with Some r0 => [r0] | None => [] end) ls = Some rows
                 /\ initial_row g (nullable_set g) <> None)
   <-> exists ls', lderives g (NT (g_start g)) (ls ++ ls')).
Proof. exact earley_viable. Qed.
Print Assumptions C05_viable_prefixes.

(* empty productions *)
Theorem C05_nullable_exact : forall g n,
  wf_grammar g -> (N.to_nat n < length (g_rules g))%nat ->
  (nth (N.to_nat n) (nullable_set g) false = true <-> lderives g (NT n) []).
Proof. exact nullable_set_correct. Qed.
Print Assumptions C05_nullable_exact.

(* the lexer is only ever started with the lexemes the grammar can continue with *)
Theorem C05_allowed_lexemes_exact : forall g nl sp ls r0 rows r lx,
  initial_row g nl = Some r0 -> earley_run g nl sp [r0] ls = Some rows -> In r rows ->
  (In lx (r_allowed r) <-> exists it, In it (r_items r) /\ after_dot g it = Some (TM lx)).
Proof. exact allowed_lexemes_exact_run. Qed.
Print Assumptions C05_allowed_lexemes_exact.

(* non-vacuity: S -> A S b | eps ; A -> a | eps  (ambiguous, nullable, recursive) *)
Example C05_example :
  let g := mk_grammar [[[NT 1; NT 0; TM 1]; []]; [[TM 0]; []]; [[NT 0]]] 2 in
  map (earley_accepts g []) [[]; [0; 1]; [1]; [0; 0; 1; 1]; [0]; [1; 0]] = [true; true; true; true; false; false].
Proof. vm_compute. reflexivity. Qed.
