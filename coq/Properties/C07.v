(* Properties/C07.v — every valid JSON instance in canonical form can be generated
   (modelled fragment of the schema compiler, see JsonModel.v) *)
From LLG Require Import Base Regex RegexProofs Numeric NumericProofs JsonModel JsonSeqProofs JsonProofs.
Open Scope N_scope.

(* every valid instance, serialised compactly with its object members in the order the schema
   lists them, is admitted *)
Theorem C07_every_valid_instance_is_admitted : forall s v,
  schema_ok s -> json_simple v -> valid s v -> ordered s v -> jaccept s (ser v) = true.
Proof. exact json_complete. Qed.
Print Assumptions C07_every_valid_instance_is_admitted.

Theorem C07_serialisation_is_a_spelling : forall v, json_simple v -> spells v (ser v).
Proof. exact ser_spells. Qed.
Print Assumptions C07_serialisation_is_a_spelling.

(* optional / required member sequencing with separators *)
Theorem C07_object_members_exact : forall items langs, realises items langs ->
  mlang (m_oseq items false) (fun u => exists ws, picks langs ws /\ u = join_comma ws) /\
  mlang (m_oseq items true) (fun u => exists ws, picks langs ws /\ u = pre_comma ws).
Proof. exact m_oseq_exact. Qed.
Print Assumptions C07_object_members_exact.

Theorem C07_sequence_exact : forall item A, mlang item A -> nonempty_lang A ->
  mlang (m_sequence item) (fun u => exists ws, Forall A ws /\ ws <> [] /\ u = join_comma ws).
Proof. exact m_sequence_exact. Qed.
Print Assumptions C07_sequence_exact.
