(* Run05.v — case runner for C05: complete strings judged by the independent
   CFG recogniser of CfgSpec.v *)
From Coq Require Import String.
From LLG Require Import Base Sx Regex Lexer Earley CfgSpec RunEngine.
Open Scope string_scope.
Open Scope N_scope.

Definition run_case05 (x : sx) : sx :=
  let a := tail_items x in
  let '(g, sp) := grammar_of_sx (tail_items (nth_sx a 0)) in
  tagged "ok" (map (fun s => sb (cfg_accepts g sp (as_bytes s))) (as_list (nth_sx a 1))).
