(* Run05.v — case runner for C05: complete strings judged by the independent
   CFG recogniser of CfgSpec.v *)
From Coq Require Import String.
From LLG Require Import Base Sx Regex Lexer Earley CfgSpec RunEngine Param.
Open Scope string_scope.
Open Scope N_scope.

(* ---- parametric rules: 64-bit values travel as 8 big-endian bytes ---- *)
Definition n_of_bytes (b : bytes) : N := fold_left (fun acc x => acc * 256 + x) b 0.
Fixpoint bytes_of_n (k : nat) (n : N) (acc : bytes) : bytes :=
  match k with O => acc | S k' => bytes_of_n k' (n / 256) ((n mod 256) :: acc) end.
Definition sx_u64 (n : N) : sx := SX (bytes_of_n 8 n []).

Definition pref_of (a : list sx) (i : nat) : pref := mk_pref (as_n (nth_sx a i)) (as_n (nth_sx a (S i))).
Definition op_of (x : sx) : cmp_op :=
  let is s := bytes_eqb (match x with SY n => n | _ => [] end) (sym s) in
  if is "ne" then OpNE else if is "eq" then OpEQ else if is "le" then OpLE
  else if is "lt" then OpLT else if is "ge" then OpGE else OpGT.

Definition pexpr_of_sx (x : sx) : pexpr :=
  let h := head_sym x in
  let a := tail_items x in
  let is s := bytes_eqb h (sym s) in
  if is "null" then ENull
  else if is "const" then EConst (n_of_bytes (as_bytes (nth_sx a 0)))
  else if is "incr" then EIncr (pref_of a 0)
  else if is "decr" then EDecr (pref_of a 0)
  else if is "or" then EBitOr (n_of_bytes (as_bytes (nth_sx a 0)))
  else if is "and" then EBitAnd (n_of_bytes (as_bytes (nth_sx a 0)))
  else ESelf.

Fixpoint pcond_of_sx (fuel : nat) (x : sx) : pcond :=
  match fuel with
  | O => CTrue
  | S k =>
      let h := head_sym x in
      let a := tail_items x in
      let is s := bytes_eqb h (sym s) in
      if is "cmp" then CCmp (op_of (nth_sx a 0)) (pref_of a 1) (n_of_bytes (as_bytes (nth_sx a 3)))
      else if is "bitcount" then CBitCount (op_of (nth_sx a 0)) (pref_of a 1) (as_n (nth_sx a 3))
      else if is "and" then CAnd (pcond_of_sx k (nth_sx a 0)) (pcond_of_sx k (nth_sx a 1))
      else if is "or" then COr (pcond_of_sx k (nth_sx a 0)) (pcond_of_sx k (nth_sx a 1))
      else if is "not" then CNot (pcond_of_sx k (nth_sx a 0))
      else CTrue
  end.

Definition run_case05 (x : sx) : sx :=
  if bytes_eqb (head_sym x) (sym "pexpr") then
    let a := tail_items x in
    tagged "ok" [sx_u64 (pexpr_eval (pexpr_of_sx (nth_sx a 0)) (n_of_bytes (as_bytes (nth_sx a 1))))]
  else if bytes_eqb (head_sym x) (sym "pcond") then
    let a := tail_items x in
    tagged "ok" [sb (pcond_eval (pcond_of_sx 12 (nth_sx a 0)) (n_of_bytes (as_bytes (nth_sx a 1))))]
  else
  let a := tail_items x in
  let '(g, sp) := grammar_of_sx (tail_items (nth_sx a 0)) in
  tagged "ok" (map (fun s => sb (cfg_accepts g sp (as_bytes s))) (as_list (nth_sx a 1))).
