(* PureEngine.v — the specification of the byte-level engine: a *pure* stack
   machine whose state carries its own (persistent) list of Earley rows.  No
   shared rows array, no rows_valid_end, no row reuse, no mask cache.  Engine.v
   (the imperative model of parser.rs) is proved to refine it.  Definitions only. *)
From LLG Require Import Base Svob Trie Regex Lexer Earley Engine.

Record pframe := mk_pframe {
  pf_rows : list row;          (* Earley rows 0..k, index 0 first *)
  pf_lst : lstate;
  pf_byte : option byte
}.

Definition p_advance_core (cx : ctx) (rows : list row) (pre : prelexeme) : option pframe :=
  match scan_row (c_g cx) (c_nl cx) (c_sp cx) rows (pl_idx pre) with
  | None => None
  | Some r =>
      let tb := if pl_next_row pre then pl_byte pre else None in
      let s0 := initial_state (c_sp cx) (r_allowed r) in
      let s1 := match tb with Some b => transition s0 b | None => s0 end in
      Some (mk_pframe (rows ++ [r]) s1 tb)
  end.

Definition p_advance_parser (cx : ctx) (f : pframe) (pre : prelexeme) : option pframe :=
  match p_advance_core cx (pf_rows f) pre with
  | None => None
  | Some fr =>
      if pl_next_row pre && is_dead (pf_lst fr) then None
      else
        match (match pf_byte fr with
               | Some b => check_for_single_byte_lexeme (pf_lst fr) b
               | None => None end) with
        | Some second => p_advance_core cx (pf_rows fr) second
        | None => Some fr
        end
  end.

Definition p_lex (cx : ctx) (f : pframe) (res : lexres) : option pframe :=
  match res with
  | LState s b => Some (mk_pframe (pf_rows f) s (Some b))
  | LError => None
  | LLexeme pre => p_advance_parser cx f pre
  end.

(* one byte *)
Definition ppush (cx : ctx) (f : pframe) (b : byte) : option pframe :=
  p_lex cx f (advance (c_sp cx) (pf_lst f) b).

(* the abstraction of the imperative state: one pure frame per lexer_stack entry *)
Definition abs_frame (st : pstate) (e : lframe) : pframe :=
  mk_pframe (firstn (S (f_row e)) (p_rows st)) (f_lst e) (f_byte e).
Definition abs_stack (st : pstate) : list pframe := map (abs_frame st) (p_stack st).
Definition abs_top (st : pstate) : pframe := abs_frame st (top st).

(* pending lexeme bytes of a pure stack: entries of the top row carrying a byte *)
Fixpoint p_pending_loop (stk : list pframe) (nrows : nat) : bool :=
  match stk with
  | [] => false
  | f :: stk' =>
      if negb (Nat.eqb (length (pf_rows f)) nrows) then false
      else match pf_byte f with Some _ => true | None => p_pending_loop stk' nrows end
  end.
Definition p_pending (stk : list pframe) : bool :=
  match stk with [] => false | f :: _ => p_pending_loop stk (length (pf_rows f)) end.

(* flush: end the current lexeme here *)
Definition p_flush (cx : ctx) (stk : list pframe) : option pframe :=
  match stk with
  | [] => None
  | f :: _ => if negb (p_pending stk) then Some f
              else p_lex cx f (try_lexeme_end (pf_lst f))
  end.

Definition p_accepting (cx : ctx) (stk : list pframe) : bool :=
  match p_flush cx stk with
  | Some f => row_is_accepting (c_g cx) (last (pf_rows f) dummy_row)
  | None => false
  end.

(* the mask the engine must produce in a state (core fragment: no token-range
   lexemes, no lexeme ending at EOS) *)
Definition mask_spec (cx : ctx) (f : pframe) (t : tokid) : bool :=
  bias_spec (ppush cx) (tokens (c_trie cx)) f [] t
  && negb (match c_marker_tok cx with Some m => t =? m | None => false end).
