(* WalkM.v — the trie walk (toktree.rs add_bias / add_bias_inner /
   has_valid_extensions) over a recogniser with *hidden mutable state*:
   try_push returns the new recogniser state even when the byte is rejected, pop
   only moves the stack pointer.  This is the shape of ParserRecognizer, whose
   rows array and rows_valid_end survive pops.  Definitions only. *)
From LLG Require Import Base Svob Trie.

Section WalkM.
  Variable R : Type.
  Variable try_pushM : R -> byte -> bool * R.
  Variable popM : R -> nat -> R.

  Fixpoint walkM (defl : tokid) (ns : list node) (skip : nat) (np : nat) (r : R)
           (toks : svob) (visited : N) : nat * R * svob * N :=
    match ns with
    | [] => (np, r, toks, visited)
    | n :: ns' =>
        match skip with
        | S k => walkM defl ns' k np r toks visited
        | O =>
            let r1 := popM r np in
            let '(ok, r2) := try_pushM r1 (nbyte n) in
            if ok then
              let tok := match ntok n with Some t => t | None => defl end in
              walkM defl ns' 0 (if nsub n =? 1 then N.to_nat (npar n) else 0) r2
                    (allow_token toks tok) (visited + 1)
            else
              walkM defl ns' (N.to_nat (nsub n - 1)) (N.to_nat (npar n - 1)) r2 toks (visited + 1)
        end
    end.

  Fixpoint walk_anyM (ns : list node) (skip : nat) (np : nat) (r : R) : bool * R :=
    match ns with
    | [] => (false, r)
    | n :: ns' =>
        match skip with
        | S k => walk_anyM ns' k np r
        | O =>
            let r1 := popM r np in
            let '(ok, r2) := try_pushM r1 (nbyte n) in
            if ok then
              if is_some (ntok n) then (true, r2)
              else walk_anyM ns' 0 (if nsub n =? 1 then N.to_nat (npar n) else 0) r2
            else walk_anyM ns' (N.to_nat (nsub n - 1)) (N.to_nat (npar n - 1)) r2
        end
    end.

  Variable startedM : R -> R.      (* trie_started *)
  Variable finishedM : R -> R.     (* trie_finished *)

  (* add_bias(r, toks, start) *)
  Definition add_biasM (tr : trie) (r : R) (toks : svob) (start : bytes) : R * svob :=
    let defl := vocab_size tr in
    let toks1 :=
      match start with
      | [] => toks
      | _ :: _ =>
          match add_bias0 (fixed_push start) tr [0] toks with
          | Some (_, t, _) => disallow_token t defl
          | None => toks
          end
      end in
    match child_at_bytes (nodes tr) 0 start with
    | None => (r, toks1)
    | Some off =>
        let r1 := startedM r in
        let '(np, r2, toks2, _) := walkM defl (subtree_body (nodes tr) off) 0 0 r1 toks1 0 in
        let r3 := match start with [] => popM r2 np | _ => r2 end in
        (finishedM r3, disallow_token toks2 defl)
    end.

  Definition has_valid_extensionsM (tr : trie) (r : R) (start : bytes) : bool * R :=
    match child_at_bytes (nodes tr) 0 start with
    | None => (false, r)
    | Some off =>
        let r1 := startedM r in
        let '(ok, r2) := walk_anyM (subtree_body (nodes tr) off) 0 0 r1 in
        (ok, finishedM r2)
    end.

  (* chop_tokens over the stateful recogniser *)
  Fixpoint chop_scanM (tr : trie) (r : R) (toks : list tokid) (suff : bytes) : (N * N) * R :=
    match suff with
    | [] => ((0, 0), r)
    | _ :: suff' =>
        let '(ok, r') := has_valid_extensionsM tr r suff in
        if ok then
          (match chop_count tr (rev toks) (lenN suff) 1 0 with Some p => p | None => (0, 0) end, r')
        else chop_scanM tr r' toks suff'
    end.

  Definition chop_tokensM (tr : trie) (r : R) (toks : list tokid) : (N * N) * R :=
    let suff := decode_raw tr (lastn 4 toks) in
    let suff := lastn (N.to_nat (max_token_len tr)) suff in
    chop_scanM tr r toks suff.
End WalkM.
