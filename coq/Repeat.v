(* Repeat.v — model of the repetition encodings of parser/src/grammar_builder.rs:
   optional / zero_or_more / one_or_more / simple_repeat / at_most /
   repeat_exact / at_least / repeat, with the factorisation constant K generic.
   A grammar node built over one element symbol is an expression over that
   element; its language is determined by the set of repetition counts it admits.
   Definitions only. *)
From LLG Require Import Base.
Local Open Scope nat_scope.

Inductive gexp :=
| GElt                          (* the repeated element *)
| GSeq (l : list gexp)          (* join; GSeq [] = empty *)
| GAlt (l : list gexp)          (* select *)
| GStar (e : gexp)              (* p: "" | p e *)
| GPlus (e : gexp).             (* p: e | p e *)

Definition gempty : gexp := GSeq [].

(* join: drops empty children, collapses singletons *)
Definition is_gempty (e : gexp) : bool := match e with GSeq [] => true | _ => false end.
Definition gjoin (l : list gexp) : gexp :=
  match filter (fun e => negb (is_gempty e)) l with
  | [] => gempty
  | [x] => x
  | l' => GSeq l'
  end.
Definition gselect (l : list gexp) : gexp :=
  match l with
  | [x] => x
  | _ => GAlt l
  end.
Definition goptional (e : gexp) : gexp := GAlt [gempty; e].

Definition simple_repeat (e : gexp) (n : nat) : gexp := gjoin (repeat e n).

Section K.
  Variable K : nat.

  (* repeat_exact: n > 2K: K-blocks repeated n/K times, plus n mod K single elements *)
  Fixpoint repeat_exact (fuel : nat) (e : gexp) (n : nat) : gexp :=
    match fuel with
    | O => simple_repeat e n
    | S f =>
        if Nat.ltb (2 * K) n then
          let elt_k := simple_repeat e K in
          let inner := repeat_exact f elt_k (n / K) in
          gjoin (repeat e (n mod K) ++ [inner])
        else simple_repeat e n
    end.

  (* at_most: n < 3K: choice of all fixed lengths; otherwise factor into K-blocks *)
  Fixpoint at_most (fuel : nat) (e : gexp) (n : nat) : gexp :=
    match fuel with
    | O => gselect (map (simple_repeat e) (seq 0 (S n)))
    | S f =>
        match n with
        | O => gempty
        | S O => goptional e
        | _ =>
            if Nat.ltb n (3 * K) then gselect (map (simple_repeat e) (seq 0 (S n)))
            else
              let elt_k := simple_repeat e K in
              let elt_max_nk := at_most f elt_k (n / K - 1) in
              let elt_max_k := at_most f e (K - 1) in
              let elt_max_nk := gjoin [elt_max_nk; elt_max_k] in
              let elt_nk := repeat_exact f elt_k (n / K) in
              let left := at_most f e (n mod K) in
              let elt_n := gjoin [elt_nk; left] in
              gselect [elt_n; elt_max_nk]
        end
    end.

  Definition at_least (fuel : nat) (e : gexp) (n : nat) : gexp :=
    match n with
    | O => GStar e
    | _ => gjoin [repeat_exact fuel e n; GStar e]
    end.

  (* repeat(elt, min, max); precondition of the code: min <= max *)
  Definition grepeat (e : gexp) (lo : nat) (hi : option nat) : gexp :=
    match hi with
    | None => at_least (S lo) e lo
    | Some h =>
        let fuel := S h in
        if Nat.eqb lo h then repeat_exact fuel e lo
        else if Nat.eqb lo 0 then at_most fuel e h
        else gjoin [repeat_exact fuel e lo; at_most fuel e (h - lo)]
    end.
End K.

(* ---------- semantics: which repetition counts an expression admits ---------- *)
Fixpoint counts (e : gexp) (k : nat) : Prop :=
  match e with
  | GElt => k = 1%nat
  | GSeq l =>
      (fix seqc (l : list gexp) (k : nat) : Prop :=
         match l with
         | [] => k = 0%nat
         | x :: l' => exists a b, k = (a + b)%nat /\ counts x a /\ seqc l' b
         end) l k
  | GAlt l =>
      (fix altc (l : list gexp) : Prop :=
         match l with
         | [] => False
         | x :: l' => counts x k \/ altc l'
         end) l
  | GStar x => exists parts : list nat, k = fold_right Nat.add 0%nat parts /\ Forall (counts x) parts
  | GPlus x => exists parts : list nat, parts <> [] /\ k = fold_right Nat.add 0%nat parts /\ Forall (counts x) parts
  end.

(* language of an expression over the element language L *)
Fixpoint lpow {A} (L : list A -> Prop) (n : nat) (w : list A) : Prop :=
  match n with
  | O => w = []
  | S m => exists u v, w = u ++ v /\ L u /\ lpow L m v
  end.

Fixpoint glang {A} (L : list A -> Prop) (e : gexp) (w : list A) : Prop :=
  match e with
  | GElt => L w
  | GSeq l =>
      (fix seql (l : list gexp) (w : list A) : Prop :=
         match l with
         | [] => w = []
         | x :: l' => exists u v, w = u ++ v /\ glang L x u /\ seql l' v
         end) l w
  | GAlt l =>
      (fix altl (l : list gexp) : Prop :=
         match l with
         | [] => False
         | x :: l' => glang L x w \/ altl l'
         end) l
  | GStar x => exists ws : list (list A), w = concat ws /\ Forall (glang L x) ws
  | GPlus x => exists ws : list (list A), ws <> [] /\ w = concat ws /\ Forall (glang L x) ws
  end.

(* ---------- executable count sets up to a bound (for the correspondence) ---------- *)
(* a set of counts 0..bound as a list of booleans *)
Definition cset := list bool.
Definition cs_get (s : cset) (k : nat) : bool := nth k s false.
Definition cs_single (bound k : nat) : cset := map (fun i => Nat.eqb i k) (seq 0 (S bound)).
Definition cs_union (a b : cset) : cset := map (fun '(x, y) => x || y) (combine a b).
Definition cs_conv (bound : nat) (a b : cset) : cset :=
  map (fun k => existsb (fun i => cs_get a i && cs_get b (k - i)) (seq 0 (S k))) (seq 0 (S bound)).
Fixpoint cs_iter (n : nat) (bound : nat) (x acc : cset) : cset :=
  match n with
  | O => acc
  | S m => cs_iter m bound x (cs_union acc (cs_conv bound acc x))
  end.

Fixpoint count_set (bound : nat) (e : gexp) : cset :=
  match e with
  | GElt => cs_single bound 1
  | GSeq l => fold_right (fun x acc => cs_conv bound (count_set bound x) acc) (cs_single bound 0) l
  | GAlt l => fold_right (fun x acc => cs_union (count_set bound x) acc)
                         (map (fun _ => false) (seq 0 (S bound))) l
  | GStar x => cs_iter (S bound) bound (count_set bound x) (cs_single bound 0)
  | GPlus x => let s := count_set bound x in cs_conv bound s (cs_iter (S bound) bound s (cs_single bound 0))
  end.

(* node count of the encoding (the point of the factorisation) *)
Fixpoint gsize (e : gexp) : nat :=
  match e with
  | GElt => 1
  | GSeq l => S (fold_right (fun x a => gsize x + a) 0 l)
  | GAlt l => S (fold_right (fun x a => gsize x + a) 0 l)
  | GStar x | GPlus x => S (gsize x)
  end%nat.
