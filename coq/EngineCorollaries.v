(* EngineCorollaries.v — property-level corollaries of the engine refinement:
   mask, validation and commit agree token by token; acceptance depends on the
   bytes only.  STATEMENTS MARKED (*FIXED*) MUST NOT CHANGE. *)
From LLG Require Import Base Params Svob SvobProofs Trie TrieProofs WalkM WalkMProofs
                        Regex RegexProofs Lexer Earley Engine PureEngine
                        EngineInv EngineWalk EngineOps EngineProofs.

(* an ordinary text token: non-empty, no marker byte, not EOS *)
Definition text_token (cx : ctx) (t : tokid) (w : bytes) : Prop :=
  t < vocab_size (c_trie cx) /\ nthN (tokens (c_trie cx)) t = Some w /\ w <> [] /\
  existsb (N.eqb marker) w = false /\ existsb (N.eqb t) (c_eos cx) = false /\
  (match c_marker_tok cx with Some m => t <> m | None => True end).

(* a state between two API calls: reachable, no assertion fired, no limit hit, no forced bytes pending *)
Definition settled (cx : ctx) (st : pstate) : Prop :=
  reach cx st /\ p_panic st = false /\ p_error st = false /\ p_applied st = length (p_bytes st).

Section Corollaries.
  Variable cx : ctx.
  Hypothesis Hcore : core_ctx cx.
  Hypothesis Hclears : c_rollback_clears_cache cx = ROLLBACK_CLEARS_CACHE.

  (*FIXED*) (* the pure engine runs a concatenation byte by byte *)
  Lemma run_app : forall (f : pframe) w1 w2,
    run pframe (ppush cx) f (w1 ++ w2) =
    match run pframe (ppush cx) f w1 with Some f' => run pframe (ppush cx) f' w2 | None => None end.
  Proof. Admitted.

  (*FIXED*) (* C01: a token is in the mask exactly when the pure engine accepts its bytes *)
  Theorem mask_iff_run : forall st m st1 t w,
    settled cx st -> text_token cx t w ->
    compute_bias cx st [] = (m, st1) -> p_error st1 = false ->
    (get m t = true <-> run pframe (ppush cx) (abs_top st) w <> None).
  Proof. Admitted.

  (*FIXED*) (* C01: ... exactly when committing it succeeds (in the state the mask computation leaves) *)
  Theorem mask_iff_commit : forall st m st1 t w ok st2,
    settled cx st -> text_token cx t w ->
    compute_bias cx st [] = (m, st1) -> p_error st1 = false ->
    apply_token cx st1 w = (ok, st2) -> p_error st2 = false ->
    (get m t = true <-> ok = true).
  Proof. Admitted.

  (*FIXED*) (* C01: ... exactly when validating it alone returns 1 *)
  Theorem mask_iff_validate : forall st m st1 t w n st2,
    settled cx st -> text_token cx t w ->
    decode_raw (c_trie cx) [t] = w ->
    compute_bias cx st [] = (m, st1) -> p_error st1 = false ->
    validate_tokens cx st1 [t] = (n, st2) -> p_error st2 = false ->
    (get m t = true <-> n = 1).
  Proof. Admitted.

  (*FIXED*) (* the mask computation leaves a settled state with the same pure stack *)
  Theorem mask_keeps_state : forall st m st1,
    settled cx st -> compute_bias cx st [] = (m, st1) -> p_error st1 = false ->
    settled cx st1 /\ abs_stack st1 = abs_stack st.
  Proof. Admitted.

  (*FIXED*) (* C02: a multi-byte token is allowed exactly when its bytes, fed one at a time,
     are accepted at every step *)
  Theorem multibyte_iff_bytewise : forall st w,
    settled cx st ->
    (run pframe (ppush cx) (abs_top st) w <> None <->
     exists frames, length frames = length w /\
       (fix chain (f : pframe) (w : bytes) (fs : list pframe) : Prop :=
          match w, fs with
          | [], [] => True
          | b :: w', f' :: fs' => ppush cx f b = Some f' /\ chain f' w' fs'
          | _, _ => False
          end) (abs_top st) w frames).
  Proof. Admitted.

  (*FIXED*) (* C02: two commits equal one commit of the concatenated bytes *)
  Theorem commit_split_irrelevant : forall st w1 w2 st1 st2 st12,
    settled cx st ->
    apply_token cx st w1 = (true, st1) -> p_error st1 = false ->
    apply_token cx st1 w2 = (true, st2) -> p_error st2 = false ->
    apply_token cx st (w1 ++ w2) = (true, st12) -> p_error st12 = false ->
    abs_stack st12 = abs_stack st2 /\ p_bytes st12 = p_bytes st2.
  Proof. Admitted.

  (*FIXED*) (* C11: same mask with and without the cache *)
  Theorem mask_cache_independent : forall st m1 st1 m2 st2,
    reach cx st ->
    compute_bias cx st [] = (m1, st1) -> p_error st1 = false ->
    compute_bias cx (set_cache st None) [] = (m2, st2) -> p_error st2 = false ->
    forall t, t < vocab_size (c_trie cx) -> get m1 t = get m2 t.
  Proof. Admitted.

  (*FIXED*) (* C11: computing the mask twice gives the same mask *)
  Theorem mask_twice : forall st m1 st1 m2 st2,
    settled cx st ->
    compute_bias cx st [] = (m1, st1) -> p_error st1 = false ->
    compute_bias cx st1 [] = (m2, st2) -> p_error st2 = false ->
    forall t, t < vocab_size (c_trie cx) -> get m1 t = get m2 t.
  Proof. Admitted.

  (*FIXED*) (* C11: read-only queries (validation, accepting) leave no trace in a later mask *)
  Theorem queries_leave_no_trace : forall st toks n st1 a st2 m st3 m' st3',
    settled cx st ->
    validate_tokens cx st toks = (n, st1) -> p_error st1 = false ->
    is_accepting cx st1 = (a, st2) -> p_error st2 = false ->
    compute_bias cx st2 [] = (m, st3) -> p_error st3 = false ->
    compute_bias cx st [] = (m', st3') -> p_error st3' = false ->
    forall t, t < vocab_size (c_trie cx) -> get m t = get m' t.
  Proof. Admitted.

  (*FIXED*) (* C12: commit then rollback: same pure stack, same bytes, hence the same mask *)
  Theorem rollback_then_mask : forall st w st1 st2 m st3 m' st3',
    settled cx st -> p_top_eos st = false ->
    apply_token cx st w = (true, st1) -> p_error st1 = false ->
    rollback cx st1 (length w) = Some st2 ->
    compute_bias cx st2 [] = (m, st3) -> p_error st3 = false ->
    compute_bias cx st [] = (m', st3') -> p_error st3' = false ->
    forall t, t < vocab_size (c_trie cx) -> get m t = get m' t.
  Proof. Admitted.

  (*FIXED*) (* C12: ... and the same accepting flag *)
  Theorem rollback_then_accepting : forall st w st1 st2 a st3 a' st3',
    settled cx st -> p_top_eos st = false ->
    apply_token cx st w = (true, st1) -> p_error st1 = false ->
    rollback cx st1 (length w) = Some st2 ->
    is_accepting cx st2 = (a, st3) -> p_error st3 = false ->
    is_accepting cx st = (a', st3') -> p_error st3' = false ->
    a = a'.
  Proof. Admitted.
End Corollaries.
