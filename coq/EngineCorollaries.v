(* EngineCorollaries.v — property-level corollaries of the engine refinement:
   mask, validation and commit agree token by token; acceptance depends on the
   bytes only.  STATEMENTS MARKED (*FIXED*) MUST NOT CHANGE. *)
From LLG Require Import Base Params Svob SvobProofs Trie TrieProofs WalkM WalkMProofs
                        Regex RegexProofs Lexer Earley Engine PureEngine
                        EngineInv EngineWalk EngineOps EngineProofs.

(* an ordinary text token: non-empty, no marker byte, not EOS *)
Definition text_token (cx : ctx) (t : tokid) (w : bytes) : Prop :=
  t < vocab_size (c_trie cx) /\ nthN (tokens (c_trie cx)) t = Some w /\ w <> [] /\
  existsb (N.eqb marker) w = false /\ existsb (N.eqb t) (c_eos cx) = false /\
  (match c_marker_tok cx with Some m => t <> m | None => True end).

(* a state between two API calls: reachable, no assertion fired, no limit hit, no forced bytes pending *)
Definition settled (cx : ctx) (st : pstate) : Prop :=
  reach cx st /\ p_panic st = false /\ p_error st = false /\ p_applied st = length (p_bytes st).

Section Corollaries.
  Variable cx : ctx.
  Hypothesis Hcore : core_ctx cx.
  Hypothesis Hclears : c_rollback_clears_cache cx = ROLLBACK_CLEARS_CACHE.

  (* ---- auxiliary lemmas ---- *)
  Lemma Hcl : c_rollback_clears_cache cx = true.
  Proof. rewrite Hclears; reflexivity. Qed.

  Lemma reach_ne : forall st, reach cx st -> p_error st = false -> p_stack st <> [].
  Proof.
    intros st Hr He. destruct (reach_good cx Hcore Hcl st Hr He) as (G & _).
    exact (s_ne _ _ (gd_struct _ _ G)).
  Qed.

  Lemma abs_top_eq : forall st1 st,
    abs_stack st1 = abs_stack st -> p_stack st <> [] -> abs_top st1 = abs_top st.
  Proof.
    intros st1 st E Hne. rewrite (abs_top_stack st Hne) in E.
    exact (abs_stack_top st1 _ _ E).
  Qed.

  Lemma mask_spec_text : forall f t w, text_token cx t w ->
    (mask_spec cx f t = true <-> run pframe (ppush cx) f w <> None).
  Proof.
    intros f t w (Hlt & Hnth & Hne & Hmk & Heos & Hmt).
    unfold mask_spec, bias_spec. rewrite Hnth.
    destruct w as [|b w]; [congruence|].
    cbn [is_prefix length Nat.eqb negb orb andb skipn].
    assert (Hm : match c_marker_tok cx with Some m => t =? m | None => false end = false).
    { destruct (c_marker_tok cx) as [m0|]; [|reflexivity]. apply N.eqb_neq. exact Hmt. }
    rewrite Hm. cbn [negb]. rewrite andb_true_r.
    destruct (run pframe (ppush cx) f (b :: w)) as [f'|]; cbn [is_some].
    - split; [intros _; discriminate|reflexivity].
    - split; [discriminate|intros H; exfalso; apply H; reflexivity].
  Qed.

  Lemma p_validate_single : forall t w f stk,
    decode_raw (c_trie cx) [t] = w ->
    existsb (N.eqb t) (c_eos cx) = false ->
    existsb (N.eqb marker) w = false ->
    p_validate cx (f :: stk) [t] =
    match run pframe (ppush cx) f w with Some _ => 1 | None => 0 end.
  Proof.
    intros t w f stk Hd He Hm. subst w. rewrite p_validate_pval by discriminate.
    cbn [pval]. rewrite He. cbv zeta.
    match goal with |- (if ?c then _ else _) = _ => replace c with false by (symmetry; exact Hm) end.
    match goal with |- match prun cx (f :: stk) ?w with _ => _ end =
                       match run _ _ _ ?w' with _ => _ end =>
      change w' with w; pose proof (prun_run cx w f stk) as Hpr;
      destruct (prun cx (f :: stk) w) as [stk'|] end.
    - destruct Hpr as (pushed & _ & _ & Hrun). rewrite Hrun. reflexivity.
    - rewrite Hpr. reflexivity.
  Qed.

  (* both masks are mask_spec of equal tops *)
  Lemma mask_eq_of_abs : forall sa ma sa' sb mb sb',
    reach cx sa -> p_panic sa = false -> reach cx sb -> p_panic sb = false ->
    compute_bias cx sa [] = (ma, sa') -> p_error sa' = false ->
    compute_bias cx sb [] = (mb, sb') -> p_error sb' = false ->
    abs_stack sa = abs_stack sb -> p_stack sb <> [] ->
    forall t, t < vocab_size (c_trie cx) -> get ma t = get mb t.
  Proof.
    intros sa ma sa' sb mb sb' Hra Hpa Hrb Hpb Ha Hea Hb Heb E Hne t Ht.
    destruct (compute_bias_spec cx Hcore Hcl sa ma sa' Hra Hpa Ha Hea) as (_ & _ & _ & _ & _ & _ & Hga).
    destruct (compute_bias_spec cx Hcore Hcl sb mb sb' Hrb Hpb Hb Heb) as (_ & _ & _ & _ & _ & _ & Hgb).
    rewrite (Hga t Ht), (Hgb t Ht), (abs_top_eq sa sb E Hne). reflexivity.
  Qed.

  Lemma mask_keeps_state_aux : forall st m st1,
    settled cx st -> compute_bias cx st [] = (m, st1) -> p_error st1 = false ->
    settled cx st1 /\ abs_stack st1 = abs_stack st.
  Proof.
    intros st m st1 (Hr & Hp & He & Ha) Hb Herr.
    destruct (compute_bias_spec cx Hcore Hcl st m st1 Hr Hp Hb Herr)
      as ((He1 & Hp1) & Habs & Hby & Hap & _).
    split; [|exact Habs].
    split; [eapply r_bias; eassumption|]. split; [exact Hp1|]. split; [exact He1|].
    rewrite Hap, Hby. exact Ha.
  Qed.

  (*FIXED*) (* the pure engine runs a concatenation byte by byte *)
  Lemma run_app : forall (f : pframe) w1 w2,
    run pframe (ppush cx) f (w1 ++ w2) =
    match run pframe (ppush cx) f w1 with Some f' => run pframe (ppush cx) f' w2 | None => None end.
  Proof.
    intros f w1. revert f. induction w1 as [|b w1 IH]; intros f w2; [reflexivity|].
    cbn [app run]. destruct (ppush cx f b) as [f'|]; [apply IH|reflexivity].
  Qed.

  (*FIXED*) (* C01: a token is in the mask exactly when the pure engine accepts its bytes *)
  Theorem mask_iff_run : forall st m st1 t w,
    settled cx st -> text_token cx t w ->
    compute_bias cx st [] = (m, st1) -> p_error st1 = false ->
    (get m t = true <-> run pframe (ppush cx) (abs_top st) w <> None).
  Proof.
    intros st m st1 t w (Hr & Hp & He & Ha) Ht Hb Herr.
    destruct (compute_bias_spec cx Hcore Hcl st m st1 Hr Hp Hb Herr) as (_ & _ & _ & _ & _ & _ & Hg).
    rewrite (Hg t (proj1 Ht)). apply mask_spec_text. exact Ht.
  Qed.

  (*FIXED*) (* C01: ... exactly when committing it succeeds (in the state the mask computation leaves) *)
  Theorem mask_iff_commit : forall st m st1 t w ok st2,
    settled cx st -> text_token cx t w ->
    compute_bias cx st [] = (m, st1) -> p_error st1 = false ->
    apply_token cx st1 w = (ok, st2) -> p_error st2 = false ->
    (get m t = true <-> ok = true).
  Proof.
    intros st m st1 t w ok st2 Hs Ht Hb Herr Hap Herr2.
    destruct (mask_keeps_state_aux st m st1 Hs Hb Herr) as ((Hr1 & Hp1 & He1 & Ha1) & Habs).
    destruct Hs as (Hr & Hp & He & Ha).
    rewrite (mask_iff_run st m st1 t w (conj Hr (conj Hp (conj He Ha))) Ht Hb Herr).
    destruct (apply_token_spec cx Hcore Hcl st1 w ok st2 Hr1 Hp1 He1 Ha1 Hap Herr2) as [Hok _].
    rewrite (abs_top_eq st1 st Habs (reach_ne st Hr He)) in Hok.
    split; intros H; apply Hok; exact H.
  Qed.

  (*FIXED*) (* C01: ... exactly when validating it alone returns 1 *)
  Theorem mask_iff_validate : forall st m st1 t w n st2,
    settled cx st -> text_token cx t w ->
    decode_raw (c_trie cx) [t] = w ->
    compute_bias cx st [] = (m, st1) -> p_error st1 = false ->
    validate_tokens cx st1 [t] = (n, st2) -> p_error st2 = false ->
    (get m t = true <-> n = 1).
  Proof.
    intros st m st1 t w n st2 Hs Ht Hdec Hb Herr Hv Herr2.
    destruct (mask_keeps_state_aux st m st1 Hs Hb Herr) as ((Hr1 & Hp1 & He1 & Ha1) & Habs).
    rewrite (mask_iff_run st m st1 t w Hs Ht Hb Herr).
    destruct Hs as (Hr & Hp & He & Ha).
    destruct (validate_tokens_spec cx Hcore Hcl st1 [t] n st2 Hr1 Hp1 Ha1 Hv Herr2)
      as (_ & _ & _ & _ & Hn).
    destruct Ht as (Hlt & Hnth & Hne & Hmk & Heos & Hmt).
    rewrite Habs, (abs_top_stack st (reach_ne st Hr He)) in Hn.
    rewrite (p_validate_single t w _ _ Hdec Heos Hmk) in Hn. subst n.
    destruct (run pframe (ppush cx) (abs_top st) w) as [f'|].
    - split; [reflexivity|intros _; discriminate].
    - split; [intros H; exfalso; apply H; reflexivity|discriminate].
  Qed.

  (*FIXED*) (* the mask computation leaves a settled state with the same pure stack *)
  Theorem mask_keeps_state : forall st m st1,
    settled cx st -> compute_bias cx st [] = (m, st1) -> p_error st1 = false ->
    settled cx st1 /\ abs_stack st1 = abs_stack st.
  Proof. exact mask_keeps_state_aux. Qed.

  (*FIXED*) (* C02: a multi-byte token is allowed exactly when its bytes, fed one at a time,
     are accepted at every step *)
  Theorem multibyte_iff_bytewise : forall st w,
    settled cx st ->
    (run pframe (ppush cx) (abs_top st) w <> None <->
     exists frames, length frames = length w /\
       (fix chain (f : pframe) (w : bytes) (fs : list pframe) : Prop :=
          match w, fs with
          | [], [] => True
          | b :: w', f' :: fs' => ppush cx f b = Some f' /\ chain f' w' fs'
          | _, _ => False
          end) (abs_top st) w frames).
  Proof.
    intros st w _. generalize (abs_top st) as f.
    induction w as [|b w IH]; intros f.
    - cbn [run]. split; [intros _; exists []; split; [reflexivity|exact I]|intros _; discriminate].
    - cbn [run]. split.
      + intros H. destruct (ppush cx f b) as [f'|] eqn:E; [|congruence].
        destruct (proj1 (IH f') H) as (fs & Hlen & Hch).
        exists (f' :: fs). split; [cbn [length]; rewrite Hlen; reflexivity|].
        split; [reflexivity|exact Hch].
      + intros (fs & Hlen & Hch). destruct fs as [|f' fs]; [exact (False_ind _ Hch)|].
        destruct Hch as [E Hch]. rewrite E. apply (proj2 (IH f')).
        exists fs. split; [cbn [length] in Hlen; congruence|exact Hch].
  Qed.

  (*FIXED*) (* C02: two commits equal one commit of the concatenated bytes *)
  Theorem commit_split_irrelevant : forall st w1 w2 st1 st2 st12,
    settled cx st ->
    apply_token cx st w1 = (true, st1) -> p_error st1 = false ->
    apply_token cx st1 w2 = (true, st2) -> p_error st2 = false ->
    apply_token cx st (w1 ++ w2) = (true, st12) -> p_error st12 = false ->
    abs_stack st12 = abs_stack st2 /\ p_bytes st12 = p_bytes st2.
  Proof.
    intros st w1 w2 st1 st2 st12 (Hr & Hp & He & Ha) H1 He1 H2 He2 H12 He12.
    exact (apply_token_app cx Hcore Hcl st w1 w2 st1 st2 st12 Hr He Ha H1 He1 H2 He2 H12 He12).
  Qed.

  (*FIXED*) (* C11: same mask with and without the cache *)
  Theorem mask_cache_independent : forall st m1 st1 m2 st2,
    reach cx st ->
    compute_bias cx st [] = (m1, st1) -> p_error st1 = false ->
    compute_bias cx (set_cache st None) [] = (m2, st2) -> p_error st2 = false ->
    forall t, t < vocab_size (c_trie cx) -> get m1 t = get m2 t.
  Proof.
    intros st m1 st1 m2 st2 Hr H1 He1 H2 He2.
    exact (cache_transparent cx Hcore Hcl st m1 st1 m2 st2 Hr H1 He1 H2 He2).
  Qed.

  (*FIXED*) (* C11: computing the mask twice gives the same mask *)
  Theorem mask_twice : forall st m1 st1 m2 st2,
    settled cx st ->
    compute_bias cx st [] = (m1, st1) -> p_error st1 = false ->
    compute_bias cx st1 [] = (m2, st2) -> p_error st2 = false ->
    forall t, t < vocab_size (c_trie cx) -> get m1 t = get m2 t.
  Proof.
    intros st m1 st1 m2 st2 Hs H1 He1 H2 He2.
    destruct (mask_keeps_state_aux st m1 st1 Hs H1 He1) as ((Hr1 & Hp1 & _ & _) & Habs).
    destruct Hs as (Hr & Hp & He & Ha).
    intros t Ht. symmetry.
    exact (mask_eq_of_abs st1 m2 st2 st m1 st1 Hr1 Hp1 Hr Hp H2 He2 H1 He1 Habs (reach_ne st Hr He) t Ht).
  Qed.

  (*FIXED*) (* C11: read-only queries (validation, accepting) leave no trace in a later mask *)
  Theorem queries_leave_no_trace : forall st toks n st1 a st2 m st3 m' st3',
    settled cx st ->
    validate_tokens cx st toks = (n, st1) -> p_error st1 = false ->
    is_accepting cx st1 = (a, st2) -> p_error st2 = false ->
    compute_bias cx st2 [] = (m, st3) -> p_error st3 = false ->
    compute_bias cx st [] = (m', st3') -> p_error st3' = false ->
    forall t, t < vocab_size (c_trie cx) -> get m t = get m' t.
  Proof.
    intros st toks n st1 a st2 m st3 m' st3' (Hr & Hp & He & Ha) Hv He1 Hacc He2 Hb He3 Hb' He3'.
    destruct (validate_tokens_spec cx Hcore Hcl st toks n st1 Hr Hp Ha Hv He1)
      as ((_ & Hp1) & Habs1 & _).
    assert (Hr1 : reach cx st1) by (eapply r_validate; eassumption).
    destruct (is_accepting_spec cx Hcore Hcl st1 a st2 Hr1 Hp1 Hacc He2)
      as ((_ & Hp2) & Habs2 & _).
    assert (Hr2 : reach cx st2) by (eapply r_accepting; eassumption).
    apply (mask_eq_of_abs st2 m st3 st m' st3' Hr2 Hp2 Hr Hp Hb He3 Hb' He3').
    - rewrite Habs2. exact Habs1.
    - exact (reach_ne st Hr He).
  Qed.

  (*FIXED*) (* C12: commit then rollback: same pure stack, same bytes, hence the same mask *)
  Theorem rollback_then_mask : forall st w st1 st2 m st3 m' st3',
    settled cx st -> p_top_eos st = false ->
    apply_token cx st w = (true, st1) -> p_error st1 = false ->
    rollback cx st1 (length w) = Some st2 ->
    compute_bias cx st2 [] = (m, st3) -> p_error st3 = false ->
    compute_bias cx st [] = (m', st3') -> p_error st3' = false ->
    forall t, t < vocab_size (c_trie cx) -> get m t = get m' t.
  Proof.
    intros st w st1 st2 m st3 m' st3' (Hr & Hp & He & Ha) Heos Hap He1 Hrb Hb He3 Hb' He3'.
    destruct (rollback_restores cx Hcore Hcl st w st1 st2 Hr Hp He Ha Heos Hap He1 Hrb)
      as ((_ & Hp2) & Habs & _).
    assert (Hr2 : reach cx st2).
    { eapply r_rollback; [eapply r_apply; eassumption|eassumption]. }
    apply (mask_eq_of_abs st2 m st3 st m' st3' Hr2 Hp2 Hr Hp Hb He3 Hb' He3' Habs).
    exact (reach_ne st Hr He).
  Qed.

  (*FIXED*) (* C12: ... and the same accepting flag *)
  Theorem rollback_then_accepting : forall st w st1 st2 a st3 a' st3',
    settled cx st -> p_top_eos st = false ->
    apply_token cx st w = (true, st1) -> p_error st1 = false ->
    rollback cx st1 (length w) = Some st2 ->
    is_accepting cx st2 = (a, st3) -> p_error st3 = false ->
    is_accepting cx st = (a', st3') -> p_error st3' = false ->
    a = a'.
  Proof.
    intros st w st1 st2 a st3 a' st3' (Hr & Hp & He & Ha) Heos Hap He1 Hrb Hacc He3 Hacc' He3'.
    destruct (rollback_restores cx Hcore Hcl st w st1 st2 Hr Hp He Ha Heos Hap He1 Hrb)
      as ((_ & Hp2) & Habs & _).
    assert (Hr2 : reach cx st2).
    { eapply r_rollback; [eapply r_apply; eassumption|eassumption]. }
    destruct (is_accepting_spec cx Hcore Hcl st2 a st3 Hr2 Hp2 Hacc He3) as (_ & _ & _ & _ & ->).
    destruct (is_accepting_spec cx Hcore Hcl st a' st3' Hr Hp Hacc' He3') as (_ & _ & _ & _ & ->).
    rewrite Habs. reflexivity.
  Qed.
End Corollaries.

Print Assumptions run_app.
Print Assumptions mask_iff_run.
Print Assumptions mask_iff_commit.
Print Assumptions mask_iff_validate.
Print Assumptions mask_keeps_state.
Print Assumptions multibyte_iff_bytewise.
Print Assumptions commit_split_irrelevant.
Print Assumptions mask_cache_independent.
Print Assumptions mask_twice.
Print Assumptions queries_leave_no_trace.
Print Assumptions rollback_then_mask.
Print Assumptions rollback_then_accepting.
