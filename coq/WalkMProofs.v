(* WalkMProofs.v — the walk over a recogniser with hidden mutable state equals
   the walk over the pure stack machine it refines.
   STATEMENTS MARKED (*FIXED*) MUST NOT CHANGE. *)
From LLG Require Import Base Svob SvobProofs Trie TrieProofs WalkM.

Section Refine.
  Variable R : Type.
  Variable try_pushM : R -> byte -> bool * R.
  Variable popM : R -> nat -> R.
  Variable St : Type.
  Variable push : St -> byte -> option St.
  (* the pure stack the hidden-state recogniser denotes (top first), for states
     satisfying the invariant Inv *)
  Variable abs : R -> list St.
  Variable Inv : R -> Prop.

  Hypothesis pop_abs : forall r (n : nat), Inv r -> (n < length (abs r))%nat ->
    Inv (popM r n) /\ abs (popM r n) = skipn n (abs r).
  Hypothesis push_abs : forall r b s stk ok r',
    Inv r -> abs r = s :: stk -> try_pushM r b = (ok, r') ->
    Inv r' /\
    match push s b with
    | Some s' => ok = true /\ abs r' = s' :: s :: stk
    | None => ok = false /\ abs r' = s :: stk
    end.

  (*FIXED*) (* node-by-node simulation of walk by walkM *)
  Theorem walkM_refines : forall defl ns skip np r toks vis,
    Inv r ->
    match walk St push defl ns skip np (abs r) toks vis with
    | None => True
    | Some (np', stk', toks', vis') =>
        exists r', walkM R try_pushM popM defl ns skip np r toks vis = (np', r', toks', vis')
                   /\ Inv r' /\ abs r' = stk'
    end.
  Proof.
    intros defl ns. induction ns as [|n ns IH]; intros skip np r toks vis HI.
    - cbn [walk walkM]. exists r. split; [reflexivity|]. split; [exact HI|reflexivity].
    - cbn [walk walkM]. destruct skip as [|k]; [|apply IH; exact HI].
      unfold pop_chk. destruct (Nat.ltb_spec np (length (abs r))) as [Hlt|Hge]; [|exact I].
      destruct (pop_abs r np HI Hlt) as [HI1 Habs1].
      destruct (try_pushM (popM r np) (nbyte n)) as [ok r2] eqn:Htp.
      destruct (skipn np (abs r)) as [|s stk] eqn:Hsk.
      { exfalso. assert (Hlen : length (skipn np (abs r)) = (length (abs r) - np)%nat)
          by apply skipn_length.
        rewrite Hsk in Hlen. cbn [length] in Hlen. lia. }
      destruct (push_abs _ _ s stk _ _ HI1 Habs1 Htp) as [HI2 Hm].
      cbn [try_push]. destruct (push s (nbyte n)) as [s'|]; destruct Hm as [Hok Habs2]; subst ok.
      + rewrite <- Habs2. apply IH. exact HI2.
      + rewrite <- Habs2. apply IH. exact HI2.
  Qed.

  (* the recogniser-specific trie_started / trie_finished *)
  Variable startedM : R -> R.
  Variable finishedM : R -> R.
  Hypothesis started_abs : forall r, Inv r -> Inv (startedM r) /\ abs (startedM r) = abs r.

  (*FIXED*) (* add_bias with an empty start prefix over the hidden-state recogniser:
     the mask is the per-token test against the pure machine, and the recogniser
     ends in finishedM of a state whose stack is the original one *)
  Theorem add_biasM_correct : forall ws r s stk0 toks,
    Inv r -> abs r = s :: stk0 ->
    get_pre toks (lenN ws) = true ->
    exists r1 toks',
      add_biasM R try_pushM popM startedM finishedM (trie_from ws) r toks [] = (finishedM r1, toks') /\
      Inv r1 /\ abs r1 = s :: stk0 /\
      vsize toks' = vsize toks /\ nwords toks' = nwords toks /\
      (forall t, t < lenN ws -> get toks' t = get toks t || bias_spec push ws s [] t) /\
      get toks' (lenN ws) = false /\
      (forall t, lenN ws < t -> get toks' t = get toks t).
  Proof.
    intros ws r s stk0 toks HI Habs Hpre.
    destruct (add_bias_correct St push ws s stk0 toks Hpre)
      as (toks'' & Hab & Hv & Hn & Hlo & Hmid & Hhi).
    destruct (add_bias0_stack St push ws s stk0 toks Hpre) as (toksx & nx & Hst).
    unfold add_bias in Hab. unfold add_bias0 in Hab, Hst.
    destruct (started_abs r HI) as [HI1 Habs1].
    pose proof (walkM_refines (vocab_size (trie_from ws))
                  (subtree_body (nodes (trie_from ws)) 0) 0 0 (startedM r) toks 0 HI1) as Hre.
    rewrite Habs1, Habs in Hre.
    destruct (walk St push (vocab_size (trie_from ws))
                (subtree_body (nodes (trie_from ws)) 0) 0 0 (s :: stk0) toks 0)
      as [[[[np stk'] toks1] vis]|] eqn:Hw; [|discriminate Hst].
    destruct Hre as (r2 & HwM & HI2 & Habs2).
    destruct (pop_chk St np stk') as [stk''|] eqn:Hp; [|discriminate Hst].
    inversion Hst; subst stk'' toksx nx. inversion Hab; subst toks''.
    unfold pop_chk in Hp.
    destruct (Nat.ltb_spec np (length stk')) as [Hlt|Hge]; [|discriminate Hp].
    assert (Hsk : skipn np stk' = s :: stk0) by congruence.
    rewrite <- Habs2 in Hlt.
    destruct (pop_abs r2 np HI2 Hlt) as [HI3 Habs3].
    exists (popM r2 np), (disallow_token toks1 (vocab_size (trie_from ws))).
    split.
    { unfold add_biasM. cbn [child_at_bytes]. rewrite HwM. reflexivity. }
    split; [exact HI3|].
    split; [rewrite Habs3, Habs2; exact Hsk|].
    split; [exact Hv|]. split; [exact Hn|]. split; [exact Hlo|]. split; [exact Hmid|exact Hhi].
  Qed.
End Refine.

Print Assumptions walkM_refines.
Print Assumptions add_biasM_correct.
