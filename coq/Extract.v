(* Extract.v — all extraction directives of the development, nothing else.
   ExtrOcamlBasic only: bool, option, unit, prod, list, sumbool, sumor map to
   their OCaml namesakes; N, Z, positive, nat stay the extracted inductives. *)
Require Extraction.
Require ExtrOcamlBasic.
From LLG Require Import Base Sx Run.
Extraction Language OCaml.
Separate Extraction Sx.sx Sx.sym Run.run_case.
