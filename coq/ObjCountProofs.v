(* ObjCountProofs.v — the member counts admitted next to declared members are exact *)
From Coq Require Import Arith Bool List Lia.
From LLG Require Import ObjCount.

Lemma tail_admits_spec : forall lo' hi' n,
  hi' <> Some 0 ->
  (tail_admits lo' hi' n = true <-> lo' <= n /\ match hi' with Some h => n <= h | None => True end).
Proof.
  intros lo' hi' n Hh. unfold tail_admits.
  destruct (Nat.eqb_spec n 0) as [->|Hn].
  - rewrite Nat.eqb_eq. destruct hi' as [h|]; split; intros; try lia.
  - rewrite andb_true_iff, Nat.leb_le. destruct hi' as [[|h]|].
    + congruence.
    + rewrite Nat.leb_le. simpl. lia.
    + intuition.
Qed.

(* what bounded_sequence admits, as JsonSeqProofs.m_bseq_exact characterises it *)
Lemma tail_admits_bseq : forall lo' hi' n, 1 <= n ->
  (tail_admits lo' hi' n = true <->
   lo' <= n /\ match option_map Nat.pred hi' with Some k => Nat.pred n <= k | None => True end).
Proof.
  intros lo' hi' n Hn. unfold tail_admits.
  destruct (Nat.eqb_spec n 0) as [->|_]; [lia|].
  rewrite andb_true_iff, Nat.leb_le. destruct hi' as [h|]; simpl; [rewrite Nat.leb_le|]; intuition.
Qed.

Theorem obj_admits_exact : forall r lo hi has_tail c,
  obj_admits r lo hi has_tail c = true <-> size_ok r lo hi has_tail c.
Proof.
  intros r lo hi t c. unfold obj_admits, obj_plan, size_ok.
  destruct hi as [h|]; simpl.
  - destruct (Nat.ltb_spec h lo) as [H1|H1]; simpl.
    { split; [discriminate|]. intros (A & B & C & _). lia. }
    destruct (Nat.ltb_spec h r) as [H2|H2]; simpl.
    { split; [discriminate|]. intros (A & B & C & _). lia. }
    destruct t; simpl.
    + destruct (h - r) as [|k] eqn:E; simpl.
      * destruct (Nat.ltb_spec 0 (lo - r)) as [H3|H3].
        { split; [discriminate|]. intros (A & B & C & _). lia. }
        rewrite Nat.eqb_eq. split; [intros ->; repeat split; try lia; discriminate|]. intros (A & B & C & _). lia.
      * rewrite andb_true_iff, Nat.leb_le, tail_admits_spec by discriminate.
        split; [intros (A & B & C); repeat split; try lia; discriminate|]. intros (A & B & C & _). lia.
    + destruct (Nat.ltb_spec 0 (lo - r)) as [H3|H3].
      { split; [discriminate|]. intros (A & B & C & D). specialize (D eq_refl). lia. }
      rewrite Nat.eqb_eq. split; [intros ->; repeat split; lia|]. intros (_ & _ & _ & D). exact (D eq_refl).
  - destruct t; simpl.
    + rewrite andb_true_iff, Nat.leb_le, tail_admits_spec by discriminate.
      split; [intros (A & B & _); repeat split; try lia; discriminate|]. intros (A & B & _). lia.
    + destruct (Nat.ltb_spec 0 (lo - r)) as [H3|H3].
      { split; [discriminate|]. intros (A & B & C & D). specialize (D eq_refl). lia. }
      rewrite Nat.eqb_eq. split; [intros ->; repeat split; lia|]. intros (_ & _ & _ & D). exact (D eq_refl).
Qed.

(* rejected at compile time exactly when no size fits *)
Theorem obj_rejected_iff_empty : forall r lo hi has_tail,
  obj_plan r lo hi has_tail = None <-> forall c, ~ size_ok r lo hi has_tail c.
Proof.
  intros r lo hi t. split.
  - intros H c Hc. apply obj_admits_exact in Hc. unfold obj_admits in Hc. rewrite H in Hc. discriminate.
  - intros H. destruct (obj_plan r lo hi t) as [p|] eqn:E; [exfalso|reflexivity].
    (* some size is admitted by every plan *)
    assert (exists c, obj_admits r lo hi t c = true) as [c Hc].
    { unfold obj_admits. rewrite E. destruct p as [[lo' hi']|].
      - unfold obj_plan in E.
        destruct (match hi with Some h => (h <? lo) || (h <? r) | None => false end) eqn:G; [discriminate|].
        destruct (t && negb match option_map (fun h => h - r) hi with Some 0 => true | _ => false end) eqn:G2.
        + injection E as <- <-. exists (r + (lo - r)).
          rewrite andb_true_iff, Nat.leb_le. split; [lia|].
          apply tail_admits_spec.
          { destruct hi as [h|]; simpl in *; [|discriminate].
            apply andb_true_iff in G2. destruct G2 as [_ G2]. destruct (h - r); [discriminate|discriminate]. }
          replace (r + (lo - r) - r) with (lo - r) by lia.
          split; [lia|]. destruct hi as [h|]; simpl in *; [|exact I].
          apply orb_false_iff in G. destruct G as [G3 G4]. apply Nat.ltb_ge in G3, G4. lia.
        + destruct (0 <? lo - r); discriminate.
      - exists r. apply Nat.eqb_refl. }
    apply obj_admits_exact in Hc. exact (H c Hc).
Qed.

(* non-vacuity: two required members, maxProperties 2, open additionalProperties: exactly size 2 *)
Example obj_count_example :
  obj_admits 2 0 (Some 2) true 2 = true /\ obj_admits 2 0 (Some 2) true 3 = false /\
  obj_admits 1 0 (Some 3) true 3 = true /\ obj_admits 1 0 (Some 3) true 4 = false /\
  obj_plan 3 0 (Some 2) true = None.
Proof. vm_compute. repeat split. Qed.
