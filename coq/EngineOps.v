(* EngineOps.v — every public operation of the imperative engine preserves the
   invariant GoodD and simulates the pure engine.  Auxiliary file for
   EngineProofs.v. *)
From LLG Require Import Base Svob SvobProofs Trie TrieProofs WalkM
                        Regex RegexProofs Lexer Earley Engine PureEngine EngineInv EngineWalk.
Local Open Scope nat_scope.

(* ------------------------------------------------------------------------ *)
(* bit vectors                                                              *)
(* ------------------------------------------------------------------------ *)
Lemma update_nth_overflow : forall {A} (l : list A) i f, length l <= i -> update_nth l i f = l.
Proof.
  intros A l. induction l as [|x l IH]; intros i f Hi; [reflexivity|].
  destruct i as [|i]; cbn [length] in Hi; [lia|]. cbn [update_nth]. f_equal. apply IH. lia.
Qed.

Lemma get_disallow : forall v i j,
  get (disallow_token v i) j = if (j =? i)%N then false else get v j.
Proof.
  intros v i j. unfold disallow_token. destruct (get_pre v i) eqn:Hp.
  - apply get_set. exact Hp.
  - assert (Hw : words (set v i false) = words v).
    { unfold set. cbn [words]. apply update_nth_overflow.
      unfold get_pre, nwords, lenN in Hp. apply N.ltb_ge in Hp. lia. }
    rewrite (get_unfold (set v i false)), Hw, <- get_unfold.
    destruct (N.eqb_spec j i) as [->|]; [|reflexivity]. apply get_no_pre. exact Hp.
Qed.

Lemma no_excess_disallow : forall v i, no_excess v -> no_excess (disallow_token v i).
Proof.
  intros v i H j Hj. rewrite get_disallow. destruct (j =? i)%N; [reflexivity|].
  apply H. unfold disallow_token in Hj. rewrite vsize_set in Hj. exact Hj.
Qed.

Lemma alloc_token_set_pre : forall ws,
  get_pre (alloc_token_set (trie_from ws)) (lenN ws) = true.
Proof.
  intros ws. unfold alloc_token_set. change (vocab_size (trie_from ws)) with (lenN ws).
  unfold get_pre, alloc_with_capacity, nwords. cbn [words].
  change (lenN (words (alloc (lenN ws + 1)))) with (nwords (alloc (lenN ws + 1))).
  rewrite nwords_alloc. unfold div_ceil32. apply N.ltb_lt.
  replace (lenN ws + 1 + 31)%N with (lenN ws + 1 * 32)%N by lia.
  rewrite N.div_add by lia. lia.
Qed.

Lemma flat_map_nil : forall {A B} (f : A -> list B) l, (forall x, f x = []) -> flat_map f l = [].
Proof.
  intros A B f l H. induction l as [|x l IH]; [reflexivity|]. cbn [flat_map]. rewrite H, IH. reflexivity.
Qed.

(* ------------------------------------------------------------------------ *)
(* with_limit                                                               *)
(* ------------------------------------------------------------------------ *)
Definition set_lim (st : pstate) (mx : option N) (e : bool) : pstate :=
  mk_pstate (p_rows st) (p_valid_end st) (p_stack st) (p_definitive st) (p_bytes st)
            (p_applied st) (p_row_infos st) (p_top_eos st) (p_trie_stack st) (p_cache st)
            (p_last_force st) (p_items st) mx e (p_panic st).

Lemma with_limit_eq : forall A cx st (f : pstate -> A * pstate),
  with_limit cx st f =
  let '(a, st1) := f (set_lim st (Some (p_items st + c_max_items cx)%N) (p_error st)) in
  (a, set_lim st1 None (p_error st1 || over_limit st1)).
Proof. reflexivity. Qed.

Ltac qsimpl :=
  cbn [set_lim p_rows p_valid_end p_stack p_definitive p_bytes p_applied p_row_infos p_top_eos
       p_trie_stack p_cache p_last_force p_items p_max_items p_error p_panic
       set_rows set_stack set_row_infos set_panic set_items set_cache set_spec set_applied
       set_last_force f_row f_lst f_byte pf_rows pf_lst pf_byte fst snd].
Tactic Notation "qsimpl" "in" hyp(H) :=
  cbn [set_lim p_rows p_valid_end p_stack p_definitive p_bytes p_applied p_row_infos p_top_eos
       p_trie_stack p_cache p_last_force p_items p_max_items p_error p_panic
       set_rows set_stack set_row_infos set_panic set_items set_cache set_spec set_applied
       set_last_force f_row f_lst f_byte pf_rows pf_lst pf_byte fst snd] in H.

Section Ops.
Variable cx : ctx.
Variable ws : list bytes.
Hypothesis Htrie : c_trie cx = trie_from ws.
Hypothesis Hnoranges : forall i, lx_token_ranges (lex_get (c_sp cx) i) = [].

Notation Struct := (Struct cx).
Notation GoodD := (GoodD cx).
Notation InvW := (InvW cx).
Notation spec_of := (spec_of cx).

Lemma GoodD_set_lim : forall st mx e, GoodD st -> GoodD (set_lim st mx e).
Proof. intros st mx e HG. apply (GoodD_ext cx st); try reflexivity. exact HG. Qed.

Lemma GoodD_of_set_lim : forall st mx e, GoodD (set_lim st mx e) -> GoodD st.
Proof. intros st mx e HG. apply (GoodD_ext cx (set_lim st mx e)); try reflexivity. exact HG. Qed.

(* assert_definitive only touches the panic flag *)
Lemma assert_stack : forall st, p_stack (assert_definitive st) = p_stack st.
Proof. intros st. destruct (assert_cases st) as [-> | ->]; reflexivity. Qed.
Lemma assert_rows : forall st, p_rows (assert_definitive st) = p_rows st.
Proof. intros st. destruct (assert_cases st) as [-> | ->]; reflexivity. Qed.
Lemma assert_abs : forall st, abs_stack (assert_definitive st) = abs_stack st.
Proof. intros st. destruct (assert_cases st) as [-> | ->]; reflexivity. Qed.
Lemma assert_num_rows : forall st, num_rows (assert_definitive st) = num_rows st.
Proof. intros st. destruct (assert_cases st) as [-> | ->]; reflexivity. Qed.
Lemma assert_limit : forall st, over_limit (assert_definitive st) = over_limit st.
Proof. intros st. destruct (assert_cases st) as [-> | ->]; reflexivity. Qed.

Lemma abs_stack_started : forall st, abs_stack (trie_started st) = abs_stack st.
Proof.
  intros st. rewrite trie_started_eq. change (abs_stack (assert_definitive st) = abs_stack st).
  apply assert_abs.
Qed.

Lemma tidy_assert_eq : forall st, GoodD st -> Tidy (assert_definitive st) -> assert_definitive st = st.
Proof.
  intros st HG HT. destruct (assert_cases st) as [E|E]; [exact E|].
  rewrite E in HT. destruct HT as [_ HP]. discriminate HP.
Qed.

(* result of a complete speculative excursion *)
Record spec_result (st st' : pstate) : Prop := {
  sr_good : GoodD st';
  sr_stack : p_stack st' = p_stack st;
  sr_keep : firstn (num_rows st) (p_rows st') = firstn (num_rows st) (p_rows st);
  sr_abs : abs_stack st' = abs_stack st;
  sr_ctl : ctl_le st st';
  sr_tidy : Tidy st -> Tidy st'
}.

Lemma finish_result : forall st s, GoodD st -> spec_of st s -> spec_result st (trie_finished s).
Proof.
  intros st s HG HSo. destruct (spec_finish cx st s HG HSo). constructor; assumption.
Qed.

Lemma spec_result_refl : forall st, GoodD st -> spec_result st st.
Proof. intros st HG. constructor; try reflexivity; [exact HG|apply ctl_le_refl|auto]. Qed.

Lemma spec_result_trans : forall a b c, spec_result a b -> spec_result b c -> spec_result a c.
Proof.
  intros a b c [G1 S1 K1 A1 C1 T1] [G2 S2 K2 A2 C2 T2]. constructor.
  - exact G2.
  - congruence.
  - rewrite (num_rows_stack_eq _ _ S1) in K2. congruence.
  - congruence.
  - exact (ctl_le_trans _ _ _ C1 C2).
  - auto.
Qed.

(* an excursion started from assert_definitive st is an excursion from st *)
Lemma spec_result_assert : forall st st', GoodD st ->
  spec_result (assert_definitive st) st' -> spec_result st st'.
Proof.
  intros st st' HG [G S K A C T]. constructor.
  - exact G.
  - rewrite S. apply assert_stack.
  - rewrite assert_num_rows, assert_rows in K. exact K.
  - rewrite A. apply assert_abs.
  - exact (ctl_le_trans _ _ _ (assert_definitive_ctl st) C).
  - intros HT. apply T. rewrite (assert_definitive_good cx st HG HT). exact HT.
Qed.

Lemma good_ne : forall st, GoodD st -> p_stack st <> [].
Proof. intros st HG. exact (s_ne _ _ (gd_struct _ _ HG)). Qed.

(* ---- is_accepting ---- *)
Lemma is_accepting_good : forall st a st', GoodD st ->
  is_accepting cx st = (a, st') ->
  spec_result st st' /\ (over_limit st' = false -> a = p_accepting cx (abs_stack st)).
Proof.
  intros st a st' HG H. unfold is_accepting in H.
  destruct (is_accepting_inner cx (trie_started st)) as [r s2] eqn:Hi.
  inversion H; subst a st'. clear H.
  pose proof (started_spec cx st HG) as HS1.
  destruct (acc_inner_spec cx st _ _ _ (good_ne _ HG) HS1 Hi) as (HS2 & _ & _ & Hacc).
  split; [apply finish_result; assumption|].
  intros Hlim. rewrite Hacc.
  - rewrite abs_stack_started. reflexivity.
  - exact (lim_back _ _ (trie_finished_ctl s2) Hlim).
Qed.

(* ---- the trie walk over the engine ---- *)
Lemma walk_pop_abs : forall st0 r n, InvW st0 r -> n < length (abs_stack r) ->
  InvW st0 (pop_bytes r n) /\ abs_stack (pop_bytes r n) = skipn n (abs_stack r).
Proof.
  intros st0 r n HI Hn. unfold abs_stack in Hn. rewrite map_length in Hn.
  split; [apply invw_pop; assumption|apply pop_abs_stack].
Qed.

Lemma walk_push_abs : forall st0 r b s stk ok r',
  InvW st0 r -> abs_stack r = s :: stk -> try_push_byte cx r b = (ok, r') ->
  over_limit r' = false ->
  InvW st0 r' /\
  match ppush cx s b with
  | Some s' => ok = true /\ abs_stack r' = s' :: s :: stk
  | None => ok = false /\ abs_stack r' = s :: stk
  end.
Proof.
  intros st0 r b s stk ok r' HI Habs Htp Hlim.
  pose proof (iw_struct _ _ _ HI) as HS.
  pose proof (push_byte_post cx _ _ _ _ HS Htp) as HP.
  split; [exact (invw_push cx _ _ _ _ _ HI HP)|].
  pose proof (push_post_abs cx _ _ _ _ HS HP Hlim) as Hsim.
  rewrite (abs_stack_top _ _ _ Habs) in Hsim. rewrite Habs in Hsim. exact Hsim.
Qed.

Lemma walk_push_lim : forall r b ok r',
  try_push_byte cx r b = (ok, r') -> over_limit r' = false -> over_limit r = false.
Proof. intros r b ok r' H. apply lim_back. exact (try_push_ctl cx _ _ _ _ H). Qed.


Lemma add_bias_nil_good : forall st0 r' toks', GoodD st0 ->
  add_biasM pstate (try_push_byte cx) pop_bytes trie_started trie_finished
            (trie_from ws) st0 (alloc_token_set (trie_from ws)) [] = (r', toks') ->
  over_limit r' = false ->
  spec_result st0 r' /\ vsize toks' = lenN ws /\ no_excess toks' /\
  forall t, (t < lenN ws)%N -> get toks' t = bias_spec (ppush cx) ws (abs_top st0) [] t.
Proof.
  intros st0 r' toks' HG Hab Hlim.
  pose proof (started_spec cx st0 HG) as HS1.
  destruct (add_biasM_lim pstate (try_push_byte cx) pop_bytes pframe (ppush cx) abs_stack
              (InvW st0) (fun r => over_limit r = false)
              (walk_pop_abs st0) (fun r n H => H) walk_push_lim (walk_push_abs st0)
              trie_started trie_finished ws st0 (abs_top st0) (tl (abs_stack st0))
              (alloc_token_set (trie_from ws)) r' toks')
    as (r1 & Hr' & HI1 & Habs1 & Hv & _ & Hlo & Hmid & Hhi).
  - exact (so_inv _ _ _ HS1).
  - rewrite (abs_stack_started st0). apply abs_top_stack. exact (good_ne _ HG).
  - apply alloc_token_set_pre.
  - exact Hab.
  - intros r1 ->. exact (lim_back _ _ (trie_finished_ctl r1) Hlim).
  - subst r'. rewrite <- (abs_top_stack st0 (good_ne _ HG)) in Habs1.
    assert (HSo : spec_of st0 r1).
    { apply (abs_suffix_spec cx st0 r1 []); [exact (gd_struct _ _ HG)|exact HI1|exact Habs1]. }
    split; [apply finish_result; assumption|].
    split; [rewrite Hv; reflexivity|].
    split.
    + intros i Hi. rewrite Hv in Hi. change (vsize (alloc_token_set (trie_from ws))) with (lenN ws) in Hi.
      destruct (N.eq_dec i (lenN ws)) as [->|Hne]; [exact Hmid|].
      rewrite Hhi by lia. apply get_alloc_with_capacity.
    + intros t Ht. rewrite (Hlo t Ht). unfold alloc_token_set.
      rewrite get_alloc_with_capacity. reflexivity.
Qed.

(* ---- compute_bias ---- *)
Definition bias_miss (st : pstate) : svob * pstate :=
  let '((st1, set1), st2) :=
    with_limit cx st (fun s =>
      let '(s', toks) := add_biasM pstate (try_push_byte cx) pop_bytes trie_started trie_finished
                                   (c_trie cx) s (alloc_token_set (c_trie cx)) [] in
      ((s', toks), s')) in
  let set2 := match c_marker_tok cx with Some t => disallow_token set1 t | None => set1 end in
  let '(set3, st3) :=
    let s := trie_started st2 in
    let '(ok, s') := flush_lexer cx s in
    let set' := if ok then fold_left (fun v '(lo, hi) => allow_range v lo hi)
                                     (token_ranges_top cx s') set2
                else set2 in
    (set', trie_finished s') in
  let st4 := set_cache st3 (Some (f_lst (top st3), f_row (top st3), has_pending st3, set3)) in
  (set3, st4).

Definition cache_probe (st : pstate) : option svob :=
  match p_cache st with
  | Some (ls, ri, hp, m) =>
      if lstate_eqb ls (f_lst (top st)) && Nat.eqb ri (f_row (top st)) && Bool.eqb hp (has_pending st)
      then Some m else None
  | None => None
  end.

Lemma compute_bias_nil : forall st,
  compute_bias cx st [] = match cache_probe st with Some m => (m, st) | None => bias_miss st end.
Proof. reflexivity. Qed.

(* what a non-committing public operation preserves *)
Record obs_same (st st' : pstate) : Prop := {
  os_good : GoodD st';
  os_stack : p_stack st' = p_stack st;
  os_keep : firstn (num_rows st) (p_rows st') = firstn (num_rows st) (p_rows st);
  os_abs : abs_stack st' = abs_stack st;
  os_bytes : p_bytes st' = p_bytes st;
  os_applied : p_applied st' = p_applied st;
  os_top_eos : p_top_eos st' = p_top_eos st;
  os_tidy : Tidy st -> Tidy st'
}.

Lemma obs_of_result : forall st st', spec_result st st' -> obs_same st st'.
Proof.
  intros st st' [G S K A C T]. destruct C. constructor; assumption.
Qed.

Lemma token_ranges_nil : forall s, token_ranges_top cx s = [].
Proof. intros s. unfold token_ranges_top. apply flat_map_nil. intros i. apply Hnoranges. Qed.

Lemma GoodD_set_cache : forall st c, GoodD st -> cache_ok cx (set_cache st c) -> GoodD (set_cache st c).
Proof.
  intros st c HG Hc. constructor; try exact Hc.
  - apply (struct_ext cx st); try reflexivity. exact (gd_struct _ _ HG).
  - exact (gd_def _ _ HG).
  - exact (gd_ri _ _ HG).
  - exact (gd_app _ _ HG).
Qed.

Lemma mask_spec_top : forall st t,
  mask_spec cx (mk_pframe (firstn (S (f_row (top st))) (p_rows st)) (f_lst (top st)) None) t
  = mask_spec cx (abs_top st) t.
Proof. intros st t. unfold abs_top, abs_frame. apply mask_spec_byte_irrel. Qed.

Lemma bias_miss_good : forall st m st', GoodD st ->
  bias_miss st = (m, st') -> p_error st' = false ->
  obs_same st st' /\ p_max_items st' = None /\
  vsize m = vocab_size (c_trie cx) /\ no_excess m /\
  (forall t, (t < vocab_size (c_trie cx))%N -> get m t = mask_spec cx (abs_top st) t).
Proof.
  intros st m st' HG H Herr. unfold bias_miss in H. rewrite with_limit_eq in H.
  set (st0 := set_lim st (Some (p_items st + c_max_items cx)%N) (p_error st)) in *.
  rewrite Htrie in H.
  destruct (add_biasM pstate (try_push_byte cx) pop_bytes trie_started trie_finished
              (trie_from ws) st0 (alloc_token_set (trie_from ws)) []) as [r' toks'] eqn:Hab.
  cbv beta iota zeta in H.
  set (st2 := set_lim r' None (p_error r' || over_limit r')) in *.
  destruct (flush_lexer cx (trie_started st2)) as [ok s'] eqn:Hf.
  rewrite token_ranges_nil in H. cbn [fold_left] in H.
  assert (Hset : (if ok then match c_marker_tok cx with Some t => disallow_token toks' t | None => toks' end
                  else match c_marker_tok cx with Some t => disallow_token toks' t | None => toks' end)
                 = match c_marker_tok cx with Some t => disallow_token toks' t | None => toks' end)
    by (destruct ok; reflexivity).
  rewrite Hset in H. clear Hset.
  inversion H; subst m st'. clear H.
  (* the limit was not hit *)
  assert (He2 : p_error st2 = false).
  { change (p_error (trie_finished s') = false) in Herr.
    rewrite (cl_error _ _ (trie_finished_ctl s')) in Herr.
    rewrite (cl_error _ _ (flush_ctl cx _ _ _ Hf)) in Herr.
    rewrite (cl_error _ _ (trie_started_ctl st2)) in Herr. exact Herr. }
  assert (Hlim : over_limit r' = false).
  { subst st2. qsimpl in He2. apply orb_false_iff in He2. exact (proj2 He2). }
  assert (HG0 : GoodD st0) by (apply GoodD_set_lim; exact HG).
  destruct (add_bias_nil_good st0 r' toks' HG0 Hab Hlim) as (HR1 & Hv & Hne & Hget).
  assert (HG2 : GoodD st2) by (apply GoodD_set_lim; exact (sr_good _ _ HR1)).
  pose proof (started_spec cx st2 HG2) as HS1.
  pose proof (flush_post_holds cx _ _ _ (iw_struct _ _ _ (so_inv _ _ _ HS1)) Hf) as HP.
  pose proof (spec_flush cx _ _ _ _ (good_ne _ HG2) HS1 HP) as HS2.
  pose proof (finish_result st2 s' HG2 HS2) as HR2.
  set (st3 := trie_finished s') in *.
  pose proof (sr_good _ _ HR2) as HG3.
  assert (Habs3 : abs_stack st3 = abs_stack st).
  { rewrite (sr_abs _ _ HR2). change (abs_stack st2) with (abs_stack r').
    rewrite (sr_abs _ _ HR1). reflexivity. }
  assert (Htop3 : abs_top st3 = abs_top st).
  { rewrite (abs_top_stack st3 (good_ne _ HG3)), (abs_top_stack st (good_ne _ HG)) in Habs3.
    congruence. }
  set (m := match c_marker_tok cx with Some t => disallow_token toks' t | None => toks' end) in *.
  assert (Hvm : vsize m = vocab_size (c_trie cx)).
  { rewrite Htrie. change (vocab_size (trie_from ws)) with (lenN ws). subst m.
    destruct (c_marker_tok cx); [unfold disallow_token; rewrite vsize_set|]; exact Hv. }
  assert (Hnem : no_excess m).
  { subst m. destruct (c_marker_tok cx); [apply no_excess_disallow|]; exact Hne. }
  assert (Hgm : forall t, (t < vocab_size (c_trie cx))%N -> get m t = mask_spec cx (abs_top st) t).
  { intros t Ht. rewrite Htrie in Ht. change (vocab_size (trie_from ws)) with (lenN ws) in Ht.
    unfold mask_spec. rewrite Htrie. change (tokens (trie_from ws)) with ws.
    change (abs_top st) with (abs_top st0). rewrite <- (Hget t Ht). subst m.
    destruct (c_marker_tok cx) as [t0|].
    - rewrite get_disallow. destruct (t =? t0)%N; [rewrite andb_false_r|rewrite andb_true_r]; reflexivity.
    - rewrite andb_true_r. reflexivity. }
  pose proof (sr_ctl _ _ HR1) as C1. pose proof (sr_ctl _ _ HR2) as C2.
  split; [|split; [|split; [exact Hvm|split; [exact Hnem|exact Hgm]]]].
  2:{ psimpl. rewrite (cl_max _ _ C2). reflexivity. }
  constructor.
  - apply GoodD_set_cache; [exact HG3|]. unfold cache_ok. psimpl.
    change (top (set_cache st3 (Some (f_lst (top st3), f_row (top st3), has_pending st3, m))))
      with (top st3).
    split; [apply Nat.le_refl|]. split; [exact Hvm|]. split; [exact Hnem|].
    intros t Ht. rewrite mask_spec_top, Htop3. apply Hgm. exact Ht.
  - psimpl. rewrite (sr_stack _ _ HR2). change (p_stack st2) with (p_stack r').
    rewrite (sr_stack _ _ HR1). reflexivity.
  - psimpl. pose proof (sr_keep _ _ HR2) as K2. pose proof (sr_keep _ _ HR1) as K1.
    change (num_rows st2) with (num_rows r') in K2. change (p_rows st2) with (p_rows r') in K2.
    rewrite (num_rows_stack_eq _ _ (sr_stack _ _ HR1)) in K2.
    change (num_rows st0) with (num_rows st) in *. change (p_rows st0) with (p_rows st) in *.
    congruence.
  - exact Habs3.
  - psimpl. rewrite (cl_bytes _ _ C2). change (p_bytes st2) with (p_bytes r').
    rewrite (cl_bytes _ _ C1). reflexivity.
  - psimpl. rewrite (cl_applied _ _ C2). change (p_applied st2) with (p_applied r').
    rewrite (cl_applied _ _ C1). reflexivity.
  - psimpl. rewrite (cl_top_eos _ _ C2). change (p_top_eos st2) with (p_top_eos r').
    rewrite (cl_top_eos _ _ C1). reflexivity.
  - intros HT.
    assert (HT0 : Tidy st0) by (apply (Tidy_ext st); try reflexivity; exact HT).
    pose proof (sr_tidy _ _ HR1 HT0) as HTr.
    assert (HT2 : Tidy st2) by (apply (Tidy_ext r'); try reflexivity; exact HTr).
    pose proof (sr_tidy _ _ HR2 HT2) as HT3.
    apply (Tidy_ext st3); try reflexivity. exact HT3.
Qed.

Lemma cache_probe_good : forall st m, GoodD st -> cache_probe st = Some m ->
  vsize m = vocab_size (c_trie cx) /\ no_excess m /\
  (forall t, (t < vocab_size (c_trie cx))%N -> get m t = mask_spec cx (abs_top st) t).
Proof.
  intros st m HG H. unfold cache_probe in H. pose proof (gd_cache _ _ HG) as Hc.
  unfold cache_ok in Hc. destruct (p_cache st) as [[[[ls ri] hp] m0]|]; [|discriminate].
  destruct (lstate_eqb ls (f_lst (top st)) && Nat.eqb ri (f_row (top st)) && Bool.eqb hp (has_pending st))
    eqn:Hk; [|discriminate].
  inversion H; subst m0. clear H.
  apply andb_true_iff in Hk as [Hk _]. apply andb_true_iff in Hk as [Hk1 Hk2].
  apply lstate_eqb_eq in Hk1. apply Nat.eqb_eq in Hk2. subst ls ri.
  destruct Hc as (_ & Hv & Hne & Hg). split; [exact Hv|]. split; [exact Hne|].
  intros t Ht. rewrite (Hg t Ht). apply mask_spec_top.
Qed.

Lemma obs_same_refl : forall st, GoodD st -> obs_same st st.
Proof. intros st HG. constructor; try reflexivity; [exact HG|auto]. Qed.

Lemma compute_bias_good : forall st m st', GoodD st -> p_max_items st = None ->
  compute_bias cx st [] = (m, st') -> p_error st' = false ->
  obs_same st st' /\ p_max_items st' = None /\
  vsize m = vocab_size (c_trie cx) /\ no_excess m /\
  (forall t, (t < vocab_size (c_trie cx))%N -> get m t = mask_spec cx (abs_top st) t).
Proof.
  intros st m st' HG Hmax H Herr. rewrite compute_bias_nil in H.
  destruct (cache_probe st) as [m0|] eqn:Hp.
  - inversion H; subst m0 st'. split; [apply obs_same_refl; exact HG|]. split; [exact Hmax|].
    apply cache_probe_good; assumption.
  - apply bias_miss_good; assumption.
Qed.

(* ------------------------------------------------------------------------ *)
(* definitive pushes                                                        *)
(* ------------------------------------------------------------------------ *)
Record lim_le (st st' : pstate) : Prop := {
  ll_max : p_max_items st' = p_max_items st;
  ll_error : p_error st' = p_error st;
  ll_items : (p_items st <= p_items st')%N;
  ll_panic : p_panic st = true -> p_panic st' = true
}.

Lemma lim_le_refl : forall st, lim_le st st.
Proof. intros. constructor; try reflexivity. auto. Qed.

Lemma lim_le_trans : forall a b c, lim_le a b -> lim_le b c -> lim_le a c.
Proof.
  intros a b c [A1 A2 A3 A4] [B1 B2 B3 B4]. constructor; try congruence; [lia|auto].
Qed.

Lemma lim_le_ctl : forall st st', ctl_le st st' -> lim_le st st'.
Proof. intros st st' []. constructor; assumption. Qed.

Lemma lim_le_back : forall st st', lim_le st st' -> over_limit st' = false -> over_limit st = false.
Proof.
  intros st st' H. unfold over_limit. rewrite (ll_max _ _ H).
  destruct (p_max_items st) as [m|]; [|reflexivity].
  intros Hl. apply N.ltb_ge in Hl. apply N.ltb_ge. pose proof (ll_items _ _ H). lia.
Qed.

Lemma max_none_lim : forall st, p_max_items st = None -> over_limit st = false.
Proof. intros st H. unfold over_limit. rewrite H. reflexivity. Qed.

(* the pure engine run over a stack *)
Fixpoint prun (stk : list pframe) (w : bytes) : option (list pframe) :=
  match w with
  | [] => Some stk
  | b :: w' =>
      match stk with
      | [] => None
      | f :: _ => match ppush cx f b with
                  | Some f' => prun (f' :: stk) w'
                  | None => None
                  end
      end
  end.

Lemma prun_app : forall w1 w2 stk,
  prun stk (w1 ++ w2) = match prun stk w1 with Some stk1 => prun stk1 w2 | None => None end.
Proof.
  induction w1 as [|b w1 IH]; intros w2 stk; [reflexivity|].
  cbn [app prun]. destruct stk as [|f stk]; [reflexivity|].
  destruct (ppush cx f b); [apply IH|reflexivity].
Qed.

Lemma prun_run : forall w f stk,
  match prun (f :: stk) w with
  | Some stk' => exists pushed, stk' = pushed ++ f :: stk /\ length pushed = length w /\
                   run pframe (ppush cx) f w = Some (hd f stk')
  | None => run pframe (ppush cx) f w = None
  end.
Proof.
  induction w as [|b w IH]; intros f stk.
  - cbn [prun run]. exists []. split; [reflexivity|]. split; reflexivity.
  - cbn [prun run]. destruct (ppush cx f b) as [f'|]; [|reflexivity].
    specialize (IH f' (f :: stk)). destruct (prun (f' :: f :: stk) w) as [stk'|]; [|exact IH].
    destruct IH as (pushed & -> & Hlen & Hrun). exists (pushed ++ [f']).
    split; [rewrite <- app_assoc; reflexivity|]. split.
    + rewrite app_length. cbn [length]. lia.
    + rewrite Hrun. f_equal. destruct pushed; reflexivity.
Qed.

Record dpush (st : pstate) (w : bytes) (st' : pstate) : Prop := {
  dp_good : GoodD st';
  dp_stack : exists pushed, length pushed = length w /\ p_stack st' = pushed ++ p_stack st;
  dp_keep : firstn (num_rows st) (p_rows st') = firstn (num_rows st) (p_rows st);
  dp_bytes : p_bytes st' = p_bytes st ++ w;
  dp_top_eos : p_top_eos st' = p_top_eos st;
  dp_tidy : Tidy st -> Tidy st'
}.

Lemma num_rows_le_app : forall st st' pushed, Struct st' -> p_stack st <> [] ->
  p_stack st' = pushed ++ p_stack st -> num_rows st <= num_rows st'.
Proof.
  intros st st' pushed HS Hne Hs.
  assert (Hin : In (top st) (p_stack st')) by (rewrite Hs; apply in_or_app; right; apply top_in; exact Hne).
  pose proof (mono_top _ _ (s_mono _ _ HS) Hin). unfold num_rows, top in *. lia.
Qed.

Lemma dpush_refl : forall st, GoodD st -> dpush st [] st.
Proof.
  intros st HG. constructor; try reflexivity; [exact HG|exists []; split; reflexivity| |auto].
  rewrite app_nil_r. reflexivity.
Qed.

Lemma dpush_trans : forall a w1 b w2 c, GoodD a -> dpush a w1 b -> dpush b w2 c -> dpush a (w1 ++ w2) c.
Proof.
  intros a w1 b w2 c HGa [G1 (p1 & L1 & S1) K1 B1 T1 Y1] [G2 (p2 & L2 & S2) K2 B2 T2 Y2]. constructor.
  - exact G2.
  - exists (p2 ++ p1). split; [rewrite !app_length; lia|]. rewrite S2, S1, app_assoc. reflexivity.
  - pose proof (num_rows_le_app a b p1 (gd_struct _ _ G1) (good_ne _ HGa) S1) as Hle.
    rewrite (firstn_le_eq _ _ _ _ Hle K2). exact K1.
  - rewrite B2, B1, app_assoc. reflexivity.
  - congruence.
  - auto.
Qed.

Lemma push_def_post : forall st b ok st', GoodD st ->
  push_definitive cx st b = (ok, st') ->
  lim_le st st' /\
  (ok = true -> dpush st [b] st' /\ p_applied st' = p_applied st) /\
  (over_limit st' = false ->
   match ppush cx (abs_top st) b with
   | Some f' => ok = true /\ abs_stack st' = f' :: abs_stack st
   | None => ok = false
   end).
Proof.
  intros st b ok st' HG H. unfold push_definitive in H.
  destruct (try_push_byte cx st b) as [ok1 s1] eqn:Htp.
  pose proof (gd_struct _ _ HG) as HS.
  pose proof (push_byte_post cx _ _ _ _ HS Htp) as HP.
  pose proof (pp_ctl _ _ _ _ _ HP) as C. pose proof (pp_mode _ _ _ _ _ HP) as M.
  destruct ok1; inversion H; subst ok st'; clear H.
  2:{ split; [apply lim_le_ctl; exact C|]. split; [discriminate|].
      intros Hlim. pose proof (pp_sim _ _ _ _ _ HP Hlim) as Hsim.
      destruct (ppush cx (abs_top st) b); [destruct Hsim; discriminate|reflexivity]. }
  destruct (pp_stack _ _ _ _ _ HP) as [fr Hstk].
  pose proof (pp_struct _ _ _ _ _ HP) as HS1.
  split; [destruct C; constructor; psimpl; assumption|].
  split.
  - intros _. split; [|psimpl; exact (cl_applied _ _ C)]. constructor; psimpl.
    + constructor; psimpl.
      * apply (struct_ext cx s1); try reflexivity. exact HS1.
      * rewrite (me_def _ _ M). exact (gd_def _ _ HG).
      * apply (pp_ri_def _ _ _ _ _ HP); [exact (gd_def _ _ HG)|exact (gd_ri _ _ HG)|reflexivity].
      * rewrite app_length, (cl_bytes _ _ C), (cl_applied _ _ C). pose proof (gd_app _ _ HG). lia.
      * apply (cache_ok_keep cx st); psimpl.
        -- exact (cl_cache _ _ C).
        -- unfold top at 2. psimpl. rewrite Hstk. cbn [hd].
           assert (Hin : In (top st) (fr :: p_stack st)) by (right; apply top_in; exact (s_ne _ _ HS)).
           rewrite <- Hstk in Hin. pose proof (mono_top _ _ (s_mono _ _ HS1) Hin) as Hle.
           rewrite Hstk in Hle. exact Hle.
        -- exact (pp_keep _ _ _ _ _ HP).
        -- exact (gd_cache _ _ HG).
    + exists [fr]. split; [reflexivity|exact Hstk].
    + exact (pp_keep _ _ _ _ _ HP).
    + rewrite (cl_bytes _ _ C). reflexivity.
    + exact (cl_top_eos _ _ C).
    + intros HT. constructor; psimpl.
      * rewrite Hstk, app_length, (cl_bytes _ _ C), (cl_top_eos _ _ C). cbn [length].
        rewrite (td_len _ HT). lia.
      * rewrite (me_panic _ _ M). exact (td_panic _ HT).
  - intros Hlim. change (over_limit s1 = false) in Hlim.
    pose proof (push_post_abs cx _ _ _ _ HS HP Hlim) as Hsim.
    destruct (ppush cx (abs_top st) b) as [f'|]; [|destruct Hsim; discriminate].
    split; [reflexivity|]. exact (proj2 Hsim).
Qed.

Lemma GoodD_set_applied : forall st n, GoodD st -> n <= length (p_bytes st) -> GoodD (set_applied st n).
Proof.
  intros st n HG Hn. constructor; psimpl.
  - apply (struct_ext cx st); try reflexivity. exact (gd_struct _ _ HG).
  - exact (gd_def _ _ HG).
  - exact (gd_ri _ _ HG).
  - exact Hn.
  - exact (gd_cache _ _ HG).
Qed.

Lemma dpush_base : forall st st0 w st', 
  p_stack st0 = p_stack st ->
  firstn (num_rows st) (p_rows st0) = firstn (num_rows st) (p_rows st) ->
  p_bytes st0 = p_bytes st ->
  p_top_eos st0 = p_top_eos st -> (Tidy st -> Tidy st0) -> dpush st0 w st' -> dpush st w st'.
Proof.
  intros st st0 w st' E1 E2 E3 E4 Y0 [G S K B T Y]. constructor.
  - exact G.
  - rewrite <- E1. exact S.
  - rewrite <- E2, <- (num_rows_stack_eq _ _ E1). exact K.
  - rewrite <- E3. exact B.
  - rewrite <- E4. exact T.
  - auto.
Qed.

Lemma apply_bytes_good : forall w st ok st', GoodD st ->
  apply_bytes cx st w = (ok, st') ->
  lim_le st st' /\ (ok = true -> GoodD st' /\ (Tidy st -> Tidy st')).
Proof.
  induction w as [|a w IH]; intros st ok st' HG H.
  - inversion H; subst. split; [apply lim_le_refl|intros _; split; [exact HG|auto]].
  - cbn [apply_bytes] in H.
    destruct (Nat.leb (length (p_bytes st)) (p_applied st)) eqn:Hle.
    + destruct (push_definitive cx st a) as [ok1 st1] eqn:Hpd.
      destruct (push_def_post st a ok1 st1 HG Hpd) as (L1 & D1 & _).
      destruct ok1.
      * destruct (D1 eq_refl) as [Dp Happ].
        assert (HG1 : GoodD (set_applied st1 (S (p_applied st1)))).
        { apply GoodD_set_applied; [exact (dp_good _ _ _ Dp)|].
          rewrite Happ, (dp_bytes _ _ _ Dp), app_length. cbn [length].
          pose proof (gd_app _ _ HG). lia. }
        destruct (IH _ _ _ HG1 H) as [L2 G2]. split.
        -- apply lim_le_trans with st1; [exact L1|].
           apply lim_le_trans with (set_applied st1 (S (p_applied st1))); [|exact L2].
           constructor; psimpl; try reflexivity; auto.
        -- intros Hok. destruct (G2 Hok) as [G T]. split; [exact G|].
           intros HT. apply T. apply (Tidy_ext st1); try reflexivity. exact (dp_tidy _ _ _ Dp HT).
      * inversion H; subst. split; [exact L1|discriminate].
    + apply Nat.leb_gt in Hle.
      destruct (nth_error (p_bytes st) (p_applied st)) as [x|] eqn:Hn.
      * destruct (x =? a)%N.
        -- assert (HG1 : GoodD (set_applied st (S (p_applied st)))) by (apply GoodD_set_applied; [exact HG|lia]).
           destruct (IH _ _ _ HG1 H) as [L2 G2]. split.
           ++ apply lim_le_trans with (set_applied st (S (p_applied st))); [|exact L2].
              constructor; psimpl; try reflexivity; auto.
           ++ intros Hok. destruct (G2 Hok) as [G T]. split; [exact G|].
              intros HT. apply T. apply (Tidy_ext st); try reflexivity. exact HT.
        -- inversion H; subst. split; [apply lim_le_refl|discriminate].
      * inversion H; subst. split; [constructor; psimpl; try reflexivity; auto|discriminate].
Qed.

Lemma prun_abs : forall st a w, GoodD st ->
  prun (abs_stack st) (a :: w) =
  match ppush cx (abs_top st) a with
  | Some f' => prun (f' :: abs_stack st) w
  | None => None
  end.
Proof.
  intros st a w HG. rewrite (abs_top_stack st (good_ne _ HG)) at 1. cbn [prun].
  rewrite <- (abs_top_stack st (good_ne _ HG)). reflexivity.
Qed.

Lemma apply_bytes_spec : forall w st ok st', GoodD st ->
  p_applied st = length (p_bytes st) ->
  apply_bytes cx st w = (ok, st') -> over_limit st' = false ->
  match prun (abs_stack st) w with
  | Some stk' => ok = true /\ abs_stack st' = stk'
  | None => ok = false
  end /\
  (ok = true -> dpush st w st' /\ p_applied st' = length (p_bytes st')).
Proof.
  induction w as [|a w IH]; intros st ok st' HG Happ H Hlim.
  - inversion H; subst. cbn [prun]. split; [split; reflexivity|].
    intros _. split; [apply dpush_refl; exact HG|exact Happ].
  - rewrite (prun_abs st a w HG). cbn [apply_bytes] in H.
    assert (Hle : Nat.leb (length (p_bytes st)) (p_applied st) = true) by (apply Nat.leb_le; lia).
    rewrite Hle in H.
    destruct (push_definitive cx st a) as [ok1 st1] eqn:Hpd.
    destruct (push_def_post st a ok1 st1 HG Hpd) as (L1 & D1 & Sim1).
    destruct ok1.
    + destruct (D1 eq_refl) as [Dp Happ1].
      set (st1' := set_applied st1 (S (p_applied st1))) in *.
      assert (HG1 : GoodD st1').
      { apply GoodD_set_applied; [exact (dp_good _ _ _ Dp)|].
        rewrite Happ1, (dp_bytes _ _ _ Dp), app_length. cbn [length]. lia. }
      assert (Happ1' : p_applied st1' = length (p_bytes st1')).
      { subst st1'. psimpl. rewrite Happ1, (dp_bytes _ _ _ Dp), app_length. cbn [length]. lia. }
      destruct (apply_bytes_good _ _ _ _ HG1 H) as [L2 _].
      assert (Hlim1 : over_limit st1 = false) by exact (lim_le_back _ _ L2 Hlim).
      specialize (Sim1 Hlim1).
      destruct (ppush cx (abs_top st) a) as [f'|]; [|discriminate Sim1].
      destruct Sim1 as [_ Habs1].
      destruct (IH _ _ _ HG1 Happ1' H Hlim) as [Hs Hd].
      change (abs_stack st1') with (abs_stack st1) in Hs. rewrite Habs1 in Hs.
      split; [exact Hs|].
      intros Hok. destruct (Hd Hok) as [Dp2 Happ2]. split; [|exact Happ2].
      change (a :: w) with ([a] ++ w). apply dpush_trans with st1; [exact HG|exact Dp|].
      apply (dpush_base st1 st1'); try reflexivity; [|exact Dp2].
      intros HT. apply (Tidy_ext st1); try reflexivity. exact HT.
    + inversion H; subst ok st'. specialize (Sim1 Hlim).
      destruct (ppush cx (abs_top st) a) as [f'|]; [destruct Sim1; discriminate|].
      split; [reflexivity|discriminate].
Qed.

Definition pre_flush (st : pstate) : pstate :=
  trie_finished (snd (flush_lexer cx (trie_started st))).

Lemma pre_flush_result : forall st, GoodD st -> spec_result st (pre_flush st).
Proof.
  intros st HG. unfold pre_flush.
  destruct (flush_lexer cx (trie_started st)) as [ok s'] eqn:Hf. cbn [snd].
  pose proof (started_spec cx st HG) as HS1.
  pose proof (flush_post_holds cx _ _ _ (iw_struct _ _ _ (so_inv _ _ _ HS1)) Hf) as HP.
  apply finish_result; [exact HG|].
  exact (spec_flush cx _ _ _ _ (good_ne _ HG) HS1 HP).
Qed.

Lemma dpush_assert : forall st w st1, dpush st w st1 -> dpush st w (assert_definitive st1).
Proof.
  intros st w st1 [G S K B T Y]. pose proof (assert_definitive_ctl st1) as C. constructor.
  - apply GoodD_assert. exact G.
  - rewrite assert_stack. exact S.
  - rewrite assert_rows. exact K.
  - rewrite (cl_bytes _ _ C). exact B.
  - rewrite (cl_top_eos _ _ C). exact T.
  - intros HT. rewrite (assert_definitive_good cx st1 G (Y HT)). exact (Y HT).
Qed.

Lemma apply_token_unfold : forall st w,
  apply_token cx st w =
  let '(ok, st1) := apply_bytes cx (if Nat.eqb (p_applied st) (length (p_bytes st))
                                    then pre_flush (assert_definitive st)
                                    else assert_definitive st) w in
  (ok, if ok then assert_definitive st1 else st1).
Proof.
  intros st w. unfold apply_token, pre_flush.
  destruct (assert_cases st) as [E|E]; rewrite E; reflexivity.
Qed.

Lemma apply_token_good : forall st w ok st', GoodD st ->
  apply_token cx st w = (ok, st') ->
  lim_le st st' /\ (ok = true -> GoodD st' /\ (Tidy st -> Tidy st')).
Proof.
  intros st w ok st' HG H. rewrite (apply_token_unfold st w) in H.
  pose proof (GoodD_assert cx st HG) as HGa.
  assert (HTa : Tidy st -> Tidy (assert_definitive st)).
  { intros HT. rewrite (assert_definitive_good cx st HG HT). exact HT. }
  set (st0 := if Nat.eqb (p_applied st) (length (p_bytes st))
              then pre_flush (assert_definitive st) else assert_definitive st) in *.
  assert (HG0 : GoodD st0 /\ lim_le st st0 /\ (Tidy st -> Tidy st0)).
  { subst st0. destruct (Nat.eqb (p_applied st) (length (p_bytes st))).
    - pose proof (pre_flush_result _ HGa) as R. split; [exact (sr_good _ _ R)|]. split.
      + apply lim_le_ctl. exact (ctl_le_trans _ _ _ (assert_definitive_ctl st) (sr_ctl _ _ R)).
      + intros HT. exact (sr_tidy _ _ R (HTa HT)).
    - split; [exact HGa|]. split; [apply lim_le_ctl; apply assert_definitive_ctl|exact HTa]. }
  destruct HG0 as (HG0 & L0 & T0).
  destruct (apply_bytes cx st0 w) as [ok1 st1] eqn:Hab. inversion H; subst ok1 st'. clear H.
  destruct (apply_bytes_good _ _ _ _ HG0 Hab) as [L1 G1].
  destruct ok.
  - destruct (G1 eq_refl) as [G T]. split.
    + apply lim_le_trans with st1; [exact (lim_le_trans _ _ _ L0 L1)|].
      apply lim_le_ctl. apply assert_definitive_ctl.
    + intros _. split; [apply GoodD_assert; exact G|].
      intros HT. rewrite (assert_definitive_good cx st1 G (T (T0 HT))). exact (T (T0 HT)).
  - split; [exact (lim_le_trans _ _ _ L0 L1)|discriminate].
Qed.

Lemma apply_token_sim : forall st w ok st', GoodD st ->
  p_applied st = length (p_bytes st) ->
  apply_token cx st w = (ok, st') -> over_limit st' = false ->
  match prun (abs_stack st) w with
  | Some stk' => ok = true /\ abs_stack st' = stk'
  | None => ok = false
  end /\
  (ok = true -> dpush st w st' /\ p_applied st' = length (p_bytes st')).
Proof.
  intros st w ok st' HG Happ H Hlim. rewrite (apply_token_unfold st w) in H.
  rewrite Happ, Nat.eqb_refl in H.
  pose proof (GoodD_assert cx st HG) as HGa.
  pose proof (assert_definitive_ctl st) as Ca.
  pose proof (pre_flush_result _ HGa) as R. pose proof (sr_good _ _ R) as HG0.
  pose proof (ctl_le_trans _ _ _ Ca (sr_ctl _ _ R)) as C.
  destruct (apply_bytes cx (pre_flush (assert_definitive st)) w) as [ok1 st1] eqn:Hab.
  inversion H; subst ok1 st'. clear H.
  assert (Happ0 : p_applied (pre_flush (assert_definitive st)) = length (p_bytes (pre_flush (assert_definitive st))))
    by (rewrite (cl_applied _ _ C), (cl_bytes _ _ C); exact Happ).
  assert (Hlim1 : over_limit st1 = false).
  { destruct ok; [rewrite assert_limit in Hlim|]; exact Hlim. }
  destruct (apply_bytes_spec _ _ _ _ HG0 Happ0 Hab Hlim1) as [Hs Hd].
  rewrite (sr_abs _ _ R), assert_abs in Hs.
  assert (Habs' : abs_stack (if ok then assert_definitive st1 else st1) = abs_stack st1)
    by (destruct ok; [apply assert_abs|reflexivity]).
  rewrite Habs'. split; [exact Hs|].
  intros Hok. subst ok. destruct (Hd eq_refl) as [Dp Ha].
  pose proof (assert_definitive_ctl st1) as C1.
  split; [|rewrite (cl_applied _ _ C1), (cl_bytes _ _ C1); exact Ha].
  apply dpush_assert.
  apply (dpush_base st (pre_flush (assert_definitive st))).
  - rewrite (sr_stack _ _ R). apply assert_stack.
  - pose proof (sr_keep _ _ R) as K. rewrite assert_num_rows, assert_rows in K. exact K.
  - exact (cl_bytes _ _ C).
  - exact (cl_top_eos _ _ C).
  - intros HT. apply (sr_tidy _ _ R). rewrite (assert_definitive_good cx st HG HT). exact HT.
  - exact Dp.
Qed.

(* ------------------------------------------------------------------------ *)
(* rollback                                                                 *)
(* ------------------------------------------------------------------------ *)
Definition rb_state (st : pstate) (new_len : nat) : pstate :=
  let stk := skipn (length (p_stack st) - (new_len + 1)) (p_stack st) in
  let st1 := mk_pstate (p_rows st) (p_valid_end st) stk (p_definitive st)
                       (firstn new_len (p_bytes st)) new_len (p_row_infos st) false
                       (p_trie_stack st)
                       (if c_rollback_clears_cache cx then None else p_cache st)
                       None (p_items st) (p_max_items st) (p_error st) (p_panic st) in
  let nr := num_rows st1 in
  set_rows (set_row_infos st1 (Nat.min (p_row_infos st1) nr)) (p_rows st1) nr.

Lemma rollback_unfold : forall st n,
  rollback cx st n =
  if p_error st then None else
  if Nat.ltb (p_applied st) n then None else
  Some (assert_definitive (rb_state (assert_definitive st) (p_applied st - n))).
Proof.
  intros st n. unfold rollback. destruct (assert_cases st) as [E|E]; rewrite E; reflexivity.
Qed.

Lemma rb_state_good : forall st new_len, GoodD st -> c_rollback_clears_cache cx = true ->
  new_len <= p_applied st -> GoodD (rb_state st new_len).
Proof.
  intros st new_len HG Hcl Hn. pose proof (gd_struct _ _ HG) as HS.
  pose proof (gd_app _ _ HG) as Happ.
  assert (Hk : length (p_stack st) - (new_len + 1) < length (p_stack st)).
  { pose proof (s_ne _ _ HS) as Hne. destruct (p_stack st); [congruence|]. cbn [length]. lia. }
  pose proof (hd_skipn_le _ _ (s_mono _ _ HS) Hk) as Hhd.
  pose proof (s_top _ _ HS) as Htop. pose proof (s_ve _ _ HS) as Hve.
  unfold num_rows, top in Htop.
  unfold rb_state. cbv zeta. unfold num_rows, top. psimpl.
  constructor; psimpl.
  - constructor; psimpl.
    + apply skipn_nil_iff. exact Hk.
    + apply mono_skipn. exact (s_mono _ _ HS).
    + unfold num_rows, top. psimpl. apply Nat.le_refl.
    + lia.
    + apply rows_valid_le with (p_valid_end st); [lia|exact (s_rows _ _ HS)].
  - exact (gd_def _ _ HG).
  - unfold num_rows, top. psimpl. rewrite (gd_ri _ _ HG). unfold num_rows, top. lia.
  - rewrite firstn_length_le by lia. apply Nat.le_refl.
  - unfold cache_ok. psimpl. rewrite Hcl. exact I.
Qed.

Lemma rb_state_tidy : forall st new_len, GoodD st -> Tidy st ->
  new_len <= p_applied st -> Tidy (rb_state st new_len).
Proof.
  intros st new_len HG HT Hn. pose proof (gd_app _ _ HG) as Happ.
  pose proof (td_len _ HT) as Hlen.
  unfold rb_state. cbv zeta. constructor; psimpl.
  - rewrite skipn_length, firstn_length_le by lia. destruct (p_top_eos st); lia.
  - exact (td_panic _ HT).
Qed.

Record rb_post (st : pstate) (n : nat) (st' : pstate) : Prop := {
  rb_good : GoodD st';
  rb_n : n <= p_applied st;
  rb_stack : p_stack st' = skipn (length (p_stack st) - (p_applied st - n + 1)) (p_stack st);
  rb_rows : p_rows st' = p_rows st;
  rb_bytes : p_bytes st' = firstn (p_applied st - n) (p_bytes st);
  rb_applied : p_applied st' = p_applied st - n;
  rb_top_eos : p_top_eos st' = false;
  rb_cache : p_cache st' = None;
  rb_max : p_max_items st' = p_max_items st;
  rb_error : p_error st' = p_error st;
  rb_error0 : p_error st = false;
  rb_tidy : Tidy st -> Tidy st'
}.

Lemma rollback_good : forall st n st', GoodD st -> c_rollback_clears_cache cx = true ->
  rollback cx st n = Some st' -> rb_post st n st'.
Proof.
  intros st n st' HG Hcl H. rewrite (rollback_unfold st n) in H.
  destruct (p_error st) eqn:He; [discriminate|].
  destruct (Nat.ltb (p_applied st) n) eqn:Hlt; [discriminate|].
  apply Nat.ltb_ge in Hlt.
  pose proof (GoodD_assert cx st HG) as HGa.
  pose proof (assert_definitive_ctl st) as Ca.
  assert (Hn' : p_applied st - n <= p_applied (assert_definitive st))
    by (rewrite (cl_applied _ _ Ca); lia).
  pose proof (rb_state_good _ _ HGa Hcl Hn') as HG'.
  set (s1 := rb_state (assert_definitive st) (p_applied st - n)) in *.
  pose proof (assert_definitive_ctl s1) as C1.
  inversion H; subst st'. clear H.
  assert (Hstk1 : p_stack s1 = skipn (length (p_stack st) - (p_applied st - n + 1)) (p_stack st)).
  { subst s1. unfold rb_state. cbv zeta. psimpl. rewrite assert_stack. reflexivity. }
  constructor.
  - apply GoodD_assert. exact HG'.
  - exact Hlt.
  - rewrite assert_stack. exact Hstk1.
  - rewrite assert_rows. subst s1. unfold rb_state. cbv zeta. psimpl. apply assert_rows.
  - rewrite (cl_bytes _ _ C1). subst s1. unfold rb_state. cbv zeta. psimpl.
    rewrite (cl_bytes _ _ Ca). reflexivity.
  - rewrite (cl_applied _ _ C1). reflexivity.
  - rewrite (cl_top_eos _ _ C1). reflexivity.
  - rewrite (cl_cache _ _ C1). subst s1. unfold rb_state. cbv zeta. psimpl. rewrite Hcl. reflexivity.
  - rewrite (cl_max _ _ C1). subst s1. unfold rb_state. cbv zeta. psimpl. exact (cl_max _ _ Ca).
  - rewrite (cl_error _ _ C1). subst s1. unfold rb_state. cbv zeta. psimpl. exact (cl_error _ _ Ca).
  - exact He.
  - intros HT.
    assert (HTa : Tidy (assert_definitive st))
      by (rewrite (assert_definitive_good cx st HG HT); exact HT).
    assert (HT1 : Tidy s1) by (apply rb_state_tidy; [exact HGa|exact HTa|exact Hn']).
    rewrite (assert_definitive_good cx s1 HG' HT1). exact HT1.
Qed.

Lemma rollback_dpush : forall st w st1 st2, GoodD st -> Tidy st ->
  c_rollback_clears_cache cx = true ->
  p_applied st = length (p_bytes st) -> p_top_eos st = false ->
  dpush st w st1 -> p_applied st1 = length (p_bytes st1) ->
  rollback cx st1 (length w) = Some st2 ->
  GoodD st2 /\ Tidy st2 /\ p_stack st2 = p_stack st /\ abs_stack st2 = abs_stack st /\
  p_bytes st2 = p_bytes st /\ p_applied st2 = p_applied st /\ p_top_eos st2 = false /\
  p_cache st2 = None /\ p_error st2 = false /\ p_max_items st2 = p_max_items st1.
Proof.
  intros st w st1 st2 HG HT Hcl Happ Heos D Happ1 H.
  pose proof (rollback_good st1 (length w) st2 (dp_good _ _ _ D) Hcl H) as R.
  destruct (dp_stack _ _ _ D) as (pushed & Hlp & Hstk).
  assert (Hnl : p_applied st1 - length w = length (p_bytes st)).
  { rewrite Happ1, (dp_bytes _ _ _ D), app_length. lia. }
  assert (Hs2 : p_stack st2 = p_stack st).
  { rewrite (rb_stack _ _ _ R), Hnl, Hstk. apply skipn_app_exact.
    rewrite app_length, (td_len _ HT), Heos. lia. }
  split; [exact (rb_good _ _ _ R)|].
  split; [exact (rb_tidy _ _ _ R (dp_tidy _ _ _ D HT))|]. split; [exact Hs2|]. split.
  { unfold abs_stack. rewrite Hs2.
    apply abs_map_keep with (num_rows st).
    - intros e He. apply (struct_in_range cx); [exact (gd_struct _ _ HG)|exact He].
    - rewrite (rb_rows _ _ _ R). exact (dp_keep _ _ _ D). }
  split.
  { rewrite (rb_bytes _ _ _ R), Hnl, (dp_bytes _ _ _ D).
    rewrite firstn_app, Nat.sub_diag, firstn_all. cbn [firstn]. apply app_nil_r. }
  split; [rewrite (rb_applied _ _ _ R), Hnl, Happ; reflexivity|].
  split; [exact (rb_top_eos _ _ _ R)|]. split; [exact (rb_cache _ _ _ R)|].
  split; [rewrite (rb_error _ _ _ R); exact (rb_error0 _ _ _ R)|exact (rb_max _ _ _ R)].
Qed.

(* ------------------------------------------------------------------------ *)
(* validate_tokens                                                          *)
(* ------------------------------------------------------------------------ *)
Lemma prun_abs_ne : forall s a w, p_stack s <> [] ->
  prun (abs_stack s) (a :: w) =
  match ppush cx (abs_top s) a with
  | Some f' => prun (f' :: abs_stack s) w
  | None => None
  end.
Proof.
  intros s a w Hne. rewrite (abs_top_stack s Hne) at 1. cbn [prun].
  rewrite <- (abs_top_stack s Hne). reflexivity.
Qed.

Lemma validate_bytes_ctl : forall w s applied ok applied' s',
  validate_bytes cx s applied w = (ok, applied', s') -> ctl_le s s'.
Proof.
  induction w as [|b w IH]; intros s applied ok applied' s' H; cbn [validate_bytes] in H.
  - inversion H; subst. apply ctl_le_refl.
  - destruct (Nat.ltb applied (length (p_bytes s))).
    + destruct (nth_error (p_bytes s) applied) as [x|]; [|inversion H; subst; apply ctl_le_refl].
      destruct (x =? b)%N; [exact (IH _ _ _ _ _ H)|inversion H; subst; apply ctl_le_refl].
    + destruct (b =? marker)%N; [inversion H; subst; apply ctl_le_refl|].
      destruct (try_push_byte cx s b) as [ok1 s1] eqn:Htp.
      pose proof (try_push_ctl cx _ _ _ _ Htp) as C1.
      destruct ok1.
      * apply ctl_le_trans with s1; [exact C1|exact (IH _ _ _ _ _ H)].
      * inversion H; subst. exact C1.
Qed.

Lemma validate_bytes_struct : forall w st s applied ok applied' s',
  p_stack st <> [] -> spec_of st s ->
  validate_bytes cx s applied w = (ok, applied', s') -> spec_of st s'.
Proof.
  induction w as [|b w IH]; intros st s applied ok applied' s' Hne HSo H; cbn [validate_bytes] in H.
  - inversion H; subst. exact HSo.
  - destruct (Nat.ltb applied (length (p_bytes s))).
    + destruct (nth_error (p_bytes s) applied) as [x|]; [|inversion H; subst; exact HSo].
      destruct (x =? b)%N; [exact (IH _ _ _ _ _ _ Hne HSo H)|inversion H; subst; exact HSo].
    + destruct (b =? marker)%N; [inversion H; subst; exact HSo|].
      destruct (try_push_byte cx s b) as [ok1 s1] eqn:Htp.
      pose proof (push_byte_post cx _ _ _ _ (iw_struct _ _ _ (so_inv _ _ _ HSo)) Htp) as HP.
      pose proof (spec_push cx _ _ _ _ _ Hne HSo HP) as HSo1.
      destruct ok1; [exact (IH _ _ _ _ _ _ Hne HSo1 H)|inversion H; subst; exact HSo1].
Qed.

Lemma validate_bytes_sim : forall w st s applied ok applied' s',
  p_stack st <> [] -> spec_of st s -> length (p_bytes s) <= applied ->
  validate_bytes cx s applied w = (ok, applied', s') -> over_limit s' = false ->
  applied' = applied /\
  match (if existsb (N.eqb marker) w then None else prun (abs_stack s) w) with
  | Some stk' => ok = true /\ abs_stack s' = stk'
  | None => ok = false
  end.
Proof.
  induction w as [|b w IH]; intros st s applied ok applied' s' Hne HSo Hle H Hlim;
    cbn [validate_bytes] in H.
  - inversion H; subst. cbn [existsb prun]. split; [reflexivity|split; reflexivity].
  - assert (Hlt : Nat.ltb applied (length (p_bytes s)) = false) by (apply Nat.ltb_ge; exact Hle).
    rewrite Hlt in H. cbn [existsb]. rewrite (N.eqb_sym marker b).
    destruct (b =? marker)%N; [inversion H; subst; split; reflexivity|]. cbn [orb].
    destruct (try_push_byte cx s b) as [ok1 s1] eqn:Htp.
    pose proof (iw_struct _ _ _ (so_inv _ _ _ HSo)) as HS.
    pose proof (push_byte_post cx _ _ _ _ HS Htp) as HP.
    pose proof (spec_push cx _ _ _ _ _ Hne HSo HP) as HSo1.
    rewrite (prun_abs_ne s b w (s_ne _ _ HS)).
    destruct ok1.
    + assert (Hlim1 : over_limit s1 = false)
        by exact (lim_back _ _ (validate_bytes_ctl _ _ _ _ _ _ H) Hlim).
      pose proof (push_post_abs cx _ _ _ _ HS HP Hlim1) as Hsim.
      destruct (ppush cx (abs_top s) b) as [f'|]; [|destruct Hsim; discriminate].
      destruct Hsim as [_ Habs1]. rewrite <- Habs1.
      apply (IH st s1 applied ok applied' s' Hne HSo1); try assumption.
      rewrite (cl_bytes _ _ (pp_ctl _ _ _ _ _ HP)). exact Hle.
    + inversion H; subst ok applied' s'.
      pose proof (pp_sim _ _ _ _ _ HP Hlim) as Hsim.
      destruct (ppush cx (abs_top s) b); [destruct Hsim; discriminate|].
      split; [reflexivity|]. destruct (existsb (N.eqb marker) w); reflexivity.
Qed.

(* the speculative flush whose stack entry is dropped again *)
Lemma flush_restore : forall st s ok s2,
  p_stack st <> [] -> spec_of st s -> flush_lexer cx s = (ok, s2) ->
  spec_of st (set_stack s2 (p_stack s)) /\
  abs_stack (set_stack s2 (p_stack s)) = abs_stack s /\
  ctl_le s (set_stack s2 (p_stack s)).
Proof.
  intros st s ok s2 Hne HSo Hf.
  pose proof (iw_struct _ _ _ (so_inv _ _ _ HSo)) as HS.
  pose proof (flush_post_holds cx _ _ _ HS Hf) as HP.
  pose proof (spec_flush cx _ _ _ _ Hne HSo HP) as HSo2.
  destruct (so_stack _ _ _ HSo) as [ex Hex].
  split; [|split].
  - rewrite Hex. destruct (fp_stack _ _ _ _ HP) as [Hs|[fr Hs]].
    + apply (spec_set_stack cx st s2 [] ex HSo2 Hne). rewrite Hs, Hex. reflexivity.
    + apply (spec_set_stack cx st s2 [fr] ex HSo2 Hne). rewrite Hs, Hex. reflexivity.
  - rewrite abs_stack_set_stack. unfold abs_stack.
    apply abs_map_keep with (num_rows s); [|exact (fp_keep _ _ _ _ HP)].
    intros e He. apply (struct_in_range cx); assumption.
  - apply ctl_le_trans with s2; [exact (fp_ctl _ _ _ _ HP)|apply ctl_set_stack].
Qed.

(* the specification of validate_tokens over pure stacks, with prun *)
Fixpoint pval (stk : list pframe) (toks : list tokid) : N :=
  match toks with
  | [] => 0%N
  | t :: toks' =>
      if existsb (N.eqb t) (c_eos cx) then (if p_accepting cx stk then 1 else 0)%N
      else
        let w := decode_raw (c_trie cx) [t] in
        if existsb (N.eqb marker) w then 0%N else
        match prun stk w with
        | Some stk' => (1 + pval stk' toks')%N
        | None => 0%N
        end
  end.

Lemma validate_loop_ctl : forall toks s applied idx n s',
  validate_loop cx s applied toks idx = (n, s') -> ctl_le s s'.
Proof.
  induction toks as [|t toks IH]; intros s applied idx n s' H; cbn [validate_loop] in H.
  - inversion H; subst. apply ctl_le_refl.
  - destruct (existsb (N.eqb t) (c_eos cx)).
    + destruct (Nat.eqb applied (length (p_bytes s))); [|inversion H; subst; apply ctl_le_refl].
      destruct (is_accepting_inner cx s) as [acc s1] eqn:Hi. inversion H; subst.
      exact (acc_inner_ctl cx _ _ _ Hi).
    + match type of H with context [validate_bytes cx ?s0 applied ?w] =>
        set (s0' := s0) in *; destruct (validate_bytes cx s0' applied w) as [[ok applied'] s1] eqn:Hvb end.
      assert (C0 : ctl_le s s0').
      { subst s0'. destruct (Nat.leb (length (p_bytes s)) applied); [|apply ctl_le_refl].
        destruct (flush_lexer cx s) as [okf s2] eqn:Hf. cbn [snd].
        apply ctl_le_trans with s2; [exact (flush_ctl cx _ _ _ Hf)|apply ctl_set_stack]. }
      pose proof (validate_bytes_ctl _ _ _ _ _ _ Hvb) as C1.
      destruct ok.
      * apply ctl_le_trans with s0'; [exact C0|]. apply ctl_le_trans with s1; [exact C1|].
        exact (IH _ _ _ _ _ H).
      * inversion H; subst. exact (ctl_le_trans _ _ _ C0 C1).
Qed.

Lemma validate_loop_struct : forall toks st s applied idx n s',
  p_stack st <> [] -> spec_of st s ->
  validate_loop cx s applied toks idx = (n, s') -> spec_of st s'.
Proof.
  induction toks as [|t toks IH]; intros st s applied idx n s' Hne HSo H; cbn [validate_loop] in H.
  - inversion H; subst. exact HSo.
  - destruct (existsb (N.eqb t) (c_eos cx)).
    + destruct (Nat.eqb applied (length (p_bytes s))); [|inversion H; subst; exact HSo].
      destruct (is_accepting_inner cx s) as [acc s1] eqn:Hi. inversion H; subst.
      exact (proj1 (acc_inner_spec cx _ _ _ _ Hne HSo Hi)).
    + match type of H with context [validate_bytes cx ?s0 applied ?w] =>
        set (s0' := s0) in *; destruct (validate_bytes cx s0' applied w) as [[ok applied'] s1] eqn:Hvb end.
      assert (HSo0 : spec_of st s0').
      { subst s0'. destruct (Nat.leb (length (p_bytes s)) applied); [|exact HSo].
        destruct (flush_lexer cx s) as [okf s2] eqn:Hf. cbn [snd].
        exact (proj1 (flush_restore _ _ _ _ Hne HSo Hf)). }
      pose proof (validate_bytes_struct _ _ _ _ _ _ _ Hne HSo0 Hvb) as HSo1.
      destruct ok; [exact (IH _ _ _ _ _ _ Hne HSo1 H)|inversion H; subst; exact HSo1].
Qed.

Lemma validate_loop_sim : forall toks st s applied idx n s',
  p_stack st <> [] -> spec_of st s -> applied = length (p_bytes s) ->
  validate_loop cx s applied toks idx = (n, s') -> over_limit s' = false ->
  n = (idx + pval (abs_stack s) toks)%N.
Proof.
  induction toks as [|t toks IH]; intros st s applied idx n s' Hne HSo Happ H Hlim;
    cbn [validate_loop] in H; cbn [pval].
  - inversion H; subst. lia.
  - destruct (existsb (N.eqb t) (c_eos cx)).
    + rewrite Happ, Nat.eqb_refl in H.
      destruct (is_accepting_inner cx s) as [acc s1] eqn:Hi. inversion H; subst n s'.
      destruct (acc_inner_spec cx _ _ _ _ Hne HSo Hi) as (_ & _ & _ & Hacc).
      rewrite <- (Hacc Hlim). destruct acc; lia.
    + assert (Hle : Nat.leb (length (p_bytes s)) applied = true) by (apply Nat.leb_le; lia).
      rewrite Hle in H.
      destruct (flush_lexer cx s) as [okf s2] eqn:Hf. cbn [snd] in H.
      destruct (flush_restore _ _ _ _ Hne HSo Hf) as (HSo0 & Habs0 & C0).
      set (s0 := set_stack s2 (p_stack s)) in *.
      set (w := decode_raw (c_trie cx) [t]) in *.
      destruct (validate_bytes cx s0 applied w) as [[ok applied'] s1] eqn:Hvb.
      pose proof (validate_bytes_struct _ _ _ _ _ _ _ Hne HSo0 Hvb) as HSo1.
      pose proof (validate_bytes_ctl _ _ _ _ _ _ Hvb) as C1.
      assert (Hb0 : p_bytes s0 = p_bytes s) by exact (cl_bytes _ _ C0).
      assert (Hle0 : length (p_bytes s0) <= applied) by (rewrite Hb0; lia).
      destruct ok.
      * assert (Hlim1 : over_limit s1 = false)
          by exact (lim_back _ _ (validate_loop_ctl _ _ _ _ _ _ H) Hlim).
        destruct (validate_bytes_sim _ _ _ _ _ _ _ Hne HSo0 Hle0 Hvb Hlim1)
          as [-> Hs].
        rewrite Habs0 in Hs.
        destruct (existsb (N.eqb marker) w); [discriminate Hs|].
        destruct (prun (abs_stack s) w) as [stk'|]; [|discriminate Hs].
        destruct Hs as [_ Habs1].
        rewrite (IH st s1 applied (idx + 1)%N n s' Hne HSo1); try assumption.
        -- rewrite Habs1. lia.
        -- rewrite (cl_bytes _ _ C1), Hb0. exact Happ.
      * inversion H; subst n s'.
        destruct (validate_bytes_sim _ _ _ _ _ _ _ Hne HSo0 Hle0 Hvb Hlim)
          as [_ Hs].
        rewrite Habs0 in Hs.
        destruct (existsb (N.eqb marker) w); [lia|].
        destruct (prun (abs_stack s) w) as [stk'|]; [destruct Hs; discriminate|lia].
Qed.

Lemma validate_tokens_ctl : forall st toks n st',
  validate_tokens cx st toks = (n, st') -> ctl_le st st'.
Proof.
  intros st toks n st' H. unfold validate_tokens in H.
  destruct (validate_loop cx (trie_started (assert_definitive st)) (p_applied (assert_definitive st)) toks 0)
    as [n0 s'] eqn:Hv. inversion H; subst.
  apply ctl_le_trans with (assert_definitive st); [apply assert_definitive_ctl|].
  apply ctl_le_trans with (trie_started (assert_definitive st)); [apply trie_started_ctl|].
  apply ctl_le_trans with s'; [exact (validate_loop_ctl _ _ _ _ _ _ Hv)|apply trie_finished_ctl].
Qed.

Lemma validate_tokens_good : forall st toks n st', GoodD st ->
  validate_tokens cx st toks = (n, st') ->
  spec_result st st' /\
  (p_applied st = length (p_bytes st) -> over_limit st' = false ->
   n = pval (abs_stack st) toks).
Proof.
  intros st toks n st' HG H. unfold validate_tokens in H.
  pose proof (GoodD_assert cx st HG) as HGa. pose proof (assert_definitive_ctl st) as Ca.
  set (sta := assert_definitive st) in *.
  destruct (validate_loop cx (trie_started sta) (p_applied sta) toks 0) as [n0 s'] eqn:Hv.
  inversion H; subst n0 st'. clear H.
  pose proof (started_spec cx sta HGa) as HS1.
  pose proof (validate_loop_struct _ _ _ _ _ _ _ (good_ne _ HGa) HS1 Hv) as HS2.
  split; [apply spec_result_assert; [exact HG|]; apply finish_result; assumption|].
  intros Happ Hlim.
  assert (Happ' : p_applied sta = length (p_bytes (trie_started sta))).
  { rewrite (cl_bytes _ _ (trie_started_ctl sta)), (cl_applied _ _ Ca), (cl_bytes _ _ Ca). exact Happ. }
  rewrite (validate_loop_sim _ _ _ _ _ _ _ (good_ne _ HGa) HS1 Happ' Hv
             (lim_back _ _ (trie_finished_ctl s') Hlim)).
  rewrite (abs_stack_started sta). subst sta. rewrite assert_abs. lia.
Qed.

(* ------------------------------------------------------------------------ *)
(* scan_eos                                                                 *)
(* ------------------------------------------------------------------------ *)
Lemma GoodD_flush_def : forall st ok st1, GoodD st -> flush_lexer cx st = (ok, st1) ->
  GoodD st1 /\ ctl_le st st1 /\
  (p_stack st1 = p_stack st \/ exists fr, p_stack st1 = fr :: p_stack st) /\
  p_panic st1 = p_panic st /\ (ok = false -> st1 = st).
Proof.
  intros st ok st1 HG Hf. pose proof (gd_struct _ _ HG) as HS.
  pose proof (flush_post_holds cx _ _ _ HS Hf) as HP.
  pose proof (fp_ctl _ _ _ _ HP) as C. pose proof (fp_mode _ _ _ _ HP) as M.
  pose proof (fp_struct _ _ _ _ HP) as HS1.
  split; [|split; [exact C|split; [exact (fp_stack _ _ _ _ HP)|split; [exact (me_panic _ _ M)|exact (fp_fail _ _ _ _ HP)]]]].
  constructor.
  - exact HS1.
  - rewrite (me_def _ _ M). exact (gd_def _ _ HG).
  - apply (fp_ri_def _ _ _ _ HP); [exact (gd_def _ _ HG)|exact (gd_ri _ _ HG)].
  - rewrite (cl_bytes _ _ C), (cl_applied _ _ C). exact (gd_app _ _ HG).
  - apply (cache_ok_keep cx st).
    + exact (cl_cache _ _ C).
    + assert (Hin : In (top st) (p_stack st1)).
      { destruct (fp_stack _ _ _ _ HP) as [E|[fr E]]; rewrite E; [|right]; apply top_in; exact (s_ne _ _ HS). }
      exact (mono_top _ _ (s_mono _ _ HS1) Hin).
    + exact (fp_keep _ _ _ _ HP).
    + exact (gd_cache _ _ HG).
Qed.

Definition set_top_eos (st1 : pstate) : pstate :=
  mk_pstate (p_rows st1) (p_valid_end st1) (p_stack st1) (p_definitive st1)
            (p_bytes st1) (p_applied st1) (p_row_infos st1) true (p_trie_stack st1)
            (p_cache st1) (p_last_force st1) (p_items st1) (p_max_items st1)
            (p_error st1) (p_panic st1).

Lemma scan_eos_unfold : forall st,
  scan_eos cx st =
  let sta := assert_definitive st in
  let '(ok, st1) := flush_lexer cx sta in
  if negb ok then (false, st1) else
  (false, assert_definitive (if Nat.eqb (length (p_stack st1)) (length (p_stack sta))
                             then st1 else set_top_eos st1)).
Proof. reflexivity. Qed.

Lemma flush_no_pending : forall st, has_pending st = false -> flush_lexer cx st = (true, st).
Proof. intros st H. unfold flush_lexer. rewrite H. reflexivity. Qed.

Lemma scan_eos_good : forall st b st', GoodD st -> scan_eos cx st = (b, st') ->
  GoodD st' /\ lim_le st st' /\
  (p_top_eos st = false \/ has_pending st = false -> Tidy st -> Tidy st').
Proof.
  intros st b st' HG H. rewrite scan_eos_unfold in H. cbv zeta in H.
  pose proof (GoodD_assert cx st HG) as HGa. pose proof (assert_definitive_ctl st) as Ca.
  destruct (flush_lexer cx (assert_definitive st)) as [ok st1] eqn:Hf.
  destruct (GoodD_flush_def _ _ _ HGa Hf) as (HG1 & C1 & Hstk & Hpan & Hfail).
  destruct ok; cbn [negb] in H; inversion H; subst b st'; clear H.
  2:{ rewrite (Hfail eq_refl). split; [exact HGa|]. split; [apply lim_le_ctl; exact Ca|].
      intros _ HT. rewrite (assert_definitive_good cx st HG HT). exact HT. }
  set (st2 := if Nat.eqb (length (p_stack st1)) (length (p_stack (assert_definitive st)))
              then st1 else set_top_eos st1) in *.
  assert (HG2 : GoodD st2).
  { subst st2. destruct (Nat.eqb (length (p_stack st1)) (length (p_stack (assert_definitive st)))); [exact HG1|].
    apply (GoodD_ext cx st1); try reflexivity. exact HG1. }
  assert (C2 : lim_le st1 st2).
  { subst st2. destruct (Nat.eqb (length (p_stack st1)) (length (p_stack (assert_definitive st)))); [apply lim_le_refl|].
    constructor; cbn [set_top_eos p_max_items p_error p_items p_panic]; try reflexivity; auto. }
  split; [apply GoodD_assert; exact HG2|]. split.
  { apply lim_le_trans with st1; [apply lim_le_ctl; exact (ctl_le_trans _ _ _ Ca C1)|].
    apply lim_le_trans with st2; [exact C2|]. apply lim_le_ctl. apply assert_definitive_ctl. }
  intros Hcond HT. pose proof (assert_definitive_good cx st HG HT) as Ea.
  rewrite Ea in *.
  assert (HT2 : Tidy st2).
  { destruct Hcond as [Heos|Hnp].
    - subst st2. rewrite Ea. destruct Hstk as [E|[fr E]].
      + rewrite E, Nat.eqb_refl. apply (Tidy_ext st); try assumption.
        * exact (cl_bytes _ _ C1).
        * exact (cl_top_eos _ _ C1).
      + assert (Hneq : Nat.eqb (length (p_stack st1)) (length (p_stack st)) = false)
          by (apply Nat.eqb_neq; rewrite E; cbn [length]; lia).
        rewrite Hneq. constructor; cbn [set_top_eos p_stack p_bytes p_top_eos p_panic].
        * rewrite E, (cl_bytes _ _ C1). cbn [length]. rewrite (td_len _ HT), Heos. lia.
        * rewrite Hpan. exact (td_panic _ HT).
    - rewrite (flush_no_pending st Hnp) in Hf. inversion Hf; subst st1.
      subst st2. rewrite Ea, Nat.eqb_refl. exact HT. }
  rewrite (assert_definitive_good cx st2 HG2 HT2). exact HT2.
Qed.

(* ------------------------------------------------------------------------ *)
(* force_bytes                                                              *)
(* ------------------------------------------------------------------------ *)
Definition fb_step : bytes * pstate -> byte -> bytes * pstate :=
  fun '(found, s) b =>
    let '(ok, s1) := try_push_byte cx s b in
    if ok then (b :: found, pop_bytes s1 1) else (found, s1).

Lemma forced_byte_unfold : forall st,
  forced_byte cx st =
  let '(acc, st1) := is_accepting cx st in
  if acc then (None, st1) else
  let '(found, s') := fold_left fb_step (seqN 0 256) ([], trie_started st1) in
  (match found with [b] => Some b | _ => None end, trie_finished s').
Proof. reflexivity. Qed.

Lemma fb_fold_ctl : forall l found s found' s',
  fold_left fb_step l (found, s) = (found', s') -> ctl_le s s'.
Proof.
  induction l as [|b l IH]; intros found s found' s' H; cbn [fold_left] in H.
  - inversion H; subst. apply ctl_le_refl.
  - unfold fb_step at 2 in H.
    destruct (try_push_byte cx s b) as [ok s1] eqn:Htp.
    pose proof (try_push_ctl cx _ _ _ _ Htp) as C1.
    destruct ok.
    + apply ctl_le_trans with s1; [exact C1|].
      apply ctl_le_trans with (pop_bytes s1 1); [apply pop_ctl|exact (IH _ _ _ _ H)].
    + apply ctl_le_trans with s1; [exact C1|exact (IH _ _ _ _ H)].
Qed.

Lemma fb_fold_good : forall l st found s found' s', GoodD st ->
  spec_of st s -> p_stack s = p_stack st ->
  fold_left fb_step l (found, s) = (found', s') ->
  spec_of st s' /\ p_stack s' = p_stack st /\
  (over_limit s' = false ->
   (forall b, In b found -> ppush cx (abs_top st) b <> None) ->
   forall b, In b found' -> ppush cx (abs_top st) b <> None).
Proof.
  induction l as [|b l IH]; intros st found s found' s' HG HSo Hstk H; cbn [fold_left] in H.
  - inversion H; subst. split; [exact HSo|]. split; [exact Hstk|]. intros _ Hf. exact Hf.
  - unfold fb_step at 2 in H.
    destruct (try_push_byte cx s b) as [ok s1] eqn:Htp.
    pose proof (iw_struct _ _ _ (so_inv _ _ _ HSo)) as HS.
    pose proof (push_byte_post cx _ _ _ _ HS Htp) as HP.
    pose proof (spec_push cx _ _ _ _ _ (good_ne _ HG) HSo HP) as HSo1.
    assert (Htop : abs_top s = abs_top st).
    { unfold abs_top. rewrite (top_stack_eq _ _ Hstk).
      apply abs_frame_keep with (num_rows st); [|exact (so_keep _ _ _ HSo)].
      unfold num_rows. lia. }
    destruct ok.
    + destruct (pp_stack _ _ _ _ _ HP) as [fr Hs1]. rewrite Hstk in Hs1.
      assert (Hpop : pop_bytes s1 1 = set_stack s1 (p_stack st)).
      { unfold pop_bytes. rewrite Hs1. reflexivity. }
      rewrite Hpop in H.
      assert (HSo2 : spec_of st (set_stack s1 (p_stack st))).
      { apply (spec_set_stack cx st s1 [fr] [] HSo1 (good_ne _ HG)). rewrite Hs1. reflexivity. }
      destruct (IH st (b :: found) _ found' s' HG HSo2 eq_refl H) as (R1 & R2 & R3).
      split; [exact R1|]. split; [exact R2|].
      intros Hlim Hf. apply (R3 Hlim). intros b0 [<-|Hb0]; [|exact (Hf _ Hb0)].
      assert (Hlim1 : over_limit s1 = false)
        by exact (lim_back _ _ (ctl_le_trans _ _ _ (ctl_set_stack s1 (p_stack st)) (fb_fold_ctl _ _ _ _ _ H)) Hlim).
      pose proof (pp_sim _ _ _ _ _ HP Hlim1) as Hsim. rewrite Htop in Hsim.
      destruct (ppush cx (abs_top st) b); [discriminate|discriminate Hsim].
    + pose proof (pp_stack _ _ _ _ _ HP) as Hs1. rewrite Hstk in Hs1.
      exact (IH st found s1 found' s' HG HSo1 Hs1 H).
Qed.

Lemma forced_byte_ctl : forall st ob st', forced_byte cx st = (ob, st') -> ctl_le st st'.
Proof.
  intros st ob st' H. rewrite forced_byte_unfold in H.
  destruct (is_accepting cx st) as [acc st1] eqn:Hacc.
  pose proof (is_accepting_ctl cx _ _ _ Hacc) as C1.
  destruct acc; [inversion H; subst; exact C1|].
  destruct (fold_left fb_step (seqN 0 256) ([], trie_started st1)) as [found s'] eqn:Hfold.
  inversion H; subst.
  apply ctl_le_trans with st1; [exact C1|].
  apply ctl_le_trans with (trie_started st1); [apply trie_started_ctl|].
  apply ctl_le_trans with s'; [exact (fb_fold_ctl _ _ _ _ _ Hfold)|apply trie_finished_ctl].
Qed.

Lemma forced_byte_good : forall st ob st', GoodD st -> forced_byte cx st = (ob, st') ->
  spec_result st st' /\
  (over_limit st' = false -> forall b, ob = Some b -> ppush cx (abs_top st) b <> None).
Proof.
  intros st ob st' HG H. rewrite forced_byte_unfold in H.
  destruct (is_accepting cx st) as [acc st1] eqn:Hacc.
  destruct (is_accepting_good st acc st1 HG Hacc) as [R1 _].
  destruct acc; [inversion H; subst; split; [exact R1|intros _ b Hb; discriminate Hb]|].
  destruct (fold_left fb_step (seqN 0 256) ([], trie_started st1)) as [found s'] eqn:Hfold.
  inversion H; subst ob st'. clear H.
  pose proof (sr_good _ _ R1) as HG1.
  pose proof (started_spec cx st1 HG1) as HS1.
  assert (Hstk1 : p_stack (trie_started st1) = p_stack st1).
  { rewrite trie_started_eq. apply assert_stack. }
  destruct (fb_fold_good _ st1 [] _ found s' HG1 HS1 Hstk1 Hfold) as (HS2 & _ & Hfound).
  pose proof (finish_result st1 s' HG1 HS2) as R2.
  split; [exact (spec_result_trans _ _ _ R1 R2)|].
  intros Hlim b Hb.
  assert (Htop : abs_top st1 = abs_top st).
  { pose proof (sr_abs _ _ R1) as A.
    rewrite (abs_top_stack st1 (good_ne _ HG1)), (abs_top_stack st (good_ne _ HG)) in A. congruence. }
  rewrite <- Htop. apply Hfound.
  - exact (lim_back _ _ (trie_finished_ctl s') Hlim).
  - intros b0 [].
  - destruct found as [|b1 [|b2 l]]; try discriminate Hb. inversion Hb; subst. left. reflexivity.
Qed.

Lemma push_definitive_lim : forall st b ok st', push_definitive cx st b = (ok, st') -> lim_le st st'.
Proof.
  intros st b ok st' H. unfold push_definitive in H.
  destruct (try_push_byte cx st b) as [ok1 s1] eqn:Htp.
  pose proof (try_push_ctl cx _ _ _ _ Htp) as C.
  destruct ok1; inversion H; subst; [|apply lim_le_ctl; exact C].
  destruct C. constructor; psimpl; assumption.
Qed.

Lemma force_loop_unfold : forall f st,
  force_loop (S f) cx st =
  let '(ob, st1) := forced_byte cx st in
  match ob with
  | None => st1
  | Some b =>
      let st1 := set_items st1 (p_items st1 + 1)%N in
      if over_limit st1 then st1 else
      if (b =? marker)%N then st1 else
      let '(ok, st2) := push_definitive cx st1 b in
      if ok then force_loop f cx st2 else st2
  end.
Proof. reflexivity. Qed.

Lemma set_items_lim : forall st, lim_le st (set_items st (p_items st + 1)%N).
Proof. intros st. constructor; psimpl; try reflexivity; [lia|auto]. Qed.

Lemma force_loop_lim : forall fuel st, lim_le st (force_loop fuel cx st).
Proof.
  induction fuel as [|f IH]; intros st; [apply lim_le_refl|].
  rewrite force_loop_unfold.
  destruct (forced_byte cx st) as [ob st1] eqn:Hfb.
  pose proof (lim_le_ctl _ _ (forced_byte_ctl _ _ _ Hfb)) as L1.
  destruct ob as [b|]; [|exact L1]. cbv zeta.
  pose proof (lim_le_trans _ _ _ L1 (set_items_lim st1)) as L2.
  destruct (over_limit (set_items st1 (p_items st1 + 1)%N)); [exact L2|].
  destruct (b =? marker)%N; [exact L2|].
  destruct (push_definitive cx (set_items st1 (p_items st1 + 1)%N) b) as [ok st2] eqn:Hpd.
  pose proof (lim_le_trans _ _ _ L2 (push_definitive_lim _ _ _ _ Hpd)) as L3.
  destruct ok; [exact (lim_le_trans _ _ _ L3 (IH st2))|exact L3].
Qed.

Lemma force_loop_good : forall fuel st, GoodD st ->
  over_limit (force_loop fuel cx st) = false ->
  GoodD (force_loop fuel cx st) /\ (Tidy st -> Tidy (force_loop fuel cx st)).
Proof.
  induction fuel as [|f IH]; intros st HG Hlim; [split; [exact HG|auto]|].
  rewrite force_loop_unfold in *.
  destruct (forced_byte cx st) as [ob st1] eqn:Hfb.
  destruct (forced_byte_good st ob st1 HG Hfb) as [R1 Hforced].
  pose proof (sr_good _ _ R1) as HG1.
  destruct ob as [b|]; [|split; [exact HG1|exact (sr_tidy _ _ R1)]].
  cbv zeta in *.
  set (st1' := set_items st1 (p_items st1 + 1)%N) in *.
  assert (HG1' : GoodD st1') by (apply (GoodD_ext cx st1); try reflexivity; exact HG1).
  assert (HT1' : Tidy st -> Tidy st1').
  { intros HT. apply (Tidy_ext st1); try reflexivity. exact (sr_tidy _ _ R1 HT). }
  destruct (over_limit st1') eqn:Hol; [split; assumption|].
  destruct (b =? marker)%N; [split; assumption|].
  destruct (push_definitive cx st1' b) as [ok st2] eqn:Hpd.
  destruct (push_def_post st1' b ok st2 HG1' Hpd) as (L2 & D2 & Sim2).
  destruct ok.
  - destruct (D2 eq_refl) as [Dp _].
    destruct (IH st2 (dp_good _ _ _ Dp) Hlim) as [G T]. split; [exact G|].
    intros HT. apply T. exact (dp_tidy _ _ _ Dp (HT1' HT)).
  - exfalso. specialize (Sim2 Hlim).
    assert (Hlim1 : over_limit st1 = false).
    { apply (lim_le_back st1 st1'); [apply set_items_lim|exact Hol]. }
    assert (Htop : abs_top st1' = abs_top st).
    { change (abs_top st1') with (abs_top st1). pose proof (sr_abs _ _ R1) as A.
      rewrite (abs_top_stack st1 (good_ne _ HG1)), (abs_top_stack st (good_ne _ HG)) in A. congruence. }
    rewrite Htop in Sim2. pose proof (Hforced Hlim1 b eq_refl) as Hne.
    destruct (ppush cx (abs_top st) b); [destruct Sim2; discriminate|congruence].
Qed.

Opaque force_fuel.

Definition force_body (sta : pstate) : pstate :=
  let '(_, st1) := with_limit cx sta (fun s => (tt, force_loop force_fuel cx s)) in
  let st2 := assert_definitive st1 in
  set_last_force st2 (Some (length (p_bytes st2))).

Lemma force_bytes_unfold : forall st,
  force_bytes cx st =
  let sta := assert_definitive st in
  match p_last_force sta with
  | Some n => if Nat.eqb n (length (p_bytes sta)) then sta else force_body sta
  | None => force_body sta
  end.
Proof. reflexivity. Qed.

Lemma force_body_eq : forall sta,
  force_body sta =
  let st0 := set_lim sta (Some (p_items sta + c_max_items cx)%N) (p_error sta) in
  let r := force_loop force_fuel cx st0 in
  let st1 := set_lim r None (p_error r || over_limit r) in
  let st2 := assert_definitive st1 in
  set_last_force st2 (Some (length (p_bytes st2))).
Proof. reflexivity. Qed.

Lemma force_body_good : forall sta, GoodD sta -> p_error (force_body sta) = false ->
  GoodD (force_body sta) /\ (Tidy sta -> Tidy (force_body sta)) /\
  p_max_items (force_body sta) = None.
Proof.
  intros sta HG Herr. rewrite force_body_eq in *. cbv zeta in *.
  set (st0 := set_lim sta (Some (p_items sta + c_max_items cx)%N) (p_error sta)) in *.
  set (r := force_loop force_fuel cx st0) in *.
  set (st1 := set_lim r None (p_error r || over_limit r)) in *.
  pose proof (assert_definitive_ctl st1) as C1.
  assert (He1 : p_error st1 = false).
  { psimpl in Herr. rewrite (cl_error _ _ C1) in Herr. exact Herr. }
  assert (Hlim : over_limit r = false).
  { subst st1. qsimpl in He1. apply orb_false_iff in He1. exact (proj2 He1). }
  assert (HG0 : GoodD st0) by (apply GoodD_set_lim; exact HG).
  destruct (force_loop_good force_fuel st0 HG0 Hlim) as [HGr HTr]. fold r in HGr, HTr.
  assert (HG1 : GoodD st1) by (apply GoodD_set_lim; exact HGr).
  pose proof (GoodD_assert cx st1 HG1) as HG2.
  split; [|split].
  - apply (GoodD_ext cx (assert_definitive st1)); try reflexivity. exact HG2.
  - intros HT.
    assert (HT0 : Tidy st0) by (apply (Tidy_ext sta); try reflexivity; exact HT).
    assert (HT1 : Tidy st1) by (apply (Tidy_ext r); try reflexivity; exact (HTr HT0)).
    apply (Tidy_ext (assert_definitive st1)); try reflexivity.
    rewrite (assert_definitive_good cx st1 HG1 HT1). exact HT1.
  - psimpl. rewrite (cl_max _ _ C1). reflexivity.
Qed.

Lemma force_body_mono : forall sta,
  (p_error sta = true -> p_error (force_body sta) = true) /\
  (p_panic sta = true -> p_panic (force_body sta) = true).
Proof.
  intros sta. rewrite force_body_eq. cbv zeta.
  set (st0 := set_lim sta (Some (p_items sta + c_max_items cx)%N) (p_error sta)).
  pose proof (force_loop_lim force_fuel st0) as L.
  set (r := force_loop force_fuel cx st0) in *.
  set (st1 := set_lim r None (p_error r || over_limit r)).
  pose proof (assert_definitive_ctl st1) as C1.
  split; intros H; psimpl.
  - rewrite (cl_error _ _ C1). subst st1. qsimpl. rewrite (ll_error _ _ L). subst st0. qsimpl.
    rewrite H. reflexivity.
  - apply (cl_panic _ _ C1). subst st1. qsimpl. apply (ll_panic _ _ L). exact H.
Qed.

Lemma force_bytes_good : forall st, GoodD st -> p_max_items st = None ->
  p_error (force_bytes cx st) = false ->
  GoodD (force_bytes cx st) /\ (Tidy st -> Tidy (force_bytes cx st)) /\
  p_max_items (force_bytes cx st) = None.
Proof.
  intros st HG Hmax Herr. rewrite force_bytes_unfold in *. cbv zeta in *.
  pose proof (GoodD_assert cx st HG) as HGa. pose proof (assert_definitive_ctl st) as Ca.
  assert (HTa : Tidy st -> Tidy (assert_definitive st)).
  { intros HT. rewrite (assert_definitive_good cx st HG HT). exact HT. }
  assert (Hbody : p_error (force_body (assert_definitive st)) = false ->
                  GoodD (force_body (assert_definitive st)) /\
                  (Tidy st -> Tidy (force_body (assert_definitive st))) /\
                  p_max_items (force_body (assert_definitive st)) = None).
  { intros He. destruct (force_body_good _ HGa He) as (G & T & M). split; [exact G|]. split; [auto|exact M]. }
  destruct (p_last_force (assert_definitive st)) as [n|]; [|exact (Hbody Herr)].
  destruct (Nat.eqb n (length (p_bytes (assert_definitive st)))); [|exact (Hbody Herr)].
  split; [exact HGa|]. split; [exact HTa|]. rewrite (cl_max _ _ Ca). exact Hmax.
Qed.

Lemma force_bytes_mono : forall st,
  (p_error st = true -> p_error (force_bytes cx st) = true) /\
  (p_panic st = true -> p_panic (force_bytes cx st) = true).
Proof.
  intros st. rewrite force_bytes_unfold. cbv zeta.
  pose proof (assert_definitive_ctl st) as Ca.
  destruct (force_body_mono (assert_definitive st)) as [B1 B2].
  assert (Hb : (p_error st = true -> p_error (force_body (assert_definitive st)) = true) /\
               (p_panic st = true -> p_panic (force_body (assert_definitive st)) = true)).
  { split; intros H; [apply B1; rewrite (cl_error _ _ Ca); exact H|apply B2; exact (cl_panic _ _ Ca H)]. }
  destruct (p_last_force (assert_definitive st)) as [n|]; [|exact Hb].
  destruct (Nat.eqb n (length (p_bytes (assert_definitive st)))); [|exact Hb].
  split; intros H; [rewrite (cl_error _ _ Ca); exact H|exact (cl_panic _ _ Ca H)].
Qed.

(* ------------------------------------------------------------------------ *)
(* compute_bias with a non-empty start prefix; monotonicity of the flags     *)
(* ------------------------------------------------------------------------ *)
Lemma add_biasM_ctl : forall tr r toks start r' toks',
  add_biasM pstate (try_push_byte cx) pop_bytes trie_started trie_finished tr r toks start = (r', toks') ->
  ctl_le r r'.
Proof.
  intros tr r toks start r' toks' H.
  apply (add_biasM_rel pstate (try_push_byte cx) pop_bytes trie_started trie_finished ctl_le
           ctl_le_refl ctl_le_trans (try_push_ctl cx) pop_ctl trie_started_ctl trie_finished_ctl
           _ _ _ _ _ _ H).
Qed.

Lemma compute_bias_cons : forall st b w,
  compute_bias cx st (b :: w) =
  let '((st1, set1), st2) :=
    with_limit cx st (fun s =>
      let '(s', toks) := add_biasM pstate (try_push_byte cx) pop_bytes trie_started trie_finished
                                   (c_trie cx) s (alloc_token_set (c_trie cx)) (b :: w) in
      ((s', toks), s')) in
  (match c_marker_tok cx with Some t => disallow_token set1 t | None => set1 end, st2).
Proof. reflexivity. Qed.

Lemma compute_bias_start_good : forall st b w m st', GoodD st ->
  compute_bias cx st (b :: w) = (m, st') -> p_error st' = false ->
  GoodD st' /\ (Tidy st -> Tidy st') /\ p_max_items st' = None.
Proof.
  intros st b w m st' HG H Herr. rewrite compute_bias_cons, with_limit_eq in H.
  set (st0 := set_lim st (Some (p_items st + c_max_items cx)%N) (p_error st)) in *.
  rewrite Htrie in H.
  destruct (add_biasM pstate (try_push_byte cx) pop_bytes trie_started trie_finished
              (trie_from ws) st0 (alloc_token_set (trie_from ws)) (b :: w)) as [r' toks'] eqn:Hab.
  cbv beta iota zeta in H. inversion H; subst m st'. clear H.
  qsimpl in Herr. apply orb_false_iff in Herr. destruct Herr as [_ Hlim].
  assert (HG0 : GoodD st0) by (apply GoodD_set_lim; exact HG).
  pose proof (started_spec cx st0 HG0) as HS1.
  assert (Hr' : GoodD r' /\ (Tidy st0 -> Tidy r')).
  { destruct (add_biasM_start_lim pstate (try_push_byte cx) pop_bytes pframe (ppush cx) abs_stack
                (InvW st0) (fun r => over_limit r = false)
                (walk_pop_abs st0) (fun r n H => H) walk_push_lim (walk_push_abs st0)
                trie_started trie_finished ws st0 (abs_top st0) (tl (abs_stack st0))
                (alloc_token_set (trie_from ws)) (b :: w) r' toks')
      as [->|(r1 & extra & -> & HI1 & Habs1)].
    - discriminate.
    - exact (so_inv _ _ _ HS1).
    - rewrite (abs_stack_started st0). apply abs_top_stack. exact (good_ne _ HG0).
    - exact Hab.
    - intros r1 ->. exact (lim_back _ _ (trie_finished_ctl r1) Hlim).
    - split; [exact HG0|auto].
    - rewrite <- (abs_top_stack st0 (good_ne _ HG0)) in Habs1.
      pose proof (abs_suffix_spec cx st0 r1 extra (gd_struct _ _ HG0) HI1 Habs1) as HSo.
      pose proof (finish_result st0 r1 HG0 HSo) as R.
      split; [exact (sr_good _ _ R)|exact (sr_tidy _ _ R)]. }
  destruct Hr' as [HGr HTr].
  split; [apply GoodD_set_lim; exact HGr|]. split; [|reflexivity].
  intros HT. apply (Tidy_ext r'); try reflexivity. apply HTr.
  apply (Tidy_ext st); try reflexivity. exact HT.
Qed.

Record flags_le (st st' : pstate) : Prop := {
  fl_error : p_error st = true -> p_error st' = true;
  fl_panic : p_panic st = true -> p_panic st' = true
}.

Lemma flags_le_ctl : forall st st', ctl_le st st' -> flags_le st st'.
Proof. intros st st' C. constructor; [rewrite (cl_error _ _ C); auto|exact (cl_panic _ _ C)]. Qed.

Lemma flags_le_lim : forall st st', lim_le st st' -> flags_le st st'.
Proof. intros st st' C. constructor; [rewrite (ll_error _ _ C); auto|exact (ll_panic _ _ C)]. Qed.

Lemma flags_le_refl : forall st, flags_le st st.
Proof. intros. constructor; auto. Qed.

Lemma flags_le_trans : forall a b c, flags_le a b -> flags_le b c -> flags_le a c.
Proof. intros a b c [] []. constructor; auto. Qed.

Lemma with_limit_add_bias_flags : forall st start r' toks',
  add_biasM pstate (try_push_byte cx) pop_bytes trie_started trie_finished (c_trie cx)
            (set_lim st (Some (p_items st + c_max_items cx)%N) (p_error st))
            (alloc_token_set (c_trie cx)) start = (r', toks') ->
  flags_le st (set_lim r' None (p_error r' || over_limit r')).
Proof.
  intros st start r' toks' H. pose proof (add_biasM_ctl _ _ _ _ _ _ H) as C.
  constructor; qsimpl; intros Hf.
  - rewrite (cl_error _ _ C). qsimpl. rewrite Hf. reflexivity.
  - apply (cl_panic _ _ C). exact Hf.
Qed.

Lemma compute_bias_flags : forall st start m st',
  compute_bias cx st start = (m, st') -> flags_le st st'.
Proof.
  intros st start m st' H. destruct start as [|b w].
  - rewrite compute_bias_nil in H. destruct (cache_probe st).
    + inversion H; subst. apply flags_le_refl.
    + unfold bias_miss in H. rewrite with_limit_eq in H.
      match type of H with context [add_biasM ?a ?b ?c ?d ?e ?f ?g ?h ?i] =>
        destruct (add_biasM a b c d e f g h i) as [r' toks'] eqn:Hab end.
      cbv beta iota zeta in H.
      pose proof (with_limit_add_bias_flags _ _ _ _ Hab) as F1.
      set (st2 := set_lim r' None (p_error r' || over_limit r')) in *.
      destruct (flush_lexer cx (trie_started st2)) as [ok s'] eqn:Hf.
      inversion H; subst m st'. clear H.
      apply flags_le_trans with st2; [exact F1|].
      apply flags_le_trans with (trie_finished s').
      * apply flags_le_ctl. apply ctl_le_trans with (trie_started st2); [apply trie_started_ctl|].
        apply ctl_le_trans with s'; [exact (flush_ctl cx _ _ _ Hf)|apply trie_finished_ctl].
      * constructor; psimpl; auto.
  - rewrite compute_bias_cons, with_limit_eq in H.
    match type of H with context [add_biasM ?a ?b ?c ?d ?e ?f ?g ?h ?i] =>
      destruct (add_biasM a b c d e f g h i) as [r' toks'] eqn:Hab end.
    cbv beta iota zeta in H. inversion H; subst m st'.
    exact (with_limit_add_bias_flags _ _ _ _ Hab).
Qed.

(* a state that passed assert_definitive without panic is tidy *)
Lemma tidy_of_assert : forall s, p_panic (assert_definitive s) = false -> Tidy (assert_definitive s).
Proof.
  intros s H. unfold assert_definitive in *. destruct (definitive_ok s) eqn:Hd.
  - unfold definitive_ok in Hd. apply andb_true_iff in Hd as [_ Hlen]. apply Nat.eqb_eq in Hlen.
    constructor; assumption.
  - discriminate H.
Qed.

Lemma scan_eos_tidy : forall st b st', GoodD st -> Tidy st -> scan_eos cx st = (b, st') ->
  p_panic st' = false -> Tidy st'.
Proof.
  intros st b st' HG HT H Hp. rewrite scan_eos_unfold in H. cbv zeta in H.
  destruct (flush_lexer cx (assert_definitive st)) as [ok st1] eqn:Hf.
  destruct ok; cbn [negb] in H; inversion H; subst b st'; clear H.
  - apply tidy_of_assert. exact Hp.
  - pose proof (GoodD_assert cx st HG) as HGa.
    destruct (GoodD_flush_def _ _ _ HGa Hf) as (_ & _ & _ & _ & Hfail).
    rewrite (Hfail eq_refl). rewrite (assert_definitive_good cx st HG HT). exact HT.
Qed.
End Ops.
