(* Run15.v — case runner for C15: the specification language (all lexeme sequences
   up to a bound) of the grammar produced by the front end, to be compared with
   the language of the implementation's optimised grammar. *)
From Coq Require Import String.
From LLG Require Import Base Sx Regex Lexer Earley RunEngine Optimize.
Open Scope string_scope.
Open Scope N_scope.

Definition seq_eqb (a b : list N) : bool := list_eqb N.eqb a b.
Definition add_seq (l : list (list N)) (w : list N) : list (list N) :=
  if existsb (seq_eqb w) l then l else l ++ [w].

(* concatenation of languages, truncated at bound *)
Definition cat_langs (bound : nat) (a b : list (list N)) : list (list N) :=
  fold_left (fun acc x => fold_left (fun acc y =>
                             if Nat.leb (length x + length y) bound then add_seq acc (x ++ y) else acc) b acc)
            a [].

Definition alt_lang (bound : nat) (tb : list (list (list N))) (rhs : list gsym) : list (list N) :=
  fold_left (fun acc s =>
               cat_langs bound acc (match s with
                                    | TM lx => [[lx]]
                                    | NT n => nth (N.to_nat n) tb []
                                    end)) rhs [[]].

Definition lang_step (bound : nat) (g : grammar) (tb : list (list (list N))) : list (list (list N)) :=
  map (fun '(alts, known) => fold_left (fun acc rhs => fold_left add_seq (alt_lang bound tb rhs) acc) alts known)
      (combine (g_rules g) tb).

Definition lang_size (tb : list (list (list N))) : nat := fold_left (fun a l => a + length l)%nat tb 0%nat.

Fixpoint lang_iter (fuel : nat) (bound : nat) (g : grammar) (tb : list (list (list N))) :=
  match fuel with
  | O => tb
  | S f => let tb' := lang_step bound g tb in
           if Nat.eqb (lang_size tb') (lang_size tb) then tb else lang_iter f bound g tb'
  end.

Definition lang_upto (g : grammar) (bound : nat) : list (list N) :=
  nth (N.to_nat (g_start g)) (lang_iter 400 bound g (map (fun _ => []) (g_rules g))) [].

(* sort sequences for a canonical output: by length then lexicographically *)
Fixpoint seq_leb (a b : list N) : bool :=
  match a, b with
  | [], _ => true
  | _ :: _, [] => false
  | x :: a', y :: b' => if x <? y then true else if y <? x then false else seq_leb a' b'
  end.
Fixpoint ins_sorted (w : list N) (l : list (list N)) : list (list N) :=
  match l with
  | [] => [w]
  | x :: l' => if seq_leb w x then w :: l else x :: ins_sorted w l'
  end.

(* nonterminal i -> symbol i; terminal k -> symbol nnt + k *)
Definition osym_of (nnt : nat) (s : gsym) : nat :=
  match s with NT n => N.to_nat n | TM k => (nnt + N.to_nat k)%nat end.
Definition sx_of_osym (nnt : nat) (i : nat) : sx :=
  if Nat.ltb i nnt then tagged "n" [sn (N.of_nat i)] else tagged "t" [sn (N.of_nat (i - nnt))].

Definition run_optimize (a : list sx) : sx :=
  let rules := map (fun alts => map (fun alt => map gsym_of_sx (as_list alt)) (as_list alts))
                   (field "rules" a) in
  let nnt := length rules in
  let start := N.to_nat (as_n (nth_sx a 1)) in
  let nterm := N.to_nat (as_n (nth_sx a 2)) in
  let g : ogrammar :=
    (map (fun '(i, alts) => mk_osym (map (map (osym_of nnt)) alts) (Nat.eqb i start))
         (combine (seq 0 nnt) rules)
     ++ repeat (mk_osym [] false) nterm)%list in
  let g' := optimize g in
  tagged "ok" (map (fun s => SL (map (fun rhs => SL (map (sx_of_osym nnt) rhs)) (o_rules s))) (firstn nnt g')).

Definition run_case15 (x : sx) : sx :=
  if bytes_eqb (head_sym x) (sym "optimize") then run_optimize (tail_items x) else
  let a := tail_items x in
  let rules := map (fun alts => map (fun alt => map gsym_of_sx (as_list alt)) (as_list alts))
                   (field "rules" a) in
  let g := mk_grammar rules (as_n (nth_sx a 1)) in
  let bound := N.to_nat (as_n (nth_sx a 3)) in
  tagged "ok" (map sns (fold_right ins_sorted [] (lang_upto g bound))).
