(* Run19.v — case runner for C19 *)
From Coq Require Import String.
From LLG Require Import Base Sx Trie TokParser Special.
Open Scope string_scope.
Open Scope N_scope.

Definition run_case19 (x : sx) : sx :=
  let h := head_sym x in
  let a := tail_items x in
  if bytes_eqb h (sym "negranges") then
    let v := as_n (nth_sx a 0) in
    let rs := map (fun r => match as_ns r with [p; q] => (p, q) | _ => (1, 0) end) (as_list (nth_sx a 1)) in
    match negated_ranges v rs with
    | Some neg => tagged "ok" [sns (filter (in_ranges neg) (seqN 0 (N.to_nat v)))]
    | None => tagged "err" []
    end
  else if bytes_eqb h (sym "tokmarker") then
    let ws := map as_bytes (field "vocab" a) in
    let tr := trie_from ws in
    let '(toks, nfixed) := tokenize_bytes_marker tr (as_bytes (nth_sx a 1)) in
    tagged "ok" [sns toks; sn (N.of_nat nfixed)]
  else SL [SY (sym "unknown")].
