(* MatcherProofs.v — the Matcher wrapper: a failed engine keeps reporting its failure,
   every error switches it to the failed state, and token ids outside the vocabulary
   are refused with an error instead of being looked up. *)
From LLG Require Import Base Svob Trie WalkM Regex Lexer Earley Engine PureEngine TokParser.

Lemma m_guard_failed : forall A t (r : tres A * tstate), t_panicked t = true -> m_guard t r = (TErr, t).
Proof. intros A t r H. unfold m_guard. rewrite H. reflexivity. Qed.

Lemma m_guard_err : forall A t (r : tres A * tstate) t',
  m_guard t r = (TErr, t') -> t_panicked t' = true.
Proof.
  intros A t [a t1] t' H. unfold m_guard in H.
  destruct (t_panicked t) eqn:Hp.
  - injection H as <-. exact Hp.
  - destruct (p_panic (t_p t1)).
    + injection H as <-. reflexivity.
    + destruct a; [discriminate|]. injection H as <-. reflexivity.
Qed.

Lemma m_guard_ok : forall A t (r : tres A * tstate) a t',
  m_guard t r = (TOk a, t') -> t_panicked t = false /\ r = (TOk a, t') /\ p_panic (t_p t') = false.
Proof.
  intros A t [a0 t1] a t' H. unfold m_guard in H.
  destruct (t_panicked t) eqn:Hp; [discriminate|].
  destruct (p_panic (t_p t1)) eqn:Hpp; [discriminate|].
  destruct a0; [|discriminate]. injection H as -> ->. auto.
Qed.

(* a failed matcher: every call fails, changes nothing, and the stop reason stays InternalError *)
Theorem failed_matcher_is_sticky : forall cx t, t_panicked t = true ->
  (forall tok, m_consume_token cx t tok = (TErr, t)) /\
  m_compute_mask cx t = (TErr, t) /\
  m_compute_mask_or_eos cx t = (TErr, t) /\
  (forall toks, m_validate cx t toks = (TErr, t)) /\
  (forall n, m_rollback cx t n = (TErr, t)) /\
  m_reset cx t = (TErr, t) /\
  m_is_accepting cx t = (TErr, t) /\
  m_ff_bytes cx t = ([], t) /\
  m_ff_tokens cx t = ([], t) /\
  m_invalidate_cache t = t /\
  m_is_stopped t = true /\ m_stop_reason t = InternalError.
Proof.
  intros cx t H.
  repeat split; intros;
    try (unfold m_consume_token, m_compute_mask, m_compute_mask_or_eos, m_validate, m_rollback, m_reset,
           m_rollback, m_is_accepting; apply m_guard_failed; exact H);
    unfold m_ff_bytes, m_ff_tokens, m_invalidate_cache, m_is_stopped, m_stop_reason; rewrite H; reflexivity.
Qed.

(* every error return leaves the matcher failed *)
Theorem matcher_error_fails : forall cx t,
  (forall tok t', m_consume_token cx t tok = (TErr, t') -> t_panicked t' = true) /\
  (forall t', m_compute_mask cx t = (TErr, t') -> t_panicked t' = true) /\
  (forall t', m_compute_mask_or_eos cx t = (TErr, t') -> t_panicked t' = true) /\
  (forall toks t', m_validate cx t toks = (TErr, t') -> t_panicked t' = true) /\
  (forall n t', m_rollback cx t n = (TErr, t') -> t_panicked t' = true) /\
  (forall t', m_is_accepting cx t = (TErr, t') -> t_panicked t' = true).
Proof.
  intros cx t. repeat split; intros;
  match goal with H : _ = (TErr, _) |- _ => eapply m_guard_err; exact H end.
Qed.

(* a successful call never hands back a result computed after an internal panic *)
Theorem matcher_ok_no_panic : forall cx t,
  (forall tok u t', m_consume_token cx t tok = (TOk u, t') -> p_panic (t_p t') = false) /\
  (forall m t', m_compute_mask cx t = (TOk m, t') -> p_panic (t_p t') = false) /\
  (forall toks n t', m_validate cx t toks = (TOk n, t') -> p_panic (t_p t') = false) /\
  (forall n u t', m_rollback cx t n = (TOk u, t') -> p_panic (t_p t') = false).
Proof.
  intros cx t. repeat split; intros;
  match goal with H : _ = (TOk _, _) |- _ => apply m_guard_ok in H; destruct H as (Hp & Hr & Hpp) end; auto.
Qed.

(* a token id outside the vocabulary is refused before any table is indexed *)
Theorem out_of_range_token_refused : forall cx t tok,
  vocab_size (c_trie cx) <= tok -> fst (tp_apply_token cx t tok) = TErr.
Proof.
  intros cx t tok H. unfold tp_apply_token.
  apply N.leb_le in H. rewrite H. reflexivity.
Qed.

Theorem out_of_range_validate_refused : forall cx t toks tok,
  In tok toks -> vocab_size (c_trie cx) <= tok -> stopped t = false ->
  fst (validate_tokens_raw cx t toks) = TErr.
Proof.
  intros cx t toks tok Hin H Hs. unfold validate_tokens_raw. rewrite Hs.
  assert (E : existsb (fun x => vocab_size (c_trie cx) <=? x) toks = true).
  { apply existsb_exists. exists tok. split; [exact Hin|]. now apply N.leb_le. }
  rewrite E. destruct toks; [destruct Hin|reflexivity].
Qed.
