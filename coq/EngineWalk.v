(* EngineWalk.v — the walk over a hidden-state recogniser with a *resource
   limit*: the recogniser may answer "no" spuriously once a monotone counter has
   passed its bound.  If the final state is still within the bound (Lim), no
   intermediate state was over it, and the walk equals the pure walk.
   Variant of WalkMProofs.walkM_refines / add_biasM_correct; auxiliary file for
   EngineProofs.v. *)
From LLG Require Import Base Svob SvobProofs Trie TrieProofs WalkM.

Section RefineLim.
  Variable R : Type.
  Variable try_pushM : R -> byte -> bool * R.
  Variable popM : R -> nat -> R.
  Variable St : Type.
  Variable push : St -> byte -> option St.
  Variable abs : R -> list St.
  Variable Inv : R -> Prop.
  Variable Lim : R -> Prop.

  Hypothesis pop_abs : forall r (n : nat), Inv r -> (n < length (abs r))%nat ->
    Inv (popM r n) /\ abs (popM r n) = skipn n (abs r).
  Hypothesis pop_lim : forall r n, Lim (popM r n) -> Lim r.
  Hypothesis push_lim : forall r b ok r', try_pushM r b = (ok, r') -> Lim r' -> Lim r.
  Hypothesis push_abs : forall r b s stk ok r',
    Inv r -> abs r = s :: stk -> try_pushM r b = (ok, r') -> Lim r' ->
    Inv r' /\
    match push s b with
    | Some s' => ok = true /\ abs r' = s' :: s :: stk
    | None => ok = false /\ abs r' = s :: stk
    end.

  Lemma walkM_lim_back : forall defl ns skip np r toks vis np' r' toks' vis',
    walkM R try_pushM popM defl ns skip np r toks vis = (np', r', toks', vis') ->
    Lim r' -> Lim r.
  Proof.
    intros defl ns. induction ns as [|n ns IH]; intros skip np r toks vis np' r' toks' vis' H HL.
    - cbn [walkM] in H. inversion H; subst. exact HL.
    - cbn [walkM] in H. destruct skip as [|k]; [|exact (IH _ _ _ _ _ _ _ _ _ H HL)].
      destruct (try_pushM (popM r np) (nbyte n)) as [ok r2] eqn:Htp.
      assert (HL2 : Lim r2) by (destruct ok; exact (IH _ _ _ _ _ _ _ _ _ H HL)).
      apply pop_lim with np. exact (push_lim _ _ _ _ Htp HL2).
  Qed.

  Theorem walkM_refines_lim : forall defl ns skip np r toks vis np' r' toks' vis',
    Inv r ->
    walkM R try_pushM popM defl ns skip np r toks vis = (np', r', toks', vis') ->
    Lim r' ->
    match walk St push defl ns skip np (abs r) toks vis with
    | None => True
    | Some res => res = (np', abs r', toks', vis') /\ Inv r'
    end.
  Proof.
    intros defl ns. induction ns as [|n ns IH]; intros skip np r toks vis np' r' toks' vis' HI H HL.
    - cbn [walk walkM] in *. inversion H; subst. split; [reflexivity|exact HI].
    - cbn [walk walkM] in *. destruct skip as [|k]; [|exact (IH _ _ _ _ _ _ _ _ _ HI H HL)].
      unfold pop_chk. destruct (Nat.ltb_spec np (length (abs r))) as [Hlt|Hge]; [|exact I].
      destruct (pop_abs r np HI Hlt) as [HI1 Habs1].
      destruct (try_pushM (popM r np) (nbyte n)) as [ok r2] eqn:Htp.
      assert (HL2 : Lim r2) by (destruct ok; exact (walkM_lim_back _ _ _ _ _ _ _ _ _ _ _ H HL)).
      destruct (skipn np (abs r)) as [|s stk] eqn:Hsk.
      { exfalso. assert (Hlen : length (skipn np (abs r)) = (length (abs r) - np)%nat)
          by apply skipn_length.
        rewrite Hsk in Hlen. cbn [length] in Hlen. lia. }
      destruct (push_abs _ _ s stk _ _ HI1 Habs1 Htp HL2) as [HI2 Hm].
      cbn [try_push]. destruct (push s (nbyte n)) as [s'|]; destruct Hm as [Hok Habs2]; subst ok.
      + rewrite <- Habs2. exact (IH _ _ _ _ _ _ _ _ _ HI2 H HL).
      + rewrite <- Habs2. exact (IH _ _ _ _ _ _ _ _ _ HI2 H HL).
  Qed.

  Variable startedM : R -> R.
  Variable finishedM : R -> R.

  (* add_bias with an empty start prefix, provided the state before the final
     trie_finished is within the limit *)
  Theorem add_biasM_lim : forall ws r s stk0 toks r' toks',
    Inv (startedM r) -> abs (startedM r) = s :: stk0 ->
    get_pre toks (lenN ws) = true ->
    add_biasM R try_pushM popM startedM finishedM (trie_from ws) r toks [] = (r', toks') ->
    (forall r1, r' = finishedM r1 -> Lim r1) ->
    exists r1,
      r' = finishedM r1 /\ Inv r1 /\ abs r1 = s :: stk0 /\
      vsize toks' = vsize toks /\ nwords toks' = nwords toks /\
      (forall t, t < lenN ws -> get toks' t = get toks t || bias_spec push ws s [] t) /\
      get toks' (lenN ws) = false /\
      (forall t, lenN ws < t -> get toks' t = get toks t).
  Proof.
    intros ws r s stk0 toks r' toks' HI1 Habs1 Hpre Hab HL.
    destruct (add_bias_correct St push ws s stk0 toks Hpre)
      as (toks'' & Hab0 & Hv & Hn & Hlo & Hmid & Hhi).
    destruct (add_bias0_stack St push ws s stk0 toks Hpre) as (toksx & nx & Hst).
    unfold add_bias in Hab0. unfold add_bias0 in Hab0, Hst.
    unfold add_biasM in Hab. cbn [child_at_bytes] in Hab.
    destruct (walkM R try_pushM popM (vocab_size (trie_from ws))
                (subtree_body (nodes (trie_from ws)) 0) 0 0 (startedM r) toks 0)
      as [[[np2 r2] toks2] vis2] eqn:HwM.
    inversion Hab; subst r' toks'. clear Hab.
    assert (HL3 : Lim (popM r2 np2)) by (apply HL; reflexivity).
    assert (HL2 : Lim r2) by (apply pop_lim with np2; exact HL3).
    pose proof (walkM_refines_lim _ _ _ _ _ _ _ _ _ _ _ HI1 HwM HL2) as Hre.
    rewrite Habs1 in Hre.
    destruct (walk St push (vocab_size (trie_from ws))
                (subtree_body (nodes (trie_from ws)) 0) 0 0 (s :: stk0) toks 0)
      as [[[[np stk'] toks1] vis]|] eqn:Hw; [|discriminate Hst].
    destruct Hre as [Hres HI2]. inversion Hres; subst np stk' toks1 vis. clear Hres.
    destruct (pop_chk St np2 (abs r2)) as [stk''|] eqn:Hp; [|discriminate Hst].
    inversion Hst; subst stk'' toksx nx. inversion Hab0; subst toks''.
    unfold pop_chk in Hp.
    destruct (Nat.ltb_spec np2 (length (abs r2))) as [Hlt|Hge]; [|discriminate Hp].
    assert (Hsk : skipn np2 (abs r2) = s :: stk0) by congruence.
    destruct (pop_abs r2 np2 HI2 Hlt) as [HI3 Habs3].
    exists (popM r2 np2).
    split; [reflexivity|].
    split; [exact HI3|].
    split; [rewrite Habs3; exact Hsk|].
    split; [exact Hv|]. split; [exact Hn|]. split; [exact Hlo|]. split; [exact Hmid|exact Hhi].
  Qed.
End RefineLim.

(* a preorder preserved by every recogniser operation is preserved by the walk *)
Section WalkRel.
  Variable R : Type.
  Variable try_pushM : R -> byte -> bool * R.
  Variable popM : R -> nat -> R.
  Variable startedM : R -> R.
  Variable finishedM : R -> R.
  Variable Rel : R -> R -> Prop.
  Hypothesis rel_refl : forall r, Rel r r.
  Hypothesis rel_trans : forall a b c, Rel a b -> Rel b c -> Rel a c.
  Hypothesis push_rel : forall r b ok r', try_pushM r b = (ok, r') -> Rel r r'.
  Hypothesis pop_rel : forall r n, Rel r (popM r n).
  Hypothesis started_rel : forall r, Rel r (startedM r).
  Hypothesis finished_rel : forall r, Rel r (finishedM r).

  Lemma walkM_rel : forall defl ns skip np r toks vis np' r' toks' vis',
    walkM R try_pushM popM defl ns skip np r toks vis = (np', r', toks', vis') -> Rel r r'.
  Proof.
    intros defl ns. induction ns as [|n ns IH]; intros skip np r toks vis np' r' toks' vis' H.
    - cbn [walkM] in H. inversion H; subst. apply rel_refl.
    - cbn [walkM] in H. destruct skip as [|k]; [|exact (IH _ _ _ _ _ _ _ _ _ H)].
      destruct (try_pushM (popM r np) (nbyte n)) as [ok r2] eqn:Htp.
      apply rel_trans with (popM r np); [apply pop_rel|].
      apply rel_trans with r2; [exact (push_rel _ _ _ _ Htp)|].
      destruct ok; exact (IH _ _ _ _ _ _ _ _ _ H).
  Qed.

  Lemma add_biasM_rel : forall tr r toks start r' toks',
    add_biasM R try_pushM popM startedM finishedM tr r toks start = (r', toks') -> Rel r r'.
  Proof.
    intros tr r toks start r' toks' H. unfold add_biasM in H.
    destruct (child_at_bytes (nodes tr) 0 start) as [off|]; [|inversion H; subst; apply rel_refl].
    match type of H with context [walkM ?a ?b ?c ?d ?e ?f ?g ?h ?i ?j] =>
      destruct (walkM a b c d e f g h i j) as [[[np2 r2] toks2] vis2] eqn:HwM end.
    inversion H; subst.
    apply rel_trans with (startedM r); [apply started_rel|].
    apply rel_trans with r2; [exact (walkM_rel _ _ _ _ _ _ _ _ _ _ _ HwM)|].
    destruct start.
    - apply rel_trans with (popM r2 np2); [apply pop_rel|apply finished_rel].
    - apply finished_rel.
  Qed.
End WalkRel.

(* ------------------------------------------------------------------------ *)
(* stack safety of the walk over the subtree of an arbitrary trie node        *)
(* (add_bias with a non-empty start prefix): the stack never drops below its  *)
(* initial contents, whatever the pending pop count at the end                *)
(* ------------------------------------------------------------------------ *)
Section WalkSafe.
  Variable St : Type.
  Variable push : St -> byte -> option St.

  Lemma skipn_cons_lt : forall (A : Type) n (l : list A) x l', skipn n l = x :: l' -> (n < length l)%nat.
  Proof.
    intros A n l x l' H. destruct (Nat.ltb_spec n (length l)) as [Hlt|Hge]; [exact Hlt|].
    rewrite skipn_all2 in H by exact Hge. discriminate H.
  Qed.

  Lemma pop_chk_of_skipn : forall n (stk : list St) x l',
    skipn n stk = x :: l' -> pop_chk St n stk = Some (x :: l').
  Proof.
    intros n stk x l' H. unfold pop_chk.
    pose proof (skipn_cons_lt _ _ _ _ _ H) as Hlt.
    apply Nat.ltb_lt in Hlt. rewrite Hlt, H. reflexivity.
  Qed.

  Definition treeQ (defl : tokid) (t : tree) : Prop :=
    forall par rest np stk toks vis sp base,
      1 <= par ->
      pop_chk St np stk = Some (sp :: base) ->
      exists np' stk' toks' vis',
        walk St push defl (ser t par ++ rest) 0 np stk toks vis =
        walk St push defl rest 0 np' stk' toks' vis' /\
        skipn np' stk' = skipn (N.to_nat par - 1) (sp :: base) /\
        exists extra, stk' = extra ++ sp :: base.

  Definition forestQ (defl : tokid) (cs : list tree) : Prop :=
    forall par rest np stk toks vis s base,
      pop_chk St np stk = Some (s :: base) ->
      exists np' stk' toks' vis',
        walk St push defl (ser_forest cs par ++ rest) 0 np stk toks vis =
        walk St push defl rest 0 np' stk' toks' vis' /\
        skipn np' stk' = skipn (N.to_nat par) (s :: base) /\
        exists extra, stk' = extra ++ s :: base.

  Lemma forestQ_of_trees : forall defl cs,
    Forall (treeQ defl) cs -> cs <> [] -> forestQ defl cs.
  Proof.
    intros defl cs HF. induction HF as [|c cs' Hc HF IH]; intros Hne; [congruence|].
    intros par rest np stk toks vis s base Hpop.
    rewrite ser_forest_cons. destruct cs' as [|c2 cs''].
    - cbn [ser_forest]. rewrite app_nil_r.
      destruct (Hc (par + 1) rest np stk toks vis s base) as (np' & stk' & toks' & vis' & Hw & Hsk & Hex);
        [lia|exact Hpop|].
      replace (N.to_nat (par + 1) - 1)%nat with (N.to_nat par) in Hsk by lia.
      exists np', stk', toks', vis'. split; [exact Hw|]. split; [exact Hsk|exact Hex].
    - rewrite <- app_assoc.
      destruct (Hc 1 (ser_forest (c2 :: cs'') par ++ rest) np stk toks vis s base)
        as (np1 & stk1 & toks1 & vis1 & Hw1 & Hsk1 & _); [lia|exact Hpop|].
      change (N.to_nat 1 - 1)%nat with 0%nat in Hsk1. cbn [skipn] in Hsk1.
      assert (Hne2 : c2 :: cs'' <> []) by discriminate.
      destruct (IH Hne2 par rest np1 stk1 toks1 vis1 s base (pop_chk_of_skipn _ _ _ _ Hsk1))
        as (np2 & stk2 & toks2 & vis2 & Hw2 & Hsk2 & Hex2).
      exists np2, stk2, toks2, vis2. split; [rewrite Hw1; exact Hw2|]. split; [exact Hsk2|exact Hex2].
  Qed.

  Lemma treeQ_all : forall defl t, treeQ defl t.
  Proof.
    intros defl. apply tree_ind'. intros b tok cs IH.
    unfold treeQ. intros par rest np stk toks vis sp base Hpar Hpop.
    rewrite ser_eq. cbn [tree_byte tree_tok tree_children app].
    cbn [walk]. rewrite Hpop. cbn [try_push nbyte ntok nsub npar].
    assert (Hparnz : (if par =? 0 then 1 else par) = par).
    { destruct (N.eqb_spec par 0); [lia|reflexivity]. }
    rewrite Hparnz.
    destruct (push sp b) as [s'|] eqn:Hp.
    - destruct cs as [|c cs'].
      + cbn [ser_forest app]. change (1 + lenN (@nil node) =? 1) with true. cbv iota.
        eexists _, _, _, _. split; [reflexivity|]. split.
        * destruct (N.to_nat par) as [|k] eqn:Ek; [lia|]. cbn [skipn]. f_equal. lia.
        * exists [s']. reflexivity.
      + assert (Hne : c :: cs' <> []) by discriminate.
        assert (Hsub : (1 + lenN (ser_forest (c :: cs') par) =? 1) = false).
        { pose proof (ser_forest_ne (c :: cs') par Hne) as Hl.
          destruct (ser_forest (c :: cs') par) as [|n l]; [congruence|].
          apply N.eqb_neq. unfold lenN. cbn [length]. lia. }
        rewrite Hsub.
        destruct (forestQ_of_trees defl (c :: cs') IH Hne par rest 0%nat (s' :: sp :: base)
                    (allow_token toks match tok with Some t => t | None => defl end)
                    (vis + 1) s' (sp :: base) eq_refl)
          as (np' & stk' & toks' & vis' & Hw & Hsk & (extra & Hex)).
        exists np', stk', toks', vis'. split; [exact Hw|]. split.
        * rewrite Hsk. destruct (N.to_nat par) as [|k] eqn:Ek; [lia|]. cbn [skipn]. f_equal. lia.
        * exists (extra ++ [s']). rewrite <- app_assoc. exact Hex.
    - replace (N.to_nat (1 + lenN (ser_forest cs par) - 1))
        with (length (ser_forest cs par)) by (unfold lenN; lia).
      rewrite walk_skip.
      eexists _, _, _, _. split; [reflexivity|]. split.
      + f_equal. lia.
      + exists []. reflexivity.
  Qed.

  Lemma forest_walk_safe : forall defl cs par s base toks,
    exists np stk' toks' vis,
      walk St push defl (ser_forest cs par) 0 0 (s :: base) toks 0 = Some (np, stk', toks', vis) /\
      exists extra, stk' = extra ++ s :: base.
  Proof.
    intros defl cs par s base toks. destruct cs as [|c cs'].
    - exists 0%nat, (s :: base), toks, 0. split; [reflexivity|exists []; reflexivity].
    - assert (Hne : c :: cs' <> []) by discriminate.
      assert (HF : Forall (treeQ defl) (c :: cs')) by (apply Forall_forall; intros x _; apply treeQ_all).
      destruct (forestQ_of_trees defl (c :: cs') HF Hne par [] 0%nat (s :: base) toks 0 s base eq_refl)
        as (np' & stk' & toks' & vis' & Hw & _ & Hex).
      rewrite app_nil_r in Hw. cbn [walk] in Hw.
      exists np', stk', toks', vis'. split; [exact Hw|exact Hex].
  Qed.
End WalkSafe.

(* offsets of serialised subtrees *)
Definition sub_at (ns : list node) (off : N) (t : tree) (par : N) : Prop :=
  exists pre post, ns = pre ++ ser t par ++ post /\ lenN pre = off.

Lemma nthN_app_pre : forall (A : Type) (pre : list A) x post off,
  lenN pre = off -> nthN (pre ++ x :: post) off = Some x.
Proof.
  intros A pre x post off H. unfold nthN, lenN in *. subst off. rewrite Nat2N.id.
  rewrite nth_error_app2 by lia. rewrite Nat.sub_diag. reflexivity.
Qed.

Lemma skipn_pre_cons : forall (A : Type) (pre : list A) x l, skipn (length pre + 1) (pre ++ x :: l) = l.
Proof. intros A pre x l. induction pre as [|y pre IH]; [reflexivity|]. cbn [length Nat.add app skipn]. exact IH. Qed.

Lemma firstn_app_exact : forall (A : Type) (l1 l2 : list A), firstn (length l1) (l1 ++ l2) = l1.
Proof.
  intros A l1 l2. rewrite firstn_app, Nat.sub_diag, firstn_all. cbn [firstn]. apply app_nil_r.
Qed.

Lemma subtree_body_at : forall ns off t par,
  sub_at ns off t par -> subtree_body ns off = ser_forest (tree_children t) par.
Proof.
  intros ns off t par (pre & post & Hns & Hlen). unfold subtree_body.
  rewrite ser_eq in Hns. cbn [app] in Hns. rewrite Hns.
  rewrite (nthN_app_pre _ pre _ _ off Hlen). cbn [nsub].
  assert (Hoff : N.to_nat off = length pre) by (unfold lenN in Hlen; lia).
  rewrite Hoff, skipn_pre_cons.
  replace (N.to_nat (1 + lenN (ser_forest (tree_children t) par) - 1))
    with (length (ser_forest (tree_children t) par)) by (unfold lenN; lia).
  apply firstn_app_exact.
Qed.

Lemma lenN_app : forall (A : Type) (a b : list A), lenN (a ++ b) = lenN a + lenN b.
Proof. intros. unfold lenN. rewrite app_length. lia. Qed.

Lemma lenN_ser : forall t par, lenN (ser t par) = 1 + lenN (ser_forest (tree_children t) par).
Proof. intros. rewrite ser_eq. unfold lenN. cbn [length]. lia. Qed.

Lemma children_from_sound : forall ns fuel cs par pre post cur end_ c,
  ns = pre ++ ser_forest cs par ++ post -> lenN pre = cur ->
  end_ = cur + lenN (ser_forest cs par) ->
  In c (children_from fuel ns cur end_) ->
  exists t' par', sub_at ns c t' par'.
Proof.
  intros ns fuel. induction fuel as [|f IH]; intros cs par pre post cur end_ c Hns Hlen Hend Hin;
    [destruct Hin|].
  cbn [children_from] in Hin.
  destruct (N.ltb_spec cur end_) as [Hlt|Hge]; [|destruct Hin].
  destruct cs as [|c1 cs'].
  { cbn [ser_forest] in Hend. unfold lenN in Hend. cbn [length] in Hend. lia. }
  rewrite ser_forest_cons in Hns, Hend.
  set (par1 := match cs' with [] => par + 1 | _ => 1 end) in *.
  assert (Hnth : nthN ns cur = Some (mk_node (tree_byte c1) (tree_tok c1)
                     (1 + lenN (ser_forest (tree_children c1) par1)) (if par1 =? 0 then 1 else par1))).
  { rewrite Hns, ser_eq. cbn [app]. apply nthN_app_pre. exact Hlen. }
  rewrite Hnth in Hin. cbn [nsub] in Hin.
  destruct Hin as [<-|Hin].
  - exists c1, par1, pre, (ser_forest cs' par ++ post). split; [|exact Hlen].
    rewrite Hns, <- app_assoc. reflexivity.
  - replace (N.max 1 (1 + lenN (ser_forest (tree_children c1) par1)))
      with (lenN (ser c1 par1)) in Hin by (rewrite lenN_ser; lia).
    apply (IH cs' par (pre ++ ser c1 par1) post (cur + lenN (ser c1 par1)) end_ c).
    + rewrite Hns, <- !app_assoc. reflexivity.
    + rewrite lenN_app, Hlen. reflexivity.
    + rewrite Hend, lenN_app. lia.
    + exact Hin.
Qed.

Lemma node_children_sound : forall ns off t par c,
  sub_at ns off t par -> In c (node_children ns off) -> exists t' par', sub_at ns c t' par'.
Proof.
  intros ns off t par c (pre & post & Hns & Hlen) Hin. unfold node_children in Hin.
  rewrite ser_eq in Hns. cbn [app] in Hns.
  assert (Hnth : nthN ns off = Some (mk_node (tree_byte t) (tree_tok t)
                     (1 + lenN (ser_forest (tree_children t) par)) (if par =? 0 then 1 else par))).
  { rewrite Hns. apply nthN_app_pre. exact Hlen. }
  rewrite Hnth in Hin. cbn [nsub] in Hin.
  apply (children_from_sound ns (length ns) (tree_children t) par
           (pre ++ [mk_node (tree_byte t) (tree_tok t)
                      (1 + lenN (ser_forest (tree_children t) par)) (if par =? 0 then 1 else par)])
           post (off + 1) (off + (1 + lenN (ser_forest (tree_children t) par))) c).
  - rewrite Hns, <- app_assoc. reflexivity.
  - rewrite lenN_app, Hlen. reflexivity.
  - lia.
  - exact Hin.
Qed.

Lemma child_at_bytes_sound : forall ns w off t par off',
  sub_at ns off t par -> child_at_bytes ns off w = Some off' ->
  exists t' par', sub_at ns off' t' par'.
Proof.
  intros ns w. induction w as [|b w IH]; intros off t par off' Hsub H; cbn [child_at_bytes] in H.
  - inversion H; subst. exists t, par. exact Hsub.
  - destruct (child_at_byte ns off b) as [c|] eqn:Hc; [|discriminate].
    unfold child_at_byte in Hc. apply find_some in Hc. destruct Hc as [Hin _].
    destruct (node_children_sound ns off t par c Hsub Hin) as (t' & par' & Hsub').
    exact (IH c t' par' off' Hsub' H).
Qed.

Theorem walk_subbody_safe : forall St (push : St -> byte -> option St) ws start off s stk0 toks defl,
  child_at_bytes (nodes (trie_from ws)) 0 start = Some off ->
  exists np stk' toks' vis,
    walk St push defl (subtree_body (nodes (trie_from ws)) off) 0 0 (s :: stk0) toks 0
      = Some (np, stk', toks', vis) /\
    exists extra, stk' = extra ++ s :: stk0.
Proof.
  intros St push ws start off s stk0 toks defl H.
  change (nodes (trie_from ws)) with (ser (build_tree (sort_vocab (number ws))) 0) in *.
  set (t0 := build_tree (sort_vocab (number ws))) in *.
  assert (Hroot : sub_at (ser t0 0) 0 t0 0).
  { exists [], []. split; [rewrite app_nil_r; reflexivity|reflexivity]. }
  destruct (child_at_bytes_sound _ _ _ _ _ _ Hroot H) as (t' & par' & Hsub).
  rewrite (subtree_body_at _ _ _ _ Hsub). apply forest_walk_safe.
Qed.

Section RefineLimStart.
  Variable R : Type.
  Variable try_pushM : R -> byte -> bool * R.
  Variable popM : R -> nat -> R.
  Variable St : Type.
  Variable push : St -> byte -> option St.
  Variable abs : R -> list St.
  Variable Inv : R -> Prop.
  Variable Lim : R -> Prop.

  Hypothesis pop_abs : forall r (n : nat), Inv r -> (n < length (abs r))%nat ->
    Inv (popM r n) /\ abs (popM r n) = skipn n (abs r).
  Hypothesis pop_lim : forall r n, Lim (popM r n) -> Lim r.
  Hypothesis push_lim : forall r b ok r', try_pushM r b = (ok, r') -> Lim r' -> Lim r.
  Hypothesis push_abs : forall r b s stk ok r',
    Inv r -> abs r = s :: stk -> try_pushM r b = (ok, r') -> Lim r' ->
    Inv r' /\
    match push s b with
    | Some s' => ok = true /\ abs r' = s' :: s :: stk
    | None => ok = false /\ abs r' = s :: stk
    end.
  Variable startedM : R -> R.
  Variable finishedM : R -> R.

  (* add_bias with a non-empty start prefix: only the shape of the final stack *)
  Theorem add_biasM_start_lim : forall ws r s stk0 toks start r' toks',
    start <> [] ->
    Inv (startedM r) -> abs (startedM r) = s :: stk0 ->
    add_biasM R try_pushM popM startedM finishedM (trie_from ws) r toks start = (r', toks') ->
    (forall r1, r' = finishedM r1 -> Lim r1) ->
    r' = r \/ exists r1 extra, r' = finishedM r1 /\ Inv r1 /\ abs r1 = extra ++ s :: stk0.
  Proof.
    intros ws r s stk0 toks start r' toks' Hne HI1 Habs1 Hab HL.
    unfold add_biasM in Hab.
    destruct (child_at_bytes (nodes (trie_from ws)) 0 start) as [off|] eqn:Hc;
      [|inversion Hab; left; reflexivity].
    match type of Hab with context [walkM ?a ?b ?c ?d ?e ?f ?g ?h ?i ?j] =>
      destruct (walkM a b c d e f g h i j) as [[[np2 r2] toks2] vis2] eqn:HwM end.
    destruct start as [|b0 w0]; [congruence|].
    inversion Hab; subst r' toks'. clear Hab. right.
    assert (HL2 : Lim r2) by (apply HL; reflexivity).
    pose proof (walkM_refines_lim R try_pushM popM St push abs Inv Lim pop_abs pop_lim push_lim
                  push_abs _ _ _ _ _ _ _ _ _ _ _ HI1 HwM HL2) as Hre.
    rewrite Habs1 in Hre.
    match type of Hre with context [walk St push ?d ?ns 0%nat 0%nat (s :: stk0) ?tk 0] =>
      destruct (walk_subbody_safe St push ws (b0 :: w0) off s stk0 tk d Hc)
        as (np & stk' & toks1 & vis & Hw & extra & Hex) end.
    rewrite Hw in Hre. destruct Hre as [Hres HI2]. inversion Hres; subst.
    exists r2, extra. split; [reflexivity|]. split; [exact HI2|]. symmetry. assumption.
  Qed.
End RefineLimStart.
