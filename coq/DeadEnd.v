(* DeadEnd.v — the unrestricted "no dead end" statement is false for the faithful
   model, by design of the lexer/parser split: with  start: A B,  A: /a+/,  B: /ab/
   the greedy lexer never ends the lexeme A before a byte that cannot continue it,
   and B starts with such a byte.  After the first 'a' the only allowed byte is 'a',
   forever, and the state never accepts. *)
From LLG Require Import Base Svob Trie Regex Lexer Earley Engine PureEngine.

Definition a_byte : byte := 97.
Definition rx_a_plus : regex := Rep (Bytes (bset_single 97)) 1 None.
Definition rx_ab : regex := lit [97; 98].
Definition de_sp : lexspec := [mk_lexeme rx_a_plus false false []; mk_lexeme rx_ab false false []].
(* n0: A B ; start: n0 (the front end's wrapper) *)
Definition de_g : grammar := mk_grammar [[[TM 0; TM 1]]; [[NT 0]]] 1.
Definition de_cx : ctx :=
  mk_ctx de_g (nullable_set de_g) de_sp (trie_from [[97]; [98]]) None [] true 50000.

Definition de_f0 : pframe :=
  match initial_row de_g (nullable_set de_g) with
  | Some r0 => mk_pframe [r0] (initial_state de_sp (r_allowed r0)) None
  | None => mk_pframe [] [] None
  end.
Definition de_f1 : pframe :=
  match ppush de_cx de_f0 a_byte with Some f => f | None => de_f0 end.

(* the grammar is productive: "aab"?  No — that is the point: A B derives a^n ab as a CFG over
   bytes, every symbol derives something *)
Lemma de_first_a_accepted : ppush de_cx de_f0 a_byte = Some de_f1.
Proof. vm_compute. reflexivity. Qed.

Lemma de_loop : ppush de_cx de_f1 a_byte = Some de_f1.
Proof. vm_compute. reflexivity. Qed.

Lemma de_only_a_bool :
  forallb (fun b => (b =? a_byte) || negb (is_some (ppush de_cx de_f1 b))) (seqN 0 256) = true.
Proof. vm_compute. reflexivity. Qed.

Lemma in_seqN_gen : forall n s x, s <= x -> x < s + N.of_nat n -> In x (seqN s n).
Proof.
  induction n as [|n IH]; intros s x Hl Hu.
  - simpl in Hu. lia.
  - cbn [seqN]. destruct (N.eq_dec x s) as [->|Hne]; [left; reflexivity|].
    right. apply IH; lia.
Qed.

Lemma de_only_a : forall b, b < 256 -> b <> a_byte -> ppush de_cx de_f1 b = None.
Proof.
  intros b Hb Hne.
  pose proof de_only_a_bool as H. rewrite forallb_forall in H.
  assert (Hin : In b (seqN 0 256)) by (apply in_seqN_gen; simpl; lia).
  specialize (H b Hin). apply orb_true_iff in H. destruct H as [H|H].
  - apply N.eqb_eq in H. contradiction.
  - destruct (ppush de_cx de_f1 b); [discriminate|reflexivity].
Qed.

(* whatever lies below on the stack, the state is not accepting *)
Lemma de_not_accepting : forall rest, p_accepting de_cx (de_f1 :: rest) = false.
Proof. intros rest. vm_compute. reflexivity. Qed.

(* hence: from the state after the first 'a', every accepted byte string leads back to the
   same non-accepting state — a dead end reachable through allowed tokens *)
Theorem no_dead_end_refuted : forall w f,
  Forall (fun b => b < 256) w ->
  run pframe (ppush de_cx) de_f1 w = Some f -> f = de_f1.
Proof.
  induction w as [|b w IH]; intros f Hw Hrun.
  - cbn in Hrun. injection Hrun as <-. reflexivity.
  - cbn [run] in Hrun. inversion Hw as [|? ? Hb Hw']; subst.
    destruct (N.eq_dec b a_byte) as [->|Hne].
    + rewrite de_loop in Hrun. apply IH; assumption.
    + rewrite (de_only_a b Hb Hne) in Hrun. discriminate.
Qed.
