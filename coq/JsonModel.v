(* JsonModel.v — model of the structural part of parser/src/json/compiler.rs:
   what strings the grammar built for a JSON schema admits.  The grammar constructors
   are mirrored as list-of-successes matchers (a matcher maps an input to the list of
   remainders left after matching a prefix), so the model is executable and is compared
   with the implementation string by string:
     ordered_sequence   (compiler.rs, object properties with optional members)
     bounded_sequence / sequence  (additional properties, array tails)
     gen_json_array     (prefixItems / items / minItems / maxItems)
     gen_json_object    (properties, required, additionalProperties with key exclusion)
     process_any_of, compile_const, integer ranges (Numeric.rx_int_range), strings with
     minLength / maxLength.
   Fragment: compact separators ("," and ":"), no whitespace (whitespace_flexible = false),
   strings of printable ASCII without escapes, integers, booleans, null, arrays, objects
   whose required keys are listed in properties, anyOf, const.  No $ref, no "number",
   no pattern / format / patternProperties / min-maxProperties.  Definitions only. *)
From LLG Require Import Base Regex Numeric.
Open Scope N_scope.

(* ---------- JSON values and their compact serialisation ---------- *)
Inductive json :=
| JNull
| JBool (b : bool)
| JInt (z : Z)
| JStr (s : bytes)
| JArr (l : list json)
| JObj (l : list (bytes * json)).

(* a character that stands for itself inside a JSON string *)
Definition simple_char (c : byte) : bool :=
  (32 <=? c) && (c <=? 126) && negb (c =? 34) && negb (c =? 92).
Definition simple_str (s : bytes) : bool := forallb simple_char s.

Definition ser_str (s : bytes) : bytes := 34 :: s ++ [34].
Definition lit_null : bytes := [110; 117; 108; 108].
Definition lit_true : bytes := [116; 114; 117; 101].
Definition lit_false : bytes := [102; 97; 108; 115; 101].

Fixpoint ser (v : json) : bytes :=
  match v with
  | JNull => lit_null
  | JBool true => lit_true
  | JBool false => lit_false
  | JInt z => int_literal z
  | JStr s => ser_str s
  | JArr l =>
      91 :: (fix go (l : list json) : bytes :=
               match l with
               | [] => []
               | x :: r => match r with [] => ser x | _ => ser x ++ 44 :: go r end
               end) l ++ [93]
  | JObj l =>
      123 :: (fix go (l : list (bytes * json)) : bytes :=
                match l with
                | [] => []
                | (k, x) :: r =>
                    match r with
                    | [] => ser_str k ++ 58 :: ser x
                    | _ => ser_str k ++ 58 :: ser x ++ 44 :: go r
                    end
                end) l ++ [125]
  end.

(* ---------- schemas (after schema.rs normalisation) ---------- *)
Inductive schema :=
| SNull
| SBool
| SInt (lo hi : option Z)
| SStr (minl : nat) (maxl : option nat)
| SConst (v : json)
| SArr (prefix : list schema) (items : option schema) (minI : nat) (maxI : option nat)
| SObj (props : list (bytes * (schema * bool))) (addl : option schema)
| SAnyOf (l : list schema).

(* ---------- matchers ---------- *)
Definition matcher := bytes -> list bytes.

Definition m_eps : matcher := fun w => [w].
Definition m_fail : matcher := fun _ => [].

Fixpoint strip_prefix (u w : bytes) : option bytes :=
  match u with
  | [] => Some w
  | a :: u' => match w with
               | b :: w' => if a =? b then strip_prefix u' w' else None
               | [] => None
               end
  end.
Definition m_lit (u : bytes) : matcher :=
  fun w => match strip_prefix u w with Some r => [r] | None => [] end.
Definition m_seq (a b : matcher) : matcher := fun w => flat_map b (a w).
Definition m_alt (a b : matcher) : matcher := fun w => a w ++ b w.
Definition m_opt (a : matcher) : matcher := fun w => w :: a w.
Definition m_select (l : list matcher) : matcher := fun w => flat_map (fun m => m w) l.

(* every split of the input whose first part matches the regex (one lexeme) *)
Fixpoint m_regex (r : regex) (w : bytes) : list bytes :=
  (if nullable r then [w] else []) ++
  match w with
  | [] => []
  | c :: w' => m_regex (deriv r c) w'
  end.

(* a{lo,hi}; every iteration has to consume input (the items of JSON sequences are never
   empty), so fuel = S (length of the input) is enough *)
Fixpoint m_rep (fuel : nat) (a : matcher) (lo : nat) (hi : option nat) (w : bytes) : list bytes :=
  match fuel with
  | O => []
  | S f =>
      (match lo with O => [w] | _ => [] end) ++
      match hi with
      | Some O => []
      | _ => flat_map (fun r => if Nat.ltb (length r) (length w)
                                then m_rep f a (Nat.pred lo) (option_map Nat.pred hi) r
                                else [])
                      (a w)
      end
  end.
Definition m_repeat (a : matcher) (lo : nat) (hi : option nat) : matcher :=
  fun w => m_rep (S (length w)) a lo hi w.

(* ---------- compiler.rs: sequences ---------- *)
Definition comma : matcher := m_lit [44].
Definition colon : matcher := m_lit [58].

(* ordered_sequence(items, prefixed) *)
Fixpoint m_oseq (items : list (matcher * bool)) (prefixed : bool) : matcher :=
  match items with
  | [] => m_eps
  | (item, required) :: rest =>
      match prefixed, required with
      | true, true => m_seq comma (m_seq item (m_oseq rest true))
      | true, false => m_seq (m_opt (m_seq comma item)) (m_oseq rest true)
      | false, true => m_seq item (m_oseq rest true)
      | false, false => m_alt (m_seq item (m_oseq rest true)) (m_oseq rest false)
      end
  end.

(* bounded_sequence(item, min, max) = (item ",")^{min-1 .. max-1} item *)
Definition m_bseq (item : matcher) (min_elts : nat) (max_elts : option nat) : matcher :=
  m_seq (m_repeat (m_seq item comma) (Nat.pred min_elts) (option_map Nat.pred max_elts)) item.
(* sequence(item) = (item ",")* item *)
Definition m_sequence (item : matcher) : matcher :=
  m_seq (m_repeat (m_seq item comma) 0 None) item.

(* ---------- compiler.rs: leaves ---------- *)
Definition simple_class : regex :=
  Bytes (bset_union (bset_union (bset_range 32 33) (bset_range 35 91)) (bset_range 93 126)).

(* "…": min..max characters *)
Definition str_regex (minl : nat) (maxl : option nat) : regex :=
  Cat (ch 34) (Cat (Rep simple_class (N.of_nat minl) (option_map N.of_nat maxl)) (ch 34)).
Definition m_str (minl : nat) (maxl : option nat) : matcher := m_regex (str_regex minl maxl).

Definition m_int (lo hi : option Z) : matcher :=
  match rx_int_range int_fuel lo hi with
  | NOk r => m_regex r
  | NErr => m_fail
  end.

(* a key for additionalProperties: any string that is not one of the listed names *)
Definition m_other_key (taken : list bytes) : matcher :=
  fun w => filter (fun r =>
                     (* the part consumed is w without the remainder r *)
                     let used := firstn (length w - length r) w in
                     negb (existsb (fun k => bytes_eqb used (ser_str k)) taken))
                  (m_str 0 None w).

(* ---------- gen_json_array ---------- *)
(* nested optional tail: first (, item (, item ...)?)? *)
Fixpoint m_opt_tail (items : list matcher) : matcher :=
  match items with
  | [] => m_eps
  | item :: rest => m_opt (m_seq comma (m_seq item (m_opt_tail rest)))
  end.

Fixpoint m_join_comma (items : list matcher) : matcher :=
  match items with
  | [] => m_eps
  | item :: rest => match rest with [] => item | _ => m_seq item (m_seq comma (m_join_comma rest)) end
  end.

Definition m_array (prefix : list matcher) (items : option matcher) (minI : nat) (maxI : option nat) : matcher :=
  let n_to_add := match maxI with Some m => m | None => Nat.max (length prefix) minI end in
  (* the item grammars for positions 0 .. n_to_add-1 (stops when items are exhausted) *)
  let slots := firstn n_to_add
                 (prefix ++ match items with
                            | Some a => repeat a (n_to_add - length prefix)
                            | None => []
                            end) in
  let required := firstn minI slots in
  let optional := skipn minI slots ++
                  match maxI, items with
                  | None, Some a => [m_sequence a]
                  | _, _ => []
                  end in
  let opt_part :=
    match optional with
    | [] => m_eps
    | first :: rest =>
        let tail := m_seq first (m_opt_tail rest) in
        match required with
        | [] => m_opt tail
        | _ => m_opt (m_seq comma tail)
        end
    end in
  (* unsatisfiable combinations are compile errors (UnsatisfiableSchemaError): nothing is admitted *)
  let unsat := match maxI with Some m => Nat.ltb m minI | None => false end ||
               match items with None => Nat.ltb (length prefix) minI | Some _ => false end in
  if unsat then m_fail else
  m_seq (m_lit [91]) (m_seq (m_join_comma required) (m_seq opt_part (m_lit [93]))).

(* ---------- the whole compiler on the fragment ---------- *)
Fixpoint jm (s : schema) : matcher :=
  match s with
  | SNull => m_lit lit_null
  | SBool => m_alt (m_lit lit_true) (m_lit lit_false)
  | SInt lo hi => m_int lo hi
  | SStr minl maxl => m_str minl maxl
  | SConst v => m_lit (ser v)
  | SAnyOf l => m_select (map jm l)
  | SArr prefix items minI maxI =>
      m_array (map jm prefix) (option_map jm items) minI maxI
  | SObj props addl =>
      let items := map (fun p : bytes * (schema * bool) =>
                          (m_seq (m_lit (ser_str (fst p))) (m_seq colon (jm (fst (snd p)))), snd (snd p)))
                       props in
      let taken := map fst props in
      let extra := match addl with
                   | Some a => [(m_bseq (m_seq (m_other_key taken) (m_seq colon (jm a))) 0 None, false)]
                   | None => []
                   end in
      m_seq (m_lit [123]) (m_seq (m_oseq (items ++ extra) false) (m_lit [125]))
  end.

Definition jaccept (s : schema) (w : bytes) : bool :=
  existsb (fun r => match r with [] => true | _ => false end) (jm s w).

(* ---------- the specification: Draft 2020-12 validity on the fragment ---------- *)
Definition opt_le (n : nat) (m : option nat) : Prop := match m with Some k => (n <= k)%nat | None => True end.

Fixpoint valid (s : schema) (v : json) {struct s} : Prop :=
  match s with
  | SNull => v = JNull
  | SBool => exists b, v = JBool b
  | SInt lo hi => exists z, v = JInt z /\ in_opt_range lo hi z
  | SStr minl maxl =>
      exists c, v = JStr c /\ simple_str c = true /\ (minl <= length c)%nat /\ opt_le (length c) maxl
  | SConst c => v = c
  | SAnyOf l =>
      (fix any (l : list schema) : Prop :=
         match l with [] => False | s' :: r => valid s' v \/ any r end) l
  | SArr prefix items minI maxI =>
      exists l, v = JArr l /\ (minI <= length l)%nat /\ opt_le (length l) maxI /\
        (fix pre (ps : list schema) : list json -> Prop :=
           match ps with
           | [] => fun l =>
               match items with
               | Some a => (fix all (l : list json) : Prop :=
                              match l with [] => True | x :: r => valid a x /\ all r end) l
               | None => l = []
               end
           | p :: ps' => fun l => match l with [] => True | x :: r => valid p x /\ pre ps' r end
           end) prefix l
  | SObj props addl =>
      exists kvs, v = JObj kvs /\
        (* every member is valid under the schema of its key *)
        (fix mem (kvs : list (bytes * json)) : Prop :=
           match kvs with
           | [] => True
           | (k, x) :: r =>
               simple_str k = true /\
               (fix look (ps : list (bytes * (schema * bool))) : Prop :=
                  match ps with
                  | [] => match addl with Some a => valid a x | None => False end
                  | (k', (s', _)) :: ps' => if bytes_eqb k' k then valid s' x else look ps'
                  end) props /\
               mem r
           end) kvs /\
        (* required members are present *)
        (forall k s', In (k, (s', true)) props -> In k (map fst kvs))
  end.

Definition lookup (k : bytes) (props : list (bytes * (schema * bool))) : option (schema * bool) :=
  option_map snd (find (fun p => bytes_eqb (fst p) k) props).

Fixpoint is_subseq (a b : list bytes) : Prop :=
  match a, b with
  | [], _ => True
  | _ :: _, [] => False
  | x :: a', y :: b' => (x = y /\ is_subseq a' b') \/ is_subseq a b'
  end.

(* the order in which the grammar lists object members: listed keys at most once and in the
   order of the schema, then the keys matched only by additionalProperties (which may repeat:
   the documented departure); recursively *)
Fixpoint ordered (s : schema) (v : json) {struct s} : Prop :=
  match s with
  | SAnyOf l =>
      (fix any (l : list schema) : Prop :=
         match l with [] => False | s' :: r => (valid s' v /\ ordered s' v) \/ any r end) l
  | SArr prefix items _ _ =>
      match v with
      | JArr l =>
        (fix pre (ps : list schema) : list json -> Prop :=
           match ps with
           | [] => fun l =>
               match items with
               | Some a => (fix all (l : list json) : Prop :=
                              match l with [] => True | x :: r => ordered a x /\ all r end) l
               | None => True
               end
           | p :: ps' => fun l => match l with [] => True | x :: r => ordered p x /\ pre ps' r end
           end) prefix l
      | _ => True
      end
  | SObj props addl =>
      match v with
      | JObj kvs =>
          (exists listed extra, kvs = listed ++ extra /\
             is_subseq (map fst listed) (map fst props) /\
             Forall (fun kv : bytes * json => lookup (fst kv) props = None) extra) /\
          (fix mem (kvs : list (bytes * json)) : Prop :=
             match kvs with
             | [] => True
             | (k, x) :: r =>
                 (fix look (ps : list (bytes * (schema * bool))) : Prop :=
                    match ps with
                    | [] => match addl with Some a => ordered a x | None => True end
                    | (k', (s', _)) :: ps' => if bytes_eqb k' k then ordered s' x else look ps'
                    end) props /\
                 mem r
             end) kvs
      | _ => True
      end
  | _ => True
  end.

(* values that serialise inside the fragment *)
Fixpoint json_simple (v : json) : Prop :=
  match v with
  | JStr s => simple_str s = true
  | JInt z => (Z.abs z < 10 ^ 80)%Z
  | JArr l => (fix all (l : list json) : Prop := match l with [] => True | x :: r => json_simple x /\ all r end) l
  | JObj l => (fix all (l : list (bytes * json)) : Prop :=
                 match l with [] => True | (k, x) :: r => simple_str k = true /\ json_simple x /\ all r end) l
  | _ => True
  end.

(* schemas of the fragment: distinct simple keys, i64 integer bounds, simple constants *)
Definition i64 (o : option Z) : Prop := match o with Some z => (- 2 ^ 63 < z < 2 ^ 63)%Z | None => True end.
Fixpoint schema_ok (s : schema) : Prop :=
  match s with
  | SInt lo hi => i64 lo /\ i64 hi
  | SConst c => json_simple c
  | SAnyOf l => (fix all (l : list schema) : Prop := match l with [] => True | x :: r => schema_ok x /\ all r end) l
  | SArr prefix items _ _ =>
      (fix all (l : list schema) : Prop := match l with [] => True | x :: r => schema_ok x /\ all r end) prefix /\
      match items with Some a => schema_ok a | None => True end
  | SObj props addl =>
      NoDup (map fst props) /\
      (fix all (l : list (bytes * (schema * bool))) : Prop :=
         match l with [] => True | (k, (x, _)) :: r => simple_str k = true /\ schema_ok x /\ all r end) props /\
      match addl with Some a => schema_ok a | None => True end
  | _ => True
  end.
