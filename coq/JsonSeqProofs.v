(* JsonSeqProofs.v — the sequence constructors of the JSON-schema compiler (model: JsonModel.v)
   generate exactly the intended sequences.  STATEMENTS MARKED (*FIXED*) MUST NOT CHANGE
   (if one is false for the model as written: keep the original in a comment, add the weakest
   hypothesis that makes it true, and prove a *_refuted lemma with the counterexample). *)
From LLG Require Import Base Regex RegexProofs Numeric JsonModel.
Open Scope N_scope.

(* a matcher realises a language: the remainders it returns are exactly the suffixes left
   after a prefix in the language *)
Definition mlang (m : matcher) (L : bytes -> Prop) : Prop :=
  forall w r, bytes_ok w -> (In r (m w) <-> exists u, w = u ++ r /\ L u).

Definition lang := bytes -> Prop.
Definition l_cat (A B : lang) : lang := fun u => exists a b, u = a ++ b /\ A a /\ B b.
Definition l_alt (A B : lang) : lang := fun u => A u \/ B u.
Definition l_lit (x : bytes) : lang := fun u => u = x.
Definition nonempty_lang (L : lang) : Prop := forall u, L u -> u <> [].

Lemma bytes_ok_app_r : forall u r, bytes_ok (u ++ r) -> bytes_ok r.
Proof.
  intros u r H. unfold bytes_ok in *. apply Forall_app in H. tauto.
Qed.

Lemma mlang_rem_ok : forall m L w r, mlang m L -> bytes_ok w -> In r (m w) -> bytes_ok r.
Proof.
  intros m L w r Hm Hw Hin. apply (Hm w r Hw) in Hin. destruct Hin as [u [E _]].
  subst w. eapply bytes_ok_app_r; eauto.
Qed.

Lemma strip_prefix_spec : forall x w r, strip_prefix x w = Some r <-> w = x ++ r.
Proof.
  induction x as [|a x IH]; intros w r; cbn [strip_prefix app].
  - split; intro H; [inversion H; reflexivity | subst; reflexivity].
  - destruct w as [|b w].
    + split; intro H; discriminate.
    + destruct (N.eqb_spec a b) as [E|E].
      * subst b. rewrite IH. split; intro H; [subst; reflexivity | inversion H; reflexivity].
      * split; intro H; [discriminate | inversion H; congruence].
Qed.

(*FIXED*)
Lemma mlang_lit : forall x, mlang (m_lit x) (l_lit x).
Proof.
  intros x w r _. unfold m_lit, l_lit.
  destruct (strip_prefix x w) as [r'|] eqn:E.
  - apply strip_prefix_spec in E. cbn [In]. split.
    + intros [H|[]]. subst r'. exists x. auto.
    + intros [u [H1 H2]]. subst u. left. subst w. apply app_inv_head in H1. auto.
  - cbn [In]. split; [tauto|]. intros [u [H1 H2]]. subst u.
    apply strip_prefix_spec in H1. congruence.
Qed.
(*FIXED*)
Lemma mlang_eps : mlang m_eps (l_lit []).
Proof.
  intros w r _. unfold m_eps, l_lit. cbn [In]. split.
  - intros [H|[]]. subst. exists []. auto.
  - intros [u [H1 H2]]. subst u. left. auto.
Qed.
(*FIXED*)
Lemma mlang_seq : forall a b A B, mlang a A -> mlang b B -> mlang (m_seq a b) (l_cat A B).
Proof.
  intros a b A B Ha Hb w r Hw. unfold m_seq, l_cat. rewrite in_flat_map. split.
  - intros [x [Hx Hr]]. pose proof (mlang_rem_ok _ _ _ _ Ha Hw Hx) as Hxok.
    apply (Ha w x Hw) in Hx. destruct Hx as [u1 [E1 L1]].
    apply (Hb x r Hxok) in Hr. destruct Hr as [u2 [E2 L2]].
    exists (u1 ++ u2). split.
    + subst. rewrite app_assoc. reflexivity.
    + exists u1, u2. auto.
  - intros [u [E [u1 [u2 [Eu [L1 L2]]]]]]. subst u. rewrite <- app_assoc in E.
    exists (u2 ++ r). split.
    + apply (Ha w _ Hw). exists u1. auto.
    + assert (Hok : bytes_ok (u2 ++ r)) by (subst w; eapply bytes_ok_app_r; eauto).
      apply (Hb _ r Hok). exists u2. auto.
Qed.
(*FIXED*)
Lemma mlang_alt : forall a b A B, mlang a A -> mlang b B -> mlang (m_alt a b) (l_alt A B).
Proof.
  intros a b A B Ha Hb w r Hw. unfold m_alt, l_alt. rewrite in_app_iff.
  rewrite (Ha w r Hw), (Hb w r Hw). split.
  - intros [[u [E L]]|[u [E L]]]; exists u; auto.
  - intros [u [E [L|L]]]; [left|right]; exists u; auto.
Qed.
(*FIXED*)
Lemma mlang_opt : forall a A, mlang a A -> mlang (m_opt a) (l_alt (l_lit []) A).
Proof.
  intros a A Ha w r Hw. unfold m_opt, l_alt, l_lit. cbn [In]. rewrite (Ha w r Hw). split.
  - intros [E|[u [E L]]]; [exists []; subst; auto | exists u; auto].
  - intros [u [E [L|L]]]; [left; subst; reflexivity | right; exists u; auto].
Qed.
(*FIXED*)
Lemma mlang_select : forall ms Ls, Forall2 mlang ms Ls ->
  mlang (m_select ms) (fun u => exists L, In L Ls /\ L u).
Proof.
  intros ms Ls H. induction H as [|m L ms Ls Hm Hrest IH]; intros w r Hw.
  - unfold m_select. cbn [flat_map In]. split; [tauto|].
    intros [u [_ [L [[] _]]]].
  - unfold m_select in *. cbn [flat_map]. rewrite in_app_iff.
    rewrite (Hm w r Hw), (IH w r Hw). split.
    + intros [[u [E Lu]]|[u [E [L' [Hin Lu]]]]].
      * exists u. split; auto. exists L. split; [left; auto|auto].
      * exists u. split; auto. exists L'. split; [right; auto|auto].
    + intros [u [E [L' [[Heq|Hin] Lu]]]].
      * subst L'. left. exists u. auto.
      * right. exists u. split; auto. exists L'. auto.
Qed.
(*FIXED*) (* one lexeme: every split whose first part is in the language of the regex *)
Lemma mlang_regex : forall r, mlang (m_regex r) (re_lang r).
Proof.
  intros r w. revert r. induction w as [|c w IH]; intros r rem Hw; cbn [m_regex].
  - rewrite app_nil_r. split.
    + destruct (nullable r) eqn:N; cbn [In]; [|tauto].
      intros [E|[]]. subst rem. exists []. split; auto. apply nullable_correct; auto.
    + intros [u [E L]]. symmetry in E. apply app_eq_nil in E. destruct E; subst.
      apply nullable_correct in L. rewrite L. left. reflexivity.
  - inversion Hw as [|c' w' Hc Hw']; subst. rewrite in_app_iff.
    rewrite (IH (deriv r c) rem Hw'). split.
    + intros [H|[u [E L]]].
      * destruct (nullable r) eqn:N; cbn [In] in H; [|tauto].
        destruct H as [E|[]]. subst rem. exists []. split; auto. apply nullable_correct; auto.
      * exists (c :: u). split; [subst; reflexivity|]. apply deriv_correct; auto.
    + intros [u [E L]]. destruct u as [|c' u].
      * left. cbn [app] in E. subst rem. apply nullable_correct in L. rewrite L. left. reflexivity.
      * right. cbn [app] in E. inversion E; subst c' w. exists u. split; auto.
        apply deriv_correct; auto.
Qed.
(*FIXED*) (* equal languages: a matcher realises every language equivalent to its own *)
Lemma mlang_ext : forall m A B, (forall u, A u <-> B u) -> mlang m A -> mlang m B.
Proof.
  intros m A B HAB Hm w r Hw. rewrite (Hm w r Hw). split; intros [u [E L]]; exists u; split; auto; apply HAB; auto.
Qed.

(* n copies *)
Fixpoint l_pow (A : lang) (n : nat) : lang :=
  match n with O => l_lit [] | S k => l_cat A (l_pow A k) end.

Lemma m_rep_spec : forall a A, mlang a A -> nonempty_lang A ->
  forall fuel lo hi w r, (length w < fuel)%nat -> bytes_ok w ->
  (In r (m_rep fuel a lo hi w) <->
   exists u, w = u ++ r /\ exists n, (lo <= n)%nat /\ opt_le n hi /\ l_pow A n u).
Proof.
  intros a A Ha HA. induction fuel as [|f IH]; intros lo hi w r Hlen Hw; [lia|].
  cbn [m_rep]. rewrite in_app_iff. split.
  - intros [H|H].
    + destruct lo; cbn [In] in H; [|tauto]. destruct H as [E|[]]. subst r.
      exists []. split; auto. exists O. split; [lia|]. split.
      * destruct hi; cbn [opt_le]; [lia|exact I].
      * cbn [l_pow]. reflexivity.
    + assert (Hhi : hi <> Some O) by (intro; subst hi; cbn [In] in H; tauto).
      assert (H' : In r (flat_map (fun r0 => if Nat.ltb (length r0) (length w)
                     then m_rep f a (Nat.pred lo) (option_map Nat.pred hi) r0 else []) (a w))).
      { destruct hi as [[|k]|]; [congruence|exact H|exact H]. }
      clear H. apply in_flat_map in H'. destruct H' as [x [Hx Hr]].
      pose proof (mlang_rem_ok _ _ _ _ Ha Hw Hx) as Hxok.
      apply (Ha w x Hw) in Hx. destruct Hx as [u1 [E1 L1]].
      destruct (Nat.ltb_spec (length x) (length w)) as [Hlt|Hge]; [|destruct Hr].
      apply IH in Hr; [|lia|assumption].
      destruct Hr as [u2 [E2 [n [Hlo [Hhi' Hp]]]]].
      exists (u1 ++ u2). split; [subst; rewrite app_assoc; reflexivity|].
      exists (S n). split; [lia|]. split.
      * destruct hi as [[|k]|]; cbn [opt_le option_map Nat.pred] in *; [congruence|lia|exact I].
      * cbn [l_pow]. exists u1, u2. auto.
  - intros [u [E [n [Hlo [Hhi Hp]]]]]. destruct n as [|n].
    + left. cbn [l_pow] in Hp. unfold l_lit in Hp. subst u. cbn [app] in E. subst r.
      assert (lo = O) by lia. subst lo. left. reflexivity.
    + right. cbn [l_pow] in Hp. destruct Hp as [u1 [u2 [Eu [L1 L2]]]]. subst u.
      rewrite <- app_assoc in E.
      assert (Hin : In r (flat_map (fun r0 => if Nat.ltb (length r0) (length w)
                     then m_rep f a (Nat.pred lo) (option_map Nat.pred hi) r0 else []) (a w))).
      { apply in_flat_map. exists (u2 ++ r). split.
        - apply (Ha w _ Hw). exists u1. auto.
        - assert (Hne : u1 <> []) by (apply HA; auto).
          assert (Hlt : (length (u2 ++ r) < length w)%nat).
          { subst w. rewrite (app_length u1). destruct u1; [congruence|]. cbn [length]. lia. }
          destruct (Nat.ltb_spec (length (u2 ++ r)) (length w)) as [_|Hge]; [|lia].
          apply IH; [lia| subst w; eapply bytes_ok_app_r; eauto |].
          exists u2. split; auto. exists n. split; [lia|]. split; auto.
          destruct hi as [k|]; cbn [opt_le option_map] in *; [lia|exact I]. }
      destruct hi as [[|k]|]; [cbn [opt_le] in Hhi; lia|exact Hin|exact Hin].
Qed.

(*FIXED*) (* a{lo,hi} for items that always consume input *)
Lemma mlang_repeat : forall a A lo hi, mlang a A -> nonempty_lang A ->
  mlang (m_repeat a lo hi) (fun u => exists n, (lo <= n)%nat /\ opt_le n hi /\ l_pow A n u).
Proof.
  intros a A lo hi Ha HA w r Hw. unfold m_repeat.
  apply (m_rep_spec a A Ha HA); [lia|assumption].
Qed.

(* ---- ordered_sequence: object members with optional ones and separators ---- *)
(* a choice of members: for each item a word of its language, or nothing if it is optional *)
Inductive picks : list (lang * bool) -> list bytes -> Prop :=
| P_nil : picks [] []
| P_take : forall (L : lang) req rest a ws, L a -> picks rest ws -> picks ((L, req) :: rest) (a :: ws)
| P_skip : forall (L : lang) rest ws, picks rest ws -> picks ((L, false) :: rest) ws.

Fixpoint join_comma (ws : list bytes) : bytes :=
  match ws with
  | [] => []
  | a :: r => match r with [] => a | _ => a ++ 44 :: join_comma r end
  end.
Definition pre_comma (ws : list bytes) : bytes := flat_map (fun a => 44 :: a) ws.

Definition realises (items : list (matcher * bool)) (langs : list (lang * bool)) : Prop :=
  Forall2 (fun (it : matcher * bool) (L : lang * bool) => mlang (fst it) (fst L) /\ snd it = snd L) items langs.

Lemma join_comma_cons : forall ws a, join_comma (a :: ws) = a ++ pre_comma ws.
Proof.
  induction ws as [|b ws IH]; intros a.
  - cbn [join_comma pre_comma flat_map]. rewrite app_nil_r. reflexivity.
  - change (join_comma (a :: b :: ws)) with (a ++ 44 :: join_comma (b :: ws)).
    rewrite IH. reflexivity.
Qed.

Lemma pre_comma_cons : forall a ws, pre_comma (a :: ws) = 44 :: a ++ pre_comma ws.
Proof. reflexivity. Qed.

Lemma pre_comma_app : forall xs ys, pre_comma (xs ++ ys) = pre_comma xs ++ pre_comma ys.
Proof. intros. unfold pre_comma. apply flat_map_app. Qed.

Lemma join_comma_app : forall xs ys, xs <> [] -> join_comma (xs ++ ys) = join_comma xs ++ pre_comma ys.
Proof.
  intros [|x xs] ys H; [congruence|]. cbn [app]. rewrite !join_comma_cons, pre_comma_app, app_assoc.
  reflexivity.
Qed.

(*FIXED*) (* exactly the comma-separated selections that contain every required member, in order;
   with `prefixed` every chosen member is preceded by a comma instead *)
Theorem m_oseq_exact : forall items langs, realises items langs ->
  mlang (m_oseq items false) (fun u => exists ws, picks langs ws /\ u = join_comma ws) /\
  mlang (m_oseq items true) (fun u => exists ws, picks langs ws /\ u = pre_comma ws).
Proof.
  intros items langs H. induction H as [|[item req] [L req'] items langs [Hm Hreq] Hrest [IHf IHt]].
  - cbn [m_oseq]. split; (eapply mlang_ext; [|apply mlang_eps]); intro u; unfold l_lit; split.
    + intro; subst. exists []. split; [constructor|reflexivity].
    + intros [ws [Hp E]]. inversion Hp; subst. reflexivity.
    + intro; subst. exists []. split; [constructor|reflexivity].
    + intros [ws [Hp E]]. inversion Hp; subst. reflexivity.
  - cbn [fst snd] in Hm, Hreq. subst req'. split.
    + (* not prefixed *)
      destruct req; cbn [m_oseq].
      * eapply mlang_ext; [|apply (mlang_seq _ _ _ _ Hm IHt)]. intro u. unfold l_cat. split.
        -- intros [a [b [E [La [ws [Hp Eb]]]]]]. exists (a :: ws). split; [constructor; auto|].
           rewrite join_comma_cons. congruence.
        -- intros [ws [Hp E]]. inversion Hp; subst.
           exists a, (pre_comma ws0). split; [apply join_comma_cons|]. split; auto. exists ws0. auto.
      * eapply mlang_ext; [|apply (mlang_alt _ _ _ _ (mlang_seq _ _ _ _ Hm IHt) IHf)].
        intro u. unfold l_alt, l_cat. split.
        -- intros [[a [b [E [La [ws [Hp Eb]]]]]]|[ws [Hp E]]].
           ++ exists (a :: ws). split; [constructor; auto|]. rewrite join_comma_cons. congruence.
           ++ exists ws. split; [apply P_skip; auto|auto].
        -- intros [ws [Hp E]]. inversion Hp; subst.
           ++ left. exists a, (pre_comma ws0). split; [apply join_comma_cons|]. split; auto.
              exists ws0. auto.
           ++ right. exists ws. auto.
    + (* prefixed *)
      destruct req; cbn [m_oseq].
      * eapply mlang_ext; [|apply (mlang_seq _ _ _ _ (mlang_lit [44]) (mlang_seq _ _ _ _ Hm IHt))].
        intro u. unfold l_cat, l_lit. split.
        -- intros [c [x [E [Ec [a [b [Ex [La [ws [Hp Eb]]]]]]]]]]. subst.
           exists (a :: ws). split; [constructor; auto|reflexivity].
        -- intros [ws [Hp E]]. inversion Hp; subst.
           exists [44], (a ++ pre_comma ws0). split; [reflexivity|]. split; [reflexivity|].
           exists a, (pre_comma ws0). split; [reflexivity|]. split; auto. exists ws0. auto.
      * eapply mlang_ext;
          [|apply (mlang_seq _ _ _ _ (mlang_opt _ _ (mlang_seq _ _ _ _ (mlang_lit [44]) Hm)) IHt)].
        intro u. unfold l_cat, l_alt, l_lit. split.
        -- intros [x [b [E [[Ex|[c [a [Ex [Ec La]]]]] [ws [Hp Eb]]]]]]; subst.
           ++ exists ws. split; [apply P_skip; auto|reflexivity].
           ++ exists (a :: ws). split; [constructor; auto|].
              reflexivity.
        -- intros [ws [Hp E]]. inversion Hp; subst.
           ++ exists (44 :: a), (pre_comma ws0). split; [reflexivity|]. split.
              ** right. exists [44], a. auto.
              ** exists ws0. auto.
           ++ exists [], (pre_comma ws). split; [reflexivity|]. split; [left; reflexivity|].
              exists ws. auto.
Qed.

Lemma sep_nonempty : forall (A : lang), nonempty_lang (l_cat A (l_lit [44])).
Proof.
  intros A u [a [b [E [_ Eb]]]]. unfold l_lit in Eb. subst. intro H.
  apply app_eq_nil in H. destruct H; discriminate.
Qed.

Lemma pow_sep : forall (A : lang) n u,
  (exists u1 a, u = u1 ++ a /\ l_pow (l_cat A (l_lit [44])) n u1 /\ A a) <->
  (exists ws, Forall A ws /\ length ws = S n /\ u = join_comma ws).
Proof.
  intros A. induction n as [|n IH]; intros u.
  - cbn [l_pow]. unfold l_lit. split.
    + intros [u1 [a [E [E1 La]]]]. subst. exists [a]. split; [constructor; auto|]. split; reflexivity.
    + intros [ws [HF [Hl E]]]. destruct ws as [|a [|b ws]]; try discriminate.
      exists [], a. inversion HF; subst. auto.
  - cbn [l_pow]. split.
    + intros [u1 [a [E [[x [u1' [E1 [[a0 [c [Ex [La0 Ec]]]] Hp]]]] La]]]].
      unfold l_lit in Ec. subst.
      destruct (proj1 (IH (u1' ++ a))) as [ws [HF [Hl E]]].
      { exists u1', a. auto. }
      exists (a0 :: ws). split; [constructor; auto|]. split; [cbn [length]; lia|].
      destruct ws as [|b ws]; [discriminate|].
      change (join_comma (a0 :: b :: ws)) with (a0 ++ 44 :: join_comma (b :: ws)).
      rewrite <- E. rewrite <- !app_assoc. reflexivity.
    + intros [ws [HF [Hl E]]]. destruct ws as [|a0 [|b ws]]; try discriminate.
      inversion HF as [|? ? La0 HF']; subst.
      destruct (proj2 (IH (join_comma (b :: ws)))) as [u1' [a [E [Hp La]]]].
      { exists (b :: ws). split; [auto|]. split; [|reflexivity]. cbn [length] in *. lia. }
      exists ((a0 ++ [44]) ++ u1'), a. split.
      * change (join_comma (a0 :: b :: ws)) with (a0 ++ 44 :: join_comma (b :: ws)).
        rewrite E. rewrite <- !app_assoc. reflexivity.
      * split; auto. exists (a0 ++ [44]), u1'. split; auto. split; auto.
        exists a0, [44]. unfold l_lit. auto.
Qed.

(*FIXED*) (* bounded_sequence: between max(min,1) and max items separated by commas *)
Theorem m_bseq_exact : forall item A min_elts max_elts, mlang item A -> nonempty_lang A ->
  mlang (m_bseq item min_elts max_elts)
        (fun u => exists ws, Forall A ws /\ ws <> [] /\ (min_elts <= length ws)%nat /\
                             opt_le (Nat.pred (length ws)) (option_map Nat.pred max_elts) /\
                             u = join_comma ws).
Proof.
  intros item A mn mx Hm HA. unfold m_bseq.
  eapply mlang_ext; [|apply (mlang_seq _ _ _ _
     (mlang_repeat _ _ (Nat.pred mn) (option_map Nat.pred mx)
        (mlang_seq _ _ _ _ Hm (mlang_lit [44])) (sep_nonempty A)) Hm)].
  intro u. unfold l_cat at 1. split.
  - intros [u1 [a [E [[n [Hlo [Hhi Hp]]] La]]]].
    destruct (proj1 (pow_sep A n u)) as [ws [HF [Hl Eu]]].
    { exists u1, a. auto. }
    exists ws. split; auto. split; [intro; subst; discriminate|]. split; [lia|].
    rewrite Hl. cbn [Nat.pred]. auto.
  - intros [ws [HF [Hne [Hmin [Hmax Eu]]]]].
    destruct (proj2 (pow_sep A (Nat.pred (length ws)) u)) as [u1 [a [E [Hp La]]]].
    { exists ws. split; auto. split; auto. destruct ws; [congruence|]. reflexivity. }
    exists u1, a. split; auto. split; auto.
    exists (Nat.pred (length ws)). split; [lia|]. auto.
Qed.

(*FIXED*) (* sequence: one or more items separated by commas *)
Theorem m_sequence_exact : forall item A, mlang item A -> nonempty_lang A ->
  mlang (m_sequence item) (fun u => exists ws, Forall A ws /\ ws <> [] /\ u = join_comma ws).
Proof.
  intros item A Hm HA.
  eapply mlang_ext; [|apply (m_bseq_exact item A 0 None Hm HA)].
  intro u. split.
  - intros [ws [HF [Hne [_ [_ E]]]]]. exists ws. auto.
  - intros [ws [HF [Hne E]]]. exists ws. split; auto. split; auto. split; [lia|].
    split; [exact I|auto].
Qed.

(* ---- gen_json_array ---- *)
(* the language of the item at position i *)
Definition slot_lang (prefix : list lang) (items : option lang) (i : nat) : lang :=
  match nth_error prefix i with
  | Some L => L
  | None => match items with Some L => L | None => fun _ => False end
  end.

(* words for a prefix of a list of languages *)
Inductive pm : list lang -> list bytes -> Prop :=
| pm_nil : forall Ls, pm Ls []
| pm_cons : forall (L : lang) Ls w ws, L w -> pm Ls ws -> pm (L :: Ls) (w :: ws).

Definition app1 (L : lang) (w : bytes) : Prop := L w.

Lemma F2_length : forall A B (R : A -> B -> Prop) l1 l2, Forall2 R l1 l2 -> length l1 = length l2.
Proof. intros A B R l1 l2 H. induction H; cbn [length]; congruence. Qed.

Lemma F2_firstn : forall A B (R : A -> B -> Prop) n l1 l2, Forall2 R l1 l2 ->
  Forall2 R (firstn n l1) (firstn n l2).
Proof.
  intros A B R n. induction n as [|n IH]; intros l1 l2 H; cbn [firstn]; [constructor|].
  destruct H; constructor; auto.
Qed.

Lemma F2_skipn : forall A B (R : A -> B -> Prop) n l1 l2, Forall2 R l1 l2 ->
  Forall2 R (skipn n l1) (skipn n l2).
Proof.
  intros A B R n. induction n as [|n IH]; intros l1 l2 H; cbn [skipn]; [assumption|].
  destruct H; [constructor|auto].
Qed.

Lemma F2_repeat : forall A B (R : A -> B -> Prop) a b n, R a b -> Forall2 R (repeat a n) (repeat b n).
Proof. intros A B R a b n H. induction n; cbn [repeat]; constructor; auto. Qed.

Lemma nth_error_firstn_lt : forall A n (l : list A) i, (i < n)%nat -> nth_error (firstn n l) i = nth_error l i.
Proof.
  intros A. induction n as [|n IH]; intros l i Hi; [lia|].
  destruct l as [|x l]; [reflexivity|]. destruct i as [|i]; [reflexivity|].
  cbn [firstn nth_error]. apply IH. lia.
Qed.

Lemma nth_error_skipn_add : forall A n (l : list A) j, nth_error (skipn n l) j = nth_error l (n + j).
Proof.
  intros A. induction n as [|n IH]; intros l j; [reflexivity|].
  destruct l as [|x l]; [destruct j; reflexivity|]. cbn [skipn Nat.add nth_error]. apply IH.
Qed.

Lemma nth_error_lt : forall A (l : list A) i x, nth_error l i = Some x -> (i < length l)%nat.
Proof. intros A l i x H. apply nth_error_Some. congruence. Qed.

Lemma pm_nth : forall Ls ws,
  pm Ls ws <-> ((length ws <= length Ls)%nat /\
                forall i w, nth_error ws i = Some w -> exists L, nth_error Ls i = Some L /\ L w).
Proof.
  intros Ls ws. split.
  - intro H. induction H as [Ls|L Ls w ws HL H [IH1 IH2]].
    + split; [cbn [length]; lia|]. intros [|i] w Hn; discriminate.
    + split; [cbn [length]; lia|]. intros [|i] w' Hn; cbn [nth_error] in *.
      * inversion Hn; subst. exists L. auto.
      * apply IH2. assumption.
  - revert Ls. induction ws as [|w ws IH]; intros Ls [H1 H2]; [constructor|].
    destruct Ls as [|L Ls]; [cbn [length] in H1; lia|].
    destruct (H2 O w eq_refl) as [L' [E HL]]. cbn [nth_error] in E. inversion E; subst L'.
    constructor; [assumption|]. apply IH. split; [cbn [length] in H1; lia|].
    intros i w' H. apply (H2 (S i) w' H).
Qed.

Lemma F2_pm : forall Ls ws, Forall2 app1 Ls ws <-> (pm Ls ws /\ length ws = length Ls).
Proof.
  intros Ls ws. split.
  - intro H. induction H as [|L w Ls ws HL H [IH1 IH2]].
    + split; [constructor|reflexivity].
    + split; [constructor; assumption|cbn [length]; congruence].
  - intros [H Hl]. induction H as [Ls|L Ls w ws HL H IH].
    + destruct Ls; [constructor|discriminate].
    + constructor; [assumption|]. apply IH. cbn [length] in Hl. congruence.
Qed.

Lemma pm_app : forall L1 rs L2 os, Forall2 app1 L1 rs -> pm L2 os -> pm (L1 ++ L2) (rs ++ os).
Proof.
  intros L1 rs L2 os H1 H2. induction H1; cbn [app]; [assumption|constructor; assumption].
Qed.

Lemma pm_split : forall E k Ls ws, (k <= length Ls)%nat ->
  ((exists rs os, Forall2 app1 (firstn k Ls) rs /\ pm (skipn k Ls ++ E) os /\ ws = rs ++ os) <->
   (pm (Ls ++ E) ws /\ (k <= length ws)%nat)).
Proof.
  intros E. induction k as [|k IH]; intros Ls ws Hk.
  - cbn [firstn skipn]. split.
    + intros [rs [os [H1 [H2 H3]]]]. inversion H1; subst. cbn [app]. split; [assumption|lia].
    + intros [H _]. exists [], ws. split; [constructor|]. split; [assumption|reflexivity].
  - destruct Ls as [|L Ls]; [cbn [length] in Hk; lia|]. cbn [length] in Hk.
    cbn [firstn skipn app]. split.
    + intros [rs [os [H1 [H2 H3]]]]. inversion H1 as [|? r ? rs' HL H1']; subst.
      destruct (proj1 (IH Ls (rs' ++ os) ltac:(lia))) as [Hp Hl].
      { exists rs', os. auto. }
      cbn [app length]. split; [constructor; assumption|lia].
    + intros [H Hl]. inversion H as [|? ? w ws' HL H']; subst; [cbn [length] in Hl; lia|].
      cbn [length] in Hl.
      destruct (proj2 (IH Ls ws' ltac:(lia))) as [rs [os [H1 [H2 H3]]]].
      { split; [assumption|lia]. }
      exists (w :: rs), os. split; [constructor; assumption|]. split; [assumption|].
      subst. reflexivity.
Qed.

Lemma pm_snoc : forall (S : lang) Ls ws,
  pm (Ls ++ [S]) ws <->
  (pm Ls ws \/ exists ws0 s, ws = ws0 ++ [s] /\ Forall2 app1 Ls ws0 /\ S s).
Proof.
  intros S. induction Ls as [|L Ls IH]; intros ws; cbn [app].
  - split.
    + intro H. inversion H as [|? ? w ws' HL H']; subst; [left; constructor|].
      inversion H'; subst. right. exists [], w. split; [reflexivity|]. split; [constructor|assumption].
    + intros [H|[ws0 [s [E [H1 H2]]]]].
      * inversion H; subst. constructor.
      * inversion H1; subst. cbn [app]. constructor; [assumption|constructor].
  - split.
    + intro H. inversion H as [|? ? w ws' HL H']; subst; [left; constructor|].
      apply IH in H'. destruct H' as [H'|[ws0 [s [E [H1 H2]]]]].
      * left. constructor; assumption.
      * right. exists (w :: ws0), s. subst. split; [reflexivity|]. split; [constructor; assumption|assumption].
    + intros [H|[ws0 [s [E [H1 H2]]]]].
      * inversion H; subst; constructor; [assumption|]. apply IH. left. assumption.
      * inversion H1 as [|? w ? ws0' HL H1']; subst. cbn [app]. constructor; [assumption|].
        apply IH. right. exists ws0', s. auto.
Qed.

Lemma opt_tail_spec : forall ms Ls, Forall2 mlang ms Ls ->
  mlang (m_opt_tail ms) (fun u => exists ws, pm Ls ws /\ u = pre_comma ws).
Proof.
  intros ms Ls H. induction H as [|m L ms Ls Hm H IH]; cbn [m_opt_tail].
  - eapply mlang_ext; [|apply mlang_eps]. intro u. unfold l_lit. split.
    + intro; subst. exists []. split; [constructor|reflexivity].
    + intros [ws [Hp E]]. inversion Hp; subst. reflexivity.
  - eapply mlang_ext;
      [|apply (mlang_opt _ _ (mlang_seq _ _ _ _ (mlang_lit [44]) (mlang_seq _ _ _ _ Hm IH)))].
    intro u. unfold l_alt, l_cat, l_lit. split.
    + intros [E|[c [x [E [Ec [a [b [Ex [La [ws [Hp Eb]]]]]]]]]]]; subst.
      * exists []. split; [constructor|reflexivity].
      * exists (a :: ws). split; [constructor; assumption|reflexivity].
    + intros [ws [Hp E]]. inversion Hp; subst; [left; reflexivity|].
      right. exists [44], (w ++ pre_comma ws0). split; [reflexivity|]. split; [reflexivity|].
      exists w, (pre_comma ws0). split; [reflexivity|]. split; [assumption|]. exists ws0. auto.
Qed.

Lemma join_comma_spec : forall ms Ls, Forall2 mlang ms Ls ->
  mlang (m_join_comma ms) (fun u => exists ws, Forall2 app1 Ls ws /\ u = join_comma ws).
Proof.
  intros ms Ls H. induction H as [|m L ms Ls Hm H IH].
  - cbn [m_join_comma]. eapply mlang_ext; [|apply mlang_eps]. intro u. unfold l_lit. split.
    + intro; subst. exists []. split; [constructor|reflexivity].
    + intros [ws [Hp E]]. inversion Hp; subst. reflexivity.
  - revert IH. destruct H as [|m' L' ms' Ls' Hm' H']; intro IH.
    + cbn [m_join_comma]. eapply mlang_ext; [|apply Hm]. intro u. split.
      * intro Lu. exists [u]. split; [constructor; [assumption|constructor]|reflexivity].
      * intros [ws [Hp E]]. inversion Hp as [|? w ? ws' HL Hp']; subst. inversion Hp'; subst. assumption.
    + change (m_join_comma (m :: m' :: ms')) with (m_seq m (m_seq comma (m_join_comma (m' :: ms')))).
      eapply mlang_ext; [|apply (mlang_seq _ _ _ _ Hm (mlang_seq _ _ _ _ (mlang_lit [44]) IH))].
      intro u. unfold l_cat, l_lit. split.
      * intros [a [x [E [La [c [b [Ex [Ec [ws [Hp Eb]]]]]]]]]]. subst.
        exists (a :: ws). split; [constructor; assumption|].
        inversion Hp; subst. reflexivity.
      * intros [ws [Hp E]]. inversion Hp as [|? w ? ws' HL Hp']; subst.
        inversion Hp' as [|? w' ? ws'' HL' Hp'']; subst.
        exists w, (44 :: join_comma (w' :: ws'')). split; [reflexivity|]. split; [assumption|].
        exists [44], (join_comma (w' :: ws'')). split; [reflexivity|]. split; [reflexivity|].
        exists (w' :: ws''). auto.
Qed.

Lemma pre_comma_join : forall vs, vs <> [] -> pre_comma vs = 44 :: join_comma vs.
Proof.
  intros [|v vs] H; [congruence|]. rewrite pre_comma_cons, join_comma_cons. reflexivity.
Qed.

Lemma join_comma_flatten : forall ws0 vs, vs <> [] ->
  join_comma (ws0 ++ [join_comma vs]) = join_comma (ws0 ++ vs).
Proof.
  intros ws0 vs H. destruct ws0 as [|x ws0].
  - reflexivity.
  - rewrite !join_comma_app by discriminate. f_equal.
    rewrite (pre_comma_join vs H). cbn [pre_comma flat_map]. rewrite app_nil_r. reflexivity.
Qed.

(* "[" required "," optional... "]" *)
Lemma array_body : forall req opt reqL optL, Forall2 mlang req reqL -> Forall2 mlang opt optL ->
  mlang (m_seq (m_lit [91]) (m_seq (m_join_comma req)
          (m_seq (match opt with
                  | [] => m_eps
                  | first :: rest =>
                      match req with
                      | [] => m_opt (m_seq first (m_opt_tail rest))
                      | _ => m_opt (m_seq comma (m_seq first (m_opt_tail rest)))
                      end
                  end) (m_lit [93]))))
        (fun u => exists rs os, Forall2 app1 reqL rs /\ pm optL os /\
                                u = 91 :: join_comma (rs ++ os) ++ [93]).
Proof.
  intros req opt reqL optL Hreq Hopt.
  assert (Hopt_part : mlang (match opt with
                  | [] => m_eps
                  | first :: rest =>
                      match req with
                      | [] => m_opt (m_seq first (m_opt_tail rest))
                      | _ => m_opt (m_seq comma (m_seq first (m_opt_tail rest)))
                      end
                  end)
            (fun u => exists os, pm optL os /\
                        u = match reqL with [] => join_comma os | _ => pre_comma os end)).
  { destruct Hopt as [|first L rest optL' Hf Hrest].
    - eapply mlang_ext; [|apply mlang_eps]. intro u. unfold l_lit. split.
      + intro; subst. exists []. split; [constructor|]. destruct reqL; reflexivity.
      + intros [os [Hp E]]. inversion Hp; subst. destruct reqL; reflexivity.
    - pose proof (opt_tail_spec _ _ Hrest) as Ht. destruct Hreq as [|r rL req' reqL' Hr Hreq'].
      + eapply mlang_ext; [|apply (mlang_opt _ _ (mlang_seq _ _ _ _ Hf Ht))].
        intro u. unfold l_alt, l_cat, l_lit. split.
        * intros [E|[a [b [E [La [ws [Hp Eb]]]]]]]; subst.
          -- exists []. split; [constructor|reflexivity].
          -- exists (a :: ws). split; [constructor; assumption|]. rewrite join_comma_cons. reflexivity.
        * intros [os [Hp E]]. inversion Hp; subst; [left; reflexivity|].
          right. exists w, (pre_comma ws). split; [apply join_comma_cons|]. split; [assumption|].
          exists ws. auto.
      + eapply mlang_ext;
          [|apply (mlang_opt _ _ (mlang_seq _ _ _ _ (mlang_lit [44]) (mlang_seq _ _ _ _ Hf Ht)))].
        intro u. unfold l_alt, l_cat, l_lit. split.
        * intros [E|[c [x [E [Ec [a [b [Ex [La [ws [Hp Eb]]]]]]]]]]]; subst.
          -- exists []. split; [constructor|reflexivity].
          -- exists (a :: ws). split; [constructor; assumption|reflexivity].
        * intros [os [Hp E]]. inversion Hp; subst; [left; reflexivity|].
          right. exists [44], (w ++ pre_comma ws). split; [reflexivity|]. split; [reflexivity|].
          exists w, (pre_comma ws). split; [reflexivity|]. split; [assumption|]. exists ws. auto. }
  eapply mlang_ext; [|apply (mlang_seq _ _ _ _ (mlang_lit [91])
     (mlang_seq _ _ _ _ (join_comma_spec _ _ Hreq) (mlang_seq _ _ _ _ Hopt_part (mlang_lit [93]))))].
  intro u. unfold l_cat, l_lit. split.
  - intros [c [x [E [Ec [j [y [Ex [[rs [Hrs Ej]] [o [d [Ey [[os [Hos Eo]] Ed]]]]]]]]]]]]. subst.
    exists rs, os. split; [assumption|]. split; [assumption|]. cbn [app]. f_equal.
    rewrite app_assoc. f_equal. destruct Hrs as [|L r Ls rs' HL Hrs'].
    + reflexivity.
    + rewrite join_comma_app by discriminate. reflexivity.
  - intros [rs [os [Hrs [Hos E]]]].
    exists [91], (join_comma (rs ++ os) ++ [93]). split; [assumption|]. split; [reflexivity|].
    exists (join_comma rs), (match reqL with [] => join_comma os | _ => pre_comma os end ++ [93]).
    split.
    + rewrite app_assoc. f_equal. destruct Hrs as [|L r Ls rs' HL Hrs'].
      * reflexivity.
      * rewrite join_comma_app by discriminate. reflexivity.
    + split; [exists rs; auto|].
      exists (match reqL with [] => join_comma os | _ => pre_comma os end), [93].
      split; [reflexivity|]. split; [|reflexivity]. exists os. auto.
Qed.

Definition seq_lang (A : lang) : lang :=
  fun u => exists ws, Forall A ws /\ ws <> [] /\ u = join_comma ws.

Definition slotsL (Lp : list lang) (Li : option lang) (n : nat) : list lang :=
  firstn n (Lp ++ match Li with Some A => repeat A (n - length Lp) | None => [] end).

Definition extraL (maxI : option nat) (Li : option lang) : list lang :=
  match maxI, Li with
  | None, Some A => [seq_lang A]
  | _, _ => []
  end.

Definition n_of (lenp minI : nat) (maxI : option nat) : nat :=
  match maxI with Some m => m | None => Nat.max lenp minI end.

Lemma slots_len : forall Lp Li n,
  length (slotsL Lp Li n) = match Li with Some _ => n | None => Nat.min n (length Lp) end.
Proof.
  intros. unfold slotsL. rewrite firstn_length, app_length.
  destruct Li; [rewrite repeat_length; lia | cbn [length]; lia].
Qed.

Lemma slots_nth : forall Lp Li n i, (i < length (slotsL Lp Li n))%nat ->
  nth_error (slotsL Lp Li n) i = Some (slot_lang Lp Li i).
Proof.
  intros Lp Li n i Hi. rewrite slots_len in Hi. unfold slotsL.
  rewrite nth_error_firstn_lt by (destruct Li; lia). unfold slot_lang.
  destruct (Nat.lt_ge_cases i (length Lp)) as [Hlt|Hge].
  - rewrite nth_error_app1 by assumption. destruct (nth_error Lp i) eqn:E; [reflexivity|].
    apply nth_error_None in E. lia.
  - rewrite nth_error_app2 by assumption. destruct Li as [A|]; [|lia].
    rewrite nth_error_repeat by lia.
    rewrite (proj2 (nth_error_None Lp i)) by assumption. reflexivity.
Qed.

Lemma pm_slots : forall Ls (F : nat -> lang) ws,
  (forall i, (i < length Ls)%nat -> nth_error Ls i = Some (F i)) ->
  (pm Ls ws <-> ((length ws <= length Ls)%nat /\ forall i w, nth_error ws i = Some w -> F i w)).
Proof.
  intros Ls F ws H. rewrite pm_nth. split; intros [H1 H2]; (split; [assumption|]); intros i w Hn.
  - destruct (H2 i w Hn) as [L [E HL]].
    rewrite H in E by (apply nth_error_lt in Hn; lia). inversion E; subst. assumption.
  - exists (F i). split; [apply H; apply nth_error_lt in Hn; lia | auto].
Qed.

Lemma pm_slotsL : forall Lp Li n ws,
  pm (slotsL Lp Li n) ws <->
  ((length ws <= match Li with Some _ => n | None => Nat.min n (length Lp) end)%nat /\
   forall i w, nth_error ws i = Some w -> slot_lang Lp Li i w).
Proof.
  intros. rewrite <- slots_len. apply pm_slots. apply slots_nth.
Qed.

Lemma pm_split_words : forall E k Ls u, (k <= length Ls)%nat ->
  ((exists rs os, Forall2 app1 (firstn k Ls) rs /\ pm (skipn k Ls ++ E) os /\
                  u = 91 :: join_comma (rs ++ os) ++ [93]) <->
   (exists ws, pm (Ls ++ E) ws /\ (k <= length ws)%nat /\ u = 91 :: join_comma ws ++ [93])).
Proof.
  intros E k Ls u Hk. split.
  - intros [rs [os [H1 [H2 Eu]]]].
    destruct (proj1 (pm_split E k Ls (rs ++ os) Hk)) as [Hp Hl].
    { exists rs, os. auto. }
    exists (rs ++ os). auto.
  - intros [ws [Hp [Hl Eu]]].
    destruct (proj2 (pm_split E k Ls ws Hk)) as [rs [os [H1 [H2 E3]]]]; [auto|].
    exists rs, os. subst ws. auto.
Qed.

Lemma array_words_fin : forall Lp Li minI maxI (P : Prop), P ->
  (maxI = None -> Li = None) ->
  (match maxI with Some m => Nat.ltb m minI | None => false end ||
   match Li with None => Nat.ltb (length Lp) minI | Some _ => false end) = false ->
  forall u,
  (exists ws, pm (slotsL Lp Li (n_of (length Lp) minI maxI) ++ []) ws /\ (minI <= length ws)%nat /\
              u = 91 :: join_comma ws ++ [93]) <->
  (exists ws, u = 91 :: join_comma ws ++ [93] /\ (minI <= length ws)%nat /\ opt_le (length ws) maxI /\
              (forall i w, nth_error ws i = Some w -> slot_lang Lp Li i w) /\ P).
Proof.
  intros Lp Li minI maxI P HP Hfin Hunsat u. rewrite app_nil_r.
  apply orb_false_iff in Hunsat. destruct Hunsat as [Hu1 Hu2].
  split; intros [ws H]; exists ws.
  - destruct H as [Hp [Hl E]]. apply pm_slotsL in Hp. destruct Hp as [Hp1 Hp2].
    split; [assumption|]. split; [assumption|]. split; [|split; assumption].
    destruct maxI as [m|]; cbn [opt_le n_of] in *; [|exact I]. destruct Li; lia.
  - destruct H as [E [Hl [Hmax [Hn _]]]]. split; [|split; assumption].
    apply pm_slotsL. split; [|assumption].
    destruct Li as [A|].
    + destruct maxI as [m|]; [cbn [opt_le n_of] in *; lia|].
      specialize (Hfin eq_refl). discriminate.
    + assert (Hle : (length ws <= length Lp)%nat).
      { destruct (Nat.le_gt_cases (length ws) (length Lp)) as [Hle|Hgt]; [assumption|]. exfalso.
        destruct (nth_error ws (length Lp)) as [w|] eqn:E'.
        - apply Hn in E'. unfold slot_lang in E'.
          rewrite (proj2 (nth_error_None Lp (length Lp))) in E' by lia. exact E'.
        - apply nth_error_None in E'. lia. }
      destruct maxI as [m|]; cbn [opt_le n_of] in *; lia.
Qed.

Lemma array_words_inf : forall Lp A minI (P : Prop), P ->
  forall u,
  (exists ws, pm (slotsL Lp (Some A) (n_of (length Lp) minI None) ++ [seq_lang A]) ws /\
              (minI <= length ws)%nat /\ u = 91 :: join_comma ws ++ [93]) <->
  (exists ws, u = 91 :: join_comma ws ++ [93] /\ (minI <= length ws)%nat /\ opt_le (length ws) None /\
              (forall i w, nth_error ws i = Some w -> slot_lang Lp (Some A) i w) /\ P).
Proof.
  intros Lp A minI P HP u. cbn [n_of opt_le].
  set (n := Nat.max (length Lp) minI).
  assert (Hn1 : (length Lp <= n)%nat) by (subst n; lia).
  assert (Hn2 : (minI <= n)%nat) by (subst n; lia).
  clearbody n. split.
  - intros [ws' [Hp [Hl E]]]. apply pm_snoc in Hp.
    destruct Hp as [Hp | [ws0 [s [Ews [HF [vs [HA [Hne Es]]]]]]]].
    + exists ws'. apply pm_slotsL in Hp. destruct Hp as [Hp1 Hp2].
      split; [assumption|]. split; [assumption|]. split; [exact I|]. split; assumption.
    + subst ws' s. exists (ws0 ++ vs). rewrite join_comma_flatten in E by assumption.
      apply F2_pm in HF. destruct HF as [Hp Hlen0]. rewrite slots_len in Hlen0.
      apply pm_slotsL in Hp. destruct Hp as [_ Hp2].
      split; [assumption|]. split; [rewrite app_length; lia|]. split; [exact I|].
      split; [|assumption]. intros i w Hi.
      destruct (Nat.lt_ge_cases i (length ws0)) as [Hlt|Hge].
      * rewrite nth_error_app1 in Hi by assumption. apply Hp2. assumption.
      * rewrite nth_error_app2 in Hi by assumption. unfold slot_lang.
        rewrite (proj2 (nth_error_None Lp i)) by lia.
        rewrite Forall_forall in HA. apply HA. eapply nth_error_In. eassumption.
  - intros [ws [E [Hl [_ [Hn _]]]]].
    destruct (Nat.le_gt_cases (length ws) n) as [Hle|Hgt].
    + exists ws. split; [|split; assumption]. apply pm_snoc. left. apply pm_slotsL. split; assumption.
    + assert (Hne : skipn n ws <> []).
      { intro Hs. apply (f_equal (@length bytes)) in Hs. rewrite skipn_length in Hs.
        cbn [length] in Hs. lia. }
      exists (firstn n ws ++ [join_comma (skipn n ws)]). split; [|split].
      * apply pm_snoc. right. exists (firstn n ws), (join_comma (skipn n ws)).
        split; [reflexivity|]. split.
        -- apply F2_pm. split; [|rewrite firstn_length, slots_len; lia].
           apply pm_slotsL. split; [rewrite firstn_length; lia|].
           intros i w Hi.
           assert (Hin : (i < n)%nat) by (apply nth_error_lt in Hi; rewrite firstn_length in Hi; lia).
           rewrite nth_error_firstn_lt in Hi by assumption. apply Hn. assumption.
        -- exists (skipn n ws). split; [|split; [assumption|reflexivity]].
           apply Forall_forall. intros x Hx. apply In_nth_error in Hx. destruct Hx as [j Hj].
           rewrite nth_error_skipn_add in Hj. apply Hn in Hj. unfold slot_lang in Hj.
           rewrite (proj2 (nth_error_None Lp (n + j))) in Hj by lia. exact Hj.
      * rewrite app_length, firstn_length. cbn [length]. lia.
      * rewrite join_comma_flatten by assumption. rewrite firstn_skipn. exact E.
Qed.

Lemma mlang_fail : forall (L : lang), (forall u, ~ L u) -> mlang m_fail L.
Proof.
  intros L H w r _. unfold m_fail. cbn [In]. split; [tauto|]. intros [u [_ Lu]]. exact (H u Lu).
Qed.

Lemma m_array_struct : forall prefix items minI maxI Lp Li,
  Forall2 mlang prefix Lp ->
  match items, Li with
  | Some a, Some A => mlang a A /\ nonempty_lang A
  | None, None => True
  | _, _ => False
  end ->
  (match maxI with Some m => Nat.ltb m minI | None => false end ||
   match items with None => Nat.ltb (length prefix) minI | Some _ => false end) = false ->
  mlang (m_array prefix items minI maxI)
        (fun u => exists rs os,
           Forall2 app1 (firstn minI (slotsL Lp Li (n_of (length Lp) minI maxI))) rs /\
           pm (skipn minI (slotsL Lp Li (n_of (length Lp) minI maxI)) ++ extraL maxI Li) os /\
           u = 91 :: join_comma (rs ++ os) ++ [93]).
Proof.
  intros prefix items minI maxI Lp Li Hpre Hit Hunsat.
  pose proof (F2_length _ _ _ _ _ Hpre) as Hlen.
  unfold m_array. cbv zeta. rewrite Hunsat. rewrite Hlen.
  fold (n_of (length Lp) minI maxI). set (n := n_of (length Lp) minI maxI).
  assert (Hslots : Forall2 mlang
            (firstn n (prefix ++ match items with Some a => repeat a (n - length Lp) | None => [] end))
            (slotsL Lp Li n)).
  { unfold slotsL. apply F2_firstn. apply Forall2_app; [assumption|].
    destruct items as [a|], Li as [A|]; try contradiction; [|constructor].
    apply F2_repeat. tauto. }
  apply array_body.
  - apply F2_firstn. assumption.
  - apply Forall2_app; [apply F2_skipn; assumption|].
    unfold extraL. destruct maxI as [m|]; destruct items as [a|], Li as [A|]; try contradiction;
      try constructor; [|constructor].
    destruct Hit as [Ha HA]. apply m_sequence_exact; assumption.
Qed.

(*FIXED*) (* "[" items "]" with minItems <= n <= maxItems, the i-th item from prefixItems[i] or items *)
Theorem m_array_exact : forall prefix items minI maxI Lp Li,
  Forall2 mlang prefix Lp -> Forall nonempty_lang Lp ->
  match items, Li with
  | Some a, Some A => mlang a A /\ nonempty_lang A
  | None, None => True
  | _, _ => False
  end ->
  mlang (m_array prefix items minI maxI)
        (fun u => exists ws, u = 91 :: join_comma ws ++ [93] /\
                             (minI <= length ws)%nat /\ opt_le (length ws) maxI /\
                             (forall i w, nth_error ws i = Some w -> slot_lang Lp Li i w) /\
                             (* unsatisfiable combinations are rejected when compiled *)
                             (items = None -> (minI <= length prefix)%nat)).
Proof.
  intros prefix items minI maxI Lp Li Hpre _ Hit.
  pose proof (F2_length _ _ _ _ _ Hpre) as Hlen.
  destruct (match maxI with Some m => Nat.ltb m minI | None => false end ||
            match items with None => Nat.ltb (length prefix) minI | Some _ => false end) eqn:Hunsat.
  - (* compile error *)
    unfold m_array. cbv zeta. rewrite Hunsat. apply mlang_fail.
    intros u [ws [_ [Hmin [Hmax [_ Hnone]]]]].
    apply orb_true_iff in Hunsat. destruct Hunsat as [Hu|Hu].
    + destruct maxI as [m|]; [|discriminate]. apply Nat.ltb_lt in Hu. cbn [opt_le] in Hmax. lia.
    + destruct items as [a|]; [discriminate|]. apply Nat.ltb_lt in Hu. specialize (Hnone eq_refl). lia.
  - eapply mlang_ext; [|apply (m_array_struct _ _ _ _ Lp Li Hpre Hit Hunsat)].
    assert (HP : items = None -> (minI <= length prefix)%nat).
    { intro Hi. subst items. apply orb_false_iff in Hunsat. destruct Hunsat as [_ Hu].
      apply Nat.ltb_ge in Hu. assumption. }
    assert (HunsatL : (match maxI with Some m => Nat.ltb m minI | None => false end ||
                       match Li with None => Nat.ltb (length Lp) minI | Some _ => false end) = false).
    { rewrite <- Hlen. destruct items as [a|], Li as [A|]; try contradiction; assumption. }
    intro u.
    assert (Hk : (minI <= length (slotsL Lp Li (n_of (length Lp) minI maxI)))%nat).
    { rewrite slots_len. apply orb_false_iff in HunsatL. destruct HunsatL as [Hu1 Hu2].
      destruct maxI as [m|], Li as [A|]; cbn [n_of]; cbv beta iota in Hu1, Hu2;
        try apply Nat.ltb_ge in Hu1; try apply Nat.ltb_ge in Hu2; unfold lang in *; lia. }
    etransitivity; [apply (pm_split_words _ _ _ _ Hk)|].
    destruct maxI as [m|].
    + replace (extraL (Some m) Li) with (@nil lang) by (destruct Li; reflexivity).
      apply array_words_fin; [assumption|discriminate|assumption].
    + destruct Li as [A|].
      * cbn [extraL]. apply array_words_inf. assumption.
      * cbn [extraL]. apply array_words_fin; [assumption|reflexivity|assumption].
Qed.

Print Assumptions m_oseq_exact.
Print Assumptions m_bseq_exact.
Print Assumptions m_sequence_exact.
Print Assumptions m_array_exact.
Print Assumptions mlang_repeat.
Print Assumptions mlang_regex.
