(* Run18.v — case runner for C18: stop controller (model StopCtrl.v) and the
   completeness of the final text (CFG specification) *)
From Coq Require Import String.
From LLG Require Import Base Sx Regex Trie StopCtrl RunEngine Run05.
Open Scope string_scope.
Open Scope N_scope.

Definition run_case18 (x : sx) : sx :=
  let h := head_sym x in
  let a := tail_items x in
  if bytes_eqb h (sym "stopctl") then
    let ws := map as_bytes (field "vocab" a) in
    let tr := mk_trie (lenN ws) ws [] 0 [] in       (* only token bytes are needed *)
    let stop_tokens := as_ns (field1 "stoptokens" a) in
    let S := match field "stoprx" a with r :: _ => Some (normalize (rx_of_sx r)) | [] => None end in
    let toks := as_ns (field1 "tokens" a) in
    (* chunks and the stopped flag after each token *)
    let '(chunks, flags, _) :=
      fold_left (fun (acc : list bytes * list bool * sc) t =>
                   let '(cs, fs, st) := acc in
                   let '(o, st') := sc_commit tr stop_tokens S st t in
                   ((cs ++ [o])%list, (fs ++ [sc_stopped st'])%list, st'))
                toks ([], [], sc_init) in
    (* the text is compared only for valid UTF-8 streams (the API converts lossily otherwise) *)
    tagged "ok" [SX (if as_bool (field1 "valid" a) then concat chunks else []); SL (map sb flags)]
  else if bytes_eqb h (sym "cfg") then run_case05 x
  else SL [SY (sym "unknown")].
