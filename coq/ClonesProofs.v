(* ClonesProofs.v — results of clones sharing lexer tables do not depend on the
   schedule.  STATEMENTS MARKED (*FIXED*) MUST NOT CHANGE. *)
From LLG Require Import Base Clones.

Section P.
  Variable St : Type.
  Variable step : St -> byte -> St.
  Variable st_eqb : St -> St -> bool.
  Hypothesis st_eqb_eq : forall a b, st_eqb a b = true <-> a = b.
  Variable dflt : St.


  Lemma find_state_some : forall l s i k,
    find_state St st_eqb l s i = Some k ->
    (i <= k /\ k < i + length l)%nat /\ nth (k - i) l dflt = s.
  Proof.
    induction l as [|x l IH]; simpl; intros s i k H; [discriminate|].
    destruct (st_eqb x s) eqn:E.
    - inversion H; subst. split; [lia|]. replace (k - k)%nat with 0%nat by lia.
      apply st_eqb_eq; exact E.
    - apply IH in H. destruct H as [H1 H2]. split; [lia|].
      replace (k - i)%nat with (S (k - S i)) by lia. exact H2.
  Qed.

  Lemma find_state_none : forall l s i,
    find_state St st_eqb l s i = None -> forall x, In x l -> st_eqb x s = false.
  Proof.
    induction l as [|a l IH]; simpl; intros s i H x Hin; [contradiction|].
    destruct (st_eqb a s) eqn:E; [discriminate|].
    destruct Hin as [Hx|Hin]; [subst; exact E|eauto].
  Qed.

  Lemma insert_state_wf : forall m s m1 j,
    memo_wf St step st_eqb dflt m -> insert_state St st_eqb m s = (m1, j) ->
    memo_wf St step st_eqb dflt m1 /\ (j < length (m_states St m1))%nat /\
    abs_id St m1 j dflt = s /\
    m_table St m1 = m_table St m /\
    exists extra, m_states St m1 = m_states St m ++ extra.
  Proof.
    intros m s m1 j [W1 W2] H. unfold insert_state in H.
    destruct (find_state St st_eqb (m_states St m) s 0) eqn:F.
    - inversion H; subst. apply find_state_some in F. destruct F as [F1 F2].
      rewrite Nat.sub_0_r in F2.
      split; [split; assumption|]. split; [lia|]. split; [exact F2|].
      split; [reflexivity|]. exists []. rewrite app_nil_r; reflexivity.
    - inversion H; subst; clear H. unfold memo_wf, abs_id in *; simpl.
      assert (NF : forall i, (i < length (m_states St m))%nat ->
                   nth i (m_states St m) dflt <> s).
      { intros i Hi E.
        pose proof (find_state_none _ _ _ F (nth i (m_states St m) dflt)
                      (nth_In _ _ Hi)) as Hf.
        rewrite E in Hf.
        assert (st_eqb s s = true) by (apply st_eqb_eq; reflexivity). congruence. }
      assert (LAST : nth (length (m_states St m)) (m_states St m ++ [s]) dflt = s).
      { rewrite app_nth2 by lia. rewrite Nat.sub_diag. reflexivity. }
      split; [split|].
      + intros i b j Hin. destruct (W1 i b j Hin) as (A & B & C).
        rewrite app_length; simpl. split; [lia|]. split; [lia|].
        rewrite !app_nth1 by lia. exact C.
      + intros i j Hi Hj E. rewrite app_length in Hi, Hj; simpl in Hi, Hj.
        apply st_eqb_eq in E.
        destruct (Nat.lt_ge_cases i (length (m_states St m))) as [Li|Li];
        destruct (Nat.lt_ge_cases j (length (m_states St m))) as [Lj|Lj].
        * rewrite !app_nth1 in E by lia. apply W2; try assumption.
          apply st_eqb_eq; exact E.
        * assert (j = length (m_states St m)) by lia. subst j.
          rewrite LAST in E. rewrite app_nth1 in E by lia.
          exfalso. exact (NF i Li E).
        * assert (i = length (m_states St m)) by lia. subst i.
          rewrite LAST in E. rewrite app_nth1 in E by lia.
          exfalso. exact (NF j Lj (eq_sym E)).
        * lia.
      + split; [rewrite app_length; simpl; lia|].
        split; [exact LAST|]. split; [reflexivity|]. exists [s]; reflexivity.
  Qed.

  Lemma pure_run_app : forall w1 w2 s,
    pure_run St step s (w1 ++ w2) = pure_run St step (pure_run St step s w1) w2.
  Proof. induction w1; simpl; intros; auto. Qed.

  Lemma update_nth_length : forall (A : Type) (l : list A) i f,
    length (update_nth l i f) = length l.
  Proof. induction l; destruct i; simpl; intros; auto. Qed.

  Lemma update_nth_same : forall (A : Type) (l : list A) i f d,
    (i < length l)%nat -> nth i (update_nth l i f) d = f (nth i l d).
  Proof.
    induction l; destruct i; simpl; intros; try lia; auto. apply IHl; lia.
  Qed.

  Lemma update_nth_other : forall (A : Type) (l : list A) i k f d,
    i <> k -> nth k (update_nth l i f) d = nth k l d.
  Proof.
    induction l; destruct i; destruct k; simpl; intros; try congruence; auto.
  Qed.

  Lemma update_nth_Forall : forall (A : Type) (P : A -> Prop) (l : list A) i v,
    Forall P l -> P v -> Forall P (update_nth l i (fun _ => v)).
  Proof.
    induction l; destruct i; simpl; intros v HF Hv; auto;
      inversion HF; subst; constructor; auto.
  Qed.

  (*FIXED*) (* one transition: the memo only grows, old ids keep their meaning, the result is the pure transition *)
  Theorem transition_refines : forall m id b m' id',
    memo_wf St step st_eqb dflt m -> (id < length (m_states St m))%nat ->
    transition St step st_eqb dflt m id b = (m', id') ->
    memo_wf St step st_eqb dflt m' /\
    (id' < length (m_states St m'))%nat /\
    abs_id St m' id' dflt = step (abs_id St m id dflt) b /\
    (exists extra, m_states St m' = m_states St m ++ extra).
  Proof.
    intros m id b m' id' W Hid H. unfold transition in H.
    destruct (lookup St m id b) as [j|] eqn:L.
    - inversion H; subst; clear H. unfold lookup in L.
      destruct (find (fun '(i, c, _) => Nat.eqb i id && (c =? b)) (m_table St m'))
        as [[[i c] j]|] eqn:Fd; [|discriminate].
      inversion L; subst; clear L.
      apply find_some in Fd. destruct Fd as [Hin Hb].
      apply andb_true_iff in Hb. destruct Hb as [Hb1 Hb2].
      apply Nat.eqb_eq in Hb1. apply N.eqb_eq in Hb2. subst.
      destruct W as [W1 W2]. destruct (W1 _ _ _ Hin) as (A & B & C).
      split; [split; assumption|]. split; [assumption|].
      split; [apply st_eqb_eq; exact C|]. exists []. rewrite app_nil_r; reflexivity.
    - destruct (insert_state St st_eqb m (step (abs_id St m id dflt) b)) as [m1 j] eqn:I.
      inversion H; subst; clear H.
      apply insert_state_wf in I; [|exact W].
      destruct I as ([V1 V2] & Hj & Habs & Htab & extra & Hext).
      unfold memo_wf, abs_id in *; simpl.
      split; [split|].
      + intros i c k [Hin|Hin].
        * inversion Hin; subst; clear Hin.
          split; [rewrite Hext, app_length; lia|]. split; [exact Hj|].
          apply st_eqb_eq. rewrite Habs. rewrite Hext. rewrite app_nth1 by lia.
          reflexivity.
        * apply V1; exact Hin.
      + exact V2.
      + split; [exact Hj|]. split; [exact Habs|]. exists extra; exact Hext.
  Qed.

  (*FIXED*) (* an atomic operation = the pure run over its bytes *)
  Theorem run_bytes_refines : forall w m id m' id',
    memo_wf St step st_eqb dflt m -> (id < length (m_states St m))%nat ->
    run_bytes St step st_eqb dflt m id w = (m', id') ->
    memo_wf St step st_eqb dflt m' /\
    (id' < length (m_states St m'))%nat /\
    abs_id St m' id' dflt = pure_run St step (abs_id St m id dflt) w /\
    (exists extra, m_states St m' = m_states St m ++ extra).
  Proof.
    induction w as [|b w IH]; simpl; intros m id m' id' W Hid H.
    - inversion H; subst. split; [assumption|]. split; [assumption|].
      split; [reflexivity|]. exists []. rewrite app_nil_r; reflexivity.
    - destruct (transition St step st_eqb dflt m id b) as [m1 id1] eqn:T.
      apply transition_refines in T; try assumption.
      destruct T as (W1 & Hid1 & A1 & e1 & E1).
      apply IH in H; try assumption.
      destruct H as (W2 & Hid2 & A2 & e2 & E2).
      split; [assumption|]. split; [assumption|].
      split; [rewrite A2, A1; reflexivity|].
      exists (e1 ++ e2). rewrite E2, E1, app_assoc. reflexivity.
  Qed.

  (*FIXED*) (* schedule independence: after any interleaving, clone i is in the state its own bytes
     lead to — exactly what a private, freshly built engine computes *)
  Theorem schedule_independent : forall sched m cs m' cs' i,
    memo_wf St step st_eqb dflt m ->
    Forall (fun id => (id < length (m_states St m))%nat) cs ->
    Forall (fun '(j, _) => (j < length cs)%nat) sched ->
    (i < length cs)%nat ->
    run_schedule St step st_eqb dflt m cs sched = (m', cs') ->
    abs_id St m' (nth i cs' 0%nat) dflt =
      pure_run St step (abs_id St m (nth i cs 0%nat) dflt) (bytes_of i sched).
  Proof.
    induction sched as [|[j w] rest IH]; simpl; intros m cs m' cs' i W HF HS Hi H.
    - inversion H; subst. reflexivity.
    - destruct (run_bytes St step st_eqb dflt m (nth j cs 0%nat) w) as [m1 id1] eqn:R.
      inversion HS as [|x l Hj HS']; subst.
      assert (Hjid : (nth j cs 0 < length (m_states St m))%nat).
      { rewrite Forall_forall in HF. apply HF. apply nth_In. exact Hj. }
      apply run_bytes_refines in R; try assumption.
      destruct R as (W1 & Hid1 & A1 & e1 & E1).
      assert (HF1 : Forall (fun id => (id < length (m_states St m1))%nat)
                      (update_nth cs j (fun _ => id1))).
      { apply update_nth_Forall; [|exact Hid1].
        eapply Forall_impl; [|exact HF]. simpl. intros a Ha.
        rewrite E1, app_length. lia. }
      assert (HS1 : Forall (fun '(j0, _) => (j0 < length (update_nth cs j (fun _ => id1)))%nat) rest).
      { eapply Forall_impl; [|exact HS']. intros [a ?] Ha.
        rewrite update_nth_length. exact Ha. }
      specialize (IH m1 (update_nth cs j (fun _ => id1)) m' cs' i W1 HF1 HS1).
      rewrite update_nth_length in IH. specialize (IH Hi H).
      rewrite IH. unfold bytes_of; simpl. fold (bytes_of i rest).
      destruct (Nat.eqb i j) eqn:Eij.
      + apply Nat.eqb_eq in Eij. subst j.
        rewrite update_nth_same by assumption.
        rewrite pure_run_app. rewrite A1. reflexivity.
      + apply Nat.eqb_neq in Eij. simpl.
        rewrite update_nth_other by congruence.
        unfold abs_id. rewrite E1. rewrite app_nth1; [reflexivity|].
        rewrite Forall_forall in HF. apply HF. apply nth_In. exact Hi.
  Qed.

  (*FIXED*) (* in particular two schedules that give clone i the same bytes agree on clone i *)
  Corollary schedules_agree : forall s1 s2 m cs m1 cs1 m2 cs2 i,
    memo_wf St step st_eqb dflt m ->
    Forall (fun id => (id < length (m_states St m))%nat) cs ->
    Forall (fun '(j, _) => (j < length cs)%nat) s1 ->
    Forall (fun '(j, _) => (j < length cs)%nat) s2 ->
    (i < length cs)%nat ->
    bytes_of i s1 = bytes_of i s2 ->
    run_schedule St step st_eqb dflt m cs s1 = (m1, cs1) ->
    run_schedule St step st_eqb dflt m cs s2 = (m2, cs2) ->
    abs_id St m1 (nth i cs1 0%nat) dflt = abs_id St m2 (nth i cs2 0%nat) dflt.
  Proof.
    intros s1 s2 m cs m1 cs1 m2 cs2 i W HF H1 H2 Hi Hb R1 R2.
    rewrite (schedule_independent s1 m cs m1 cs1 i W HF H1 Hi R1).
    rewrite (schedule_independent s2 m cs m2 cs2 i W HF H2 Hi R2).
    rewrite Hb. reflexivity.
  Qed.
End P.

Print Assumptions schedule_independent.
