(* CfgSpec.v — the specification of a context-free grammar over bytes, independent
   of the Earley engine: declarative derivation, and an executable recogniser by
   fixpoint iteration over all (nonterminal, i, j) spans.  Terminals are regexes
   (denotation re_lang).  Definitions only. *)
From LLG Require Import Base Regex Lexer Earley.

(* declarative: nonterminal / symbol sequence derives a byte string *)
Inductive derives (g : grammar) (sp : lexspec) : gsym -> bytes -> Prop :=
| d_term : forall lx w, w <> [] -> re_lang (lx_rx (lex_get sp lx)) w -> derives g sp (TM lx) w
| d_nt : forall n rhs w, In rhs (nt_alts g n) -> derives_seq g sp rhs w -> derives g sp (NT n) w
with derives_seq (g : grammar) (sp : lexspec) : list gsym -> bytes -> Prop :=
| ds_nil : derives_seq g sp [] []
| ds_cons : forall s rest u v, derives g sp s u -> derives_seq g sp rest v ->
                               derives_seq g sp (s :: rest) (u ++ v).

(* ---------- executable recogniser ---------- *)
(* table: for each nonterminal, the list of spans (i, j) known derivable *)
Definition span := (nat * nat)%type.
Definition table := list (list span).

Definition span_mem (s : span) (l : list span) : bool :=
  existsb (fun '(a, b) => Nat.eqb a (fst s) && Nat.eqb b (snd s)) l.

Definition sub (w : bytes) (i j : nat) : bytes := firstn (j - i) (skipn i w).

(* end positions reachable from position i by matching the symbols rhs *)
Fixpoint seq_ends (sp : lexspec) (tb : table) (w : bytes) (rhs : list gsym) (i : nat) : list nat :=
  match rhs with
  | [] => [i]
  | s :: rest =>
      let mids :=
        match s with
        | TM lx => filter (fun j => Nat.ltb i j && re_match (normalize (lx_rx (lex_get sp lx))) (sub w i j))
                          (seq 0 (S (length w)))
        | NT n => filter (fun j => span_mem (i, j) (nth (N.to_nat n) tb [])) (seq 0 (S (length w)))
        end in
      flat_map (fun m => seq_ends sp tb w rest m) mids
  end.

Definition step_table (g : grammar) (sp : lexspec) (w : bytes) (tb : table) : table :=
  map (fun '(alts, known) =>
         fold_left (fun acc rhs =>
                      fold_left (fun acc i =>
                                   fold_left (fun acc j => if span_mem (i, j) acc then acc else (i, j) :: acc)
                                             (seq_ends sp tb w rhs i) acc)
                                (seq 0 (S (length w))) acc)
                   alts known)
      (combine (g_rules g) tb).

Definition table_size (tb : table) : nat := fold_left (fun a l => a + length l)%nat tb 0%nat.

Fixpoint iterate_table (fuel : nat) (g : grammar) (sp : lexspec) (w : bytes) (tb : table) : table :=
  match fuel with
  | O => tb
  | S f => let tb' := step_table g sp w tb in
           if Nat.eqb (table_size tb') (table_size tb) then tb else iterate_table f g sp w tb'
  end.

Definition cfg_accepts (g : grammar) (sp : lexspec) (w : bytes) : bool :=
  let n := length w in
  let fuel := S (length (g_rules g) * S n * S n) in
  let tb := iterate_table fuel g sp w (map (fun _ => []) (g_rules g)) in
  span_mem (0%nat, n) (nth (N.to_nat (g_start g)) tb []).
