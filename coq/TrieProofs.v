(* TrieProofs.v — the flattened-trie walk equals the naive per-token test.
   STATEMENTS OF THE LEMMAS MARKED (*FIXED*) MUST NOT CHANGE; auxiliary lemmas
   may be added freely. *)
From LLG Require Import Base Svob SvobProofs Trie.

(* which (path, token) pairs a forest contains *)
Inductive forest_has : list tree -> bytes -> tokid -> Prop :=
| fh_here : forall cs b k ch, In (T b (Some k) ch) cs -> forest_has cs [b] k
| fh_deep : forall cs b tok ch w k,
    In (T b tok ch) cs -> w <> [] -> forest_has ch w k -> forest_has cs (b :: w) k.

(* ---------- induction principle for the nested inductive `tree` ---------- *)
Section TreeInd.
  Variable P : tree -> Prop.
  Hypothesis HT : forall b tok cs, Forall P cs -> P (T b tok cs).
  Fixpoint tree_ind' (t : tree) : P t :=
    match t with
    | T b tok cs =>
        HT b tok cs
           ((fix go (cs : list tree) : Forall P cs :=
               match cs with
               | [] => Forall_nil P
               | c :: cs' => Forall_cons c (tree_ind' c) (go cs')
               end) cs)
    end.
End TreeInd.

(* ---------- algebra of forest_has ---------------------------------------- *)
Lemma forest_has_nil : forall w k, ~ forest_has [] w k.
Proof.
  intros w k H.
  inversion H as [cs0 b k0 ch Hi | cs0 b tok ch w0 k0 Hi Hne Hd]; subst; destruct Hi.
Qed.

Lemma forest_has_ne : forall cs w k, forest_has cs w k -> w <> [].
Proof. intros cs w k H. destruct H; discriminate. Qed.

Lemma forest_has_incl : forall cs cs' w k,
  (forall c, In c cs -> In c cs') -> forest_has cs w k -> forest_has cs' w k.
Proof.
  intros cs cs' w k Hin H.
  inversion H as [cs0 b k0 ch Hi | cs0 b tok ch w0 k0 Hi Hne Hd]; subst.
  - apply fh_here with ch. apply Hin. exact Hi.
  - apply fh_deep with tok ch; auto.
Qed.

Lemma forest_has_cons : forall c cs w k,
  forest_has (c :: cs) w k <-> forest_has [c] w k \/ forest_has cs w k.
Proof.
  intros c cs w k. split.
  - intros H.
    inversion H as [cs0 b k0 ch Hi | cs0 b tok ch w0 k0 Hi Hne Hd]; subst.
    + destruct Hi as [Hi|Hi].
      * left. apply fh_here with ch. left. exact Hi.
      * right. apply fh_here with ch. exact Hi.
    + destruct Hi as [Hi|Hi].
      * left. apply fh_deep with tok ch; auto. left. exact Hi.
      * right. apply fh_deep with tok ch; auto.
  - intros [H|H].
    + apply forest_has_incl with [c]; [|exact H].
      intros c0 [Hc0|[]]. left. exact Hc0.
    + apply forest_has_incl with cs; [|exact H].
      intros c0 Hc0. right. exact Hc0.
Qed.

Lemma forest_has_single : forall b tok ch w k,
  forest_has [T b tok ch] w k <->
  (w = [b] /\ tok = Some k) \/
  (exists w', w = b :: w' /\ w' <> [] /\ forest_has ch w' k).
Proof.
  intros b tok ch w k. split.
  - intros H.
    inversion H as [cs0 b0 k0 ch0 Hi | cs0 b0 tok0 ch0 w0 k0 Hi Hne Hd]; subst.
    + destruct Hi as [Hi|[]]. inversion Hi; subst. left. split; reflexivity.
    + destruct Hi as [Hi|[]]. inversion Hi; subst. right. exists w0. auto.
  - intros [[Hw Ht] | [w' [Hw [Hne Hd]]]]; subst.
    + apply fh_here with ch. left. reflexivity.
    + apply fh_deep with tok ch; auto. left. reflexivity.
Qed.

(* ---------- serialisation ------------------------------------------------- *)
Lemma ser_eq : forall t par,
  ser t par =
  mk_node (tree_byte t) (tree_tok t) (1 + lenN (ser_forest (tree_children t) par))
          (if par =? 0 then 1 else par)
    :: ser_forest (tree_children t) par.
Proof.
  intros [b tok cs] par. cbn [ser tree_byte tree_tok tree_children].
  assert (E : (fix serc (cs : list tree) : list node :=
                 match cs with
                 | [] => []
                 | c :: cs' => ser c (match cs' with [] => par + 1 | _ => 1 end) ++ serc cs'
                 end) cs = ser_forest cs par).
  { induction cs as [|c cs' IH]; [reflexivity|]. cbn [ser_forest]. rewrite IH. reflexivity. }
  rewrite E. reflexivity.
Qed.

Lemma ser_forest_cons : forall c cs par,
  ser_forest (c :: cs) par =
  ser c (match cs with [] => par + 1 | _ => 1 end) ++ ser_forest cs par.
Proof. reflexivity. Qed.

Lemma ser_forest_ne : forall cs par, cs <> [] -> ser_forest cs par <> [].
Proof.
  intros [|c cs] par Hne; [congruence|].
  rewrite ser_forest_cons, ser_eq. discriminate.
Qed.

(*FIXED*)
Lemma subtree_body_root : forall t,
  subtree_body (ser t 0) 0 = ser_forest (tree_children t) 0.
Proof.
  intros t. unfold subtree_body. rewrite ser_eq.
  unfold nthN. change (N.to_nat 0) with 0%nat. cbn [nth_error nsub Nat.add skipn].
  replace (N.to_nat (1 + lenN (ser_forest (tree_children t) 0) - 1))
    with (length (ser_forest (tree_children t) 0)) by (unfold lenN; lia).
  apply firstn_all.
Qed.

Section WalkProofs.
  Variable St : Type.
  Variable push : St -> byte -> option St.

  Lemma walk_skip : forall defl l1 rest np stk toks vis,
    walk St push defl (l1 ++ rest) (length l1) np stk toks vis =
    walk St push defl rest 0 np stk toks vis.
  Proof.
    intros defl l1. induction l1 as [|a l1 IH]; intros rest np stk toks vis; [reflexivity|].
    cbn [app length walk]. apply IH.
  Qed.

  Lemma pop_chk_ok : forall n (stk : list St),
    (n < length stk)%nat -> pop_chk St n stk = Some (skipn n stk).
  Proof.
    intros n stk Hlt. unfold pop_chk.
    destruct (Nat.ltb_spec n (length stk)); [reflexivity|lia].
  Qed.

  Lemma skipn_pred : forall A (x : A) l n,
    (1 <= n)%nat -> skipn n (x :: l) = skipn (n - 1) l.
  Proof.
    intros A x l n Hn. destruct n as [|n]; [lia|].
    cbn [skipn]. replace (S n - 1)%nat with n by lia. reflexivity.
  Qed.

  (* toks' extends toks by exactly the ids in Q (ignoring the fake slot) *)
  Definition ext (defl : tokid) (toks toks' : svob) (Q : tokid -> Prop) : Prop :=
    vsize toks' = vsize toks /\ nwords toks' = nwords toks /\
    forall k, k <> defl -> (get toks' k = true <-> get toks k = true \/ Q k).

  Lemma ext_refl : forall defl toks (Q : tokid -> Prop),
    (forall k, k <> defl -> ~ Q k) -> ext defl toks toks Q.
  Proof.
    intros defl toks Q HQ. split; [reflexivity|]. split; [reflexivity|].
    intros k Hk. split; [auto|]. intros [H|H]; [exact H|]. exfalso. exact (HQ k Hk H).
  Qed.

  Lemma ext_trans : forall defl toks toks1 toks2 (Q1 Q2 Q : tokid -> Prop),
    ext defl toks toks1 Q1 -> ext defl toks1 toks2 Q2 ->
    (forall k, k <> defl -> (Q k <-> Q1 k \/ Q2 k)) -> ext defl toks toks2 Q.
  Proof.
    intros defl toks toks1 toks2 Q1 Q2 Q (Hv1 & Hn1 & H1) (Hv2 & Hn2 & H2) HQ.
    split; [congruence|]. split; [congruence|].
    intros k Hk. rewrite (H2 k Hk), (H1 k Hk), (HQ k Hk). tauto.
  Qed.

  Lemma ext_set : forall defl toks k0,
    get_pre toks k0 = true -> ext defl toks (allow_token toks k0) (fun k => k = k0).
  Proof.
    intros defl toks k0 Hpre. unfold allow_token.
    split; [apply vsize_set|]. split; [apply nwords_set|].
    intros k Hk. rewrite get_set by exact Hpre.
    destruct (N.eqb_spec k k0) as [E|E].
    - split; auto.
    - split; [auto|]. intros [H|H]; [exact H|contradiction].
  Qed.

  Lemma get_pre_mono : forall toks k d,
    k <= d -> get_pre toks d = true -> get_pre toks k = true.
  Proof.
    intros toks k d Hle Hd. unfold get_pre in *.
    apply N.ltb_lt in Hd. apply N.ltb_lt.
    eapply N.le_lt_trans; [|exact Hd]. apply N.div_le_mono; lia.
  Qed.

  Lemma get_pre_ext : forall toks toks' d,
    nwords toks' = nwords toks -> get_pre toks' d = get_pre toks d.
  Proof. intros toks toks' d E. unfold get_pre. rewrite E. reflexivity. Qed.

  (* ids on accepted paths of a forest, from state s *)
  Definition accS (cs : list tree) (s : St) (k : tokid) : Prop :=
    exists w, forest_has cs w k /\ run St push s w <> None.

  Lemma accS_nil : forall s k, ~ accS [] s k.
  Proof. intros s k (w & Hf & _). exact (forest_has_nil _ _ Hf). Qed.

  Lemma accS_cons : forall c cs s k, accS (c :: cs) s k <-> accS [c] s k \/ accS cs s k.
  Proof.
    intros c cs s k. unfold accS. split.
    - intros (w & Hf & Hr). apply forest_has_cons in Hf. destruct Hf as [Hf|Hf]; [left|right]; eauto.
    - intros [(w & Hf & Hr)|(w & Hf & Hr)]; exists w; (split; [|exact Hr]);
        apply forest_has_cons; [left|right]; exact Hf.
  Qed.

  Lemma accS_single_fail : forall b tok cs sp k,
    push sp b = None -> ~ accS [T b tok cs] sp k.
  Proof.
    intros b tok cs sp k Hp (w & Hf & Hr). apply forest_has_single in Hf.
    destruct Hf as [[Hw _] | (w' & Hw & _)]; subst w; cbn [run] in Hr; rewrite Hp in Hr;
      apply Hr; reflexivity.
  Qed.

  Lemma accS_single_ok : forall b tok cs sp s' k,
    push sp b = Some s' ->
    (accS [T b tok cs] sp k <-> tok = Some k \/ accS cs s' k).
  Proof.
    intros b tok cs sp s' k Hp. split.
    - intros (w & Hf & Hr). apply forest_has_single in Hf.
      destruct Hf as [[Hw Ht] | (w' & Hw & Hne & Hd)]; subst w.
      + left. exact Ht.
      + right. exists w'. split; [exact Hd|]. cbn [run] in Hr. rewrite Hp in Hr. exact Hr.
    - intros [Ht | (w & Hf & Hr)].
      + exists [b]. split.
        * apply forest_has_single. left. split; [reflexivity|exact Ht].
        * cbn [run]. rewrite Hp. discriminate.
      + exists (b :: w). split.
        * apply forest_has_single. right. exists w. split; [reflexivity|].
          split; [exact (forest_has_ne _ _ _ Hf)|exact Hf].
        * cbn [run]. rewrite Hp. exact Hr.
  Qed.

  (* walking one serialised tree whose stored parent count is par >= 1 *)
  Definition treeP (defl : tokid) (t : tree) : Prop :=
    forall par rest np stk toks vis sp base,
      1 <= par ->
      (forall w k, forest_has [t] w k -> k < defl) ->
      get_pre toks defl = true ->
      pop_chk St np stk = Some (sp :: base) ->
      (N.to_nat par - 1 <= length base)%nat ->
      exists np' stk' toks' vis',
        walk St push defl (ser t par ++ rest) 0 np stk toks vis =
        walk St push defl rest 0 np' stk' toks' vis' /\
        pop_chk St np' stk' = Some (skipn (N.to_nat par - 1) (sp :: base)) /\
        ext defl toks toks' (accS [t] sp).

  Definition forestP (defl : tokid) (cs : list tree) : Prop :=
    forall par rest np stk toks vis s base,
      (forall w k, forest_has cs w k -> k < defl) ->
      get_pre toks defl = true ->
      pop_chk St np stk = Some (s :: base) ->
      (N.to_nat par <= length base)%nat ->
      exists np' stk' toks' vis',
        walk St push defl (ser_forest cs par ++ rest) 0 np stk toks vis =
        walk St push defl rest 0 np' stk' toks' vis' /\
        pop_chk St np' stk' = Some (skipn (N.to_nat par) (s :: base)) /\
        ext defl toks toks' (accS cs s).

  Lemma forest_walk : forall defl cs,
    Forall (treeP defl) cs -> cs <> [] -> forestP defl cs.
  Proof.
    intros defl cs HF. induction HF as [|c cs' Hc HF IH]; intros Hne; [congruence|].
    intros par rest np stk toks vis s base Hlt Hpre Hpop Hlen.
    rewrite ser_forest_cons. destruct cs' as [|c2 cs''].
    - cbn [ser_forest]. rewrite app_nil_r.
      destruct (Hc (par + 1) rest np stk toks vis s base)
        as (np' & stk' & toks' & vis' & Hw & Hp' & He); try assumption; try lia.
      replace (N.to_nat (par + 1) - 1)%nat with (N.to_nat par) in Hp' by lia.
      exists np', stk', toks', vis'. split; [exact Hw|]. split; [exact Hp'|exact He].
    - rewrite <- app_assoc.
      destruct (Hc 1 (ser_forest (c2 :: cs'') par ++ rest) np stk toks vis s base)
        as (np1 & stk1 & toks1 & vis1 & Hw1 & Hp1 & He1); try assumption; try lia.
      { intros w k Hf. apply (Hlt w k). apply forest_has_cons. left. exact Hf. }
      change (N.to_nat 1 - 1)%nat with 0%nat in Hp1. cbn [skipn] in Hp1.
      assert (Hne2 : c2 :: cs'' <> []) by discriminate.
      destruct (IH Hne2 par rest np1 stk1 toks1 vis1 s base)
        as (np2 & stk2 & toks2 & vis2 & Hw2 & Hp2 & He2); try assumption.
      { intros w k Hf. apply (Hlt w k). apply forest_has_cons. right. exact Hf. }
      { rewrite (get_pre_ext toks toks1); [exact Hpre|]. destruct He1 as (_ & Hn & _). exact Hn. }
      exists np2, stk2, toks2, vis2. split; [rewrite Hw1; exact Hw2|]. split; [exact Hp2|].
      eapply ext_trans; [exact He1|exact He2|].
      intros k _. apply accS_cons.
  Qed.

  Lemma tree_walk : forall defl t, treeP defl t.
  Proof.
    intros defl. apply tree_ind'. intros b tok cs IH.
    unfold treeP. intros par rest np stk toks vis sp base Hpar Hlt Hpre Hpop Hlen.
    rewrite ser_eq. cbn [tree_byte tree_tok tree_children app].
    cbn [walk]. rewrite Hpop. cbn [try_push nbyte ntok nsub npar].
    assert (Hparnz : (if par =? 0 then 1 else par) = par).
    { destruct (N.eqb_spec par 0); [lia|reflexivity]. }
    rewrite Hparnz.
    destruct (push sp b) as [s'|] eqn:Hp.
    - set (tk := match tok with Some t => t | None => defl end).
      assert (Htk : get_pre toks tk = true).
      { apply get_pre_mono with defl; [|exact Hpre]. subst tk. destruct tok as [t|]; [|lia].
        apply N.lt_le_incl. apply (Hlt [b] t). apply fh_here with cs. left. reflexivity. }
      assert (Htkiff : forall k, k <> defl ->
                (accS [T b tok cs] sp k <-> k = tk \/ accS cs s' k)).
      { intros k Hk. rewrite (accS_single_ok b tok cs sp s' k Hp). subst tk.
        destruct tok as [t|].
        - split; (intros [H|H]; [left|right; exact H]); congruence.
        - split; (intros [H|H]; [|right; exact H]); congruence. }
      destruct cs as [|c cs'].
      + cbn [ser_forest app]. change (1 + lenN (@nil node) =? 1) with true. cbv iota.
        exists (N.to_nat par), (s' :: sp :: base), (allow_token toks tk), (vis + 1).
        split; [reflexivity|]. split.
        * rewrite pop_chk_ok by (cbn [length]; lia). f_equal. apply skipn_pred. lia.
        * eapply ext_trans; [apply ext_set; exact Htk| |exact Htkiff].
          apply ext_refl. intros k _. apply accS_nil.
      + assert (Hne : c :: cs' <> []) by discriminate.
        assert (Hsub : (1 + lenN (ser_forest (c :: cs') par) =? 1) = false).
        { pose proof (ser_forest_ne (c :: cs') par Hne) as Hl.
          destruct (ser_forest (c :: cs') par) as [|n l]; [congruence|].
          apply N.eqb_neq. unfold lenN. cbn [length]. lia. }
        rewrite Hsub.
        destruct (forest_walk defl (c :: cs') IH Hne par rest 0%nat (s' :: sp :: base)
                              (allow_token toks tk) (vis + 1) s' (sp :: base))
          as (np' & stk' & toks' & vis' & Hw & Hp' & He).
        { intros w k Hf. apply (Hlt (b :: w) k). apply fh_deep with tok (c :: cs').
          - left. reflexivity.
          - exact (forest_has_ne _ _ _ Hf).
          - exact Hf. }
        { unfold allow_token. rewrite (get_pre_ext toks); [exact Hpre|apply nwords_set]. }
        { reflexivity. }
        { cbn [length]. lia. }
        exists np', stk', toks', vis'. split; [exact Hw|]. split.
        * rewrite Hp'. f_equal. apply skipn_pred. lia.
        * eapply ext_trans; [apply ext_set; exact Htk|exact He|exact Htkiff].
    - replace (N.to_nat (1 + lenN (ser_forest cs par) - 1))
        with (length (ser_forest cs par)) by (unfold lenN; lia).
      rewrite walk_skip.
      exists (N.to_nat (par - 1)), (sp :: base), toks, (vis + 1).
      split; [reflexivity|]. split.
      + rewrite pop_chk_ok by (cbn [length]; lia). f_equal. f_equal. lia.
      + apply ext_refl. intros k _. apply accS_single_fail. exact Hp.
  Qed.

  (*FIXED*) (* the DFS over the serialized forest of a root: the stack is
     restored, and exactly the tokens on accepted paths are added (plus
     possibly the fake slot defl) *)
  Theorem walk_forest_spec : forall cs s stk0 toks defl,
    (forall w k, forest_has cs w k -> k < defl) ->
    get_pre toks defl = true ->
    exists np stk' toks' vis,
      walk St push defl (ser_forest cs 0) 0 0 (s :: stk0) toks 0 = Some (np, stk', toks', vis) /\
      pop_chk St np stk' = Some (s :: stk0) /\
      vsize toks' = vsize toks /\ nwords toks' = nwords toks /\
      (forall t, t <> defl ->
         (get toks' t = true <->
          get toks t = true \/ exists w, forest_has cs w t /\ run St push s w <> None)).
  Proof.
    intros cs s stk0 toks defl Hlt Hpre.
    destruct cs as [|c cs'].
    - exists 0%nat, (s :: stk0), toks, 0. cbn [ser_forest walk].
      split; [reflexivity|]. split; [reflexivity|]. split; [reflexivity|]. split; [reflexivity|].
      intros t Ht. split; [auto|]. intros [H|(w & Hf & _)]; [exact H|].
      exfalso. exact (forest_has_nil _ _ Hf).
    - assert (Hne : c :: cs' <> []) by discriminate.
      assert (HF : Forall (treeP defl) (c :: cs')).
      { apply Forall_forall. intros x _. apply tree_walk. }
      destruct (forest_walk defl (c :: cs') HF Hne 0 [] 0%nat (s :: stk0) toks 0 s stk0)
        as (np' & stk' & toks' & vis' & Hw & Hp' & (Hv & Hn & Hg)).
      { exact Hlt. }
      { exact Hpre. }
      { reflexivity. }
      { change (N.to_nat 0) with 0%nat. lia. }
      rewrite app_nil_r in Hw. cbn [walk] in Hw.
      change (N.to_nat 0) with 0%nat in Hp'. cbn [skipn] in Hp'.
      exists np', stk', toks', vis'.
      split; [exact Hw|]. split; [exact Hp'|]. split; [exact Hv|]. split; [exact Hn|].
      exact Hg.
  Qed.
End WalkProofs.

(* ---------- the builder --------------------------------------------------- *)
Lemma forest_has_new_chain : forall rest b k w' k',
  forest_has [new_chain rest b k] w' k' <-> (w' = b :: rest /\ k' = k).
Proof.
  intros rest. induction rest as [|b' r IH]; intros b k w' k'; cbn [new_chain];
    rewrite forest_has_single.
  - split.
    + intros [[Hw Hk] | (w'' & _ & _ & Hd)].
      * split; [exact Hw|congruence].
      * exfalso. exact (forest_has_nil _ _ Hd).
    + intros [Hw Hk]. left. split; [exact Hw|congruence].
  - split.
    + intros [[_ Hk] | (w'' & Hw & _ & Hd)]; [discriminate|].
      apply IH in Hd. destruct Hd as [Hw'' Hk]. subst. split; reflexivity.
    + intros [Hw Hk]. right. exists (b' :: r). split; [exact Hw|]. split; [discriminate|].
      apply IH. split; [reflexivity|exact Hk].
Qed.

Lemma ins_spec : forall w k cs w' k', w <> [] ->
  (forest_has (ins w k cs) w' k' <-> forest_has cs w' k' \/ (w' = w /\ k' = k)).
Proof.
  intros w. induction w as [|b rest IH]; intros k cs w' k' Hne; [congruence|].
  cbn [ins].
  induction cs as [|[cb ctok cch] cs' IHcs].
  - rewrite forest_has_new_chain. split; [auto|].
    intros [H|H]; [exfalso; exact (forest_has_nil _ _ H)|exact H].
  - destruct ((cb =? b) && negb (match rest with [] => true | _ :: _ => false end && is_some ctok))
      eqn:Hc.
    + apply andb_prop in Hc. destruct Hc as [Hcb Hc]. apply N.eqb_eq in Hcb. subst cb.
      rewrite forest_has_cons, (forest_has_cons (T b ctok cch) cs').
      destruct rest as [|b2 r].
      * (* last byte: the child had no token *)
        destruct ctok as [t|]; [discriminate Hc|].
        rewrite !forest_has_single. split.
        -- intros [[[Hw Hk] | Hd] | H].
           ++ right. split; [exact Hw|congruence].
           ++ left. left. right. exact Hd.
           ++ left. right. exact H.
        -- intros [[[[_ Hk] | Hd] | H] | [Hw Hk]].
           ++ discriminate Hk.
           ++ left. right. exact Hd.
           ++ right. exact H.
           ++ left. left. split; [exact Hw|congruence].
      * (* inner byte: descend *)
        rewrite !forest_has_single. split.
        -- intros [[Hh | (w'' & Hw & Hne'' & Hd)] | H].
           ++ left. left. left. exact Hh.
           ++ apply IH in Hd; [|discriminate]. destruct Hd as [Hd | [Hw'' Hk]].
              ** left. left. right. exists w''. auto.
              ** right. subst. split; reflexivity.
           ++ left. right. exact H.
        -- intros [[[Hh | (w'' & Hw & Hne'' & Hd)] | H] | [Hw Hk]].
           ++ left. left. exact Hh.
           ++ left. right. exists w''. split; [exact Hw|]. split; [exact Hne''|].
              apply IH; [discriminate|]. left. exact Hd.
           ++ right. exact H.
           ++ left. right. exists (b2 :: r). split; [exact Hw|]. split; [discriminate|].
              apply IH; [discriminate|]. right. split; [reflexivity|exact Hk].
    + rewrite forest_has_cons, IHcs, (forest_has_cons (T cb ctok cch) cs'). tauto.
Qed.

Lemma tree_children_insert : forall t w k,
  tree_children (insert t w k) = ins w k (tree_children t).
Proof. intros [b tok cs] w k. reflexivity. Qed.

Lemma build_fold : forall (sorted : list (tokid * bytes)) t0 w k,
  forest_has (tree_children
    (fold_left (fun t '(i, w) => match w with [] => t | _ => insert t w i end) sorted t0)) w k
  <-> forest_has (tree_children t0) w k \/ (In (k, w) sorted /\ w <> []).
Proof.
  intros sorted. induction sorted as [|[i wi] sorted IH]; intros t0 w k.
  - cbn [fold_left In]. tauto.
  - cbn [fold_left]. rewrite IH. cbn [In]. destruct wi as [|x wi].
    + split.
      * intros [H | [H Hne]]; [left; exact H|right; auto].
      * intros [H | [[H | H] Hne]]; [left; exact H| |right; auto].
        inversion H; subst. congruence.
    + rewrite tree_children_insert, ins_spec by discriminate. split.
      * intros [[H | [Hw Hk]] | [H Hne]].
        -- left. exact H.
        -- right. subst. split; [left; reflexivity|discriminate].
        -- right. auto.
      * intros [H | [[H | H] Hne]].
        -- left. left. exact H.
        -- inversion H; subst. left. right. split; reflexivity.
        -- right. auto.
Qed.

Lemma in_insert_sorted : forall x y l, In x (insert_sorted y l) <-> y = x \/ In x l.
Proof.
  intros x y l. induction l as [|z l IH]; cbn [insert_sorted].
  - reflexivity.
  - destruct (bytes_leb (snd y) (snd z)).
    + reflexivity.
    + cbn [In]. rewrite IH. tauto.
Qed.

Lemma in_sort_vocab : forall x l, In x (sort_vocab l) <-> In x l.
Proof.
  intros x l. unfold sort_vocab. induction l as [|y l IH]; cbn [fold_right].
  - reflexivity.
  - rewrite in_insert_sorted, IH. reflexivity.
Qed.

Lemma in_number_gen : forall A (ws : list A) a k w,
  In (k, w) (combine (seqN a (length ws)) ws) <-> a <= k /\ nthN ws (k - a) = Some w.
Proof.
  intros A ws. induction ws as [|x ws IH]; intros a k w.
  - cbn [length seqN combine In]. split; [tauto|]. intros [_ H]. unfold nthN in H.
    destruct (N.to_nat (k - a)); discriminate.
  - cbn [length seqN combine In]. rewrite IH. unfold nthN. split.
    + intros [E | [Hle Hn]].
      * inversion E; subst. split; [lia|]. rewrite N.sub_diag. reflexivity.
      * split; [lia|].
        replace (N.to_nat (k - a)) with (S (N.to_nat (k - (a + 1)))) by lia. exact Hn.
    + intros [Hle Hn]. destruct (N.eq_dec k a) as [E|E].
      * left. subst k. rewrite N.sub_diag in Hn. cbn [N.to_nat nth_error] in Hn. congruence.
      * right. split; [lia|].
        replace (N.to_nat (k - a)) with (S (N.to_nat (k - (a + 1)))) in Hn by lia. exact Hn.
Qed.

Lemma in_number : forall A (ws : list A) k w, In (k, w) (number ws) <-> nthN ws k = Some w.
Proof.
  intros A ws k w. unfold number. rewrite in_number_gen, N.sub_0_r. split.
  - intros [_ H]. exact H.
  - intros H. split; [lia|exact H].
Qed.

Lemma nthN_lt : forall A (ws : list A) k w, nthN ws k = Some w -> k < lenN ws.
Proof.
  intros A ws k w H. unfold nthN in H. unfold lenN.
  assert (Hl : (N.to_nat k < length ws)%nat) by (apply nth_error_Some; congruence).
  lia.
Qed.

(*FIXED*) (* the builder stores every non-empty word under its own id, and nothing else *)
Theorem build_tree_spec : forall (ws : list bytes) w k,
  forest_has (tree_children (build_tree (sort_vocab (number ws)))) w k <->
  (nthN ws k = Some w /\ w <> []).
Proof.
  intros ws w k. unfold build_tree. rewrite build_fold. cbn [tree_children].
  rewrite in_sort_vocab, in_number. split.
  - intros [H | H]; [exfalso; exact (forest_has_nil _ _ H)|exact H].
  - intros H. right. exact H.
Qed.

(* bias_spec with an empty start prefix *)
Lemma bias_spec_nil : forall St (push : St -> byte -> option St) ws s t,
  bias_spec push ws s [] t = true <->
  exists w, nthN ws t = Some w /\ w <> [] /\ run St push s w <> None.
Proof.
  intros St push ws s t. unfold bias_spec. destruct (nthN ws t) as [w|].
  - destruct w as [|x w0].
    + split; [discriminate|]. intros (w & Hw & Hne & _). congruence.
    + cbn [is_prefix length Nat.eqb negb skipn orb andb].
      destruct (run St push s (x :: w0)) as [s1|] eqn:Hr; cbn [is_some].
      * split; [|reflexivity]. intros _. exists (x :: w0).
        split; [reflexivity|]. split; [discriminate|]. rewrite Hr. discriminate.
      * split; [discriminate|]. intros (w & Hw & _ & Hrun).
        inversion Hw; subst. congruence.
  - split; [discriminate|]. intros (w & Hw & _). discriminate.
Qed.

Section AddBias.
  Variable St : Type.
  Variable push : St -> byte -> option St.

  Lemma add_bias0_spec : forall ws s stk0 toks,
    get_pre toks (lenN ws) = true ->
    exists toks' n,
      add_bias0 push (trie_from ws) (s :: stk0) toks = Some (s :: stk0, toks', n) /\
      vsize toks' = vsize toks /\ nwords toks' = nwords toks /\
      (forall t, t <> lenN ws ->
         (get toks' t = true <-> get toks t = true \/ bias_spec push ws s [] t = true)).
  Proof.
    intros ws s stk0 toks Hpre. unfold add_bias0.
    change (vocab_size (trie_from ws)) with (lenN ws).
    change (nodes (trie_from ws)) with (ser (build_tree (sort_vocab (number ws))) 0).
    rewrite subtree_body_root.
    destruct (walk_forest_spec St push
                (tree_children (build_tree (sort_vocab (number ws)))) s stk0 toks (lenN ws))
      as (np & stk' & toks' & vis & Hw & Hp & Hv & Hn & Hg).
    { intros w k Hf. apply build_tree_spec in Hf. destruct Hf as [Hnth _].
      exact (nthN_lt _ _ _ _ Hnth). }
    { exact Hpre. }
    rewrite Hw, Hp. exists toks', (vis + 1).
    split; [reflexivity|]. split; [exact Hv|]. split; [exact Hn|].
    intros t Ht. rewrite (Hg t Ht), bias_spec_nil. split.
    - intros [H | (w & Hf & Hr)]; [left; exact H|right].
      apply build_tree_spec in Hf. destruct Hf as [Hnth Hne]. exists w. auto.
    - intros [H | (w & Hnth & Hne & Hr)]; [left; exact H|right].
      exists w. split; [|exact Hr]. apply build_tree_spec. auto.
  Qed.

  (*FIXED*) (* add_bias with an empty start prefix = naive per-token test; stack
     restored (then collapsed by trie_finished); fake slot cleared; no other
     bit touched *)
  Theorem add_bias_correct : forall ws s stk0 toks,
    get_pre toks (lenN ws) = true ->
    exists toks',
      add_bias St push (trie_from ws) (s :: stk0) toks [] =
        Some (trie_finished St (s :: stk0), toks') /\
      vsize toks' = vsize toks /\ nwords toks' = nwords toks /\
      (forall t, t < lenN ws -> get toks' t = get toks t || bias_spec push ws s [] t) /\
      get toks' (lenN ws) = false /\
      (forall t, lenN ws < t -> get toks' t = get toks t).
  Proof.
    intros ws s stk0 toks Hpre.
    destruct (add_bias0_spec ws s stk0 toks Hpre) as (toks' & n & Hab & Hv & Hn & Hg).
    assert (Hpre' : set_pre toks' (lenN ws) = true).
    { unfold set_pre, get_pre in *. rewrite Hn. exact Hpre. }
    unfold add_bias. rewrite Hab.
    change (vocab_size (trie_from ws)) with (lenN ws).
    exists (disallow_token toks' (lenN ws)). unfold disallow_token.
    split; [reflexivity|].
    split; [rewrite vsize_set; exact Hv|].
    split; [rewrite nwords_set; exact Hn|].
    split; [|split].
    - intros t Ht. rewrite get_set by exact Hpre'.
      destruct (N.eqb_spec t (lenN ws)) as [E|E]; [lia|].
      apply eq_true_iff_eq. rewrite (Hg t E), orb_true_iff. reflexivity.
    - rewrite get_set by exact Hpre'. rewrite N.eqb_refl. reflexivity.
    - intros t Ht. rewrite get_set by exact Hpre'.
      destruct (N.eqb_spec t (lenN ws)) as [E|E]; [lia|].
      apply eq_true_iff_eq. rewrite (Hg t E). split; [|auto].
      intros [H|H]; [exact H|]. apply bias_spec_nil in H. destruct H as (w & Hnth & _).
      apply nthN_lt in Hnth. lia.
  Qed.

  (*FIXED*) (* the raw walk restores the recogniser stack exactly *)
  Theorem add_bias0_stack : forall ws s stk0 toks,
    get_pre toks (lenN ws) = true ->
    exists toks' n, add_bias0 push (trie_from ws) (s :: stk0) toks = Some (s :: stk0, toks', n).
  Proof.
    intros ws s stk0 toks Hpre.
    destruct (add_bias0_spec ws s stk0 toks Hpre) as (toks' & n & Hab & _).
    exists toks', n. exact Hab.
  Qed.
End AddBias.

(*FIXED*) (* masks allocated by alloc_token_set never show an id >= vocab *)
Theorem add_bias_no_excess : forall St (push : St -> byte -> option St) ws s stk0 toks',
  add_bias St push (trie_from ws) (s :: stk0) (alloc_token_set (trie_from ws)) [] =
    Some (trie_finished St (s :: stk0), toks') ->
  no_excess toks' /\ vsize toks' = lenN ws.
Proof.
  intros St push ws s stk0 toks' H.
  unfold alloc_token_set in H. change (vocab_size (trie_from ws)) with (lenN ws) in H.
  set (toks := alloc_with_capacity (lenN ws) (lenN ws + 1)) in *.
  assert (Hpre : get_pre toks (lenN ws) = true).
  { unfold get_pre. subst toks. unfold alloc_with_capacity, nwords. cbn [words].
    change (lenN (words (alloc (lenN ws + 1)))) with (nwords (alloc (lenN ws + 1))).
    rewrite nwords_alloc. unfold div_ceil32. apply N.ltb_lt.
    replace (lenN ws + 1 + 31) with (lenN ws + 1 * 32) by lia.
    rewrite N.div_add by lia. lia. }
  destruct (add_bias_correct St push ws s stk0 toks Hpre)
    as (toks2 & Hab & Hv & Hn & Hlo & Hmid & Hhi).
  rewrite Hab in H. inversion H; subst toks'.
  assert (Hvs : vsize toks2 = lenN ws). { rewrite Hv. reflexivity. }
  split; [|exact Hvs].
  unfold no_excess. rewrite Hvs. intros i Hi.
  destruct (N.eq_dec i (lenN ws)) as [E|E].
  - subst i. exact Hmid.
  - rewrite Hhi by lia. apply get_alloc_with_capacity.
Qed.

(* ---------- bit packing --------------------------------------------------- *)
Lemma shiftr_lor_shiftl : forall a b n,
  b < 2 ^ n -> N.shiftr (N.lor (N.shiftl a n) b) n = a.
Proof.
  intros a b n Hb. rewrite N.shiftr_lor, N.shiftr_shiftl_l by lia.
  rewrite N.sub_diag, N.shiftl_0_r.
  destruct (N.eq_dec b 0) as [E|E].
  - subst b. rewrite N.shiftr_0_l. apply N.lor_0_r.
  - rewrite N.shiftr_eq_0; [apply N.lor_0_r|]. apply N.log2_lt_pow2; lia.
Qed.

Lemma land_lor_shiftl : forall a b n,
  b < 2 ^ n -> N.land (N.lor (N.shiftl a n) b) (N.ones n) = b.
Proof.
  intros a b n Hb. rewrite N.land_lor_distr_l, !N.land_ones.
  rewrite N.shiftl_mul_pow2, N.mod_mul by (apply N.pow_nonzero; lia).
  rewrite N.mod_small by exact Hb. apply N.lor_0_l.
Qed.

(*FIXED*) (* node packing into two u32 words round-trips under the asserted bounds *)
Lemma pack_unpack : forall pb n,
  pb <= 24 -> node_packable pb n = true -> unpack_node pb (pack_node pb n) = n.
Proof.
  intros pb [b tok sub par] _ Hp. unfold node_packable in Hp.
  cbn [nbyte ntok npar nsub] in Hp.
  apply andb_prop in Hp. destruct Hp as [Hp Hsub].
  apply andb_prop in Hp. destruct Hp as [Hp Hparhi].
  apply andb_prop in Hp. destruct Hp as [Hp Hparlo].
  apply andb_prop in Hp. destruct Hp as [Hb Htok].
  apply N.ltb_lt in Hsub. apply N.leb_le in Hparhi. apply N.leb_le in Hparlo.
  apply N.ltb_lt in Hb.
  unfold pack_node, unpack_node. cbn [nbyte ntok npar nsub].
  change 255 with (N.ones 8).
  assert (Hb8 : b < 2 ^ 8) by (change (2 ^ 8) with 256; exact Hb).
  rewrite (shiftr_lor_shiftl _ b 8 Hb8), (land_lor_shiftl _ b 8 Hb8).
  rewrite (N.lor_comm (par - 1)).
  assert (Hpar1 : par - 1 < 2 ^ pb) by lia.
  rewrite (shiftr_lor_shiftl _ (par - 1) pb Hpar1), (land_lor_shiftl _ (par - 1) pb Hpar1).
  replace (par - 1 + 1) with par by lia.
  destruct tok as [t|].
  - apply N.ltb_lt in Htok. destruct (N.eqb_spec t NO_TOKEN) as [E|E]; [lia|reflexivity].
  - rewrite N.eqb_refl. reflexivity.
Qed.
