(* TrieProofs.v — the flattened-trie walk equals the naive per-token test.
   STATEMENTS OF THE LEMMAS MARKED (*FIXED*) MUST NOT CHANGE; auxiliary lemmas
   may be added freely. *)
From LLG Require Import Base Svob SvobProofs Trie.

(* which (path, token) pairs a forest contains *)
Inductive forest_has : list tree -> bytes -> tokid -> Prop :=
| fh_here : forall cs b k ch, In (T b (Some k) ch) cs -> forest_has cs [b] k
| fh_deep : forall cs b tok ch w k,
    In (T b tok ch) cs -> w <> [] -> forest_has ch w k -> forest_has cs (b :: w) k.

(*FIXED*)
Lemma subtree_body_root : forall t,
  subtree_body (ser t 0) 0 = ser_forest (tree_children t) 0.
Proof. Admitted.

Section WalkProofs.
  Variable St : Type.
  Variable push : St -> byte -> option St.

  (*FIXED*) (* the DFS over the serialized forest of a root: the stack is
     restored, and exactly the tokens on accepted paths are added (plus
     possibly the fake slot defl) *)
  Theorem walk_forest_spec : forall cs s stk0 toks defl,
    (forall w k, forest_has cs w k -> k < defl) ->
    get_pre toks defl = true ->
    exists np stk' toks' vis,
      walk St push defl (ser_forest cs 0) 0 0 (s :: stk0) toks 0 = Some (np, stk', toks', vis) /\
      pop_chk St np stk' = Some (s :: stk0) /\
      vsize toks' = vsize toks /\ nwords toks' = nwords toks /\
      (forall t, t <> defl ->
         (get toks' t = true <->
          get toks t = true \/ exists w, forest_has cs w t /\ run St push s w <> None)).
  Proof. Admitted.
End WalkProofs.

(*FIXED*) (* the builder stores every non-empty word under its own id, and nothing else *)
Theorem build_tree_spec : forall (ws : list bytes) w k,
  forest_has (tree_children (build_tree (sort_vocab (number ws)))) w k <->
  (nthN ws k = Some w /\ w <> []).
Proof. Admitted.

Section AddBias.
  Variable St : Type.
  Variable push : St -> byte -> option St.

  (*FIXED*) (* add_bias with an empty start prefix = naive per-token test; stack
     restored (then collapsed by trie_finished); fake slot cleared; no other
     bit touched *)
  Theorem add_bias_correct : forall ws s stk0 toks,
    get_pre toks (lenN ws) = true ->
    exists toks',
      add_bias St push (trie_from ws) (s :: stk0) toks [] =
        Some (trie_finished St (s :: stk0), toks') /\
      vsize toks' = vsize toks /\ nwords toks' = nwords toks /\
      (forall t, t < lenN ws -> get toks' t = get toks t || bias_spec push ws s [] t) /\
      get toks' (lenN ws) = false /\
      (forall t, lenN ws < t -> get toks' t = get toks t).
  Proof. Admitted.

  (*FIXED*) (* the raw walk restores the recogniser stack exactly *)
  Theorem add_bias0_stack : forall ws s stk0 toks,
    get_pre toks (lenN ws) = true ->
    exists toks' n, add_bias0 push (trie_from ws) (s :: stk0) toks = Some (s :: stk0, toks', n).
  Proof. Admitted.
End AddBias.

(*FIXED*) (* masks allocated by alloc_token_set never show an id >= vocab *)
Theorem add_bias_no_excess : forall St (push : St -> byte -> option St) ws s stk0 toks',
  add_bias St push (trie_from ws) (s :: stk0) (alloc_token_set (trie_from ws)) [] =
    Some (trie_finished St (s :: stk0), toks') ->
  no_excess toks' /\ vsize toks' = lenN ws.
Proof. Admitted.

(*FIXED*) (* node packing into two u32 words round-trips under the asserted bounds *)
Lemma pack_unpack : forall pb n,
  pb <= 24 -> node_packable pb n = true -> unpack_node pb (pack_node pb n) = n.
Proof. Admitted.
