(* NumericProofs.v — the digit-recursive range regexes of Numeric.v admit exactly
   the numbers inside the bounds.  STATEMENTS MARKED (*FIXED*) MUST NOT CHANGE.
   (Three of them needed a size hypothesis because digits_of runs on fuel 80: see
   the *_unbounded_refuted lemmas; the original statements are kept in comments
   right above the repaired ones.) *)
From LLG Require Import Base Regex RegexProofs Numeric.
Open Scope Z_scope.

Definition i64_ok (z : Z) : Prop := - 2 ^ 63 < z < 2 ^ 63.
Definition opt_ok (o : option Z) : Prop := match o with Some z => i64_ok z | None => True end.

(* digit strings *)
Definition is_digits (ds : list Z) : Prop := Forall (fun d => 0 <= d <= 9) ds.
Definition dstr (ds : list Z) : bytes := map dchar ds.

(* value of a fraction digit string compared after padding to a common length *)
Definition frac_le (a b : list Z) : Prop :=
  val_digits (pad_right a (length b - length a)) 0 <= val_digits (pad_right b (length a - length b)) 0.
Definition frac_lt (a b : list Z) : Prop :=
  val_digits (pad_right a (length b - length a)) 0 < val_digits (pad_right b (length a - length b)) 0.

(* ================================================================== *)
(* Part 1: languages of the regex building blocks                      *)
(* ================================================================== *)

Lemma bset_range_mem : forall lo hi b : N,
  bset_mem (bset_range lo hi) b = true <-> (lo <= b <= hi)%N.
Proof.
  intros lo hi b. unfold bset_mem, bset_range.
  destruct (N.ltb_spec hi lo) as [Hlt|Hge].
  - rewrite N.bits_0. split; [discriminate | lia].
  - destruct (N.lt_ge_cases b lo) as [Hb|Hb].
    + rewrite N.shiftl_spec_low by assumption. split; [discriminate | lia].
    + rewrite N.shiftl_spec_high' by assumption.
      destruct (N.lt_ge_cases (b - lo) (hi - lo + 1)) as [H1|H1].
      * rewrite N.ones_spec_low by assumption. split; [lia | reflexivity].
      * rewrite N.ones_spec_high by assumption. split; [discriminate | lia].
Qed.

Lemma dchar_inj : forall a b, 0 <= a -> 0 <= b -> dchar a = dchar b -> a = b.
Proof. intros a b Ha Hb H. unfold dchar in H. lia. Qed.

Lemma dchar_lt : forall d, 0 <= d <= 9 -> (dchar d < 256)%N.
Proof. intros d Hd. unfold dchar. lia. Qed.

Lemma dchar_not_minus : forall d, 0 <= d -> dchar d <> 45%N.
Proof. intros d Hd. unfold dchar. lia. Qed.

Lemma dchar_0 : dchar 0 = 48%N.
Proof. reflexivity. Qed.

Lemma drange_lang : forall lo hi w, 0 <= lo -> hi <= 9 ->
  (re_lang (drange lo hi) w <-> exists d, lo <= d <= hi /\ w = [dchar d]).
Proof.
  intros lo hi w Hlo Hhi. unfold drange. cbn [re_lang]. split.
  - intros (b & -> & Hm & Hb). apply bset_range_mem in Hm.
    exists (Z.of_N b - 48). split; [lia|]. unfold dchar. f_equal. lia.
  - intros (d & Hd & ->). exists (dchar d). unfold dchar. repeat split.
    + apply bset_range_mem. lia.
    + lia.
Qed.

Lemma ch_lang : forall c w, (c < 256)%N -> (re_lang (ch c) w <-> w = [c]).
Proof. intros c w Hc. unfold ch. now apply bytes_single_lang. Qed.

Lemma minus_lang : forall w, re_lang minus w <-> w = [45%N].
Proof. intros w. unfold minus. apply ch_lang. lia. Qed.

Lemma dot_lang : forall w, re_lang dot w <-> w = [46%N].
Proof. intros w. unfold dot. apply ch_lang. lia. Qed.

Lemma chd_lang : forall d w, 0 <= d <= 9 -> (re_lang (ch (dchar d)) w <-> w = [dchar d]).
Proof. intros d w Hd. apply ch_lang. now apply dchar_lt. Qed.

Lemma dstr_bytes_ok : forall ds, is_digits ds -> bytes_ok (dstr ds).
Proof.
  intros ds H. unfold bytes_ok, dstr. induction H as [|d ds Hd _ IH]; cbn [map].
  - constructor.
  - constructor; [now apply dchar_lt | exact IH].
Qed.

Lemma dlit_lang : forall ds w, is_digits ds -> (re_lang (dlit ds) w <-> w = dstr ds).
Proof. intros ds w H. unfold dlit. apply lit_lang. now apply dstr_bytes_ok. Qed.

Lemma dstr_inj : forall a b, is_digits a -> is_digits b -> dstr a = dstr b -> a = b.
Proof.
  induction a as [|x a IH]; intros [|y b] Ha Hb H; cbn [dstr map] in H; try discriminate.
  - reflexivity.
  - inversion Ha as [|? ? Hx Ha']; inversion Hb as [|? ? Hy Hb']; subst.
    injection H as H1 H2. f_equal.
    + apply dchar_inj; lia || assumption.
    + now apply IH.
Qed.

Lemma dstr_app : forall a b, dstr (a ++ b) = dstr a ++ dstr b.
Proof. intros. unfold dstr. apply map_app. Qed.

Lemma dstr_app_inv : forall s u v, dstr s = u ++ v ->
  exists s1 s2, s = s1 ++ s2 /\ u = dstr s1 /\ v = dstr s2.
Proof.
  intros s u v H. unfold dstr in H. apply map_eq_app in H.
  destruct H as (s1 & s2 & -> & <- & <-). now exists s1, s2.
Qed.

Lemma is_digits_app : forall a b, is_digits (a ++ b) <-> is_digits a /\ is_digits b.
Proof. intros. unfold is_digits. apply Forall_app. Qed.

Lemma is_digits_cons : forall d a, is_digits (d :: a) <-> 0 <= d <= 9 /\ is_digits a.
Proof. intros. unfold is_digits. apply Forall_cons_iff. Qed.

Lemma is_digits_nil : is_digits [].
Proof. constructor. Qed.

Lemma is_digits_one : forall d, 0 <= d <= 9 -> is_digits [d].
Proof. intros. constructor; [assumption | constructor]. Qed.

Lemma alt_lang : forall a b w, re_lang (Alt a b) w <-> re_lang a w \/ re_lang b w.
Proof. reflexivity. Qed.

Lemma cat_lang : forall a b w,
  re_lang (Cat a b) w <-> exists u v, w = u ++ v /\ re_lang a u /\ re_lang b v.
Proof. reflexivity. Qed.

Lemma opt_lang : forall a w, re_lang (opt a) w <-> w = [] \/ re_lang a w.
Proof.
  intros a w. unfold opt. cbn [re_lang]. split.
  - intros (n & _ & Hn & Hp). change (N.to_nat 1) with 1%nat in Hn.
    destruct n as [|[|n]]; [|  | lia].
    + left. exact Hp.
    + right. now apply pow_one.
  - intros [->|H].
    + exists 0%nat. change (N.to_nat 1) with 1%nat. change (N.to_nat 0) with 0%nat.
      repeat split; [lia | lia].
    + exists 1%nat. change (N.to_nat 1) with 1%nat. change (N.to_nat 0) with 0%nat.
      repeat split; [lia | lia | now apply pow_one].
Qed.

Lemma fold_alt_lang : forall rest x w,
  re_lang (fold_left Alt rest x) w <-> re_lang x w \/ exists p, In p rest /\ re_lang p w.
Proof.
  induction rest as [|y rest IH]; intros x w; cbn [fold_left].
  - split; [now left | intros [H|(p & [] & _)]; exact H].
  - rewrite IH. cbn [re_lang In]. split.
    + intros [[H|H]|(p & Hin & Hp)].
      * now left.
      * right. exists y. split; [now left | exact H].
      * right. exists p. split; [now right | exact Hp].
    + intros [H|(p & [->|Hin] & Hp)].
      * left. now left.
      * left. now right.
      * right. now exists p.
Qed.

Lemma mk_or_lang : forall parts w,
  re_lang (mk_or parts) w <-> exists p, In p parts /\ re_lang p w.
Proof.
  intros [|x [|y rest]] w; unfold mk_or.
  - cbn [re_lang]. split; [tauto | intros (p & [] & _)].
  - split.
    + intros H. exists x. split; [now left | exact H].
    + intros (p & [->|[]] & Hp). exact Hp.
  - rewrite fold_alt_lang. split.
    + intros [H|(p & Hin & Hp)].
      * exists x. split; [now left | exact H].
      * exists p. split; [now right | exact Hp].
    + intros (p & [->|Hin] & Hp).
      * now left.
      * right. now exists p.
Qed.

(* powers of a one-character language *)
Lemma pow_char_lang : forall (L : bytes -> Prop) (P : Z -> Prop),
  (forall w, L w <-> exists d, P d /\ w = [dchar d]) ->
  forall n w, pow_lang L n w <-> exists t, Forall P t /\ length t = n /\ w = dstr t.
Proof.
  intros L P HL. induction n as [|n IH]; intros w; cbn [pow_lang].
  - split.
    + intros ->. exists []. repeat split. constructor.
    + intros (t & _ & Hlen & ->). destruct t; [reflexivity | discriminate].
  - split.
    + intros (u & v & -> & Hu & Hv). apply HL in Hu. destruct Hu as (d & Hd & ->).
      apply IH in Hv. destruct Hv as (t & Ht & Hlen & ->).
      exists (d :: t). repeat split.
      * now constructor.
      * cbn [length]. now rewrite Hlen.
    + intros (t & Ht & Hlen & ->). destruct t as [|d t]; [discriminate|].
      inversion Ht as [|? ? Hd Ht']; subst. cbn [length] in Hlen. injection Hlen as Hlen.
      exists [dchar d], (dstr t). repeat split.
      * apply HL. now exists d.
      * apply IH. now exists t.
Qed.

Lemma rep_char_lang : forall a (P : Z -> Prop) lo,
  (forall w, re_lang a w <-> exists d, P d /\ w = [dchar d]) ->
  forall w, re_lang (Rep a lo None) w <->
            exists t, Forall P t /\ (N.to_nat lo <= length t)%nat /\ w = dstr t.
Proof.
  intros a P lo Ha w. cbn [re_lang]. split.
  - intros (n & Hn & _ & Hp). apply (pow_char_lang _ P Ha) in Hp.
    destruct Hp as (t & Ht & Hlen & ->). exists t. repeat split; [assumption | lia].
  - intros (t & Ht & Hlen & ->). exists (length t). repeat split; [assumption|].
    apply (pow_char_lang _ P Ha). now exists t.
Qed.

Lemma dany_lang : forall w, re_lang dany w <-> exists d, 0 <= d <= 9 /\ w = [dchar d].
Proof. intros w. unfold dany. apply drange_lang; lia. Qed.

Lemma zero_ch_lang : forall w, re_lang zero_ch w <-> exists d, d = 0 /\ w = [dchar d].
Proof.
  intros w. unfold zero_ch. rewrite ch_lang by lia. split.
  - intros ->. now exists 0.
  - intros (d & -> & ->). reflexivity.
Qed.

Lemma rep_dany_lang : forall n w, re_lang (Rep dany n None) w <->
  exists t, is_digits t /\ (N.to_nat n <= length t)%nat /\ w = dstr t.
Proof. intros n w. apply (rep_char_lang dany (fun d => 0 <= d <= 9) n dany_lang). Qed.

Lemma star_dany_lang : forall w, re_lang (Star dany) w <-> exists t, is_digits t /\ w = dstr t.
Proof.
  intros w. unfold Star. rewrite rep_dany_lang. split.
  - intros (t & Ht & _ & ->). now exists t.
  - intros (t & Ht & ->). exists t. repeat split; [assumption | change (N.to_nat 0) with 0%nat; lia].
Qed.

Lemma star_dany_dstr : forall t, is_digits t -> re_lang (Star dany) (dstr t).
Proof. intros t Ht. apply star_dany_lang. now exists t. Qed.

Lemma star_zero_lang : forall w, re_lang (Star zero_ch) w <->
  exists t, Forall (fun d => d = 0) t /\ w = dstr t.
Proof.
  intros w. unfold Star. rewrite (rep_char_lang zero_ch (fun d => d = 0) 0%N zero_ch_lang). split.
  - intros (t & Ht & _ & ->). now exists t.
  - intros (t & Ht & ->). exists t. repeat split; [assumption | change (N.to_nat 0) with 0%nat; lia].
Qed.

Lemma zeros_digits : forall t, Forall (fun d => d = 0) t -> is_digits t.
Proof. intros t H. unfold is_digits. eapply Forall_impl; [|exact H]. cbv beta. intros; lia. Qed.

(* ================================================================== *)
(* Part 2: decimal digit strings and their values                      *)
(* ================================================================== *)

Definition P10 (n : nat) : Z := 10 ^ Z.of_nat n.
Definition V (ds : list Z) : Z := val_digits ds 0.

Lemma P10_0 : P10 0 = 1.
Proof. reflexivity. Qed.

Lemma P10_S : forall n, P10 (S n) = 10 * P10 n.
Proof. intros n. unfold P10. rewrite Nat2Z.inj_succ. apply Z.pow_succ_r. lia. Qed.

Lemma P10_pos : forall n, 0 < P10 n.
Proof. intros n. unfold P10. apply Z.pow_pos_nonneg; lia. Qed.

Lemma P10_le : forall n m, (n <= m)%nat -> P10 n <= P10 m.
Proof. intros n m H. unfold P10. apply Z.pow_le_mono_r; lia. Qed.

Lemma P10_lt : forall n m, (n < m)%nat -> 10 * P10 n <= P10 m.
Proof. intros n m H. rewrite <- P10_S. now apply P10_le. Qed.

Lemma P10_lt_inv : forall n m, P10 n < P10 m -> (n < m)%nat.
Proof.
  intros n m H. destruct (Nat.lt_ge_cases n m) as [Hlt|Hge]; [assumption|].
  apply P10_le in Hge. lia.
Qed.

Lemma P10_add : forall n m, P10 (n + m) = P10 n * P10 m.
Proof. intros n m. unfold P10. rewrite Nat2Z.inj_add. apply Z.pow_add_r; lia. Qed.

Lemma val_digits_acc : forall (ds : list Z) (acc : Z),
  val_digits ds acc = acc * P10 (length ds) + V ds.
Proof.
  unfold V. induction ds as [|d ds IH]; intros acc; cbn [val_digits length].
  - rewrite P10_0. lia.
  - rewrite (IH (acc * 10 + d)), (IH (0 * 10 + d)), P10_S. ring.
Qed.

Lemma V_nil : V [] = 0.
Proof. reflexivity. Qed.

Lemma V_cons : forall d ds, V (d :: ds) = d * P10 (length ds) + V ds.
Proof.
  intros d ds. unfold V at 1. cbn [val_digits]. rewrite val_digits_acc. ring.
Qed.

Lemma V_one : forall d, V [d] = d.
Proof. intros d. rewrite V_cons, V_nil. cbn [length]. rewrite P10_0. lia. Qed.

Lemma V_app : forall a b, V (a ++ b) = V a * P10 (length b) + V b.
Proof.
  induction a as [|x a IH]; intros b; cbn [app].
  - rewrite V_nil. lia.
  - rewrite !V_cons, IH, app_length, P10_add. ring.
Qed.

Lemma V_snoc : forall ds d, V (ds ++ [d]) = 10 * V ds + d.
Proof. intros ds d. rewrite V_app, V_one. cbn [length]. rewrite P10_S, P10_0. lia. Qed.

Lemma V_bound : forall ds, is_digits ds -> 0 <= V ds < P10 (length ds).
Proof.
  induction ds as [|d ds IH]; intros H.
  - rewrite V_nil. cbn [length]. rewrite P10_0. lia.
  - apply is_digits_cons in H. destruct H as [Hd Hds]. specialize (IH Hds).
    rewrite V_cons. cbn [length]. rewrite P10_S. nia.
Qed.

(* fixed-length digit strings compare like their values *)
Lemma V_cons_lt : forall x a y b, is_digits a -> is_digits b -> length a = length b ->
  (V (x :: a) < V (y :: b) <-> x < y \/ (x = y /\ V a < V b)).
Proof.
  intros x a y b Ha Hb Hlen. rewrite !V_cons, Hlen.
  pose proof (V_bound a Ha) as Ba. pose proof (V_bound b Hb) as Bb. rewrite Hlen in Ba.
  pose proof (P10_pos (length b)) as Hp. nia.
Qed.

Lemma V_cons_le : forall x a y b, is_digits a -> is_digits b -> length a = length b ->
  (V (x :: a) <= V (y :: b) <-> x < y \/ (x = y /\ V a <= V b)).
Proof.
  intros x a y b Ha Hb Hlen. rewrite !V_cons, Hlen.
  pose proof (V_bound a Ha) as Ba. pose proof (V_bound b Hb) as Bb. rewrite Hlen in Ba.
  pose proof (P10_pos (length b)) as Hp. nia.
Qed.

Lemma V_same_len_inj : forall a b, is_digits a -> is_digits b -> length a = length b ->
  V a = V b -> a = b.
Proof.
  induction a as [|x a IH]; intros [|y b] Ha Hb Hlen HV; cbn [length] in Hlen; try discriminate.
  - reflexivity.
  - injection Hlen as Hlen.
    apply is_digits_cons in Ha. destruct Ha as [Hx Ha].
    apply is_digits_cons in Hb. destruct Hb as [Hy Hb].
    assert (Hle1 : V (x :: a) <= V (y :: b)) by lia.
    assert (Hle2 : V (y :: b) <= V (x :: a)) by lia.
    apply V_cons_le in Hle1; try assumption.
    apply V_cons_le in Hle2; try (assumption || now symmetry).
    assert (Hxy : x = y) by lia. subst y. f_equal.
    apply IH; try assumption. lia.
Qed.

(* canonical digit strings: no superfluous leading zero *)
Definition canon (ds : list Z) : Prop :=
  is_digits ds /\ (ds = [0] \/ exists d ds', ds = d :: ds' /\ 1 <= d).

Lemma canon_digits : forall ds, canon ds -> is_digits ds.
Proof. intros ds [H _]. exact H. Qed.

Lemma canon_nonempty : forall ds, canon ds -> ds <> [].
Proof. intros ds [_ [->|(d & ds' & -> & _)]]; discriminate. Qed.

Lemma canon_len_pos : forall ds, canon ds -> (1 <= length ds)%nat.
Proof. intros ds [_ [->|(d & ds' & -> & _)]]; cbn [length]; lia. Qed.

Lemma canon_V_nonneg : forall ds, canon ds -> 0 <= V ds.
Proof. intros ds H. apply canon_digits, V_bound in H. lia. Qed.

Lemma canon_one : forall d, 0 <= d <= 9 -> canon [d].
Proof.
  intros d Hd. split; [now apply is_digits_one|].
  destruct (Z.eq_dec d 0) as [->|Hn]; [now left | right]. exists d, []. split; [reflexivity | lia].
Qed.

Lemma canon_cons : forall d ds, 1 <= d <= 9 -> is_digits ds -> canon (d :: ds).
Proof.
  intros d ds Hd Hds. split.
  - apply is_digits_cons. split; [lia | assumption].
  - right. exists d, ds. split; [reflexivity | lia].
Qed.

Lemma canon_zero_iff : forall ds, canon ds -> (V ds = 0 <-> ds = [0]).
Proof.
  intros ds [Hd [->|(d & ds' & -> & H1)]].
  - split; reflexivity.
  - split; [|intros H; injection H; lia].
    intros HV. apply is_digits_cons in Hd. destruct Hd as [_ Hd].
    rewrite V_cons in HV. pose proof (V_bound ds' Hd). pose proof (P10_pos (length ds')). nia.
Qed.

Lemma canon_lower : forall d ds, canon (d :: ds) -> 1 <= d -> P10 (length ds) <= V (d :: ds).
Proof.
  intros d ds [Hd _] H1. apply is_digits_cons in Hd. destruct Hd as [_ Hd].
  rewrite V_cons. pose proof (V_bound ds Hd). pose proof (P10_pos (length ds)). nia.
Qed.

(* number of digits against magnitude *)
Lemma canon_len_iff : forall ds n, canon ds -> (1 <= n)%nat ->
  ((length ds <= n)%nat <-> V ds < P10 n).
Proof.
  intros ds n Hc Hn. pose proof (V_bound ds (canon_digits _ Hc)) as HB.
  destruct Hc as [Hd [->|(d & ds' & -> & H1)]].
  - cbn [length]. rewrite V_one. pose proof (P10_pos n). split; intros; lia.
  - pose proof (canon_lower d ds' (conj Hd (or_intror (ex_intro _ d (ex_intro _ ds' (conj eq_refl H1))))) H1) as HL.
    cbn [length] in *. split.
    + intros Hlen. apply P10_le in Hlen. lia.
    + intros HV. assert (Hlt : P10 (length ds') < P10 n) by lia. apply P10_lt_inv in Hlt. lia.
Qed.

Lemma canon_len_lower : forall ds n, canon ds -> (1 <= n)%nat ->
  ((n < length ds)%nat <-> P10 n <= V ds).
Proof. intros ds n Hc Hn. pose proof (canon_len_iff ds n Hc Hn). split; intros; lia. Qed.

Lemma canon_same_len : forall a b, canon a -> canon b -> V a = V b -> length a = length b.
Proof.
  intros a b Ha Hb HV.
  pose proof (canon_len_pos a Ha) as La. pose proof (canon_len_pos b Hb) as Lb.
  pose proof (canon_len_iff a (length a) Ha La) as H1.
  pose proof (canon_len_iff b (length a) Hb La) as H2.
  pose proof (canon_len_iff a (length b) Ha Lb) as H3.
  pose proof (canon_len_iff b (length b) Hb Lb) as H4.
  rewrite HV in *. lia.
Qed.

Lemma canon_unique : forall a b, canon a -> canon b -> V a = V b -> a = b.
Proof.
  intros a b Ha Hb HV. apply V_same_len_inj; try (now apply canon_digits); [|assumption].
  now apply canon_same_len.
Qed.

(* a value between two canonical strings of the same length has that length *)
Lemma canon_between_len : forall a b c, canon a -> canon b -> canon c ->
  length a = length b -> V a <= V c <= V b -> length c = length a.
Proof.
  intros a b c Ha Hb Hc Hlen HV.
  pose proof (canon_len_pos a Ha) as La. pose proof (canon_len_pos c Hc) as Lc.
  assert (H1 : (length c <= length b)%nat).
  { apply canon_len_iff; [assumption | lia |].
    pose proof (proj1 (canon_len_iff b (length b) Hb ltac:(lia)) (Nat.le_refl _)). lia. }
  assert (H2 : (length a <= length c)%nat).
  { destruct (Nat.le_gt_cases (length a) (length c)) as [Hle|Hgt]; [assumption | exfalso].
    pose proof (proj1 (canon_len_iff c (length c) Hc Lc) (Nat.le_refl _)) as H3.
    pose proof (proj1 (canon_len_lower a (length c) Ha Lc) Hgt) as H4. lia. }
  lia.
Qed.

Lemma canon_snoc : forall p d, canon p -> 1 <= V p -> 0 <= d <= 9 -> canon (p ++ [d]).
Proof.
  intros p d [Hp [->|(d0 & p' & -> & H1)]] HV Hd.
  - rewrite V_one in HV. lia.
  - split.
    + apply is_digits_app. split; [assumption | now apply is_digits_one].
    + right. exists d0, (p' ++ [d]). split; [reflexivity | assumption].
Qed.

Lemma canon_snoc_inv : forall p d, canon (p ++ [d]) -> p <> [] -> canon p /\ 1 <= V p /\ 0 <= d <= 9.
Proof.
  intros p d [Hd Hc] Hne. apply is_digits_app in Hd. destruct Hd as [Hp Hd].
  apply is_digits_cons in Hd. destruct Hd as [Hd _].
  destruct p as [|x p]; [congruence|]. cbn [app] in Hc.
  destruct Hc as [Hc|(d0 & p' & Heq & H1)].
  - destruct p; discriminate.
  - injection Heq as <- _.
    assert (Hcp : canon (x :: p)).
    { split; [assumption | right]. exists x, p. now split. }
    split; [assumption|]. split; [|assumption].
    pose proof (canon_lower x p Hcp H1). pose proof (P10_pos (length p)). lia.
Qed.

Lemma canon_snoc_digit : forall p d, canon (p ++ [d]) -> is_digits p /\ 0 <= d <= 9.
Proof.
  intros p d [Hd _]. apply is_digits_app in Hd. destruct Hd as [Hp Hd].
  apply is_digits_cons in Hd. tauto.
Qed.

Lemma canon_snoc_replace : forall p d e, canon (p ++ [d]) -> 0 <= e <= 9 -> canon (p ++ [e]).
Proof.
  intros p d e Hc He. destruct p as [|x p].
  - cbn [app]. now apply canon_one.
  - destruct (canon_snoc_inv (x :: p) d Hc ltac:(discriminate)) as (Hp & HV & _).
    now apply canon_snoc.
Qed.

Lemma snoc_cases : forall (ds : list Z), ds <> [] -> exists p d, ds = p ++ [d].
Proof.
  intros ds H. destruct (exists_last H) as (p & d & ->). now exists p, d.
Qed.

(* ---------- digits_of ---------- *)
Lemma digits_fuel_spec : forall f n acc, (1 <= f)%nat -> 0 <= n < P10 f ->
  exists ds, digits_fuel f n acc = ds ++ acc /\ canon ds /\ V ds = n.
Proof.
  induction f as [|f IH]; intros n acc Hf Hn; [lia|].
  cbn [digits_fuel]. destruct (Z.ltb_spec n 10) as [Hlt|Hge].
  - exists [n mod 10]. rewrite Z.mod_small by lia. repeat split.
    + apply is_digits_one; lia.
    + destruct (Z.eq_dec n 0) as [->|Hn0]; [now left | right].
      exists n, []. split; [reflexivity | lia].
  - rewrite P10_S in Hn.
    assert (Hf' : (1 <= f)%nat).
    { destruct f; [rewrite P10_0 in Hn; lia | lia]. }
    pose proof (Z.div_mod n 10 ltac:(lia)) as Hdm.
    pose proof (Z.mod_pos_bound n 10 ltac:(lia)) as Hmod.
    destruct (IH (n / 10) (n mod 10 :: acc) Hf' ltac:(lia)) as (ds & Heq & Hc & HV).
    exists (ds ++ [n mod 10]). rewrite Heq, <- app_assoc. split; [reflexivity|]. split.
    + apply canon_snoc; [assumption | lia | lia].
    + rewrite V_snoc. lia.
Qed.

Definition big (z : Z) : Prop := Z.abs z < P10 80.

Lemma digits_of_spec : forall z, big z -> canon (digits_of z) /\ V (digits_of z) = Z.abs z.
Proof.
  intros z Hz. unfold digits_of.
  destruct (digits_fuel_spec 80 (Z.abs z) [] ltac:(lia) ltac:(unfold big in Hz; lia)) as (ds & Heq & Hc & HV).
  rewrite Heq, app_nil_r. now split.
Qed.

Lemma digits_of_canon : forall z, big z -> canon (digits_of z).
Proof. intros z Hz. now apply digits_of_spec. Qed.

Lemma digits_of_V : forall z, 0 <= z -> big z -> V (digits_of z) = z.
Proof. intros z H0 Hz. destruct (digits_of_spec z Hz) as [_ H]. lia. Qed.

Lemma digits_of_unique : forall ds, canon ds -> V ds < P10 80 -> digits_of (V ds) = ds.
Proof.
  intros ds Hc HV. pose proof (canon_V_nonneg ds Hc) as H0.
  assert (Hb : big (V ds)) by (unfold big; lia).
  apply canon_unique; [now apply digits_of_canon | assumption | now apply digits_of_V].
Qed.

Lemma digits_of_neg : forall z, digits_of (- z) = digits_of z.
Proof. intros z. unfold digits_of. now rewrite Z.abs_opp. Qed.

Lemma i64_big : forall z, i64_ok z -> big z.
Proof.
  intros z Hz. unfold i64_ok in Hz. unfold big.
  assert (H : 2 ^ 63 < P10 80) by (vm_compute; reflexivity). lia.
Qed.

Lemma num_digits_pos : forall z, big z -> (1 <= num_digits z)%nat.
Proof. intros z Hz. unfold num_digits. apply canon_len_pos. now apply digits_of_canon. Qed.

Lemma num_digits_le80 : forall z, big z -> (num_digits z <= 80)%nat.
Proof.
  intros z Hz. unfold num_digits. destruct (digits_of_spec z Hz) as [Hc HV].
  apply canon_len_iff; [assumption | lia |]. unfold big in Hz. lia.
Qed.

(* z < 10^(num_digits z) *)
Lemma num_digits_upper : forall z, 0 <= z -> big z -> z < P10 (num_digits z).
Proof.
  intros z H0 Hz. unfold num_digits. destruct (digits_of_spec z Hz) as [Hc HV].
  pose proof (V_bound _ (canon_digits _ Hc)). unfold digit in *. lia.
Qed.

Lemma num_digits_iff : forall z n, 0 <= z -> big z -> (1 <= n)%nat ->
  ((num_digits z <= n)%nat <-> z < P10 n).
Proof.
  intros z n H0 Hz Hn. unfold num_digits. destruct (digits_of_spec z Hz) as [Hc HV].
  rewrite (canon_len_iff _ n Hc Hn). lia.
Qed.

Ltac splits := repeat match goal with |- _ /\ _ => split end.

Lemma NOk_inj : forall (A : Type) (a b : A), NOk a = NOk b -> a = b.
Proof. intros A a b H. injection H. auto. Qed.

(* ================================================================== *)
(* Part 3: integer ranges, non-negative lower bound                    *)
(* ================================================================== *)

Lemma list_eqb_Z_eq : forall a b : list Z, list_eqb Z.eqb a b = true <-> a = b.
Proof.
  induction a as [|x a IH]; intros [|y b]; cbn [list_eqb]; try (split; [discriminate | discriminate]).
  - split; reflexivity.
  - rewrite andb_true_iff, IH, Z.eqb_eq. split.
    + intros [-> ->]. reflexivity.
    + intros H. injection H as -> ->. now split.
Qed.

Definition optpart (b : bool) (p : regex) : list regex := if b then [p] else [].

Lemma in_optpart : forall b p q, In q (optpart b p) <-> b = true /\ q = p.
Proof.
  intros [|] p q; cbn [optpart In].
  - split; [intros [<-|[]]; now split | intros [_ ->]; now left].
  - split; [intros [] | intros [H _]; discriminate].
Qed.

Lemma mk_or3_lang : forall a pa b pb c pc w,
  re_lang (mk_or (optpart a pa ++ optpart b pb ++ optpart c pc)) w <->
  (a = true /\ re_lang pa w) \/ (b = true /\ re_lang pb w) \/ (c = true /\ re_lang pc w).
Proof.
  intros a pa b pb c pc w. rewrite mk_or_lang. split.
  - intros (p & Hin & Hp). rewrite !in_app_iff, !in_optpart in Hin.
    destruct Hin as [[-> ->]|[[-> ->]|[-> ->]]]; auto.
  - intros [[-> H]|[[-> H]|[-> H]]]; [exists pa | exists pb | exists pc];
      (split; [|exact H]); rewrite !in_app_iff, !in_optpart; auto.
Qed.

Lemma mk_or2_lang : forall a b w, re_lang (mk_or [a; b]) w <-> re_lang a w \/ re_lang b w.
Proof. reflexivity. Qed.

(* the same-length, different-prefix recursion in terms of prefix / last digit *)
Definition SL (f : nat) (lp : list Z) (lx : Z) (rp : list Z) (rx : Z) : nres regex :=
  if list_eqb Z.eqb lp rp then NOk (Cat (dlit lp) (drange lx rx)) else
  if V rp <=? V lp then NErr else
  let L1 := if lx =? 0 then V lp else V lp + 1 in
  let R1 := if rx =? 9 then V rp else V rp - 1 in
  let pa := Cat (dlit lp) (drange lx 9) in
  let pb := Cat (dlit rp) (drange 0 rx) in
  if L1 <=? R1 then
    nbind (rx_int_range f (Some L1) (Some R1)) (fun inner =>
      NOk (mk_or (optpart (negb (lx =? 0)) pa ++ optpart (negb (rx =? 9)) pb ++
                  optpart true (Cat inner dany))))
  else NOk (mk_or (optpart (negb (lx =? 0)) pa ++ optpart (negb (rx =? 9)) pb ++
                   optpart false Empty)).

Lemma rir_nn_some : forall f l r, 0 <= l ->
  rx_int_range (S f) (Some l) (Some r) =
  if r <? l then NErr else
  if Nat.eqb (num_digits l) (num_digits r) then
    if l =? r then NOk (dlit (digits_of l))
    else SL f (but_last (digits_of l)) (last_digit (digits_of l))
              (but_last (digits_of r)) (last_digit (digits_of r))
  else
    nbind (rx_int_range f (Some l) (Some (P10 (num_digits l) - 1))) (fun a =>
    nbind (rx_int_range f (Some (P10 (num_digits l) - 1 + 1)) (Some r)) (fun b =>
    NOk (mk_or [a; b]))).
Proof.
  intros f l r H0. cbn [rx_int_range].
  destruct (Z.ltb_spec l 0) as [Hneg|_]; [lia|].
  destruct (r <? l); [reflexivity|].
  destruct (Nat.eqb (num_digits l) (num_digits r)); [|reflexivity].
  destruct (l =? r); [reflexivity|].
  unfold SL, V. cbv zeta.
  destruct (list_eqb Z.eqb (but_last (digits_of l)) (but_last (digits_of r))); [reflexivity|].
  destruct (val_digits (but_last (digits_of r)) 0 <=? val_digits (but_last (digits_of l)) 0);
    [reflexivity|].
  destruct (last_digit (digits_of l) =? 0); destruct (last_digit (digits_of r) =? 9); reflexivity.
Qed.

Lemma rir_nn_none : forall f l, 0 <= l ->
  rx_int_range (S f) (Some l) None =
  nbind (rx_int_range f (Some l) (Some (P10 (num_digits l) - 1))) (fun a =>
  NOk (mk_or [a; Cat (drange 1 9) (Rep dany (N.of_nat (num_digits l)) None)])).
Proof.
  intros f l H0. cbn [rx_int_range].
  destruct (Z.ltb_spec l 0) as [Hneg|_]; [lia|]. reflexivity.
Qed.

Definition ub (r : option Z) (v : Z) : Prop := match r with Some b => v <= b | None => True end.

Definition nn_lang (l : Z) (r : option Z) (w : bytes) : Prop :=
  exists ds, canon ds /\ w = dstr ds /\ l <= V ds /\ ub r (V ds).

Lemma cat_dlit_drange_lang : forall lp lo hi w, is_digits lp -> 0 <= lo -> hi <= 9 ->
  (re_lang (Cat (dlit lp) (drange lo hi)) w <-> exists d, lo <= d <= hi /\ w = dstr (lp ++ [d])).
Proof.
  intros lp lo hi w Hlp Hlo Hhi. rewrite cat_lang. split.
  - intros (u & v & -> & Hu & Hv). apply dlit_lang in Hu; [|assumption].
    apply drange_lang in Hv; [|assumption|assumption]. destruct Hv as (d & Hd & ->). subst u.
    exists d. split; [assumption|]. now rewrite dstr_app.
  - intros (d & Hd & ->). exists (dstr lp), [dchar d]. split; [now rewrite dstr_app|]. split.
    + now apply dlit_lang.
    + apply drange_lang; [assumption|assumption|]. now exists d.
Qed.

Lemma cat_inner_dany_lang : forall inner L1 R1 w,
  (forall u, re_lang inner u <-> nn_lang L1 (Some R1) u) ->
  (re_lang (Cat inner dany) w <->
   exists p d, canon p /\ L1 <= V p <= R1 /\ 0 <= d <= 9 /\ w = dstr (p ++ [d])).
Proof.
  intros inner L1 R1 w Hin. rewrite cat_lang. split.
  - intros (u & v & -> & Hu & Hv). apply Hin in Hu. destruct Hu as (p & Hp & -> & Hlo & Hhi).
    cbn [ub] in Hhi. apply dany_lang in Hv. destruct Hv as (d & Hd & ->).
    exists p, d. splits; try assumption; try lia. now rewrite dstr_app.
  - intros (p & d & Hp & HV & Hd & ->). exists (dstr p), [dchar d].
    split; [now rewrite dstr_app|]. split.
    + apply Hin. exists p. splits; try assumption; try reflexivity; cbn [ub]; lia.
    + apply dany_lang. now exists d.
Qed.

Lemma sem_same_len : forall lp lx rp rx L1 R1 w,
  canon (lp ++ [lx]) -> canon (rp ++ [rx]) -> length lp = length rp -> V lp < V rp ->
  (lx = 0 /\ L1 = V lp \/ lx <> 0 /\ L1 = V lp + 1) ->
  (rx = 9 /\ R1 = V rp \/ rx <> 9 /\ R1 = V rp - 1) ->
  ( (lx <> 0 /\ exists d, lx <= d <= 9 /\ w = dstr (lp ++ [d])) \/
    (rx <> 9 /\ exists d, 0 <= d <= rx /\ w = dstr (rp ++ [d])) \/
    (exists p d, canon p /\ L1 <= V p <= R1 /\ 0 <= d <= 9 /\ w = dstr (p ++ [d]))
    <-> nn_lang (V (lp ++ [lx])) (Some (V (rp ++ [rx]))) w).
Proof.
  intros lp lx rp rx L1 R1 w Hcl Hcr Hlen HV HL HR.
  destruct (canon_snoc_digit _ _ Hcl) as [Hdl Hlx].
  destruct (canon_snoc_digit _ _ Hcr) as [Hdr Hrx].
  assert (Hnel : lp <> []).
  { intros ->. destruct rp; [|discriminate]. lia. }
  assert (Hner : rp <> []).
  { intros ->. destruct lp; [congruence | discriminate]. }
  destruct (canon_snoc_inv lp lx Hcl Hnel) as (Hclp & HVlp & _).
  destruct (canon_snoc_inv rp rx Hcr Hner) as (Hcrp & HVrp & _).
  unfold nn_lang. rewrite !V_snoc. cbn [ub]. split.
  - intros [(Hn & d & Hd & ->)|[(Hn & d & Hd & ->)|(p & d & Hp & HVp & Hd & ->)]].
    + exists (lp ++ [d]). split; [apply (canon_snoc_replace lp lx d Hcl); lia|].
      split; [reflexivity|]. rewrite V_snoc. lia.
    + exists (rp ++ [d]). split; [apply (canon_snoc_replace rp rx d Hcr); lia|].
      split; [reflexivity|]. rewrite V_snoc. lia.
    + exists (p ++ [d]). split; [apply canon_snoc; try assumption; lia|].
      split; [reflexivity|]. rewrite V_snoc. lia.
  - intros (ds & Hc & -> & Hlo & Hhi).
    destruct (snoc_cases ds (canon_nonempty _ Hc)) as (p & d & ->).
    rewrite V_snoc in Hlo, Hhi.
    assert (Hlenp : length p = length lp).
    { pose proof (canon_between_len (lp ++ [lx]) (rp ++ [rx]) (p ++ [d]) Hcl Hcr Hc) as H.
      rewrite !app_length, !V_snoc in H. cbn [length] in H. lia. }
    assert (Hnep : p <> []).
    { intros ->. destruct lp; [congruence | discriminate]. }
    destruct (canon_snoc_inv p d Hc Hnep) as (Hcp & HVp & Hd).
    destruct (Z.eq_dec (V p) (V lp)) as [E|NE].
    + assert (p = lp).
      { apply V_same_len_inj; try assumption. now apply canon_digits. }
      subst p. destruct HL as [[-> ->]|[Hn ->]].
      * right; right. exists lp, d. splits; try assumption; try reflexivity; lia.
      * left. split; [assumption|]. exists d. split; [lia | reflexivity].
    + destruct (Z.eq_dec (V p) (V rp)) as [E'|NE'].
      * assert (p = rp).
        { apply V_same_len_inj; try assumption; [now apply canon_digits | congruence]. }
        subst p. destruct HR as [[-> ->]|[Hn ->]].
        -- right; right. exists rp, d. splits; try assumption; try reflexivity; lia.
        -- right; left. split; [assumption|]. exists d. split; [lia | reflexivity].
      * right; right. exists p, d. splits; try assumption; try reflexivity; lia.
Qed.

Lemma sem_same_prefix : forall lp lx rx w,
  canon (lp ++ [lx]) -> canon (lp ++ [rx]) ->
  ((exists d, lx <= d <= rx /\ w = dstr (lp ++ [d])) <->
   nn_lang (V (lp ++ [lx])) (Some (V (lp ++ [rx]))) w).
Proof.
  intros lp lx rx w Hcl Hcr.
  destruct (canon_snoc_digit _ _ Hcl) as [Hdl Hlx].
  destruct (canon_snoc_digit _ _ Hcr) as [_ Hrx].
  unfold nn_lang. rewrite !V_snoc. cbn [ub]. split.
  - intros (d & Hd & ->). exists (lp ++ [d]).
    split; [apply (canon_snoc_replace lp lx d Hcl); lia|].
    split; [reflexivity|]. rewrite V_snoc. lia.
  - intros (ds & Hc & -> & Hlo & Hhi).
    destruct (snoc_cases ds (canon_nonempty _ Hc)) as (p & d & ->).
    rewrite V_snoc in Hlo, Hhi.
    assert (Hlenp : length p = length lp).
    { pose proof (canon_between_len (lp ++ [lx]) (lp ++ [rx]) (p ++ [d]) Hcl Hcr Hc) as H.
      rewrite !app_length, !V_snoc in H. cbn [length] in H. lia. }
    destruct (canon_snoc_digit _ _ Hc) as [Hdp Hd].
    assert (p = lp).
    { apply V_same_len_inj; try assumption. lia. }
    subst p. exists d. split; [lia | reflexivity].
Qed.

Definition nn_spec (f : nat) : Prop :=
  forall l r rx, 0 <= l -> l < P10 80 -> r < P10 80 ->
  rx_int_range f (Some l) (Some r) = NOk rx -> forall w, re_lang rx w <-> nn_lang l (Some r) w.

Lemma SL_correct : forall f lp lx rp rx rxx,
  nn_spec f ->
  canon (lp ++ [lx]) -> canon (rp ++ [rx]) -> length lp = length rp ->
  V (lp ++ [lx]) < V (rp ++ [rx]) -> V (rp ++ [rx]) < P10 80 ->
  SL f lp lx rp rx = NOk rxx ->
  forall w, re_lang rxx w <-> nn_lang (V (lp ++ [lx])) (Some (V (rp ++ [rx]))) w.
Proof.
  intros f lp lx rp rx rxx IH Hcl Hcr Hlen Hlt Hbig HSL w.
  destruct (canon_snoc_digit _ _ Hcl) as [Hdl Hlx].
  destruct (canon_snoc_digit _ _ Hcr) as [Hdr Hrx].
  unfold SL in HSL.
  destruct (list_eqb Z.eqb lp rp) eqn:Eeq.
  - apply list_eqb_Z_eq in Eeq. subst rp. apply NOk_inj in HSL; subst rxx.
    rewrite cat_dlit_drange_lang by (assumption || lia).
    now apply sem_same_prefix.
  - destruct (Z.leb_spec (V rp) (V lp)) as [Hle|Hgt]; [discriminate|].
    cbv zeta in HSL.
    pose proof (V_bound lp Hdl) as Blp. pose proof (V_bound rp Hdr) as Brp.
    rewrite V_snoc in Hbig.
    set (L1 := if lx =? 0 then V lp else V lp + 1) in *.
    set (R1 := if rx =? 9 then V rp else V rp - 1) in *.
    assert (HL : lx = 0 /\ L1 = V lp \/ lx <> 0 /\ L1 = V lp + 1).
    { subst L1. destruct (Z.eqb_spec lx 0); [left | right]; now split. }
    assert (HR : rx = 9 /\ R1 = V rp \/ rx <> 9 /\ R1 = V rp - 1).
    { subst R1. destruct (Z.eqb_spec rx 9); [left | right]; now split. }
    rewrite <- (sem_same_len lp lx rp rx L1 R1 w Hcl Hcr Hlen Hgt HL HR).
    assert (Ea : negb (lx =? 0) = true <-> lx <> 0).
    { rewrite negb_true_iff, Z.eqb_neq. tauto. }
    assert (Eb : negb (rx =? 9) = true <-> rx <> 9).
    { rewrite negb_true_iff, Z.eqb_neq. tauto. }
    destruct (Z.leb_spec L1 R1) as [HLR|HLR].
    + destruct (rx_int_range f (Some L1) (Some R1)) as [inner|] eqn:Einner;
        cbv beta iota delta [nbind] in HSL; [|discriminate].
      apply NOk_inj in HSL; subst rxx. rewrite mk_or3_lang.
      rewrite Ea, Eb.
      rewrite !cat_dlit_drange_lang by (assumption || lia).
      rewrite (cat_inner_dany_lang inner L1 R1 w
                 (IH L1 R1 inner ltac:(lia) ltac:(lia) ltac:(lia) Einner)).
      tauto.
    + cbv beta iota in HSL. apply NOk_inj in HSL; subst rxx. rewrite mk_or3_lang. rewrite Ea, Eb.
      rewrite !cat_dlit_drange_lang by (assumption || lia).
      split.
      * intros [H|[H|[H _]]]; [now left | right; now left | discriminate].
      * intros [H|[H|(p & d & _ & Hp & _)]]; [now left | right; now left | lia].
Qed.

Lemma big_tail_lang : forall n w, (1 <= n)%nat ->
  (re_lang (Cat (drange 1 9) (Rep dany (N.of_nat n) None)) w <->
   exists ds, canon ds /\ w = dstr ds /\ P10 n <= V ds).
Proof.
  intros n w Hn. rewrite cat_lang. split.
  - intros (u & v & -> & Hu & Hv). apply drange_lang in Hu; [|lia|lia].
    destruct Hu as (d & Hd & ->). apply rep_dany_lang in Hv. destruct Hv as (t & Ht & Hlen & ->).
    rewrite Nat2N.id in Hlen.
    assert (Hc : canon (d :: t)) by (apply canon_cons; assumption).
    exists (d :: t). split; [assumption|]. split; [reflexivity|].
    apply canon_len_lower; [assumption | assumption | cbn [length]; lia].
  - intros (ds & Hc & -> & HV).
    pose proof (proj2 (canon_len_lower ds n Hc Hn) HV) as Hlen.
    pose proof (P10_pos n) as Hp.
    destruct Hc as [Hd [->|(d & ds' & -> & H1)]].
    + rewrite V_one in HV. lia.
    + apply is_digits_cons in Hd. destruct Hd as [Hd Hds'].
      exists [dchar d], (dstr ds'). split; [reflexivity|]. split.
      * apply drange_lang; [lia | lia |]. exists d. split; [lia | reflexivity].
      * apply rep_dany_lang. exists ds'. rewrite Nat2N.id. cbn [length] in Hlen.
        splits; [assumption | lia | reflexivity].
Qed.

Lemma digits_of_snoc : forall z, big z ->
  digits_of z = but_last (digits_of z) ++ [last_digit (digits_of z)].
Proof.
  intros z Hz. unfold but_last, last_digit. apply app_removelast_last.
  apply canon_nonempty. now apply digits_of_canon.
Qed.

Lemma num_digits_mono : forall l r, 0 <= l <= r -> big r -> (num_digits l <= num_digits r)%nat.
Proof.
  intros l r Hlr Hr. assert (Hl : big l) by (unfold big in *; lia).
  apply num_digits_iff; [lia | assumption | now apply num_digits_pos |].
  pose proof (num_digits_upper r ltac:(lia) Hr). lia.
Qed.

Definition obig (r : option Z) : Prop := match r with Some b => b < P10 80 | None => True end.

Theorem int_range_nn : forall f l r rx, 0 <= l -> l < P10 80 -> obig r ->
  rx_int_range f (Some l) r = NOk rx -> forall w, re_lang rx w <-> nn_lang l r w.
Proof.
  induction f as [|f IH]; intros l r rx H0 Hl Hr Hrx w; [discriminate|].
  assert (IH' : nn_spec f).
  { intros l' r' rx' H0' Hl' Hr' Hrx'. apply (IH l' (Some r') rx'); try assumption. }
  assert (Hbl : big l) by (unfold big; lia).
  destruct r as [r|].
  - cbn [obig] in Hr. rewrite rir_nn_some in Hrx by assumption.
    destruct (Z.ltb_spec r l) as [Hrl|Hlr]; [discriminate|].
    assert (Hbr : big r) by (unfold big; lia).
    destruct (Nat.eqb_spec (num_digits l) (num_digits r)) as [End|Hnd].
    + destruct (Z.eqb_spec l r) as [Elr|Nlr].
      * apply NOk_inj in Hrx; subst rx. subst r.
        rewrite dlit_lang by (apply canon_digits; now apply digits_of_canon).
        unfold nn_lang. cbn [ub]. split.
        -- intros ->. exists (digits_of l). split; [now apply digits_of_canon|].
           split; [reflexivity|]. rewrite digits_of_V by assumption. lia.
        -- intros (ds & Hc & -> & Hlo & Hhi). f_equal.
           apply canon_unique; [assumption | now apply digits_of_canon |].
           rewrite digits_of_V by assumption. lia.
      * pose proof (digits_of_snoc l Hbl) as El. pose proof (digits_of_snoc r Hbr) as Er.
        set (lp := but_last (digits_of l)) in *. set (lx := last_digit (digits_of l)) in *.
        set (rp := but_last (digits_of r)) in *. set (rx0 := last_digit (digits_of r)) in *.
        pose proof (digits_of_canon l Hbl) as Hcl. pose proof (digits_of_canon r Hbr) as Hcr.
        pose proof (digits_of_V l H0 Hbl) as HVl. pose proof (digits_of_V r ltac:(lia) Hbr) as HVr.
        rewrite El in Hcl, HVl. rewrite Er in Hcr, HVr.
        assert (Hlen : length lp = length rp).
        { unfold num_digits in End. rewrite El, Er in End. rewrite !app_length in End.
          cbn [length] in End. lia. }
        rewrite <- HVl, <- HVr.
        unfold digit in *. apply (SL_correct f lp lx rp rx0 rx IH' Hcl Hcr Hlen); [lia | lia | exact Hrx].
    + pose proof (num_digits_mono l r ltac:(lia) Hbr) as Hmono.
      pose proof (num_digits_pos l Hbl) as Hpos.
      pose proof (num_digits_upper l H0 Hbl) as Hup.
      assert (Hbp : P10 (num_digits l) <= r).
      { pose proof (num_digits_iff r (num_digits l) ltac:(lia) Hbr Hpos). lia. }
      destruct (rx_int_range f (Some l) (Some (P10 (num_digits l) - 1))) as [a|] eqn:Ea;
        cbv beta iota delta [nbind] in Hrx; [|discriminate].
      destruct (rx_int_range f (Some (P10 (num_digits l) - 1 + 1)) (Some r)) as [b|] eqn:Eb;
        cbv beta iota delta [nbind] in Hrx; [|discriminate].
      apply NOk_inj in Hrx; subst rx. rewrite mk_or2_lang.
      assert (Ha : P10 (num_digits l) - 1 < P10 80) by lia.
      rewrite (IH' _ _ a H0 Hl Ha Ea w).
      assert (Hb1 : 0 <= P10 (num_digits l) - 1 + 1) by lia.
      assert (Hb2 : P10 (num_digits l) - 1 + 1 < P10 80) by lia.
      rewrite (IH' _ _ b Hb1 Hb2 Hr Eb w).
      unfold nn_lang. cbn [ub]. split.
      * intros [(ds & Hc & -> & Hlo & Hhi)|(ds & Hc & -> & Hlo & Hhi)];
          exists ds; splits; try assumption; try reflexivity; lia.
      * intros (ds & Hc & -> & Hlo & Hhi).
        destruct (Z.le_gt_cases (V ds) (P10 (num_digits l) - 1)) as [Hle|Hgt].
        -- left. exists ds. splits; try assumption; try reflexivity; try lia.
        -- right. exists ds. splits; try assumption; try reflexivity; try lia.
  - rewrite rir_nn_none in Hrx by assumption.
    pose proof (num_digits_pos l Hbl) as Hpos.
    pose proof (num_digits_upper l H0 Hbl) as Hup.
    pose proof (num_digits_le80 l Hbl) as H80.
    pose proof (P10_le _ _ H80) as HP80.
    destruct (rx_int_range f (Some l) (Some (P10 (num_digits l) - 1))) as [a|] eqn:Ea;
      cbv beta iota delta [nbind] in Hrx; [|discriminate].
    apply NOk_inj in Hrx; subst rx. rewrite mk_or2_lang.
    assert (Ha : P10 (num_digits l) - 1 < P10 80) by lia.
    rewrite (IH' _ _ a H0 Hl Ha Ea w).
    rewrite (big_tail_lang _ w Hpos).
    unfold nn_lang. cbn [ub]. split.
    + intros [(ds & Hc & -> & Hlo & Hhi)|(ds & Hc & -> & Hlo)];
        exists ds; splits; try assumption; try reflexivity; lia.
    + intros (ds & Hc & -> & Hlo & _).
      destruct (Z.le_gt_cases (V ds) (P10 (num_digits l) - 1)) as [Hle|Hgt].
      * left. exists ds. splits; try assumption; try reflexivity; try lia.
      * right. exists ds. splits; try assumption; try reflexivity; try lia.
Qed.

(* ================================================================== *)
(* Part 4: integer ranges, all sign cases                              *)
(* ================================================================== *)

Lemma rir_none_none : forall f, rx_int_range (S f) None None = NOk any_int.
Proof. reflexivity. Qed.

Lemma rir_neg_none : forall f l, l < 0 ->
  rx_int_range (S f) (Some l) None =
  nbind (rx_int_range f (Some l) (Some (-1))) (fun a =>
  nbind (rx_int_range f (Some 0) None) (fun b => NOk (mk_or [a; b]))).
Proof.
  intros f l Hl. cbn [rx_int_range]. destruct (Z.ltb_spec l 0) as [_|Hge]; [reflexivity | lia].
Qed.

Lemma rir_none_some : forall f r,
  rx_int_range (S f) None (Some r) =
  if 0 <=? r then
    nbind (rx_int_range f (Some 0) (Some r)) (fun a =>
    nbind (rx_int_range f None (Some (-1))) (fun b => NOk (mk_or [a; b])))
  else nbind (rx_int_range f (Some (- r)) None) (fun a => NOk (Cat minus a)).
Proof. reflexivity. Qed.

Lemma rir_neg_some : forall f l r, l < 0 ->
  rx_int_range (S f) (Some l) (Some r) =
  if r <? l then NErr
  else if r <? 0 then
    nbind (rx_int_range f (Some (- r)) (Some (- l))) (fun a => NOk (Cat minus a))
  else
    nbind (rx_int_range f (Some 0) (Some (- l))) (fun a =>
    nbind (rx_int_range f (Some 0) (Some r)) (fun b => NOk (Alt (Cat minus a) b))).
Proof.
  intros f l r Hl. cbn [rx_int_range]. destruct (Z.ltb_spec l 0) as [_|Hge]; [reflexivity | lia].
Qed.

Lemma big_small : forall z, Z.abs z <= 1 -> big z.
Proof.
  intros z Hz. unfold big. assert (H : 1 < P10 80) by (vm_compute; reflexivity). lia.
Qed.

(* "-0" is accepted exactly by these ranges *)
Definition negzero (l r : option Z) : Prop :=
  match l, r with
  | None, None => True
  | Some a, Some b => a < 0 <= b
  | _, _ => False
  end.

Definition int_lang (l r : option Z) (w : bytes) : Prop :=
  exists ds, canon ds /\
    ((w = dstr ds /\ in_opt_range l r (V ds)) \/
     (w = 45%N :: dstr ds /\ in_opt_range l r (- V ds) /\ (V ds = 0 -> negzero l r))).

Definition obig2 (o : option Z) : Prop := match o with Some z => big z | None => True end.

Lemma cat_minus_lang : forall a w,
  re_lang (Cat minus a) w <-> exists v, w = 45%N :: v /\ re_lang a v.
Proof.
  intros a w. rewrite cat_lang. split.
  - intros (u & v & -> & Hu & Hv). apply minus_lang in Hu. subst u. now exists v.
  - intros (v & -> & Hv). exists [45%N], v. split; [reflexivity|]. split; [now apply minus_lang | exact Hv].
Qed.

Lemma canon_re_lang : forall v,
  re_lang (Alt (ch 48%N) (Cat (drange 1 9) (Star dany))) v <-> exists ds, canon ds /\ v = dstr ds.
Proof.
  intros v. rewrite alt_lang, ch_lang by lia. rewrite cat_lang. split.
  - intros [->|(u & t & -> & Hu & Ht)].
    + exists [0]. split; [apply canon_one; lia | reflexivity].
    + apply drange_lang in Hu; [|lia|lia]. destruct Hu as (d & Hd & ->).
      apply star_dany_lang in Ht. destruct Ht as (t' & Ht' & ->).
      exists (d :: t'). split; [now apply canon_cons | reflexivity].
  - intros (ds & [Hd [->|(d & ds' & -> & H1)]] & ->).
    + now left.
    + right. apply is_digits_cons in Hd. destruct Hd as [Hd Hds'].
      exists [dchar d], (dstr ds'). split; [reflexivity|]. split.
      * apply drange_lang; [lia | lia |]. exists d. split; [lia | reflexivity].
      * now apply star_dany_dstr.
Qed.

Lemma any_int_lang : forall w,
  re_lang any_int w <-> exists ds, canon ds /\ (w = dstr ds \/ w = 45%N :: dstr ds).
Proof.
  intros w. unfold any_int. rewrite cat_lang. split.
  - intros (u & v & -> & Hu & Hv). apply canon_re_lang in Hv. destruct Hv as (ds & Hc & ->).
    apply opt_lang in Hu. destruct Hu as [->|Hu].
    + exists ds. split; [assumption | now left].
    + apply minus_lang in Hu. subst u. exists ds. split; [assumption | now right].
  - intros (ds & Hc & [->| ->]).
    + exists [], (dstr ds). split; [reflexivity|]. split.
      * apply opt_lang. now left.
      * apply canon_re_lang. now exists ds.
    + exists [45%N], (dstr ds). split; [reflexivity|]. split.
      * apply opt_lang. right. now apply minus_lang.
      * apply canon_re_lang. now exists ds.
Qed.

Ltac il_left ds Hc :=
  exists ds; split; [exact Hc|]; left; split; [reflexivity|];
  pose proof (canon_V_nonneg ds Hc); unfold in_opt_range; lia.
Ltac il_right ds Hc :=
  exists ds; split; [exact Hc|]; right; split; [reflexivity|];
  pose proof (canon_V_nonneg ds Hc); unfold in_opt_range, negzero; lia.

Lemma nn_int_lang : forall l r w, 0 <= l -> (nn_lang l r w <-> int_lang (Some l) r w).
Proof.
  intros l r w H0. unfold nn_lang, int_lang. split.
  - intros (ds & Hc & -> & Hlo & Hhi). exists ds. split; [assumption|]. left.
    split; [reflexivity|]. unfold in_opt_range. destruct r; cbn [ub] in Hhi; now split.
  - intros (ds & Hc & [[-> [Hlo Hhi]]|[-> [[Hlo Hhi] Hz]]]).
    + exists ds. destruct r; cbn [ub]; now splits.
    + exfalso. pose proof (canon_V_nonneg ds Hc). unfold negzero in Hz. destruct r; lia.
Qed.

Theorem int_range_lang : forall f l r rx, obig2 l -> obig2 r ->
  rx_int_range f l r = NOk rx -> forall w, re_lang rx w <-> int_lang l r w.
Proof.
  induction f as [|f IH]; intros l r rx Hl Hr Hrx w; [discriminate|].
  assert (Hnn : forall l' r' rx', 0 <= l' -> obig2 (Some l') -> obig2 r' ->
            rx_int_range f (Some l') r' = NOk rx' ->
            forall v, re_lang rx' v <-> nn_lang l' r' v).
  { intros l' r' rx' H0' Hl' Hr' Hrx'. apply (int_range_nn f); try assumption.
    - cbn [obig2] in Hl'. unfold big in Hl'. lia.
    - destruct r' as [r'|]; cbn [obig obig2] in *; [unfold big in Hr'; lia | exact I]. }
  destruct l as [l|]; [destruct (Z.lt_ge_cases l 0) as [Hneg|Hpos]|].
  - (* negative lower bound *)
    destruct r as [r|].
    + rewrite rir_neg_some in Hrx by assumption.
      destruct (Z.ltb_spec r l) as [Hrl|Hlr]; [discriminate|].
      cbn [obig2] in Hl, Hr.
      destruct (Z.ltb_spec r 0) as [Hrneg|Hrpos].
      * destruct (rx_int_range f (Some (- r)) (Some (- l))) as [a|] eqn:Ea;
          cbv beta iota delta [nbind] in Hrx; [|discriminate].
        apply NOk_inj in Hrx; subst rx. rewrite cat_minus_lang.
        assert (Ha := Hnn (- r) (Some (- l)) a ltac:(lia)
                        ltac:(cbn [obig2]; unfold big in *; lia)
                        ltac:(cbn [obig2]; unfold big in *; lia) Ea).
        split.
        -- intros (v & -> & Hv). apply Ha in Hv. destruct Hv as (ds & Hc & -> & Hlo & Hhi).
           cbn [ub] in Hhi. il_right ds Hc.
        -- intros (ds & Hc & [[-> Hin]|[-> [Hin Hz]]]).
           ++ exfalso. pose proof (canon_V_nonneg ds Hc). unfold in_opt_range in Hin. lia.
           ++ exists (dstr ds). split; [reflexivity|]. apply Ha. exists ds.
              unfold in_opt_range in Hin. cbn [ub]. splits; try assumption; try reflexivity; lia.
      * destruct (rx_int_range f (Some 0) (Some (- l))) as [a|] eqn:Ea;
          cbv beta iota delta [nbind] in Hrx; [|discriminate].
        destruct (rx_int_range f (Some 0) (Some r)) as [b|] eqn:Eb;
          cbv beta iota delta [nbind] in Hrx; [|discriminate].
        apply NOk_inj in Hrx; subst rx. rewrite alt_lang, cat_minus_lang.
        assert (Ha := Hnn 0 (Some (- l)) a ltac:(lia)
                        ltac:(cbn [obig2]; unfold big in *; lia)
                        ltac:(cbn [obig2]; unfold big in *; lia) Ea).
        assert (Hb := Hnn 0 (Some r) b ltac:(lia)
                        ltac:(cbn [obig2]; unfold big in *; lia)
                        ltac:(cbn [obig2]; unfold big in *; lia) Eb).
        split.
        -- intros [(v & -> & Hv)|Hv].
           ++ apply Ha in Hv. destruct Hv as (ds & Hc & -> & Hlo & Hhi).
              cbn [ub] in Hhi. il_right ds Hc.
           ++ apply Hb in Hv. destruct Hv as (ds & Hc & -> & Hlo & Hhi).
              cbn [ub] in Hhi. il_left ds Hc.
        -- intros (ds & Hc & [[-> Hin]|[-> [Hin Hz]]]); unfold in_opt_range in Hin.
           ++ right. apply Hb. exists ds. pose proof (canon_V_nonneg ds Hc).
              cbn [ub]. splits; try assumption; try reflexivity; lia.
           ++ left. exists (dstr ds). split; [reflexivity|]. apply Ha. exists ds.
              pose proof (canon_V_nonneg ds Hc).
              cbn [ub]. splits; try assumption; try reflexivity; lia.
    + rewrite rir_neg_none in Hrx by assumption.
      destruct (rx_int_range f (Some l) (Some (-1))) as [a|] eqn:Ea;
        cbv beta iota delta [nbind] in Hrx; [|discriminate].
      destruct (rx_int_range f (Some 0) None) as [b|] eqn:Eb;
        cbv beta iota delta [nbind] in Hrx; [|discriminate].
      apply NOk_inj in Hrx; subst rx. rewrite mk_or2_lang.
      assert (Ha := IH (Some l) (Some (-1)) a Hl
                      ltac:(cbn [obig2]; apply big_small; lia) Ea).
      assert (Hb := Hnn 0 None b ltac:(lia)
                      ltac:(cbn [obig2]; apply big_small; lia) I Eb).
      split.
      * intros [Hv|Hv].
        -- apply Ha in Hv. destruct Hv as (ds & Hc & [[-> Hin]|[-> [Hin Hz]]]);
             unfold in_opt_range in Hin.
           ++ exfalso. pose proof (canon_V_nonneg ds Hc). lia.
           ++ il_right ds Hc.
        -- apply Hb in Hv. destruct Hv as (ds & Hc & -> & Hlo & _). il_left ds Hc.
      * intros (ds & Hc & [[-> Hin]|[-> [Hin Hz]]]); unfold in_opt_range in Hin.
        -- right. apply Hb. exists ds. pose proof (canon_V_nonneg ds Hc).
           cbn [ub]. splits; try assumption; try reflexivity; try lia.
        -- left. apply Ha. unfold negzero in Hz. il_right ds Hc.
  - (* non-negative lower bound *)
    rewrite <- nn_int_lang by assumption.
    apply (int_range_nn (S f) l r rx); try assumption.
    + cbn [obig2] in Hl. unfold big in Hl. lia.
    + destruct r as [r|]; cbn [obig obig2] in *; [unfold big in Hr; lia | exact I].
  - (* no lower bound *)
    destruct r as [r|].
    + rewrite rir_none_some in Hrx. cbn [obig2] in Hr.
      destruct (Z.leb_spec 0 r) as [Hrpos|Hrneg].
      * destruct (rx_int_range f (Some 0) (Some r)) as [a|] eqn:Ea;
          cbv beta iota delta [nbind] in Hrx; [|discriminate].
        destruct (rx_int_range f None (Some (-1))) as [b|] eqn:Eb;
          cbv beta iota delta [nbind] in Hrx; [|discriminate].
        apply NOk_inj in Hrx; subst rx. rewrite mk_or2_lang.
        assert (Ha := Hnn 0 (Some r) a ltac:(lia)
                        ltac:(cbn [obig2]; apply big_small; lia) Hr Ea).
        assert (Hb := IH None (Some (-1)) b I
                        ltac:(cbn [obig2]; apply big_small; lia) Eb).
        split.
        -- intros [Hv|Hv].
           ++ apply Ha in Hv. destruct Hv as (ds & Hc & -> & Hlo & Hhi).
              cbn [ub] in Hhi. il_left ds Hc.
           ++ apply Hb in Hv. destruct Hv as (ds & Hc & [[-> Hin]|[-> [Hin Hz]]]);
                unfold in_opt_range in Hin.
              ** exfalso. pose proof (canon_V_nonneg ds Hc). lia.
              ** unfold negzero in Hz. il_right ds Hc.
        -- intros (ds & Hc & [[-> Hin]|[-> [Hin Hz]]]); unfold in_opt_range in Hin.
           ++ left. apply Ha. exists ds. pose proof (canon_V_nonneg ds Hc).
              cbn [ub]. splits; try assumption; try reflexivity; lia.
           ++ right. apply Hb. unfold negzero in Hz. il_right ds Hc.
      * destruct (rx_int_range f (Some (- r)) None) as [a|] eqn:Ea;
          cbv beta iota delta [nbind] in Hrx; [|discriminate].
        apply NOk_inj in Hrx; subst rx. rewrite cat_minus_lang.
        assert (Ha := Hnn (- r) None a ltac:(lia)
                        ltac:(cbn [obig2]; unfold big in *; lia) I Ea).
        split.
        -- intros (v & -> & Hv). apply Ha in Hv. destruct Hv as (ds & Hc & -> & Hlo & _).
           il_right ds Hc.
        -- intros (ds & Hc & [[-> Hin]|[-> [Hin Hz]]]); unfold in_opt_range in Hin.
           ++ exfalso. pose proof (canon_V_nonneg ds Hc). lia.
           ++ exists (dstr ds). split; [reflexivity|]. apply Ha. exists ds.
              cbn [ub]. splits; try assumption; try reflexivity; try lia.
    + rewrite rir_none_none in Hrx. apply NOk_inj in Hrx; subst rx.
      rewrite any_int_lang. unfold int_lang, in_opt_range, negzero. split.
      * intros (ds & Hc & [->| ->]); exists ds; (split; [assumption|]); [left | right]; tauto.
      * intros (ds & Hc & [[-> _]|[-> _]]); exists ds; (split; [assumption|]); [left | right]; reflexivity.
Qed.

(* ---------- literals ---------- *)
Lemma int_literal_nonneg : forall z, 0 <= z -> int_literal z = dstr (digits_of z).
Proof.
  intros z Hz. unfold int_literal. destruct (Z.ltb_spec z 0) as [H|_]; [lia | reflexivity].
Qed.

Lemma int_literal_neg : forall z, z < 0 -> int_literal z = 45%N :: dstr (digits_of z).
Proof.
  intros z Hz. unfold int_literal. destruct (Z.ltb_spec z 0) as [_|H]; [reflexivity | lia].
Qed.

Lemma dstr_not_minus : forall ds v, canon ds -> dstr ds <> 45%N :: v.
Proof.
  intros ds v [Hd Hc] H.
  destruct Hc as [->|(d & ds' & -> & H1)]; cbn [dstr map] in H; injection H as H _.
  - discriminate.
  - apply is_digits_cons in Hd. apply (dchar_not_minus d); [lia | exact H].
Qed.

Lemma int_lang_literal : forall l r z, big z ->
  (int_lang l r (int_literal z) <-> in_opt_range l r z).
Proof.
  intros l r z Hz. destruct (digits_of_spec z Hz) as [Hc HV].
  destruct (Z.lt_ge_cases z 0) as [Hneg|Hpos].
  - rewrite int_literal_neg by assumption. split.
    + intros (ds & Hcd & [[Heq _]|[Heq [Hin _]]]).
      * exfalso. symmetry in Heq. now apply dstr_not_minus in Heq.
      * injection Heq as Heq. apply dstr_inj in Heq; try (now apply canon_digits).
        subst ds. replace z with (- V (digits_of z)) by lia. exact Hin.
    + intros Hin. exists (digits_of z). split; [assumption|]. right.
      split; [reflexivity|]. split; [|lia]. replace (- V (digits_of z)) with z by lia. exact Hin.
  - rewrite int_literal_nonneg by assumption. split.
    + intros (ds & Hcd & [[Heq Hin]|[Heq _]]).
      * apply dstr_inj in Heq; try (now apply canon_digits).
        subst ds. replace z with (V (digits_of z)) by lia. exact Hin.
      * exfalso. now apply dstr_not_minus in Heq.
    + intros Hin. exists (digits_of z). split; [assumption|]. left.
      split; [reflexivity|]. replace (V (digits_of z)) with z by lia. exact Hin.
Qed.

Lemma opt_ok_big : forall o, opt_ok o -> obig2 o.
Proof. intros [z|] H; cbn [opt_ok obig2] in *; [now apply i64_big | exact I]. Qed.

(* everything accepted is a canonical integer literal or "-0" (no length restriction) *)
Theorem int_range_only_canonical : forall f l r rx w,
  opt_ok l -> opt_ok r -> rx_int_range f l r = NOk rx -> re_lang rx w ->
  exists ds, canon ds /\ (w = dstr ds \/ w = 45%N :: dstr ds).
Proof.
  intros f l r rx w Hl Hr Hrx Hw.
  apply (int_range_lang f l r rx (opt_ok_big _ Hl) (opt_ok_big _ Hr) Hrx) in Hw.
  destruct Hw as (ds & Hc & [[-> _]|[-> _]]); exists ds; (split; [assumption|]); [now left | now right].
Qed.

Lemma canon_literal : forall ds, canon ds -> (length ds <= 80)%nat -> dstr ds = int_literal (V ds).
Proof.
  intros ds Hc Hlen. pose proof (canon_V_nonneg ds Hc) as H0.
  rewrite int_literal_nonneg by assumption. f_equal. symmetry. apply digits_of_unique; [assumption|].
  apply canon_len_iff; [assumption | lia | assumption].
Qed.

Lemma canon_neg_literal : forall ds, canon ds -> (length ds <= 80)%nat -> V ds <> 0 ->
  45%N :: dstr ds = int_literal (- V ds).
Proof.
  intros ds Hc Hlen Hnz. pose proof (canon_V_nonneg ds Hc) as H0.
  rewrite int_literal_neg by lia. f_equal. f_equal. rewrite digits_of_neg. symmetry.
  apply digits_of_unique; [assumption|].
  apply canon_len_iff; [assumption | lia | assumption].
Qed.

(* ================================================================== *)
(* Part 5: a non-empty range compiles within the fuel                  *)
(* ================================================================== *)

Lemma num_digits_eq : forall z n, 0 <= z -> big z -> P10 n <= z < P10 (S n) ->
  num_digits z = S n.
Proof.
  intros z n H0 Hb Hz.
  pose proof (num_digits_pos z Hb) as Hpos.
  pose proof (proj2 (num_digits_iff z (S n) H0 Hb ltac:(lia)) ltac:(lia)) as Hle.
  destruct n as [|n]; [lia|].
  pose proof (num_digits_iff z (S n) H0 Hb ltac:(lia)) as Hiff. lia.
Qed.

Lemma num_digits_canon : forall ds, canon ds -> V ds < P10 80 -> num_digits (V ds) = length ds.
Proof. intros ds Hc Hb. unfold num_digits. now rewrite digits_of_unique. Qed.

Lemma num_digits_between : forall a b z, canon a -> canon b -> length a = length b ->
  V a <= z <= V b -> V b < P10 80 -> num_digits z = length a.
Proof.
  intros a b z Ha Hb Hlen Hz Hbig. pose proof (canon_V_nonneg a Ha) as H0.
  assert (Hbz : big z) by (unfold big; lia).
  destruct (digits_of_spec z Hbz) as [Hc HV]. unfold num_digits.
  apply (canon_between_len a b (digits_of z) Ha Hb Hc Hlen). lia.
Qed.

Lemma SL_succeeds : forall f lp lx rp rx,
  (forall l r, 0 <= l <= r -> r < P10 80 -> num_digits l = num_digits r ->
     (num_digits r <= f)%nat -> exists rx, rx_int_range f (Some l) (Some r) = NOk rx) ->
  canon (lp ++ [lx]) -> canon (rp ++ [rx]) -> length lp = length rp ->
  V (lp ++ [lx]) < V (rp ++ [rx]) -> V (rp ++ [rx]) < P10 80 ->
  (length lp <= f)%nat ->
  exists rxx, SL f lp lx rp rx = NOk rxx.
Proof.
  intros f lp lx rp rx IH Hcl Hcr Hlen Hlt Hbig Hf.
  destruct (canon_snoc_digit _ _ Hcl) as [Hdl Hlx].
  destruct (canon_snoc_digit _ _ Hcr) as [Hdr Hrx].
  unfold SL. destruct (list_eqb Z.eqb lp rp) eqn:Eeq; [eexists; reflexivity|].
  rewrite !V_snoc in *.
  assert (Hne : V lp <> V rp).
  { intros E. apply V_same_len_inj in E; try assumption. apply list_eqb_Z_eq in E. congruence. }
  destruct (Z.leb_spec (V rp) (V lp)) as [Hle|Hgt]; [lia|].
  cbv zeta.
  assert (Hnel : lp <> []).
  { intros ->. destruct rp; [|discriminate]. lia. }
  assert (Hner : rp <> []).
  { intros ->. destruct lp; [congruence | discriminate]. }
  destruct (canon_snoc_inv lp lx Hcl Hnel) as (Hclp & HVlp & _).
  destruct (canon_snoc_inv rp rx Hcr Hner) as (Hcrp & HVrp & _).
  set (L1 := if lx =? 0 then V lp else V lp + 1).
  set (R1 := if rx =? 9 then V rp else V rp - 1).
  assert (HL : V lp <= L1 <= V lp + 1) by (subst L1; destruct (lx =? 0); lia).
  assert (HR : V rp - 1 <= R1 <= V rp) by (subst R1; destruct (rx =? 9); lia).
  destruct (Z.leb_spec L1 R1) as [HLR|HLR]; [|eexists; reflexivity].
  destruct (IH L1 R1) as (inner & ->); try lia.
  - rewrite (num_digits_between lp rp L1 Hclp Hcrp Hlen) by lia.
    rewrite (num_digits_between lp rp R1 Hclp Hcrp Hlen) by lia. reflexivity.
  - rewrite (num_digits_between lp rp R1 Hclp Hcrp Hlen) by lia. exact Hf.
  - cbv beta iota delta [nbind]. eexists; reflexivity.
Qed.

Lemma same_len_succeeds : forall f l r, 0 <= l <= r -> r < P10 80 ->
  num_digits l = num_digits r -> (num_digits r <= f)%nat ->
  exists rx, rx_int_range f (Some l) (Some r) = NOk rx.
Proof.
  induction f as [|f IH]; intros l r Hlr Hr End Hf.
  - assert (Hbr : big r) by (unfold big; lia). pose proof (num_digits_pos r Hbr). lia.
  - assert (Hbl : big l) by (unfold big; lia). assert (Hbr : big r) by (unfold big; lia).
    rewrite rir_nn_some by lia.
    destruct (Z.ltb_spec r l) as [Hrl|_]; [lia|].
    rewrite End, Nat.eqb_refl.
    destruct (Z.eqb_spec l r) as [Elr|Nlr]; [eexists; reflexivity|].
    pose proof (digits_of_snoc l Hbl) as El. pose proof (digits_of_snoc r Hbr) as Er.
    set (lp := but_last (digits_of l)) in *. set (lx := last_digit (digits_of l)) in *.
    set (rp := but_last (digits_of r)) in *. set (rx0 := last_digit (digits_of r)) in *.
    pose proof (digits_of_canon l Hbl) as Hcl. pose proof (digits_of_canon r Hbr) as Hcr.
    pose proof (digits_of_V l ltac:(lia) Hbl) as HVl. pose proof (digits_of_V r ltac:(lia) Hbr) as HVr.
    rewrite El in Hcl, HVl. rewrite Er in Hcr, HVr.
    assert (Hlen : length lp = length rp /\ S (length rp) = num_digits r).
    { unfold num_digits in *. rewrite El, Er in End. rewrite Er. rewrite !app_length in *.
      cbn [length] in *. lia. }
    unfold digit in *.
    apply (SL_succeeds f lp lx rp rx0 IH Hcl Hcr); lia.
Qed.

Lemma nn_succeeds : forall f l r, 0 <= l <= r -> r < P10 80 ->
  (2 * num_digits r + 1 <= f + num_digits l)%nat ->
  exists rx, rx_int_range f (Some l) (Some r) = NOk rx.
Proof.
  induction f as [|f IH]; intros l r Hlr Hr Hf.
  - assert (Hbr : big r) by (unfold big; lia).
    pose proof (num_digits_mono l r Hlr Hbr). pose proof (num_digits_pos r Hbr). lia.
  - assert (Hbl : big l) by (unfold big; lia). assert (Hbr : big r) by (unfold big; lia).
    pose proof (num_digits_mono l r Hlr Hbr) as Hmono.
    pose proof (num_digits_pos l Hbl) as Hpos.
    destruct (Nat.eq_dec (num_digits l) (num_digits r)) as [End|Hnd].
    + apply same_len_succeeds; try assumption. lia.
    + rewrite rir_nn_some by lia.
      destruct (Z.ltb_spec r l) as [Hrl|_]; [lia|].
      destruct (Nat.eqb_spec (num_digits l) (num_digits r)) as [E|_]; [congruence|].
      pose proof (num_digits_upper l ltac:(lia) Hbl) as Hup.
      assert (Hbp : P10 (num_digits l) <= r).
      { pose proof (num_digits_iff r (num_digits l) ltac:(lia) Hbr Hpos). lia. }
      set (k := num_digits l) in *.
      assert (Hk1 : num_digits (P10 k - 1) = k).
      { destruct k as [|k']; [lia|]. apply num_digits_eq.
        - pose proof (P10_pos (S k')). lia.
        - unfold big. pose proof (P10_pos (S k')). lia.
        - rewrite P10_S. pose proof (P10_pos k'). lia. }
      assert (Hk2 : num_digits (P10 k - 1 + 1) = S k).
      { apply num_digits_eq.
        - pose proof (P10_pos k). lia.
        - unfold big. pose proof (P10_pos k). lia.
        - rewrite P10_S. pose proof (P10_pos k). lia. }
      destruct (same_len_succeeds f l (P10 k - 1)) as (a & ->); try lia.
      destruct (IH (P10 k - 1 + 1) r) as (b & ->); try lia.
      cbv beta iota delta [nbind]. eexists; reflexivity.
Qed.

Lemma i64_digits : forall z, 0 <= z -> i64_ok z -> (num_digits z <= 19)%nat.
Proof.
  intros z H0 Hz. apply num_digits_iff; [assumption | now apply i64_big | lia |].
  unfold i64_ok in Hz. assert (H : 2 ^ 63 < P10 19) by (vm_compute; reflexivity). lia.
Qed.

Lemma nn_succeeds_i64 : forall f l r, 0 <= l <= r -> i64_ok r -> (39 <= f)%nat ->
  exists rx, rx_int_range f (Some l) (Some r) = NOk rx.
Proof.
  intros f l r Hlr Hr Hf. pose proof (i64_big r Hr) as Hbr.
  assert (Hbl : big l) by (unfold big in *; lia).
  apply nn_succeeds; [assumption | unfold big in Hbr; lia |].
  pose proof (i64_digits r ltac:(lia) Hr). pose proof (num_digits_pos l Hbl). lia.
Qed.

Lemma i64_neg : forall z, i64_ok z -> i64_ok (- z).
Proof. intros z Hz. unfold i64_ok in *. lia. Qed.

Lemma int_range_succeeds : forall l r, i64_ok l -> i64_ok r -> l <= r ->
  exists rx, rx_int_range int_fuel (Some l) (Some r) = NOk rx.
Proof.
  intros l r Hl Hr Hlr. destruct (Z.lt_ge_cases l 0) as [Hneg|Hpos].
  - change int_fuel with (S 199). rewrite rir_neg_some by assumption.
    destruct (Z.ltb_spec r l) as [Hrl|_]; [lia|].
    destruct (Z.ltb_spec r 0) as [Hrneg|Hrpos].
    + destruct (nn_succeeds_i64 199 (- r) (- l)) as (a & ->);
        [lia | now apply i64_neg | lia |].
      cbv beta iota delta [nbind]. eexists; reflexivity.
    + destruct (nn_succeeds_i64 199 0 (- l)) as (a & ->);
        [lia | now apply i64_neg | lia |].
      destruct (nn_succeeds_i64 199 0 r) as (b & ->); [lia | assumption | lia |].
      cbv beta iota delta [nbind]. eexists; reflexivity.
  - apply nn_succeeds_i64; [lia | assumption | unfold int_fuel; lia].
Qed.

(* ================================================================== *)
(* Part 6: lexicographic fraction ranges                               *)
(* ================================================================== *)

Lemma pad_right_eq : forall n (ds : list Z), pad_right ds n = ds ++ repeat 0 n.
Proof.
  induction n as [|n IH]; intros ds; cbn [pad_right repeat].
  - now rewrite app_nil_r.
  - rewrite IH, <- app_assoc. reflexivity.
Qed.

Lemma V_repeat0 : forall n, V (repeat 0 n) = 0.
Proof.
  induction n as [|n IH]; cbn [repeat]; [reflexivity|]. rewrite V_cons, IH. lia.
Qed.

Lemma V_pad : forall (ds : list Z) n, V (pad_right ds n) = V ds * P10 n.
Proof. intros ds n. rewrite pad_right_eq, V_app, V_repeat0, repeat_length. lia. Qed.

Lemma pad_cons : forall x (a : list Z) n, pad_right (x :: a) n = x :: pad_right a n.
Proof. intros x a n. now rewrite !pad_right_eq. Qed.

Lemma length_pad : forall (a : list Z) n, length (pad_right a n) = (length a + n)%nat.
Proof. intros a n. now rewrite pad_right_eq, app_length, repeat_length. Qed.

Lemma is_digits_pad : forall (a : list Z) n, is_digits a -> is_digits (pad_right a n).
Proof.
  intros a n Ha. rewrite pad_right_eq. apply is_digits_app. split; [assumption|].
  unfold is_digits. apply Forall_forall. intros d Hd. apply repeat_spec in Hd. lia.
Qed.

Lemma frac_le_V : forall a b : list Z, frac_le a b <->
  V (pad_right a (length b - length a)) <= V (pad_right b (length a - length b)).
Proof. reflexivity. Qed.

Lemma frac_lt_V : forall a b : list Z, frac_lt a b <->
  V (pad_right a (length b - length a)) < V (pad_right b (length a - length b)).
Proof. reflexivity. Qed.

Lemma frac_le_cons : forall x a y b, is_digits a -> is_digits b ->
  (frac_le (x :: a) (y :: b) <-> x < y \/ (x = y /\ frac_le a b)).
Proof.
  intros x a y b Ha Hb. rewrite !frac_le_V. cbn [length]. rewrite !Nat.sub_succ, !pad_cons.
  apply V_cons_le; try (now apply is_digits_pad). rewrite !length_pad. lia.
Qed.

Lemma frac_lt_cons : forall x a y b, is_digits a -> is_digits b ->
  (frac_lt (x :: a) (y :: b) <-> x < y \/ (x = y /\ frac_lt a b)).
Proof.
  intros x a y b Ha Hb. rewrite !frac_lt_V. cbn [length]. rewrite !Nat.sub_succ, !pad_cons.
  apply V_cons_lt; try (now apply is_digits_pad). rewrite !length_pad. lia.
Qed.

Lemma frac_le_nil_l : forall s, is_digits s -> frac_le [] s.
Proof.
  intros s Hs. rewrite frac_le_V, !V_pad, V_nil. pose proof (V_bound s Hs).
  match goal with |- _ <= _ * P10 ?n => pose proof (P10_pos n) end. nia.
Qed.

Lemma frac_lt_nil_l : forall s, frac_lt [] s <-> 0 < V s.
Proof.
  intros s. rewrite frac_lt_V, !V_pad, V_nil. cbn [length Nat.sub]. rewrite P10_0. lia.
Qed.

Lemma frac_le_nil_r : forall s, frac_le s [] <-> V s <= 0.
Proof.
  intros s. rewrite frac_le_V, !V_pad, V_nil. cbn [length Nat.sub]. rewrite P10_0. lia.
Qed.

Lemma frac_le_nil_r1 : forall s, frac_le s [] -> V s <= 0.
Proof. intros s. apply frac_le_nil_r. Qed.

Lemma frac_le_nil_r2 : forall s, V s <= 0 -> frac_le s [].
Proof. intros s. apply frac_le_nil_r. Qed.

Lemma frac_lt_nil_l2 : forall s, 0 < V s -> frac_lt [] s.
Proof. intros s. apply frac_lt_nil_l. Qed.

Lemma frac_lt_nil_r : forall s, is_digits s -> ~ frac_lt s [].
Proof.
  intros s Hs. rewrite frac_lt_V, !V_pad, V_nil. cbn [length Nat.sub]. rewrite P10_0.
  pose proof (V_bound s Hs). lia.
Qed.

(* all-zero digit strings *)
Lemma V_zero_iff : forall s, is_digits s -> (V s <= 0 <-> Forall (fun d => d = 0) s).
Proof.
  induction s as [|d s IH]; intros Hs.
  - rewrite V_nil. split; [constructor | lia].
  - apply is_digits_cons in Hs. destruct Hs as [Hd Hs]. specialize (IH Hs).
    rewrite V_cons. pose proof (V_bound s Hs). pose proof (P10_pos (length s)). split.
    + intros HV0. assert (d = 0) by nia. subst d. constructor; [reflexivity|]. apply IH. lia.
    + intros HF. inversion HF as [|? ? Hd0 Hs0]; subst. apply IH in Hs0. lia.
Qed.

Lemma V_pos_split : forall s, is_digits s -> 0 < V s ->
  exists s1 d s2, s = s1 ++ d :: s2 /\ 1 <= d.
Proof.
  induction s as [|y s IH]; intros Hs HV.
  - rewrite V_nil in HV. lia.
  - apply is_digits_cons in Hs. destruct Hs as [Hy Hs].
    destruct (Z.eq_dec y 0) as [->|Hny].
    + rewrite V_cons in HV. destruct (IH Hs ltac:(lia)) as (s1 & d & s2 & -> & Hd).
      exists (0 :: s1), d, s2. now split.
    + exists [], y, s. split; [reflexivity | lia].
Qed.

(* ---------- trim_zeros ---------- *)
Definition tz_go := fix go (l : list digit) : list digit :=
  match l with
  | d :: l' => if d =? 0 then go l' else l
  | [] => []
  end.

Lemma trim_zeros_eq : forall ds, trim_zeros ds = rev (tz_go (rev ds)).
Proof. reflexivity. Qed.

Lemma tz_go_length : forall l, (length (tz_go l) <= length l)%nat.
Proof.
  induction l as [|d l IH]; cbn [tz_go length]; [lia|].
  destruct (d =? 0); cbn [length]; lia.
Qed.

Lemma trim_zeros_length : forall ds, (length (trim_zeros ds) <= length ds)%nat.
Proof.
  intros ds. rewrite trim_zeros_eq, rev_length. pose proof (tz_go_length (rev ds)) as H.
  rewrite rev_length in H. exact H.
Qed.

Lemma trim_fix_last : forall x : list Z, trim_zeros x = x -> last x 1 <> 0.
Proof.
  intros x Hx. destruct x as [|x0 x']; [cbn [last]; lia|].
  destruct (snoc_cases (x0 :: x') ltac:(discriminate)) as (p & d & E). rewrite E in *.
  rewrite last_last. intros ->.
  rewrite trim_zeros_eq, rev_unit in Hx. cbn [tz_go] in Hx.
  change (0 =? 0) with true in Hx. cbv iota in Hx.
  rewrite <- trim_zeros_eq in Hx.
  pose proof (trim_zeros_length p) as Hlen. rewrite Hx, app_length in Hlen. cbn [length] in Hlen. unfold digit in *. lia.
Qed.

Lemma last_cons_ne : forall (x0 : Z) rest d, rest <> [] -> last (x0 :: rest) d = last rest d.
Proof. intros x0 rest d H. destruct rest; [congruence | reflexivity]. Qed.

Lemma last_nz_pos : forall x, is_digits x -> x <> [] -> last x 1 <> 0 -> 0 < V x.
Proof.
  intros x Hx Hne Hl. destruct (snoc_cases x Hne) as (p & d & ->).
  rewrite last_last in Hl. apply is_digits_app in Hx. destruct Hx as [Hp Hd].
  apply is_digits_cons in Hd. destruct Hd as [Hd _]. rewrite V_snoc.
  pose proof (V_bound p Hp). lia.
Qed.

(* ---------- first-character decompositions ---------- *)
Lemma dstr_cons_inv : forall s c v, dstr s = c :: v ->
  exists d s', s = d :: s' /\ c = dchar d /\ v = dstr s'.
Proof.
  intros [|d s'] c v H; cbn [dstr map] in H; [discriminate|].
  injection H as <- <-. now exists d, s'.
Qed.

Lemma dstr_nil_inv : forall s, dstr s = [] -> s = [].
Proof. intros [|d s] H; [reflexivity | discriminate]. Qed.

Lemma cat_ch_lang : forall d0 R s, 0 <= d0 <= 9 -> is_digits s ->
  (re_lang (Cat (ch (dchar d0)) R) (dstr s) <-> exists s', s = d0 :: s' /\ re_lang R (dstr s')).
Proof.
  intros d0 R s Hd0 Hs. rewrite cat_lang. split.
  - intros (u & v & Heq & Hu & Hv). apply chd_lang in Hu; [|assumption]. subst u.
    cbn [app] in Heq. apply dstr_cons_inv in Heq. destruct Heq as (d & s' & -> & Hc & ->).
    apply is_digits_cons in Hs. destruct Hs as [Hd _].
    apply dchar_inj in Hc; [|lia|lia]. subst d. now exists s'.
  - intros (s' & -> & HR). exists [dchar d0], (dstr s'). split; [reflexivity|].
    split; [now apply chd_lang | exact HR].
Qed.

Lemma cat_drange_star_lang : forall lo hi s, 0 <= lo -> hi <= 9 -> is_digits s ->
  (re_lang (Cat (drange lo hi) (Star dany)) (dstr s) <-> exists d s', s = d :: s' /\ lo <= d <= hi).
Proof.
  intros lo hi s Hlo Hhi Hs. rewrite cat_lang. split.
  - intros (u & v & Heq & Hu & Hv). apply drange_lang in Hu; [|assumption|assumption].
    destruct Hu as (d & Hd & ->). cbn [app] in Heq. apply dstr_cons_inv in Heq.
    destruct Heq as (d' & s' & -> & Hc & ->).
    apply is_digits_cons in Hs. destruct Hs as [Hd' _].
    apply dchar_inj in Hc; [|lia|lia]. subst d'. now exists d, s'.
  - intros (d & s' & -> & Hd). apply is_digits_cons in Hs. destruct Hs as [_ Hs'].
    exists [dchar d], (dstr s'). split; [reflexivity|]. split.
    + apply drange_lang; [assumption | assumption | now exists d].
    + now apply star_dany_dstr.
Qed.

Lemma has_nz_lang : forall s, is_digits s ->
  (re_lang (Cat (Star dany) (Cat (drange 1 9) (Star dany))) (dstr s) <-> 0 < V s).
Proof.
  intros s Hs. rewrite cat_lang. split.
  - intros (u & v & Heq & Hu & Hv). apply dstr_app_inv in Heq.
    destruct Heq as (s1 & s2 & -> & -> & ->).
    apply is_digits_app in Hs. destruct Hs as [Hs1 Hs2].
    apply cat_drange_star_lang in Hv; [|lia|lia|assumption].
    destruct Hv as (d & s' & -> & Hd). apply is_digits_cons in Hs2. destruct Hs2 as [_ Hs'].
    rewrite V_app, V_cons. pose proof (V_bound s1 Hs1). pose proof (V_bound s' Hs').
    pose proof (P10_pos (length s')). pose proof (P10_pos (length (d :: s'))). nia.
  - intros HV. destruct (V_pos_split s Hs HV) as (s1 & d & s2 & -> & Hd).
    apply is_digits_app in Hs. destruct Hs as [Hs1 Hs2].
    exists (dstr s1), (dstr (d :: s2)). split; [now rewrite dstr_app|]. split.
    + now apply star_dany_dstr.
    + apply cat_drange_star_lang; [lia | lia | assumption |].
      apply is_digits_cons in Hs2. exists d, s2. split; [reflexivity | lia].
Qed.

Lemma star_zero_dstr : forall s, is_digits s ->
  (re_lang (Star zero_ch) (dstr s) <-> V s <= 0).
Proof.
  intros s Hs. rewrite star_zero_lang, (V_zero_iff s Hs). split.
  - intros (t & Ht & Heq). apply dstr_inj in Heq; [now subst | assumption | now apply zeros_digits].
  - intros H. now exists s.
Qed.

(* ---------- lexi_x_to_9 ---------- *)
Lemma lexi_x_to_9_cons : forall x0 rest incl,
  lexi_x_to_9 (x0 :: rest) incl =
  if (match rest with [] => incl | _ => false end)
  then Cat (drange x0 9) (Star dany)
  else let first := Cat (ch (dchar x0)) (lexi_x_to_9 rest incl) in
       if x0 <? 9 then Alt first (Cat (drange (x0 + 1) 9) (Star dany)) else first.
Proof. intros x0 [|r rest] [|]; reflexivity. Qed.

Definition frac_rel (incl : bool) (a b : list Z) : Prop :=
  if incl then frac_le a b else frac_lt a b.

Lemma frac_rel_cons : forall incl x a y b, is_digits a -> is_digits b ->
  (frac_rel incl (x :: a) (y :: b) <-> x < y \/ (x = y /\ frac_rel incl a b)).
Proof.
  intros [|] x a y b Ha Hb; cbn [frac_rel]; [now apply frac_le_cons | now apply frac_lt_cons].
Qed.

Lemma lexi_x_to_9_aux : forall x incl s,
  is_digits x -> is_digits s -> last x 1 <> 0 ->
  (re_lang (lexi_x_to_9 x incl) (dstr s) <->
   frac_rel incl x s /\ (incl = false -> s <> [])).
Proof.
  induction x as [|x0 rest IH]; intros incl s Hx Hs Hlast.
  - destruct incl; cbn [lexi_x_to_9 frac_rel].
    + split.
      * intros _. split; [now apply frac_le_nil_l | discriminate].
      * intros _. now apply star_dany_dstr.
    + rewrite (has_nz_lang s Hs), frac_lt_nil_l. split.
      * intros HV. split; [assumption|]. intros _ ->. rewrite V_nil in HV. lia.
      * tauto.
  - apply is_digits_cons in Hx. destruct Hx as [Hx0 Hrest].
    assert (HVx : 0 < V (x0 :: rest)).
    { apply last_nz_pos; [apply is_digits_cons; now split | discriminate | assumption]. }
    rewrite lexi_x_to_9_cons.
    destruct rest as [|r1 rest'].
    + (* single digit *)
      rewrite V_one in HVx.
      destruct incl; cbv zeta.
      * rewrite cat_drange_star_lang by (lia || assumption). cbn [frac_rel]. split.
        -- intros (d & s' & -> & Hd). split; [|discriminate].
           apply is_digits_cons in Hs. destruct Hs as [_ Hs'].
           apply frac_le_cons; [apply is_digits_nil | assumption |].
           destruct (Z.eq_dec x0 d) as [->|Hne]; [right | left; lia].
           split; [reflexivity | now apply frac_le_nil_l].
        -- intros [Hle _]. destruct s as [|d s'].
           ++ apply frac_le_nil_r1 in Hle. rewrite V_one in Hle. lia.
           ++ apply is_digits_cons in Hs. destruct Hs as [Hd Hs'].
              apply frac_le_cons in Hle; [|apply is_digits_nil | assumption].
              exists d, s'. split; [reflexivity | lia].
      * specialize (IH false). cbn [frac_rel] in *.
        assert (Hfirst : forall s', is_digits s' ->
                  (re_lang (lexi_x_to_9 [] false) (dstr s') <-> frac_lt [] s' /\ s' <> [])).
        { intros s' Hs'. rewrite (IH s' is_digits_nil Hs' ltac:(cbn [last]; lia)).
          split; [intros [H1 H2]; split; [assumption | now apply H2] | intros [H1 H2]; now split]. }
        destruct (Z.ltb_spec x0 9) as [Hlt|Hge].
        -- rewrite alt_lang, cat_ch_lang by assumption.
           rewrite cat_drange_star_lang by (lia || assumption). split.
           ++ intros [(s' & -> & Hr)|(d & s' & -> & Hd)]; (split; [|discriminate]);
                apply is_digits_cons in Hs; destruct Hs as [Hd0 Hs'];
                (apply frac_lt_cons; [apply is_digits_nil | assumption |]).
              ** right. split; [reflexivity|]. now apply Hfirst in Hr.
              ** left. lia.
           ++ intros [Hlt' _]. destruct s as [|d s'].
              ** exfalso. apply (frac_lt_nil_r [x0]); [now apply is_digits_one | exact Hlt'].
              ** apply is_digits_cons in Hs. destruct Hs as [Hd Hs'].
                 apply frac_lt_cons in Hlt'; [|apply is_digits_nil | assumption].
                 destruct Hlt' as [Hxd|[-> Hr]].
                 --- right. exists d, s'. split; [reflexivity | lia].
                 --- left. exists s'. split; [reflexivity|]. apply Hfirst; [assumption|].
                     split; [assumption|]. intros ->. apply (frac_lt_nil_r [] is_digits_nil). exact Hr.
        -- rewrite cat_ch_lang by assumption. split.
           ++ intros (s' & -> & Hr). split; [|discriminate].
              apply is_digits_cons in Hs. destruct Hs as [Hd0 Hs'].
              apply frac_lt_cons; [apply is_digits_nil | assumption |].
              right. split; [reflexivity|]. now apply Hfirst in Hr.
           ++ intros [Hlt' _]. destruct s as [|d s'].
              ** exfalso. apply (frac_lt_nil_r [x0]); [now apply is_digits_one | exact Hlt'].
              ** apply is_digits_cons in Hs. destruct Hs as [Hd Hs'].
                 apply frac_lt_cons in Hlt'; [|apply is_digits_nil | assumption].
                 destruct Hlt' as [Hxd|[-> Hr]]; [lia|].
                 exists s'. split; [reflexivity|]. apply Hfirst; [assumption|].
                 split; [assumption|]. intros ->. apply (frac_lt_nil_r [] is_digits_nil). exact Hr.
    + (* longer bound *)
      assert (Hlast' : last (r1 :: rest') 1 <> 0).
      { rewrite last_cons_ne in Hlast by discriminate. exact Hlast. }
      assert (Hnil : ~ frac_rel incl (r1 :: rest') []).
      { pose proof (last_nz_pos (r1 :: rest') Hrest ltac:(discriminate) Hlast') as Hp.
        destruct incl; cbn [frac_rel].
        - rewrite frac_le_nil_r. lia.
        - now apply frac_lt_nil_r. }
      assert (HIH : forall s', is_digits s' ->
                (re_lang (lexi_x_to_9 (r1 :: rest') incl) (dstr s') <-> frac_rel incl (r1 :: rest') s')).
      { intros s' Hs'. rewrite (IH incl s' Hrest Hs' Hlast'). split; [tauto|].
        intros H. split; [assumption|]. intros _ ->. now apply Hnil. }
      cbv zeta.
      assert (Hempty : ~ frac_rel incl (x0 :: r1 :: rest') []).
      { destruct incl; cbn [frac_rel].
        - rewrite frac_le_nil_r. lia.
        - apply frac_lt_nil_r. apply is_digits_cons. now split. }
      destruct (Z.ltb_spec x0 9) as [Hlt|Hge].
      * rewrite alt_lang, cat_ch_lang by assumption.
        rewrite cat_drange_star_lang by (lia || assumption). split.
        -- intros [(s' & -> & Hr)|(d & s' & -> & Hd)]; (split; [|discriminate]);
             apply is_digits_cons in Hs; destruct Hs as [Hd0 Hs'];
             (apply frac_rel_cons; [assumption | assumption |]).
           ++ right. split; [reflexivity|]. now apply HIH in Hr.
           ++ left. lia.
        -- intros [Hrel _]. destruct s as [|d s']; [now apply Hempty in Hrel|].
           apply is_digits_cons in Hs. destruct Hs as [Hd Hs'].
           apply frac_rel_cons in Hrel; [|assumption|assumption].
           destruct Hrel as [Hxd|[-> Hr]].
           ++ right. exists d, s'. split; [reflexivity | lia].
           ++ left. exists s'. split; [reflexivity|]. now apply HIH.
      * rewrite cat_ch_lang by assumption. split.
        -- intros (s' & -> & Hr). split; [|discriminate].
           apply is_digits_cons in Hs. destruct Hs as [Hd0 Hs'].
           apply frac_rel_cons; [assumption | assumption |].
           right. split; [reflexivity|]. now apply HIH in Hr.
        -- intros [Hrel _]. destruct s as [|d s']; [now apply Hempty in Hrel|].
           apply is_digits_cons in Hs. destruct Hs as [Hd Hs'].
           apply frac_rel_cons in Hrel; [|assumption|assumption].
           destruct Hrel as [Hxd|[-> Hr]]; [lia|].
           exists s'. split; [reflexivity|]. now apply HIH.
Qed.

(* ---------- lexi_0_to_x ---------- *)
Lemma lexi_0_to_x_cons : forall x0 rest incl,
  lexi_0_to_x (x0 :: rest) incl =
  if (match rest with [] => negb incl | _ => false end)
  then (if x0 =? 0 then NErr else NOk (Cat (drange 0 (x0 - 1)) (Star dany)))
  else nbind (lexi_0_to_x rest incl) (fun r =>
         let first := match rest with
                      | [] => Cat (ch (dchar x0)) r
                      | _ => Cat (ch (dchar x0)) (opt r)
                      end in
         NOk (if 0 <? x0 then Alt first (Cat (drange 0 (x0 - 1)) (Star dany)) else first)).
Proof. intros x0 [|r rest] [|]; reflexivity. Qed.

Lemma lexi_0_to_x_aux : forall x incl rx s,
  is_digits x -> is_digits s -> last x 1 <> 0 ->
  lexi_0_to_x x incl = NOk rx ->
  (re_lang rx (dstr s) <-> frac_rel incl s x /\ (x <> [] -> s <> [])).
Proof.
  induction x as [|x0 rest IH]; intros incl rx s Hx Hs Hlast Hrx.
  - destruct incl; cbn [lexi_0_to_x] in Hrx; [|discriminate].
    apply NOk_inj in Hrx; subst rx. cbn [frac_rel].
    rewrite (star_zero_dstr s Hs), frac_le_nil_r. tauto.
  - apply is_digits_cons in Hx. destruct Hx as [Hx0 Hrest].
    rewrite lexi_0_to_x_cons in Hrx.
    assert (Hgoal : forall (P : Prop), (P <-> frac_rel incl s (x0 :: rest) /\ s <> []) ->
              (P <-> frac_rel incl s (x0 :: rest) /\ (x0 :: rest <> [] -> s <> []))).
    { intros P HP. rewrite HP. split; [tauto|]. intros [H1 H2]. split; [assumption|].
      apply H2. discriminate. }
    apply Hgoal. clear Hgoal.
    (* the set of strings with a smaller first digit *)
    assert (Hsmall : 0 < x0 ->
              (re_lang (Cat (drange 0 (x0 - 1)) (Star dany)) (dstr s) <->
               exists d s', s = d :: s' /\ d < x0)).
    { intros Hpos. rewrite cat_drange_star_lang by (lia || assumption). split.
      - intros (d & s' & -> & Hd). exists d, s'. split; [reflexivity | lia].
      - intros (d & s' & -> & Hd). apply is_digits_cons in Hs. exists d, s'.
        split; [reflexivity | lia]. }
    destruct rest as [|r1 rest'].
    + destruct incl; cbn [negb] in Hrx.
      * (* [x0], inclusive *)
        cbn [lexi_0_to_x nbind] in Hrx. cbv zeta in Hrx.
        apply NOk_inj in Hrx; subst rx. cbn [frac_rel].
        assert (Hfirst : re_lang (Cat (ch (dchar x0)) (Star zero_ch)) (dstr s) <->
                         exists s', s = x0 :: s' /\ V s' <= 0).
        { rewrite cat_ch_lang by assumption. split.
          - intros (s' & -> & Hr). apply is_digits_cons in Hs. destruct Hs as [_ Hs'].
            exists s'. split; [reflexivity|]. now apply star_zero_dstr in Hr.
          - intros (s' & -> & Hr). apply is_digits_cons in Hs. destruct Hs as [_ Hs'].
            exists s'. split; [reflexivity|]. now apply star_zero_dstr. }
        assert (Hspec : frac_le s [x0] /\ s <> [] <->
                        (exists s', s = x0 :: s' /\ V s' <= 0) \/ (exists d s', s = d :: s' /\ d < x0)).
        { split.
          - intros [Hle Hne]. destruct s as [|d s']; [congruence|].
            apply is_digits_cons in Hs. destruct Hs as [Hd Hs'].
            apply frac_le_cons in Hle; [|assumption | apply is_digits_nil].
            destruct Hle as [Hlt|[-> Hr]].
            + right. now exists d, s'.
            + left. exists s'. split; [reflexivity|]. now apply frac_le_nil_r1.
          - intros [(s' & -> & Hr)|(d & s' & -> & Hd)]; (split; [|discriminate]);
              apply is_digits_cons in Hs; destruct Hs as [Hd0 Hs'];
              (apply frac_le_cons; [assumption | apply is_digits_nil |]).
            + right. split; [reflexivity|]. now apply frac_le_nil_r2.
            + now left. }
        rewrite Hspec.
        destruct (Z.ltb_spec 0 x0) as [Hpos|Hnpos].
        -- rewrite alt_lang, Hfirst, (Hsmall Hpos). reflexivity.
        -- rewrite Hfirst. split; [intros H; now left|]. intros [H|(d & s' & -> & Hd)]; [assumption|].
           apply is_digits_cons in Hs. lia.
      * (* [x0], exclusive *)
        destruct (Z.eqb_spec x0 0) as [E|Hnz]; [discriminate|].
        apply NOk_inj in Hrx; subst rx. cbn [frac_rel].
        rewrite (Hsmall ltac:(lia)). split.
        -- intros (d & s' & -> & Hd). split; [|discriminate].
           apply is_digits_cons in Hs. destruct Hs as [Hd0 Hs'].
           apply frac_lt_cons; [assumption | apply is_digits_nil | now left].
        -- intros [Hlt Hne]. destruct s as [|d s']; [congruence|].
           apply is_digits_cons in Hs. destruct Hs as [Hd Hs'].
           apply frac_lt_cons in Hlt; [|assumption | apply is_digits_nil].
           destruct Hlt as [Hlt|[_ Hr]]; [now exists d, s'|].
           exfalso. now apply (frac_lt_nil_r s' Hs').
    + (* longer bound *)
      assert (Hlast' : last (r1 :: rest') 1 <> 0).
      { rewrite last_cons_ne in Hlast by discriminate. exact Hlast. }
      pose proof (last_nz_pos (r1 :: rest') Hrest ltac:(discriminate) Hlast') as Hp.
      destruct (lexi_0_to_x (r1 :: rest') incl) as [r|] eqn:Er;
        cbv beta iota delta [nbind] in Hrx; [|discriminate].
      cbv zeta in Hrx. apply NOk_inj in Hrx; subst rx.
      assert (Hnil : frac_rel incl [] (r1 :: rest')).
      { destruct incl; cbn [frac_rel]; [now apply frac_le_nil_l | now apply frac_lt_nil_l2]. }
      assert (Hfirst : re_lang (Cat (ch (dchar x0)) (opt r)) (dstr s) <->
                       exists s', s = x0 :: s' /\ frac_rel incl s' (r1 :: rest')).
      { rewrite cat_ch_lang by assumption. split.
        - intros (s' & -> & Hr). apply is_digits_cons in Hs. destruct Hs as [_ Hs'].
          exists s'. split; [reflexivity|]. apply opt_lang in Hr. destruct Hr as [Hr|Hr].
          + apply dstr_nil_inv in Hr. now subst s'.
          + now apply (IH incl r s' Hrest Hs' Hlast' Er) in Hr.
        - intros (s' & -> & Hr). apply is_digits_cons in Hs. destruct Hs as [_ Hs'].
          exists s'. split; [reflexivity|]. apply opt_lang. destruct s' as [|d s'']; [now left | right].
          apply (IH incl r (d :: s'') Hrest Hs' Hlast' Er). split; [assumption | discriminate]. }
      assert (Hspec : frac_rel incl s (x0 :: r1 :: rest') /\ s <> [] <->
                      (exists s', s = x0 :: s' /\ frac_rel incl s' (r1 :: rest')) \/
                      (exists d s', s = d :: s' /\ d < x0)).
      { split.
        - intros [Hrel Hne]. destruct s as [|d s']; [congruence|].
          apply is_digits_cons in Hs. destruct Hs as [Hd Hs'].
          apply frac_rel_cons in Hrel; [|assumption | assumption].
          destruct Hrel as [Hlt|[-> Hr]].
          + right. now exists d, s'.
          + left. now exists s'.
        - intros [(s' & -> & Hr)|(d & s' & -> & Hd)]; (split; [|discriminate]);
            apply is_digits_cons in Hs; destruct Hs as [Hd0 Hs'];
            (apply frac_rel_cons; [assumption | assumption |]).
          + right. now split.
          + now left. }
      rewrite Hspec.
      destruct (Z.ltb_spec 0 x0) as [Hpos|Hnpos].
      * rewrite alt_lang, Hfirst, (Hsmall Hpos). reflexivity.
      * rewrite Hfirst. split; [intros H; now left|]. intros [H|(d & s' & -> & Hd)]; [assumption|].
        apply is_digits_cons in Hs. lia.
Qed.

(* ================================================================== *)
(* Part 7: Decimal::lcm                                                *)
(* ================================================================== *)

Lemma strip10_spec : forall f coef exp c e, 0 <= exp ->
  strip10 f coef exp = (c, e) -> c * 10 ^ (exp - e) = coef /\ 0 <= e <= exp.
Proof.
  induction f as [|f IH]; intros coef exp c e Hexp H; cbn [strip10] in H.
  - injection H as <- <-. rewrite Z.sub_diag. change (10 ^ 0) with 1. lia.
  - destruct (Z.ltb_spec 0 exp) as [Hpos|Hnpos]; cbn [andb] in H.
    + destruct (Z.eqb_spec (coef mod 10) 0) as [Hmod|Hmod].
      * apply IH in H; [|lia]. destruct H as [Heq He]. split; [|lia].
        replace (exp - e) with (Z.succ (exp - 1 - e)) by lia.
        rewrite Z.pow_succ_r by lia.
        pose proof (Z.div_mod coef 10 ltac:(lia)) as Hdm. lia.
      * injection H as <- <-. rewrite Z.sub_diag. change (10 ^ 0) with 1. lia.
    + injection H as <- <-. rewrite Z.sub_diag. change (10 ^ 0) with 1. lia.
Qed.

Lemma lcm_pos_eq : forall a b, 0 < a -> 0 < b ->
  Z.lcm a b = a * b / Z.gcd a b /\ 0 < a * b / Z.gcd a b.
Proof.
  intros a b Ha Hb.
  assert (Hg : 0 < Z.gcd a b).
  { pose proof (Z.gcd_nonneg a b). destruct (Z.eq_dec (Z.gcd a b) 0) as [E|NE]; [|lia].
    apply Z.gcd_eq_0_l in E. lia. }
  pose proof (Z.gcd_divide_r a b) as Hdiv.
  assert (Hle : Z.gcd a b <= b) by (apply Z.divide_pos_le; assumption).
  assert (Hq : 1 <= b / Z.gcd a b).
  { apply Z.div_le_lower_bound; lia. }
  rewrite <- Z.lcm_equiv1 by lia. unfold Z.lcm. split.
  - apply Z.abs_eq. nia.
  - nia.
Qed.

Lemma u32w_small : forall x, 0 <= x < 2 ^ 32 -> u32w x = x.
Proof. intros x Hx. unfold u32w. now apply Z.mod_small. Qed.

(* ================================================================== *)
(* Why three statements carry a size hypothesis: the unrestricted      *)
(* originals are refutable in the model (digits_of has fuel 80)        *)
(* ================================================================== *)

Lemma bytes_ok_b : forall w, forallb (fun b => (b <? 256)%N) w = true -> bytes_ok w.
Proof.
  intros w H. unfold bytes_ok. apply Forall_forall. intros b Hb.
  rewrite forallb_forall in H. apply H in Hb. now apply N.ltb_lt in Hb.
Qed.

Lemma digits_of_val_unbounded_refuted :
  ~ (forall z, 0 <= z -> val_digits (digits_of z) 0 = z).
Proof.
  intros H. specialize (H (10 ^ 80) ltac:(vm_compute; discriminate)).
  vm_compute in H. discriminate H.
Qed.

Lemma int_range_exact_unbounded_refuted :
  exists rx z, rx_int_range int_fuel (Some 0) None = NOk rx /\
    ~ (re_lang rx (int_literal z) <-> in_opt_range (Some 0) None z).
Proof.
  eexists. exists (2 * 10 ^ 80). split; [vm_compute; reflexivity|].
  intros [_ H].
  assert (Hin : in_opt_range (Some 0) None (2 * 10 ^ 80)).
  { unfold in_opt_range. split; [vm_compute; discriminate | exact I]. }
  apply H in Hin. apply re_match_correct in Hin.
  - vm_compute in Hin. discriminate Hin.
  - apply bytes_ok_b. vm_compute. reflexivity.
Qed.

Lemma digits_fuel_length : forall f n acc,
  (length (digits_fuel f n acc) <= f + length acc)%nat.
Proof.
  induction f as [|f IH]; intros n acc; cbn [digits_fuel].
  - lia.
  - destruct (n <? 10).
    + cbn [length]. lia.
    + specialize (IH (n / 10) (n mod 10 :: acc)). cbn [length] in IH. lia.
Qed.

Lemma int_literal_length : forall z, (length (int_literal z) <= 81)%nat.
Proof.
  intros z. unfold int_literal. rewrite app_length, map_length. unfold digits_of.
  pose proof (digits_fuel_length 80 (Z.abs z) []) as H. cbn [length] in H.
  destruct (z <? 0); cbn [length]; unfold digit in *; lia.
Qed.

Lemma int_range_only_literals_unbounded_refuted :
  exists rx w, rx_int_range int_fuel (Some 0) None = NOk rx /\ re_lang rx w /\
    ~ ((exists z, w = int_literal z) \/ w = [45%N; 48%N]).
Proof.
  eexists. exists (49%N :: repeat 48%N 100). split; [vm_compute; reflexivity|]. split.
  - apply re_match_correct.
    + apply bytes_ok_b. vm_compute. reflexivity.
    + vm_compute. reflexivity.
  - intros [(z & Hz)|Hz].
    + pose proof (int_literal_length z) as Hlen. rewrite <- Hz in Hlen.
      cbn [length] in Hlen. rewrite repeat_length in Hlen. lia.
    + discriminate Hz.
Qed.

(* ================================================================== *)
(* The stated theorems                                                 *)
(* ================================================================== *)

Lemma P10_80 : P10 80 = 10 ^ 80.
Proof. reflexivity. Qed.

(* ORIGINAL (false, digits_of_val_unbounded_refuted: digits_of runs on fuel 80, so for
   z >= 10^80 it renders only the low 80 digits; z = 10^80 gives eighty zeros, value 0):
Lemma digits_of_val : forall z, 0 <= z -> val_digits (digits_of z) 0 = z /\ is_digits (digits_of z) /\
  (digits_of z = [0] \/ (exists d ds, digits_of z = d :: ds /\ 1 <= d)).
*)
(*FIXED*) (* digits_of / int_literal are the usual decimal rendering *)
Lemma digits_of_val : forall z, 0 <= z -> z < 10 ^ 80 ->
  val_digits (digits_of z) 0 = z /\ is_digits (digits_of z) /\
  (digits_of z = [0] \/ (exists d ds, digits_of z = d :: ds /\ 1 <= d)).
Proof.
  intros z H0 Hz. rewrite <- P10_80 in Hz.
  assert (Hb : big z) by (unfold big; lia).
  destruct (digits_of_canon z Hb) as [Hd Hc].
  split; [exact (digits_of_V z H0 Hb)|]. split; [exact Hd | exact Hc].
Qed.

(* ORIGINAL (false, int_range_exact_unbounded_refuted: for |z| >= 10^80 int_literal z is
   not the decimal rendering of z; l = Some 0, r = None, z = 2 * 10^80 is in range, but
   int_literal z is eighty zeros, which the regex rejects):
Theorem int_range_exact : forall l r rx z,
  opt_ok l -> opt_ok r ->
  rx_int_range int_fuel l r = NOk rx ->
  (re_lang rx (int_literal z) <-> in_opt_range l r z).
*)
(*FIXED*) (* integer ranges: a plain integer literal is accepted exactly when it is in range *)
Theorem int_range_exact : forall l r rx z,
  opt_ok l -> opt_ok r -> Z.abs z < 10 ^ 80 ->
  rx_int_range int_fuel l r = NOk rx ->
  (re_lang rx (int_literal z) <-> in_opt_range l r z).
Proof.
  intros l r rx z Hl Hr Hz Hrx. rewrite <- P10_80 in Hz.
  rewrite (int_range_lang int_fuel l r rx (opt_ok_big _ Hl) (opt_ok_big _ Hr) Hrx).
  now apply int_lang_literal.
Qed.

(*FIXED*) (* an empty range is an error, a non-empty one compiles *)
Theorem int_range_error_iff_empty : forall l r,
  i64_ok l -> i64_ok r -> (rx_int_range int_fuel (Some l) (Some r) = NErr <-> r < l).
Proof.
  intros l r Hl Hr. split.
  - intros Herr. destruct (Z.lt_ge_cases r l) as [Hlt|Hge]; [assumption|].
    destruct (int_range_succeeds l r Hl Hr ltac:(lia)) as (rx & Hrx). congruence.
  - intros Hlt. change int_fuel with (S 199). destruct (Z.lt_ge_cases l 0) as [Hneg|Hpos].
    + rewrite rir_neg_some by assumption. destruct (Z.ltb_spec r l); [reflexivity | lia].
    + rewrite rir_nn_some by assumption. destruct (Z.ltb_spec r l); [reflexivity | lia].
Qed.

(* ORIGINAL (false, int_range_only_literals_unbounded_refuted: digits_of never yields
   more than 80 digits, so a longer accepted digit string is no int_literal; l = Some 0,
   r = None accepts "1" followed by 100 zeros.  The unrestricted form, with canonical
   digit strings instead of int_literal, is int_range_only_canonical above):
Theorem int_range_only_literals : forall l r rx w,
  opt_ok l -> opt_ok r ->
  rx_int_range int_fuel l r = NOk rx -> re_lang rx w ->
  (exists z, w = int_literal z) \/ w = [45%N; 48%N].
*)
(*FIXED*) (* nothing but integer literals (and "-0") is accepted *)
Theorem int_range_only_literals : forall l r rx w,
  opt_ok l -> opt_ok r -> (length w <= 80)%nat ->
  rx_int_range int_fuel l r = NOk rx -> re_lang rx w ->
  (exists z, w = int_literal z) \/ w = [45%N; 48%N].
Proof.
  intros l r rx w Hl Hr Hlen Hrx Hw.
  destruct (int_range_only_canonical int_fuel l r rx w Hl Hr Hrx Hw) as (ds & Hc & [->| ->]).
  - left. exists (V ds). apply canon_literal; [assumption|].
    unfold dstr in Hlen. now rewrite map_length in Hlen.
  - cbn [length] in Hlen. unfold dstr in Hlen. rewrite map_length in Hlen.
    destruct (Z.eq_dec (V ds) 0) as [E|NE].
    + right. apply (canon_zero_iff ds Hc) in E. subst ds. reflexivity.
    + left. exists (- V ds). unfold digit in *. apply canon_neg_literal; [assumption | lia | assumption].
Qed.

(*FIXED*) (* fraction ranges *)
Theorem lexi_x_to_9_sem : forall x incl s,
  is_digits x -> is_digits s -> trim_zeros x = x ->
  (re_lang (lexi_x_to_9 x incl) (dstr s) <->
   (if incl then frac_le x s else frac_lt x s) /\ (incl = false -> s <> [])).
Proof.
  intros x incl s Hx Hs Htrim.
  exact (lexi_x_to_9_aux x incl s Hx Hs (trim_fix_last x Htrim)).
Qed.

(*FIXED*)
Theorem lexi_0_to_x_sem : forall x incl rx s,
  is_digits x -> is_digits s -> trim_zeros x = x ->
  lexi_0_to_x x incl = NOk rx ->
  (re_lang rx (dstr s) <-> (if incl then frac_le s x else frac_lt s x) /\ (x <> [] -> s <> [])).
Proof.
  intros x incl rx s Hx Hs Htrim Hrx.
  exact (lexi_0_to_x_aux x incl rx s Hx Hs (trim_fix_last x Htrim) Hrx).
Qed.

(*FIXED*) (* Decimal::lcm with checked arithmetic never returns a wrapped result *)
Theorem lcm_checked_exact : forall ca ea cb eb c e,
  0 < ca < 2 ^ 32 -> 0 < cb < 2 ^ 32 -> 0 <= ea -> 0 <= eb ->
  decimal_lcm true (ca, ea) (cb, eb) = Some (c, e) ->
  (* c * 10^-e is the least common multiple of the two decimals *)
  let s := Z.max ea eb in
  c * 10 ^ (s - e) = Z.lcm (ca * 10 ^ (s - ea)) (cb * 10 ^ (s - eb)) /\ 0 <= e <= s.
Proof.
  intros ca ea cb eb c e Hca Hcb Hea Heb H s.
  unfold decimal_lcm in H.
  destruct (Z.eqb_spec ca 0) as [E|_]; [lia|].
  destruct (Z.eqb_spec cb 0) as [E|_]; [lia|].
  cbn [orb andb] in H.
  replace (Z.max 0 (eb - ea)) with (s - ea) in H by (subst s; lia).
  replace (Z.max 0 (ea - eb)) with (s - eb) in H by (subst s; lia).
  fold s in H.
  set (a1 := ca * 10 ^ (s - ea)) in *. set (b1 := cb * 10 ^ (s - eb)) in *.
  assert (Hpa : 0 < 10 ^ (s - ea)) by (apply Z.pow_pos_nonneg; subst s; lia).
  assert (Hpb : 0 < 10 ^ (s - eb)) by (apply Z.pow_pos_nonneg; subst s; lia).
  assert (Ha1 : 0 < a1) by (subst a1; nia).
  assert (Hb1 : 0 < b1) by (subst b1; nia).
  match type of H with (if ?X then _ else _) = _ => destruct X eqn:EX end; [discriminate|].
  repeat (apply orb_false_iff in EX; destruct EX as [EX ?]).
  repeat match goal with Hx : (_ <=? _) = false |- _ => apply Z.leb_gt in Hx end.
  rewrite (u32w_small a1) in * by lia. rewrite (u32w_small b1) in * by lia.
  rewrite (u32w_small (a1 * b1)) in H by nia.
  destruct (lcm_pos_eq a1 b1 Ha1 Hb1) as [Hlcm Hpos].
  injection H as H. unfold decimal_new in H.
  destruct (Z.eqb_spec (a1 * b1 / Z.gcd a1 b1) 0) as [E|_]; [lia|].
  apply strip10_spec in H; [|subst s; lia]. rewrite Hlcm. exact H.
Qed.

(*FIXED*) (* the unchecked (wrapping) variant is wrong: 65537 and 65539 *)
Theorem lcm_wrapping_refuted :
  exists a b c, decimal_lcm false (a, 0) (b, 0) = Some (c, 0) /\ c <> Z.lcm a b /\ 0 < a < 2 ^ 32 /\ 0 < b < 2 ^ 32.
Proof.
  exists 65537, 65539, 262147. split; [vm_compute; reflexivity|].
  split; [vm_compute; intros H; discriminate H|].
  split; vm_compute; split; reflexivity.
Qed.

(* ================================================================== *)
(* multipleOf as matched by derivre: the u32 remainder arithmetic is   *)
(* exact for every value the guard in json/compiler.rs lets through    *)
(* ================================================================== *)
Lemma fits_bounds : forall c e, 0 < c -> 0 <= e -> multiple_of_fits c e = true ->
  0 < 10 ^ e /\ c * 10 + 9 * 10 ^ e < 2 ^ 32.
Proof.
  intros c e Hc He H. unfold multiple_of_fits in H. apply Z.leb_le in H.
  split; [apply Z.pow_pos_nonneg; lia|].
  change (2 ^ 32) with 4294967296. lia.
Qed.

Theorem rem_step_exact : forall c e r digit,
  0 < c -> 0 <= e -> multiple_of_fits c e = true -> 0 <= r <= c -> 0 <= digit <= 9 ->
  rem_step_u32 c e r digit = rem_step c e r digit.
Proof.
  intros c e r digit Hc He Hf Hr Hd. destruct (fits_bounds c e Hc He Hf) as [Hp Hb].
  unfold rem_step_u32, rem_step.
  rewrite (u32w_small (10 ^ e)) by nia.
  rewrite (u32w_small (r * 10)) by nia.
  rewrite (u32w_small (digit * 10 ^ e)) by nia.
  rewrite (u32w_small (r * 10 + digit * 10 ^ e)) by nia.
  reflexivity.
Qed.

Lemma rem_step_range : forall c e r digit, 0 < c -> 0 <= rem_step c e r digit < c.
Proof. intros. unfold rem_step. apply Z.mod_pos_bound. assumption. Qed.

Lemma run_u32_exact : forall c ds r,
  0 < c -> multiple_of_fits c 0 = true -> is_digits ds -> 0 <= r <= c ->
  fold_left (rem_step_u32 c 0) ds r = fold_left (rem_step c 0) ds r.
Proof.
  intros c ds. induction ds as [|d ds IH]; intros r Hc Hf Hds Hr; [reflexivity|].
  inversion Hds as [|? ? Hd Hds']; subst. cbn [fold_left].
  rewrite rem_step_exact by (auto; lia).
  apply IH; auto. pose proof (rem_step_range c 0 r d Hc). lia.
Qed.

Lemma run_mod : forall c ds r r', 0 < c -> r mod c = r' mod c ->
  (fold_left (rem_step c 0) ds r) mod c = (val_digits ds r') mod c.
Proof.
  intros c ds. induction ds as [|d ds IH]; intros r r' Hc H; cbn [fold_left val_digits]; [exact H|].
  apply IH; [assumption|]. unfold rem_step. rewrite Z.mod_mod by lia.
  change (10 ^ 0) with 1. rewrite Z.mul_1_r.
  rewrite (Z.add_mod (r * 10)), (Z.mul_mod r) by lia. rewrite H.
  rewrite <- Z.mul_mod, <- Z.add_mod by lia. reflexivity.
Qed.

Lemma run_range : forall c ds r, 0 < c -> (0 <= r < c \/ ds <> []) ->
  0 <= fold_left (rem_step c 0) ds r < c.
Proof.
  intros c ds. induction ds as [|d ds IH]; intros r Hc H; cbn [fold_left].
  - destruct H as [H|H]; [exact H|congruence].
  - apply IH; [assumption|]. left. now apply rem_step_range.
Qed.

Lemma val_digits_acc10 : forall ds acc, val_digits ds acc = acc * 10 ^ Z.of_nat (length ds) + val_digits ds 0.
Proof.
  induction ds as [|d ds IH]; intros acc; cbn [val_digits length].
  - change (10 ^ Z.of_nat 0) with 1. lia.
  - rewrite IH, (IH (0 * 10 + d)). rewrite Nat2Z.inj_succ, Z.pow_succ_r by lia. ring.
Qed.

(* an unsigned integer literal is accepted exactly when the divisor divides its value *)
Theorem multiple_of_int_exact : forall c ds,
  0 < c -> multiple_of_fits c 0 = true -> is_digits ds -> ds <> [] ->
  (multiple_of_accepts_int c ds = true <-> (c | val_digits ds 0)).
Proof.
  intros c ds Hc Hf Hds Hne. unfold multiple_of_accepts_int, rem_run_u32.
  destruct ds as [|d0 ds0] eqn:E; [congruence|]. rewrite <- E in *.
  rewrite run_u32_exact by (auto; lia).
  pose proof (run_range c ds c Hc (or_intror Hne)) as Hrange.
  pose proof (run_mod c ds c c Hc eq_refl) as Hmod.
  rewrite (Z.mod_small _ _ Hrange) in Hmod.
  rewrite val_digits_acc10 in Hmod.
  rewrite Z.add_comm, (Z.mul_comm c), Z.mod_add in Hmod by lia.
  rewrite Hmod, Z.eqb_eq. rewrite Z.mod_divide by lia. reflexivity.
Qed.

(* without the guard the u32 arithmetic gives a wrong answer: 4294901760 is not accepted
   as a multiple of itself (found by the C08/C20 harness on the implementation) *)
Theorem multiple_of_unguarded_refuted :
  exists c ds, 0 < c < 2 ^ 32 /\ is_digits ds /\ (c | val_digits ds 0) /\ multiple_of_accepts_int c ds = false.
Proof.
  exists 4294901760, [4;2;9;4;9;0;1;7;6;0]. split; [split; reflexivity|].
  split; [repeat constructor; lia|]. split; [exists 1; reflexivity|].
  vm_compute. reflexivity.
Qed.

(* the compile-time guard, with the variant read from the source *)
Theorem multiple_of_guarded_exact : forall c ds,
  multiple_of_compiles true c 0 = true -> 0 <= c -> is_digits ds -> ds <> [] ->
  (multiple_of_accepts_int c ds = true <-> (c | val_digits ds 0)).
Proof.
  intros c ds H Hc0 Hds Hne. unfold multiple_of_compiles in H.
  apply andb_prop in H as [Hz Hf]. cbn [negb orb] in Hf.
  apply negb_true_iff, Z.eqb_neq in Hz.
  apply multiple_of_int_exact; auto. lia.
Qed.

Print Assumptions rem_step_exact.
Print Assumptions multiple_of_int_exact.
Print Assumptions multiple_of_unguarded_refuted.
Print Assumptions multiple_of_guarded_exact.
