(* NumericProofs.v — the digit-recursive range regexes of Numeric.v admit exactly
   the numbers inside the bounds.  STATEMENTS MARKED (*FIXED*) MUST NOT CHANGE. *)
From LLG Require Import Base Regex RegexProofs Numeric.
Open Scope Z_scope.

Definition i64_ok (z : Z) : Prop := - 2 ^ 63 < z < 2 ^ 63.
Definition opt_ok (o : option Z) : Prop := match o with Some z => i64_ok z | None => True end.

(* digit strings *)
Definition is_digits (ds : list Z) : Prop := Forall (fun d => 0 <= d <= 9) ds.
Definition dstr (ds : list Z) : bytes := map dchar ds.

(* value of a fraction digit string compared after padding to a common length *)
Definition frac_le (a b : list Z) : Prop :=
  val_digits (pad_right a (length b - length a)) 0 <= val_digits (pad_right b (length a - length b)) 0.
Definition frac_lt (a b : list Z) : Prop :=
  val_digits (pad_right a (length b - length a)) 0 < val_digits (pad_right b (length a - length b)) 0.

(*FIXED*) (* digits_of / int_literal are the usual decimal rendering *)
Lemma digits_of_val : forall z, 0 <= z -> val_digits (digits_of z) 0 = z /\ is_digits (digits_of z) /\
  (digits_of z = [0] \/ (exists d ds, digits_of z = d :: ds /\ 1 <= d)).
Proof. Admitted.

(*FIXED*) (* integer ranges: a plain integer literal is accepted exactly when it is in range *)
Theorem int_range_exact : forall l r rx z,
  opt_ok l -> opt_ok r ->
  rx_int_range int_fuel l r = NOk rx ->
  (re_lang rx (int_literal z) <-> in_opt_range l r z).
Proof. Admitted.

(*FIXED*) (* an empty range is an error, a non-empty one compiles *)
Theorem int_range_error_iff_empty : forall l r,
  i64_ok l -> i64_ok r -> (rx_int_range int_fuel (Some l) (Some r) = NErr <-> r < l).
Proof. Admitted.

(*FIXED*) (* nothing but integer literals (and "-0") is accepted *)
Theorem int_range_only_literals : forall l r rx w,
  opt_ok l -> opt_ok r ->
  rx_int_range int_fuel l r = NOk rx -> re_lang rx w ->
  (exists z, w = int_literal z) \/ w = [45%N; 48%N].
Proof. Admitted.

(*FIXED*) (* fraction ranges *)
Theorem lexi_x_to_9_sem : forall x incl s,
  is_digits x -> is_digits s -> trim_zeros x = x ->
  (re_lang (lexi_x_to_9 x incl) (dstr s) <->
   (if incl then frac_le x s else frac_lt x s) /\ (incl = false -> s <> [])).
Proof. Admitted.

(*FIXED*)
Theorem lexi_0_to_x_sem : forall x incl rx s,
  is_digits x -> is_digits s -> trim_zeros x = x ->
  lexi_0_to_x x incl = NOk rx ->
  (re_lang rx (dstr s) <-> (if incl then frac_le s x else frac_lt s x) /\ (x <> [] -> s <> [])).
Proof. Admitted.

(*FIXED*) (* Decimal::lcm with checked arithmetic never returns a wrapped result *)
Theorem lcm_checked_exact : forall ca ea cb eb c e,
  0 < ca < 2 ^ 32 -> 0 < cb < 2 ^ 32 -> 0 <= ea -> 0 <= eb ->
  decimal_lcm true (ca, ea) (cb, eb) = Some (c, e) ->
  (* c * 10^-e is the least common multiple of the two decimals *)
  let s := Z.max ea eb in
  c * 10 ^ (s - e) = Z.lcm (ca * 10 ^ (s - ea)) (cb * 10 ^ (s - eb)) /\ 0 <= e <= s.
Proof. Admitted.

(*FIXED*) (* the unchecked (wrapping) variant is wrong: 65537 and 65539 *)
Theorem lcm_wrapping_refuted :
  exists a b c, decimal_lcm false (a, 0) (b, 0) = Some (c, 0) /\ c <> Z.lcm a b /\ 0 < a < 2 ^ 32 /\ 0 < b < 2 ^ 32.
Proof. Admitted.
