(* SvobProofs.v — set algebra of every SimpleVob operation against `get`.
   STATEMENTS ARE FIXED; only proofs (and auxiliary lemmas) may be added. *)
From LLG Require Import Base Svob.
Require Import Zify.

(* lia extended with Euclidean division by constants (N./ and N.modulo) *)
Ltac dlia := zify; Z.to_euclidean_division_equations; lia.

(* ======================================================================= *)
(* Auxiliary lemmas                                                        *)
(* ======================================================================= *)

(* ---- lists: update_nth / nth / repeat / seqN ---- *)
Lemma length_update_nth : forall {A} (l : list A) i f,
  length (update_nth l i f) = length l.
Proof.
  intros A l; induction l as [|x l IH]; intros i f.
  - reflexivity.
  - destruct i as [|i]; cbn [update_nth length].
    + reflexivity.
    + rewrite IH; reflexivity.
Qed.

Lemma nth_update_nth_eq : forall {A} (l : list A) i f d,
  (i < length l)%nat -> nth i (update_nth l i f) d = f (nth i l d).
Proof.
  intros A l; induction l as [|x l IH]; intros i f d Hi.
  - cbn [length] in Hi; lia.
  - destruct i as [|i]; cbn [update_nth nth].
    + reflexivity.
    + apply IH. cbn [length] in Hi; lia.
Qed.

Lemma nth_update_nth_neq : forall {A} (l : list A) i k f d,
  k <> i -> nth k (update_nth l i f) d = nth k l d.
Proof.
  intros A l; induction l as [|x l IH]; intros i k f d Hne.
  - reflexivity.
  - destruct i as [|i]; destruct k as [|k]; cbn [update_nth nth]; try reflexivity.
    + congruence.
    + apply IH. congruence.
Qed.

Lemma Forall_update_nth : forall {A} (P : A -> Prop) (l : list A) i f,
  Forall P l -> (forall x, P x -> P (f x)) -> Forall P (update_nth l i f).
Proof.
  intros A P l; induction l as [|x l IH]; intros i f HF Hf.
  - constructor.
  - inversion HF as [|x' l' Hx Hl]; subst.
    destruct i as [|i]; cbn [update_nth]; constructor; auto.
Qed.

Lemma nth_repeat_0 : forall n k, nth k (repeat 0 n) 0 = 0.
Proof.
  induction n as [|n IH]; intros k; destruct k as [|k]; cbn [repeat nth]; auto.
Qed.

Lemma Forall_repeat : forall {A} (P : A -> Prop) x n, P x -> Forall P (repeat x n).
Proof.
  intros A P x n Hx; induction n as [|n IH]; cbn [repeat]; constructor; auto.
Qed.

Lemma length_seqN : forall n s, length (seqN s n) = n.
Proof.
  induction n as [|n IH]; intros s; cbn [seqN length]; [reflexivity|].
  rewrite IH; reflexivity.
Qed.

Lemma In_seqN : forall n s x, In x (seqN s n) <-> s <= x < s + N.of_nat n.
Proof.
  induction n as [|n IH]; intros s x; cbn [seqN In].
  - lia.
  - rewrite IH. lia.
Qed.

Lemma seqN_app : forall n m s, seqN s (n + m) = seqN s n ++ seqN (s + N.of_nat n) m.
Proof.
  induction n as [|n IH]; intros m s.
  - cbn [Nat.add seqN app]. f_equal. lia.
  - cbn [Nat.add seqN app]. f_equal. rewrite IH. f_equal. f_equal. lia.
Qed.

Lemma seqN_shift : forall n s a, seqN (a + s) n = map (fun b => a + b) (seqN s n).
Proof.
  induction n as [|n IH]; intros s a; cbn [seqN map]; [reflexivity|].
  f_equal. rewrite <- IH. f_equal. lia.
Qed.

(* ---- 32-bit words ---- *)
Lemma lt32_bits : forall w, w < 2 ^ 32 <-> (forall k, 32 <= k -> N.testbit w k = false).
Proof.
  intros w; split.
  - intros H k Hk. rewrite <- (N.mod_small w (2 ^ 32)) by exact H.
    apply N.mod_pow2_bits_high; exact Hk.
  - intros H. assert (E : w mod 2 ^ 32 = w).
    { apply N.bits_inj; intro k. destruct (N.lt_ge_cases k 32) as [L|G].
      - apply N.mod_pow2_bits_low; exact L.
      - rewrite N.mod_pow2_bits_high by exact G. symmetry; apply H; exact G. }
    rewrite <- E. apply N.mod_lt. apply N.pow_nonzero. discriminate.
Qed.

Lemma ones32_bit : forall k, N.testbit ones32 k = (k <? 32).
Proof.
  intros k; unfold ones32. destruct (N.ltb_spec k 32) as [L|G].
  - apply N.ones_spec_low; exact L.
  - apply N.ones_spec_high; exact G.
Qed.

Lemma not32_bit : forall w k, N.testbit (not32 w) k = xorb (N.testbit w k) (k <? 32).
Proof.
  intros w k; unfold not32. rewrite N.lxor_spec, ones32_bit. reflexivity.
Qed.

Lemma pow2_bit : forall p k, N.testbit (N.shiftl 1 p) k = (k =? p).
Proof.
  intros p k. rewrite N.shiftl_1_l, N.pow2_bits_eqb. apply N.eqb_sym.
Qed.

Lemma set_word_bit : forall w p b k,
  N.testbit (set_word w p b) k =
  if b then N.testbit w k || (k =? p)
  else N.testbit w k && xorb (k =? p) (k <? 32).
Proof.
  intros w p b k; unfold set_word; destruct b.
  - rewrite N.lor_spec, pow2_bit; reflexivity.
  - rewrite N.land_spec, not32_bit, pow2_bit; reflexivity.
Qed.

Lemma set_word_bit_low : forall w p b k, k < 32 ->
  N.testbit (set_word w p b) k = if k =? p then b else N.testbit w k.
Proof.
  intros w p b k Hk. rewrite set_word_bit.
  apply N.ltb_lt in Hk. rewrite Hk.
  destruct b; destruct (k =? p); destruct (N.testbit w k); reflexivity.
Qed.

Lemma set_word_lt : forall w p b, w < 2 ^ 32 -> p < 32 -> set_word w p b < 2 ^ 32.
Proof.
  intros w p b Hw Hp. apply lt32_bits. intros k Hk.
  rewrite set_word_bit. rewrite (proj1 (lt32_bits w) Hw k Hk).
  destruct b; [|reflexivity].
  cbn [orb]. apply N.eqb_neq. lia.
Qed.

Lemma not32_lt : forall w, w < 2 ^ 32 -> not32 w < 2 ^ 32.
Proof.
  intros w Hw. apply lt32_bits. intros k Hk.
  rewrite not32_bit, (proj1 (lt32_bits w) Hw k Hk).
  destruct (N.ltb_spec k 32) as [L|G]; [lia|reflexivity].
Qed.

Lemma ones32_lt : ones32 < 2 ^ 32.
Proof. apply lt32_bits. intros k Hk. rewrite ones32_bit. apply N.ltb_ge; exact Hk. Qed.

(* ---- get: basic facts ---- *)
Lemma get_words : forall ws sz j,
  get (mk_svob ws sz) j = N.testbit (nth (N.to_nat (j / 32)) ws 0) (j mod 32).
Proof. reflexivity. Qed.

Lemma get_unfold : forall v j,
  get v j = N.testbit (nth (N.to_nat (j / 32)) (words v) 0) (j mod 32).
Proof. reflexivity. Qed.

Lemma get_pre_lt : forall v j, get_pre v j = true <-> (N.to_nat (j / 32) < length (words v))%nat.
Proof.
  intros v j; unfold get_pre, nwords, lenN. rewrite N.ltb_lt. lia.
Qed.

Lemma get_pre_cap : forall v j, get_pre v j = (j <? cap_bits v).
Proof.
  intros v j; unfold get_pre, cap_bits.
  destruct (N.ltb_spec (j / 32) (nwords v)); destruct (N.ltb_spec j (32 * nwords v)); try reflexivity; dlia.
Qed.

Lemma get_no_pre : forall v j, get_pre v j = false -> get v j = false.
Proof.
  intros v j H. rewrite get_unfold. rewrite nth_overflow; [apply N.bits_0|].
  unfold get_pre, nwords, lenN in H. apply N.ltb_ge in H. lia.
Qed.

Lemma mod32_lt : forall j, j mod 32 < 32.
Proof. intros j; apply N.mod_lt; discriminate. Qed.


(* ---- construction ---- *)
Lemma vsize_alloc : forall n, vsize (alloc n) = n.
Proof. reflexivity. Qed.
Lemma nwords_alloc : forall n, nwords (alloc n) = div_ceil32 n.
Proof.
  intros n; unfold nwords, lenN, alloc, resize, svob_new; cbn [words app length].
  rewrite repeat_length. lia.
Qed.
Lemma get_alloc : forall n i, get (alloc n) i = false.
Proof.
  intros n i; unfold alloc, resize, svob_new; cbn [words app length].
  rewrite get_words, nth_repeat_0. apply N.bits_0.
Qed.
Lemma alloc_wf : forall n, svob_wf (alloc n).
Proof.
  intros n; split.
  - unfold alloc, resize, svob_new; cbn [words app length].
    apply Forall_repeat. reflexivity.
  - unfold cap_bits. rewrite nwords_alloc, vsize_alloc. unfold div_ceil32. dlia.
Qed.
Lemma alloc_with_capacity_wf : forall n c,
  alloc_with_capacity_pre n c = true -> svob_wf (alloc_with_capacity n c).
Proof.
  intros n c Hpre. unfold alloc_with_capacity_pre in Hpre. apply N.leb_le in Hpre.
  destruct (alloc_wf c) as [HF Hc]. split.
  - exact HF.
  - unfold cap_bits, nwords, alloc_with_capacity in *. cbn [words vsize] in *.
    rewrite vsize_alloc in Hc. lia.
Qed.
Lemma get_alloc_with_capacity : forall n c i, get (alloc_with_capacity n c) i = false.
Proof.
  intros n c i. unfold alloc_with_capacity. rewrite get_words, <- get_unfold. apply get_alloc.
Qed.

(* ---- single bits ---- *)
Lemma get_set : forall v i b j,
  set_pre v i = true -> get (set v i b) j = if j =? i then b else get v j.
Proof.
  intros v i b j Hpre. unfold set_pre in Hpre. apply get_pre_lt in Hpre.
  unfold set. rewrite get_words, get_unfold.
  destruct (N.eq_dec (j / 32) (i / 32)) as [E|NE].
  - rewrite E, nth_update_nth_eq by exact Hpre.
    rewrite set_word_bit_low by apply mod32_lt.
    destruct (N.eqb_spec (j mod 32) (i mod 32)) as [E2|NE2];
      destruct (N.eqb_spec j i) as [E3|NE3]; try reflexivity; exfalso; dlia.
  - rewrite nth_update_nth_neq by lia.
    destruct (N.eqb_spec j i) as [E3|NE3]; [subst; congruence|reflexivity].
Qed.
Lemma set_wf : forall v i b, svob_wf v -> svob_wf (set v i b).
Proof.
  intros v i b [HF Hc]. split.
  - unfold set; cbn [words]. apply Forall_update_nth; [exact HF|].
    intros x Hx. apply set_word_lt; [exact Hx|apply mod32_lt].
  - unfold cap_bits, nwords, lenN, set in *; cbn [words vsize].
    rewrite length_update_nth. exact Hc.
Qed.
Lemma vsize_set : forall v i b, vsize (set v i b) = vsize v.
Proof. reflexivity. Qed.
Lemma nwords_set : forall v i b, nwords (set v i b) = nwords v.
Proof.
  intros v i b; unfold nwords, lenN, set; cbn [words]. rewrite length_update_nth. reflexivity.
Qed.

(* ---- ranges ---- *)
(* comparison case analysis, closing the leaves with (div/mod-aware) lia *)
Ltac cmp_cases :=
  repeat match goal with
  | |- context [N.leb ?a ?b] => destruct (N.leb_spec a b)
  | |- context [N.ltb ?a ?b] => destruct (N.ltb_spec a b)
  | |- context [N.eqb ?a ?b] => destruct (N.eqb_spec a b)
  | |- context [Nat.leb ?a ?b] => destruct (Nat.leb_spec a b)
  | |- context [Nat.ltb ?a ?b] => destruct (Nat.ltb_spec a b)
  | |- context [Nat.eqb ?a ?b] => destruct (Nat.eqb_spec a b)
  end; cbn [andb orb negb xorb];
  rewrite ?orb_false_r, ?orb_true_r, ?andb_false_r, ?andb_true_r;
  try reflexivity; try (exfalso; dlia).

Lemma nth_update_nth : forall {A} (l : list A) i k f d,
  nth k (update_nth l i f) d =
  if ((k =? i) && (k <? length l))%nat then f (nth k l d) else nth k l d.
Proof.
  intros A l i k f d.
  destruct (Nat.eqb_spec k i) as [E|NE]; destruct (Nat.ltb_spec k (length l)) as [L|G]; cbn [andb].
  - subst. apply nth_update_nth_eq; exact L.
  - rewrite !nth_overflow; [reflexivity|exact G|rewrite length_update_nth; exact G].
  - apply nth_update_nth_neq; exact NE.
  - apply nth_update_nth_neq; exact NE.
Qed.

Lemma length_fill : forall (c : N) l ws,
  length (fold_left (fun ws i => update_nth ws (N.to_nat i) (fun _ => c)) l ws) = length ws.
Proof.
  intros c l; induction l as [|a l IH]; intros ws; cbn [fold_left]; [reflexivity|].
  rewrite IH, length_update_nth; reflexivity.
Qed.

Lemma Forall_fill : forall (P : N -> Prop) (c : N) l ws,
  P c -> Forall P ws ->
  Forall P (fold_left (fun ws i => update_nth ws (N.to_nat i) (fun _ => c)) l ws).
Proof.
  intros P c l; induction l as [|a l IH]; intros ws Hc HF; cbn [fold_left]; [exact HF|].
  apply IH; [exact Hc|]. apply Forall_update_nth; auto.
Qed.

Lemma nth_fill : forall (c : N) n a ws k,
  nth k (fold_left (fun ws i => update_nth ws (N.to_nat i) (fun _ => c)) (seqN a n) ws) 0 =
  if ((N.to_nat a <=? k) && (k <? N.to_nat a + n) && (k <? length ws))%nat
  then c else nth k ws 0.
Proof.
  intros c n; induction n as [|n IH]; intros a ws k; cbn [seqN fold_left].
  - cmp_cases.
  - rewrite IH, length_update_nth, nth_update_nth. cmp_cases.
Qed.

Lemma start_mask_bit : forall p m, m < 32 ->
  N.testbit (u32 (N.shiftl ones32 p)) m = (p <=? m).
Proof.
  intros p m Hm. unfold u32. rewrite N.mod_pow2_bits_low by exact Hm.
  destruct (N.leb_spec p m) as [L|G].
  - rewrite N.shiftl_spec_high' by exact L. rewrite ones32_bit. apply N.ltb_lt. lia.
  - apply N.shiftl_spec_low; exact G.
Qed.

Lemma start_mask_lt : forall p, u32 (N.shiftl ones32 p) < 2 ^ 32.
Proof. intros p; unfold u32. apply N.mod_lt. apply N.pow_nonzero. discriminate. Qed.

Lemma end_mask_bit : forall q m, q < 32 ->
  N.testbit (N.shiftr ones32 (31 - q)) m = (m <=? q).
Proof.
  intros q m Hq. rewrite N.shiftr_spec', ones32_bit. cmp_cases.
Qed.

Lemma end_mask_lt : forall q, q < 32 -> N.shiftr ones32 (31 - q) < 2 ^ 32.
Proof.
  intros q Hq. apply lt32_bits. intros k Hk. rewrite end_mask_bit by exact Hq.
  apply N.leb_gt. lia.
Qed.

Lemma lor_lt32 : forall a b, a < 2 ^ 32 -> b < 2 ^ 32 -> N.lor a b < 2 ^ 32.
Proof.
  intros a b Ha Hb. apply lt32_bits. intros k Hk.
  rewrite N.lor_spec, (proj1 (lt32_bits a) Ha k Hk), (proj1 (lt32_bits b) Hb k Hk). reflexivity.
Qed.

Lemma land_lt32_l : forall a b, a < 2 ^ 32 -> N.land a b < 2 ^ 32.
Proof.
  intros a b Ha. apply lt32_bits. intros k Hk.
  rewrite N.land_spec, (proj1 (lt32_bits a) Ha k Hk). reflexivity.
Qed.

Lemma get_allow_range : forall v s e j,
  svob_wf v -> allow_range_pre v s e = true ->
  get (allow_range v s e) j = get v j || ((s <=? j) && (j <=? e)).
Proof.
  intros v s e j [HF Hc] Hpre. unfold allow_range_pre in Hpre. apply N.ltb_lt in Hpre.
  unfold cap_bits, nwords, lenN in Hc.
  pose proof (mod32_lt j) as Hjm. pose proof (mod32_lt s) as Hsm. pose proof (mod32_lt e) as Hem.
  unfold allow_range.
  destruct (N.ltb_spec e s) as [Hes|Hse].
  - cmp_cases.
  - cbv zeta. destruct (N.eqb_spec (s / 32) (e / 32)) as [Ew|NEw].
    + rewrite get_words, get_unfold, nth_update_nth.
      destruct (Nat.eqb_spec (N.to_nat (j / 32)) (N.to_nat (s / 32))) as [Ej|NEj];
        destruct (Nat.ltb_spec (N.to_nat (j / 32)) (length (words v))) as [Lj|Gj]; cbn [andb].
      * rewrite N.lor_spec, N.land_spec, start_mask_bit, end_mask_bit by assumption.
        f_equal. cmp_cases.
      * exfalso; dlia.
      * cmp_cases.
      * cmp_cases.
    + rewrite get_words, get_unfold.
      rewrite nth_update_nth, length_fill, nth_fill, !length_update_nth, !nth_update_nth.
      cmp_cases;
        rewrite ?N.lor_spec, ?ones32_bit, ?start_mask_bit, ?end_mask_bit by assumption;
        try (f_equal; cmp_cases); rewrite ?orb_false_r, ?orb_true_r; try reflexivity.
Qed.
Lemma allow_range_wf : forall v s e,
  svob_wf v -> allow_range_pre v s e = true -> svob_wf (allow_range v s e).
Proof.
  intros v s e [HF Hc] Hpre. pose proof (mod32_lt e) as Hem.
  unfold allow_range. destruct (e <? s); [split; assumption|].
  cbv zeta. destruct (s / 32 =? e / 32); split; cbn [words vsize].
  - apply Forall_update_nth; [exact HF|]. intros x Hx.
    apply lor_lt32; [exact Hx|]. apply land_lt32_l, start_mask_lt.
  - unfold cap_bits, nwords, lenN in *; cbn [words]. rewrite length_update_nth. exact Hc.
  - apply Forall_update_nth.
    + apply Forall_fill; [exact ones32_lt|]. apply Forall_update_nth; [exact HF|].
      intros x Hx. apply lor_lt32; [exact Hx|apply start_mask_lt].
    + intros x Hx. apply lor_lt32; [exact Hx|apply end_mask_lt; exact Hem].
  - unfold cap_bits, nwords, lenN in *; cbn [words].
    rewrite length_update_nth, length_fill, length_update_nth. exact Hc.
Qed.

(* ---- complement ---- *)
Lemma get_negated : forall v j,
  svob_wf v -> get (negated v) j = (j <? vsize v) && negb (get v j).
Proof. Admitted.
Lemma negated_wf : forall v, svob_wf v -> svob_wf (negated v).
Proof. Admitted.
Lemma get_alloc_ones : forall n j, get (alloc_ones n) j = (j <? n).
Proof. Admitted.

(* ---- binary operations: raw (zip) semantics ---- *)
Lemma get_vor_raw : forall v o j, get (vor v o) j = get v j || (get o j && get_pre v j).
Proof. Admitted.
Lemma get_vand_raw : forall v o j,
  get (vand v o) j = get v j && (get o j || negb (get_pre o j)).
Proof. Admitted.
Lemma get_vsub_raw : forall v o j,
  get (vsub v o) j = get v j && negb (get o j).
Proof. Admitted.

(* ---- binary operations under the asserted preconditions ---- *)
Lemma get_vor : forall v o j,
  svob_wf v -> no_excess o -> or_pre v o = true ->
  get (vor v o) j = get v j || get o j.
Proof. Admitted.
Lemma get_vand : forall v o j,
  svob_wf o -> no_excess v -> same_size_pre v o = true ->
  get (vand v o) j = get v j && get o j.
Proof. Admitted.
Lemma get_or_minus : forall v o m j,
  svob_wf v -> svob_wf m -> no_excess o -> no_excess v -> or_minus_pre v o m = true ->
  get (or_minus v o m) j = get v j || (get o j && negb (get m j)).
Proof. Admitted.

(* ---- ids at or above the size are never introduced ---- *)
Lemma no_excess_alloc : forall n, no_excess (alloc n).
Proof. Admitted.
Lemma no_excess_alloc_with_capacity : forall n c, no_excess (alloc_with_capacity n c).
Proof. Admitted.
Lemma no_excess_set : forall v i b,
  no_excess v -> i < vsize v -> set_pre v i = true -> no_excess (set v i b).
Proof. Admitted.
Lemma no_excess_allow_range : forall v s e,
  svob_wf v -> no_excess v -> allow_range_pre v s e = true -> no_excess (allow_range v s e).
Proof. Admitted.
Lemma no_excess_negated : forall v, svob_wf v -> no_excess (negated v).
Proof. Admitted.
Lemma no_excess_vor : forall v o,
  svob_wf v -> no_excess v -> no_excess o -> or_pre v o = true -> no_excess (vor v o).
Proof. Admitted.
Lemma no_excess_vand : forall v o, no_excess v -> no_excess (vand v o).
Proof. Admitted.
Lemma no_excess_vsub : forall v o,
  no_excess v -> no_excess (vsub v o).
Proof. Admitted.

(* ---- queries ---- *)
Lemma to_list_spec : forall v,
  svob_wf v -> to_list v = filter (get v) (seqN 0 (N.to_nat (vsize v))).
Proof. Admitted.
Lemma iter_list_spec : forall v,
  Forall (fun w => w < 2 ^ 32) (words v) ->
  iter_list v = filter (get v) (seqN 0 (N.to_nat (cap_bits v))).
Proof. Admitted.
Lemma first_bit_set_spec : forall v,
  Forall (fun w => w < 2 ^ 32) (words v) ->
  first_bit_set v = find (get v) (seqN 0 (N.to_nat (cap_bits v))).
Proof. Admitted.
Lemma num_set_spec : forall v,
  Forall (fun w => w < 2 ^ 32) (words v) ->
  num_set v = lenN (filter (get v) (seqN 0 (N.to_nat (cap_bits v)))).
Proof. Admitted.
Lemma is_zero_spec : forall v,
  Forall (fun w => w < 2 ^ 32) (words v) ->
  is_zero v = true <-> (forall j, get v j = false).
Proof. Admitted.
Lemma get_trim_trailing_zeros : forall v j, get (trim_trailing_zeros v) j = get v j.
Proof. Admitted.
