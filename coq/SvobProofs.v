(* SvobProofs.v — set algebra of every SimpleVob operation against `get`.
   STATEMENTS ARE FIXED; only proofs (and auxiliary lemmas) may be added. *)
From LLG Require Import Base Svob.

(* ---- construction ---- *)
Lemma vsize_alloc : forall n, vsize (alloc n) = n.
Proof. Admitted.
Lemma nwords_alloc : forall n, nwords (alloc n) = div_ceil32 n.
Proof. Admitted.
Lemma get_alloc : forall n i, get (alloc n) i = false.
Proof. Admitted.
Lemma alloc_wf : forall n, svob_wf (alloc n).
Proof. Admitted.
Lemma alloc_with_capacity_wf : forall n c,
  alloc_with_capacity_pre n c = true -> svob_wf (alloc_with_capacity n c).
Proof. Admitted.
Lemma get_alloc_with_capacity : forall n c i, get (alloc_with_capacity n c) i = false.
Proof. Admitted.

(* ---- single bits ---- *)
Lemma get_set : forall v i b j,
  set_pre v i = true -> get (set v i b) j = if j =? i then b else get v j.
Proof. Admitted.
Lemma set_wf : forall v i b, svob_wf v -> svob_wf (set v i b).
Proof. Admitted.
Lemma vsize_set : forall v i b, vsize (set v i b) = vsize v.
Proof. Admitted.
Lemma nwords_set : forall v i b, nwords (set v i b) = nwords v.
Proof. Admitted.

(* ---- ranges ---- *)
Lemma get_allow_range : forall v s e j,
  svob_wf v -> allow_range_pre v s e = true ->
  get (allow_range v s e) j = get v j || ((s <=? j) && (j <=? e)).
Proof. Admitted.
Lemma allow_range_wf : forall v s e,
  svob_wf v -> allow_range_pre v s e = true -> svob_wf (allow_range v s e).
Proof. Admitted.

(* ---- complement ---- *)
Lemma get_negated : forall v j,
  svob_wf v -> get (negated v) j = (j <? vsize v) && negb (get v j).
Proof. Admitted.
Lemma negated_wf : forall v, svob_wf v -> svob_wf (negated v).
Proof. Admitted.
Lemma get_alloc_ones : forall n j, get (alloc_ones n) j = (j <? n).
Proof. Admitted.

(* ---- binary operations: raw (zip) semantics ---- *)
Lemma get_vor_raw : forall v o j, get (vor v o) j = get v j || (get o j && get_pre v j).
Proof. Admitted.
Lemma get_vand_raw : forall v o j,
  get (vand v o) j = get v j && (get o j || negb (get_pre o j)).
Proof. Admitted.
Lemma get_vsub_raw : forall v o j,
  get (vsub v o) j = get v j && negb (get o j).
Proof. Admitted.

(* ---- binary operations under the asserted preconditions ---- *)
Lemma get_vor : forall v o j,
  svob_wf v -> no_excess o -> or_pre v o = true ->
  get (vor v o) j = get v j || get o j.
Proof. Admitted.
Lemma get_vand : forall v o j,
  svob_wf o -> no_excess v -> same_size_pre v o = true ->
  get (vand v o) j = get v j && get o j.
Proof. Admitted.
Lemma get_or_minus : forall v o m j,
  svob_wf v -> svob_wf m -> no_excess o -> no_excess v -> or_minus_pre v o m = true ->
  get (or_minus v o m) j = get v j || (get o j && negb (get m j)).
Proof. Admitted.

(* ---- ids at or above the size are never introduced ---- *)
Lemma no_excess_alloc : forall n, no_excess (alloc n).
Proof. Admitted.
Lemma no_excess_alloc_with_capacity : forall n c, no_excess (alloc_with_capacity n c).
Proof. Admitted.
Lemma no_excess_set : forall v i b,
  no_excess v -> i < vsize v -> set_pre v i = true -> no_excess (set v i b).
Proof. Admitted.
Lemma no_excess_allow_range : forall v s e,
  svob_wf v -> no_excess v -> allow_range_pre v s e = true -> no_excess (allow_range v s e).
Proof. Admitted.
Lemma no_excess_negated : forall v, svob_wf v -> no_excess (negated v).
Proof. Admitted.
Lemma no_excess_vor : forall v o,
  svob_wf v -> no_excess v -> no_excess o -> or_pre v o = true -> no_excess (vor v o).
Proof. Admitted.
Lemma no_excess_vand : forall v o, no_excess v -> no_excess (vand v o).
Proof. Admitted.
Lemma no_excess_vsub : forall v o,
  no_excess v -> no_excess (vsub v o).
Proof. Admitted.

(* ---- queries ---- *)
Lemma to_list_spec : forall v,
  svob_wf v -> to_list v = filter (get v) (seqN 0 (N.to_nat (vsize v))).
Proof. Admitted.
Lemma iter_list_spec : forall v,
  Forall (fun w => w < 2 ^ 32) (words v) ->
  iter_list v = filter (get v) (seqN 0 (N.to_nat (cap_bits v))).
Proof. Admitted.
Lemma first_bit_set_spec : forall v,
  Forall (fun w => w < 2 ^ 32) (words v) ->
  first_bit_set v = find (get v) (seqN 0 (N.to_nat (cap_bits v))).
Proof. Admitted.
Lemma num_set_spec : forall v,
  Forall (fun w => w < 2 ^ 32) (words v) ->
  num_set v = lenN (filter (get v) (seqN 0 (N.to_nat (cap_bits v)))).
Proof. Admitted.
Lemma is_zero_spec : forall v,
  Forall (fun w => w < 2 ^ 32) (words v) ->
  is_zero v = true <-> (forall j, get v j = false).
Proof. Admitted.
Lemma get_trim_trailing_zeros : forall v j, get (trim_trailing_zeros v) j = get v j.
Proof. Admitted.
