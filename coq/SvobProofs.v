(* SvobProofs.v — set algebra of every SimpleVob operation against `get`.
   STATEMENTS ARE FIXED; only proofs (and auxiliary lemmas) may be added. *)
From LLG Require Import Base Svob.
Require Import Zify.

(* lia extended with Euclidean division by constants (N./ and N.modulo) *)
Ltac dlia := zify; Z.to_euclidean_division_equations; lia.

(* ======================================================================= *)
(* Auxiliary lemmas                                                        *)
(* ======================================================================= *)

(* ---- lists: update_nth / nth / repeat / seqN ---- *)
Lemma length_update_nth : forall {A} (l : list A) i f,
  length (update_nth l i f) = length l.
Proof.
  intros A l; induction l as [|x l IH]; intros i f.
  - reflexivity.
  - destruct i as [|i]; cbn [update_nth length].
    + reflexivity.
    + rewrite IH; reflexivity.
Qed.

Lemma nth_update_nth_eq : forall {A} (l : list A) i f d,
  (i < length l)%nat -> nth i (update_nth l i f) d = f (nth i l d).
Proof.
  intros A l; induction l as [|x l IH]; intros i f d Hi.
  - cbn [length] in Hi; lia.
  - destruct i as [|i]; cbn [update_nth nth].
    + reflexivity.
    + apply IH. cbn [length] in Hi; lia.
Qed.

Lemma nth_update_nth_neq : forall {A} (l : list A) i k f d,
  k <> i -> nth k (update_nth l i f) d = nth k l d.
Proof.
  intros A l; induction l as [|x l IH]; intros i k f d Hne.
  - reflexivity.
  - destruct i as [|i]; destruct k as [|k]; cbn [update_nth nth]; try reflexivity.
    + congruence.
    + apply IH. congruence.
Qed.

Lemma Forall_update_nth : forall {A} (P : A -> Prop) (l : list A) i f,
  Forall P l -> (forall x, P x -> P (f x)) -> Forall P (update_nth l i f).
Proof.
  intros A P l; induction l as [|x l IH]; intros i f HF Hf.
  - constructor.
  - inversion HF as [|x' l' Hx Hl]; subst.
    destruct i as [|i]; cbn [update_nth]; constructor; auto.
Qed.

Lemma nth_repeat_0 : forall n k, nth k (repeat 0 n) 0 = 0.
Proof.
  induction n as [|n IH]; intros k; destruct k as [|k]; cbn [repeat nth]; auto.
Qed.

Lemma Forall_repeat : forall {A} (P : A -> Prop) x n, P x -> Forall P (repeat x n).
Proof.
  intros A P x n Hx; induction n as [|n IH]; cbn [repeat]; constructor; auto.
Qed.

Lemma length_seqN : forall n s, length (seqN s n) = n.
Proof.
  induction n as [|n IH]; intros s; cbn [seqN length]; [reflexivity|].
  rewrite IH; reflexivity.
Qed.

Lemma In_seqN : forall n s x, In x (seqN s n) <-> s <= x < s + N.of_nat n.
Proof.
  induction n as [|n IH]; intros s x; cbn [seqN In].
  - lia.
  - rewrite IH. lia.
Qed.

Lemma seqN_app : forall n m s, seqN s (n + m) = seqN s n ++ seqN (s + N.of_nat n) m.
Proof.
  induction n as [|n IH]; intros m s.
  - cbn [Nat.add seqN app]. f_equal. lia.
  - cbn [Nat.add seqN app]. f_equal. rewrite IH. f_equal. f_equal. lia.
Qed.

Lemma seqN_shift : forall n s a, seqN (a + s) n = map (fun b => a + b) (seqN s n).
Proof.
  induction n as [|n IH]; intros s a; cbn [seqN map]; [reflexivity|].
  f_equal. rewrite <- IH. f_equal. lia.
Qed.

(* ---- 32-bit words ---- *)
Lemma lt32_bits : forall w, w < 2 ^ 32 <-> (forall k, 32 <= k -> N.testbit w k = false).
Proof.
  intros w; split.
  - intros H k Hk. rewrite <- (N.mod_small w (2 ^ 32)) by exact H.
    apply N.mod_pow2_bits_high; exact Hk.
  - intros H. assert (E : w mod 2 ^ 32 = w).
    { apply N.bits_inj; intro k. destruct (N.lt_ge_cases k 32) as [L|G].
      - apply N.mod_pow2_bits_low; exact L.
      - rewrite N.mod_pow2_bits_high by exact G. symmetry; apply H; exact G. }
    rewrite <- E. apply N.mod_lt. apply N.pow_nonzero. discriminate.
Qed.

Lemma ones32_bit : forall k, N.testbit ones32 k = (k <? 32).
Proof.
  intros k; unfold ones32. destruct (N.ltb_spec k 32) as [L|G].
  - apply N.ones_spec_low; exact L.
  - apply N.ones_spec_high; exact G.
Qed.

Lemma not32_bit : forall w k, N.testbit (not32 w) k = xorb (N.testbit w k) (k <? 32).
Proof.
  intros w k; unfold not32. rewrite N.lxor_spec, ones32_bit. reflexivity.
Qed.

Lemma pow2_bit : forall p k, N.testbit (N.shiftl 1 p) k = (k =? p).
Proof.
  intros p k. rewrite N.shiftl_1_l, N.pow2_bits_eqb. apply N.eqb_sym.
Qed.

Lemma set_word_bit : forall w p b k,
  N.testbit (set_word w p b) k =
  if b then N.testbit w k || (k =? p)
  else N.testbit w k && xorb (k =? p) (k <? 32).
Proof.
  intros w p b k; unfold set_word; destruct b.
  - rewrite N.lor_spec, pow2_bit; reflexivity.
  - rewrite N.land_spec, not32_bit, pow2_bit; reflexivity.
Qed.

Lemma set_word_bit_low : forall w p b k, k < 32 ->
  N.testbit (set_word w p b) k = if k =? p then b else N.testbit w k.
Proof.
  intros w p b k Hk. rewrite set_word_bit.
  apply N.ltb_lt in Hk. rewrite Hk.
  destruct b; destruct (k =? p); destruct (N.testbit w k); reflexivity.
Qed.

Lemma set_word_lt : forall w p b, w < 2 ^ 32 -> p < 32 -> set_word w p b < 2 ^ 32.
Proof.
  intros w p b Hw Hp. apply lt32_bits. intros k Hk.
  rewrite set_word_bit. rewrite (proj1 (lt32_bits w) Hw k Hk).
  destruct b; [|reflexivity].
  cbn [orb]. apply N.eqb_neq. lia.
Qed.

Lemma not32_lt : forall w, w < 2 ^ 32 -> not32 w < 2 ^ 32.
Proof.
  intros w Hw. apply lt32_bits. intros k Hk.
  rewrite not32_bit, (proj1 (lt32_bits w) Hw k Hk).
  destruct (N.ltb_spec k 32) as [L|G]; [lia|reflexivity].
Qed.

Lemma ones32_lt : ones32 < 2 ^ 32.
Proof. apply lt32_bits. intros k Hk. rewrite ones32_bit. apply N.ltb_ge; exact Hk. Qed.

(* ---- get: basic facts ---- *)
Lemma get_words : forall ws sz j,
  get (mk_svob ws sz) j = N.testbit (nth (N.to_nat (j / 32)) ws 0) (j mod 32).
Proof. reflexivity. Qed.

Lemma get_unfold : forall v j,
  get v j = N.testbit (nth (N.to_nat (j / 32)) (words v) 0) (j mod 32).
Proof. reflexivity. Qed.

Lemma get_pre_lt : forall v j, get_pre v j = true <-> (N.to_nat (j / 32) < length (words v))%nat.
Proof.
  intros v j; unfold get_pre, nwords, lenN. rewrite N.ltb_lt. lia.
Qed.

Lemma get_pre_cap : forall v j, get_pre v j = (j <? cap_bits v).
Proof.
  intros v j; unfold get_pre, cap_bits.
  destruct (N.ltb_spec (j / 32) (nwords v)); destruct (N.ltb_spec j (32 * nwords v)); try reflexivity; dlia.
Qed.

Lemma get_no_pre : forall v j, get_pre v j = false -> get v j = false.
Proof.
  intros v j H. rewrite get_unfold. rewrite nth_overflow; [apply N.bits_0|].
  unfold get_pre, nwords, lenN in H. apply N.ltb_ge in H. lia.
Qed.

Lemma mod32_lt : forall j, j mod 32 < 32.
Proof. intros j; apply N.mod_lt; discriminate. Qed.


(* ---- construction ---- *)
Lemma vsize_alloc : forall n, vsize (alloc n) = n.
Proof. reflexivity. Qed.
Lemma nwords_alloc : forall n, nwords (alloc n) = div_ceil32 n.
Proof.
  intros n; unfold nwords, lenN, alloc, resize, svob_new; cbn [words app length].
  rewrite repeat_length. lia.
Qed.
Lemma get_alloc : forall n i, get (alloc n) i = false.
Proof.
  intros n i; unfold alloc, resize, svob_new; cbn [words app length].
  rewrite get_words, nth_repeat_0. apply N.bits_0.
Qed.
Lemma alloc_wf : forall n, svob_wf (alloc n).
Proof.
  intros n; split.
  - unfold alloc, resize, svob_new; cbn [words app length].
    apply Forall_repeat. reflexivity.
  - unfold cap_bits. rewrite nwords_alloc, vsize_alloc. unfold div_ceil32. dlia.
Qed.
Lemma alloc_with_capacity_wf : forall n c,
  alloc_with_capacity_pre n c = true -> svob_wf (alloc_with_capacity n c).
Proof.
  intros n c Hpre. unfold alloc_with_capacity_pre in Hpre. apply N.leb_le in Hpre.
  destruct (alloc_wf c) as [HF Hc]. split.
  - exact HF.
  - unfold cap_bits, nwords, alloc_with_capacity in *. cbn [words vsize] in *.
    rewrite vsize_alloc in Hc. lia.
Qed.
Lemma get_alloc_with_capacity : forall n c i, get (alloc_with_capacity n c) i = false.
Proof.
  intros n c i. unfold alloc_with_capacity. rewrite get_words, <- get_unfold. apply get_alloc.
Qed.

(* ---- single bits ---- *)
Lemma get_set : forall v i b j,
  set_pre v i = true -> get (set v i b) j = if j =? i then b else get v j.
Proof.
  intros v i b j Hpre. unfold set_pre in Hpre. apply get_pre_lt in Hpre.
  unfold set. rewrite get_words, get_unfold.
  destruct (N.eq_dec (j / 32) (i / 32)) as [E|NE].
  - rewrite E, nth_update_nth_eq by exact Hpre.
    rewrite set_word_bit_low by apply mod32_lt.
    destruct (N.eqb_spec (j mod 32) (i mod 32)) as [E2|NE2];
      destruct (N.eqb_spec j i) as [E3|NE3]; try reflexivity; exfalso; dlia.
  - rewrite nth_update_nth_neq by lia.
    destruct (N.eqb_spec j i) as [E3|NE3]; [subst; congruence|reflexivity].
Qed.
Lemma set_wf : forall v i b, svob_wf v -> svob_wf (set v i b).
Proof.
  intros v i b [HF Hc]. split.
  - unfold set; cbn [words]. apply Forall_update_nth; [exact HF|].
    intros x Hx. apply set_word_lt; [exact Hx|apply mod32_lt].
  - unfold cap_bits, nwords, lenN, set in *; cbn [words vsize].
    rewrite length_update_nth. exact Hc.
Qed.
Lemma vsize_set : forall v i b, vsize (set v i b) = vsize v.
Proof. reflexivity. Qed.
Lemma nwords_set : forall v i b, nwords (set v i b) = nwords v.
Proof.
  intros v i b; unfold nwords, lenN, set; cbn [words]. rewrite length_update_nth. reflexivity.
Qed.

(* ---- ranges ---- *)
(* comparison case analysis, closing the leaves with (div/mod-aware) lia *)
Ltac cmp_cases :=
  repeat match goal with
  | |- context [N.leb ?a ?b] => destruct (N.leb_spec a b)
  | |- context [N.ltb ?a ?b] => destruct (N.ltb_spec a b)
  | |- context [N.eqb ?a ?b] => destruct (N.eqb_spec a b)
  | |- context [Nat.leb ?a ?b] => destruct (Nat.leb_spec a b)
  | |- context [Nat.ltb ?a ?b] => destruct (Nat.ltb_spec a b)
  | |- context [Nat.eqb ?a ?b] => destruct (Nat.eqb_spec a b)
  end; cbn [andb orb negb xorb];
  rewrite ?orb_false_r, ?orb_true_r, ?andb_false_r, ?andb_true_r;
  try reflexivity; try (exfalso; dlia).

Lemma nth_update_nth : forall {A} (l : list A) i k f d,
  nth k (update_nth l i f) d =
  if ((k =? i) && (k <? length l))%nat then f (nth k l d) else nth k l d.
Proof.
  intros A l i k f d.
  destruct (Nat.eqb_spec k i) as [E|NE]; destruct (Nat.ltb_spec k (length l)) as [L|G]; cbn [andb].
  - subst. apply nth_update_nth_eq; exact L.
  - rewrite !nth_overflow; [reflexivity|exact G|rewrite length_update_nth; exact G].
  - apply nth_update_nth_neq; exact NE.
  - apply nth_update_nth_neq; exact NE.
Qed.

Lemma length_fill : forall (c : N) l ws,
  length (fold_left (fun ws i => update_nth ws (N.to_nat i) (fun _ => c)) l ws) = length ws.
Proof.
  intros c l; induction l as [|a l IH]; intros ws; cbn [fold_left]; [reflexivity|].
  rewrite IH, length_update_nth; reflexivity.
Qed.

Lemma Forall_fill : forall (P : N -> Prop) (c : N) l ws,
  P c -> Forall P ws ->
  Forall P (fold_left (fun ws i => update_nth ws (N.to_nat i) (fun _ => c)) l ws).
Proof.
  intros P c l; induction l as [|a l IH]; intros ws Hc HF; cbn [fold_left]; [exact HF|].
  apply IH; [exact Hc|]. apply Forall_update_nth; auto.
Qed.

Lemma nth_fill : forall (c : N) n a ws k,
  nth k (fold_left (fun ws i => update_nth ws (N.to_nat i) (fun _ => c)) (seqN a n) ws) 0 =
  if ((N.to_nat a <=? k) && (k <? N.to_nat a + n) && (k <? length ws))%nat
  then c else nth k ws 0.
Proof.
  intros c n; induction n as [|n IH]; intros a ws k; cbn [seqN fold_left].
  - cmp_cases.
  - rewrite IH, length_update_nth, nth_update_nth. cmp_cases.
Qed.

Lemma start_mask_bit : forall p m, m < 32 ->
  N.testbit (u32 (N.shiftl ones32 p)) m = (p <=? m).
Proof.
  intros p m Hm. unfold u32. rewrite N.mod_pow2_bits_low by exact Hm.
  destruct (N.leb_spec p m) as [L|G].
  - rewrite N.shiftl_spec_high' by exact L. rewrite ones32_bit. apply N.ltb_lt. lia.
  - apply N.shiftl_spec_low; exact G.
Qed.

Lemma start_mask_lt : forall p, u32 (N.shiftl ones32 p) < 2 ^ 32.
Proof. intros p; unfold u32. apply N.mod_lt. apply N.pow_nonzero. discriminate. Qed.

Lemma end_mask_bit : forall q m, q < 32 ->
  N.testbit (N.shiftr ones32 (31 - q)) m = (m <=? q).
Proof.
  intros q m Hq. rewrite N.shiftr_spec', ones32_bit. cmp_cases.
Qed.

Lemma end_mask_lt : forall q, q < 32 -> N.shiftr ones32 (31 - q) < 2 ^ 32.
Proof.
  intros q Hq. apply lt32_bits. intros k Hk. rewrite end_mask_bit by exact Hq.
  apply N.leb_gt. lia.
Qed.

Lemma lor_lt32 : forall a b, a < 2 ^ 32 -> b < 2 ^ 32 -> N.lor a b < 2 ^ 32.
Proof.
  intros a b Ha Hb. apply lt32_bits. intros k Hk.
  rewrite N.lor_spec, (proj1 (lt32_bits a) Ha k Hk), (proj1 (lt32_bits b) Hb k Hk). reflexivity.
Qed.

Lemma land_lt32_l : forall a b, a < 2 ^ 32 -> N.land a b < 2 ^ 32.
Proof.
  intros a b Ha. apply lt32_bits. intros k Hk.
  rewrite N.land_spec, (proj1 (lt32_bits a) Ha k Hk). reflexivity.
Qed.

Lemma get_allow_range : forall v s e j,
  svob_wf v -> allow_range_pre v s e = true ->
  get (allow_range v s e) j = get v j || ((s <=? j) && (j <=? e)).
Proof.
  intros v s e j [HF Hc] Hpre. unfold allow_range_pre in Hpre. apply N.ltb_lt in Hpre.
  unfold cap_bits, nwords, lenN in Hc.
  pose proof (mod32_lt j) as Hjm. pose proof (mod32_lt s) as Hsm. pose proof (mod32_lt e) as Hem.
  unfold allow_range.
  destruct (N.ltb_spec e s) as [Hes|Hse].
  - cmp_cases.
  - cbv zeta. destruct (N.eqb_spec (s / 32) (e / 32)) as [Ew|NEw].
    + rewrite get_words, get_unfold, nth_update_nth.
      destruct (Nat.eqb_spec (N.to_nat (j / 32)) (N.to_nat (s / 32))) as [Ej|NEj];
        destruct (Nat.ltb_spec (N.to_nat (j / 32)) (length (words v))) as [Lj|Gj]; cbn [andb].
      * rewrite N.lor_spec, N.land_spec, start_mask_bit, end_mask_bit by assumption.
        f_equal. cmp_cases.
      * exfalso; dlia.
      * cmp_cases.
      * cmp_cases.
    + rewrite get_words, get_unfold.
      rewrite nth_update_nth, length_fill, nth_fill, !length_update_nth, !nth_update_nth.
      cmp_cases;
        rewrite ?N.lor_spec, ?ones32_bit, ?start_mask_bit, ?end_mask_bit by assumption;
        try (f_equal; cmp_cases); rewrite ?orb_false_r, ?orb_true_r; try reflexivity.
Qed.
Lemma allow_range_wf : forall v s e,
  svob_wf v -> allow_range_pre v s e = true -> svob_wf (allow_range v s e).
Proof.
  intros v s e [HF Hc] Hpre. pose proof (mod32_lt e) as Hem.
  unfold allow_range. destruct (e <? s); [split; assumption|].
  cbv zeta. destruct (s / 32 =? e / 32); split; cbn [words vsize].
  - apply Forall_update_nth; [exact HF|]. intros x Hx.
    apply lor_lt32; [exact Hx|]. apply land_lt32_l, start_mask_lt.
  - unfold cap_bits, nwords, lenN in *; cbn [words]. rewrite length_update_nth. exact Hc.
  - apply Forall_update_nth.
    + apply Forall_fill; [exact ones32_lt|]. apply Forall_update_nth; [exact HF|].
      intros x Hx. apply lor_lt32; [exact Hx|apply start_mask_lt].
    + intros x Hx. apply lor_lt32; [exact Hx|apply end_mask_lt; exact Hem].
  - unfold cap_bits, nwords, lenN in *; cbn [words].
    rewrite length_update_nth, length_fill, length_update_nth. exact Hc.
Qed.

(* ---- complement ---- *)
(* ---- clear_excessive_bits ---- *)
Lemma existsb_seqN : forall j s n,
  existsb (N.eqb j) (seqN s n) = (s <=? j) && (j <? s + N.of_nat n).
Proof.
  intros j s n. apply Bool.eq_iff_eq_true.
  rewrite existsb_exists, andb_true_iff, N.leb_le, N.ltb_lt. split.
  - intros [x [Hin Heq]]. apply N.eqb_eq in Heq; subst x. apply In_seqN in Hin. lia.
  - intros H. exists j. split; [apply In_seqN; lia|apply N.eqb_refl].
Qed.

Lemma get_pre_set : forall v i b k, get_pre (set v i b) k = get_pre v k.
Proof. intros v i b k; unfold get_pre. rewrite nwords_set. reflexivity. Qed.

Lemma get_fold_clear : forall l v j,
  (forall i, In i l -> get_pre v i = true) ->
  get (fold_left (fun acc i => set acc i false) l v) j =
  get v j && negb (existsb (N.eqb j) l).
Proof.
  induction l as [|i l IH]; intros v j Hpre; cbn [fold_left existsb].
  - rewrite andb_true_r; reflexivity.
  - rewrite IH.
    + rewrite get_set by (apply Hpre; left; reflexivity).
      destruct (j =? i); cbn [orb negb andb]; rewrite ?andb_false_r; reflexivity.
    + intros k Hk. rewrite get_pre_set. apply Hpre; right; exact Hk.
Qed.

Lemma fold_clear_wf : forall l v,
  svob_wf v -> svob_wf (fold_left (fun acc i => set acc i false) l v).
Proof.
  induction l as [|i l IH]; intros v Hwf; cbn [fold_left]; [exact Hwf|].
  apply IH, set_wf, Hwf.
Qed.

Lemma fold_clear_vsize : forall l v,
  vsize (fold_left (fun acc i => set acc i false) l v) = vsize v.
Proof.
  induction l as [|i l IH]; intros v; cbn [fold_left]; [reflexivity|].
  rewrite IH. apply vsize_set.
Qed.

Lemma get_ceb : forall v j,
  get (clear_excessive_bits v) j = (j <? vsize v) && get v j.
Proof.
  intros v j. unfold clear_excessive_bits. rewrite get_fold_clear.
  - rewrite existsb_seqN.
    destruct (get_pre v j) eqn:Hp.
    + rewrite get_pre_cap in Hp. apply N.ltb_lt in Hp.
      destruct (get v j); cmp_cases.
    + rewrite (get_no_pre v j Hp). rewrite andb_false_r. reflexivity.
  - intros i Hi. apply In_seqN in Hi. rewrite get_pre_cap. apply N.ltb_lt. lia.
Qed.

Lemma ceb_wf : forall v, svob_wf v -> svob_wf (clear_excessive_bits v).
Proof. intros v H. apply fold_clear_wf, H. Qed.

Lemma vsize_ceb : forall v, vsize (clear_excessive_bits v) = vsize v.
Proof. intros v. apply fold_clear_vsize. Qed.

Lemma nth_map0 : forall (f : N -> N) l k,
  (k < length l)%nat -> nth k (map f l) 0 = f (nth k l 0).
Proof.
  intros f l k Hk. rewrite (nth_indep _ 0 (f 0)) by (rewrite map_length; exact Hk).
  apply map_nth.
Qed.

Lemma get_negated : forall v j,
  svob_wf v -> get (negated v) j = (j <? vsize v) && negb (get v j).
Proof.
  intros v j [HF Hc]. unfold negated. rewrite get_ceb. cbn [vsize].
  destruct (N.ltb_spec j (vsize v)) as [L|G]; cbn [andb]; [|reflexivity].
  rewrite get_words, get_unfold. unfold cap_bits, nwords, lenN in Hc.
  rewrite nth_map0 by dlia.
  rewrite not32_bit. pose proof (mod32_lt j) as Hjm. apply N.ltb_lt in Hjm. rewrite Hjm.
  apply xorb_true_r.
Qed.
Lemma negated_wf : forall v, svob_wf v -> svob_wf (negated v).
Proof.
  intros v [HF Hc]. apply ceb_wf. split; cbn [words vsize].
  - apply Forall_forall. intros x Hx. apply in_map_iff in Hx. destruct Hx as [y [Hy Hin]]. subst x.
    apply not32_lt. rewrite Forall_forall in HF. apply HF; exact Hin.
  - unfold cap_bits, nwords, lenN in *; cbn [words]. rewrite map_length. exact Hc.
Qed.
Lemma get_alloc_ones : forall n j, get (alloc_ones n) j = (j <? n).
Proof.
  intros n j. unfold alloc_ones, set_all. rewrite get_ceb. cbn [vsize]. rewrite vsize_alloc.
  destruct (N.ltb_spec j n) as [L|G]; cbn [andb]; [|reflexivity].
  rewrite get_words. pose proof (nwords_alloc n) as Hn. unfold nwords, lenN, div_ceil32 in Hn.
  rewrite nth_map0 by dlia.
  rewrite ones32_bit. apply N.ltb_lt, mod32_lt.
Qed.

(* ---- binary operations: raw (zip) semantics ---- *)
(* ---- zip ---- *)
Lemma nth_zip_with : forall f a b k,
  nth k (zip_with f a b) 0 =
  if (k <? length a)%nat then
    if (k <? length b)%nat then f (nth k a 0) (nth k b 0) else nth k a 0
  else 0.
Proof.
  intros f a; induction a as [|x a IH]; intros b k.
  - destruct b; destruct k; reflexivity.
  - destruct b as [|y b].
    + cbn [zip_with]. destruct (Nat.ltb_spec k (length (x :: a))) as [L|G].
      * destruct k; reflexivity.
      * apply nth_overflow; exact G.
    + destruct k as [|k]; [reflexivity|]. cbn [zip_with nth]. rewrite IH. reflexivity.
Qed.

Lemma nth_zip_with3 : forall f a b c k,
  nth k (zip_with3 f a b c) 0 =
  if ((k <? length a) && (k <? length b) && (k <? length c))%nat
  then f (nth k a 0) (nth k b 0) (nth k c 0) else nth k a 0.
Proof.
  intros f a; induction a as [|x a IH]; intros b c k.
  - cbn [zip_with3]. destruct k; reflexivity.
  - destruct b as [|y b].
    + cbn [zip_with3 length]. rewrite andb_false_r. reflexivity.
    + destruct c as [|z c].
      * cbn [zip_with3 length]. rewrite andb_false_r. reflexivity.
      * destruct k as [|k]; [reflexivity|]. cbn [zip_with3 nth]. rewrite IH. reflexivity.
Qed.

Lemma get_over : forall v j, (length (words v) <= N.to_nat (j / 32))%nat -> get v j = false.
Proof.
  intros v j H. rewrite get_unfold, nth_overflow by exact H. apply N.bits_0.
Qed.

Lemma get_vor_raw : forall v o j, get (vor v o) j = get v j || (get o j && get_pre v j).
Proof.
  intros v o j. unfold vor. rewrite get_words, nth_zip_with.
  destruct (Nat.ltb_spec (N.to_nat (j / 32)) (length (words v))) as [La|Ga].
  - rewrite (proj2 (get_pre_lt v j) La), andb_true_r.
    destruct (Nat.ltb_spec (N.to_nat (j / 32)) (length (words o))) as [Lb|Gb].
    + rewrite N.lor_spec. reflexivity.
    + rewrite (get_over o j Gb), orb_false_r. reflexivity.
  - rewrite (get_over v j Ga). rewrite N.bits_0.
    destruct (get_pre v j) eqn:Hp; [apply get_pre_lt in Hp; lia|].
    rewrite andb_false_r. reflexivity.
Qed.
Lemma get_vand_raw : forall v o j,
  get (vand v o) j = get v j && (get o j || negb (get_pre o j)).
Proof.
  intros v o j. unfold vand. rewrite get_words, nth_zip_with.
  destruct (Nat.ltb_spec (N.to_nat (j / 32)) (length (words v))) as [La|Ga].
  - destruct (Nat.ltb_spec (N.to_nat (j / 32)) (length (words o))) as [Lb|Gb].
    + rewrite (proj2 (get_pre_lt o j) Lb). cbn [negb]. rewrite orb_false_r, N.land_spec. reflexivity.
    + rewrite (get_over o j Gb).
      destruct (get_pre o j) eqn:Hp; [apply get_pre_lt in Hp; lia|].
      cbn [negb orb]. rewrite andb_true_r. reflexivity.
  - rewrite (get_over v j Ga), N.bits_0. reflexivity.
Qed.
Lemma testbit_not32_mod : forall w j, N.testbit (not32 w) (j mod 32) = negb (N.testbit w (j mod 32)).
Proof.
  intros w j. rewrite not32_bit. pose proof (mod32_lt j) as H. apply N.ltb_lt in H. rewrite H.
  apply xorb_true_r.
Qed.

Lemma get_vsub_raw : forall v o j,
  get (vsub v o) j = get v j && negb (get o j).
Proof.
  intros v o j. unfold vsub. rewrite get_words, nth_zip_with.
  destruct (Nat.ltb_spec (N.to_nat (j / 32)) (length (words v))) as [La|Ga].
  - destruct (Nat.ltb_spec (N.to_nat (j / 32)) (length (words o))) as [Lb|Gb].
    + rewrite N.land_spec, testbit_not32_mod. reflexivity.
    + rewrite (get_over o j Gb). cbn [negb]. rewrite andb_true_r. reflexivity.
  - rewrite (get_over v j Ga), N.bits_0. reflexivity.
Qed.

(* ---- binary operations under the asserted preconditions ---- *)
Lemma wf_get_pre_false : forall v j, svob_wf v -> get_pre v j = false -> vsize v <= j.
Proof.
  intros v j [_ Hc] Hp. rewrite get_pre_cap in Hp. apply N.ltb_ge in Hp. lia.
Qed.

Lemma get_vor : forall v o j,
  svob_wf v -> no_excess o -> or_pre v o = true ->
  get (vor v o) j = get v j || get o j.
Proof.
  intros v o j Hwf Hne Hpre. unfold or_pre in Hpre. apply N.leb_le in Hpre.
  rewrite get_vor_raw. destruct (get_pre v j) eqn:Hp.
  - rewrite andb_true_r. reflexivity.
  - pose proof (wf_get_pre_false v j Hwf Hp) as Hj.
    rewrite (Hne j) by lia. reflexivity.
Qed.
Lemma get_vand : forall v o j,
  svob_wf o -> no_excess v -> same_size_pre v o = true ->
  get (vand v o) j = get v j && get o j.
Proof.
  intros v o j Hwf Hne Hpre. unfold same_size_pre in Hpre. apply N.eqb_eq in Hpre.
  rewrite get_vand_raw. destruct (get_pre o j) eqn:Hp.
  - cbn [negb]. rewrite orb_false_r. reflexivity.
  - pose proof (wf_get_pre_false o j Hwf Hp) as Hj.
    rewrite (Hne j) by lia. reflexivity.
Qed.
Lemma get_or_minus : forall v o m j,
  svob_wf v -> svob_wf m -> no_excess o -> no_excess v -> or_minus_pre v o m = true ->
  get (or_minus v o m) j = get v j || (get o j && negb (get m j)).
Proof.
  intros v o m j Hwv Hwm Hno Hnv Hpre. unfold or_minus_pre in Hpre.
  apply andb_true_iff in Hpre. destruct Hpre as [H1 H2].
  apply N.eqb_eq in H1. apply N.eqb_eq in H2.
  unfold or_minus. rewrite get_words, nth_zip_with3.
  destruct (Nat.ltb_spec (N.to_nat (j / 32)) (length (words v))) as [La|Ga]; cbn [andb].
  - destruct (Nat.ltb_spec (N.to_nat (j / 32)) (length (words o))) as [Lb|Gb]; cbn [andb].
    + destruct (Nat.ltb_spec (N.to_nat (j / 32)) (length (words m))) as [Lc|Gc].
      * rewrite N.lor_spec, N.land_spec, testbit_not32_mod. reflexivity.
      * assert (Hp : get_pre m j = false).
        { destruct (get_pre m j) eqn:Hp; [apply get_pre_lt in Hp; lia|reflexivity]. }
        pose proof (wf_get_pre_false m j Hwm Hp) as Hj.
        rewrite (Hno j) by lia. cbn [andb]. rewrite orb_false_r. reflexivity.
    + rewrite (get_over o j Gb). cbn [andb]. rewrite orb_false_r. reflexivity.
  - assert (Hp : get_pre v j = false).
    { destruct (get_pre v j) eqn:Hp; [apply get_pre_lt in Hp; lia|reflexivity]. }
    pose proof (wf_get_pre_false v j Hwv Hp) as Hj.
    rewrite (Hno j) by lia. cbn [andb]. rewrite orb_false_r. reflexivity.
Qed.

(* ---- ids at or above the size are never introduced ---- *)
(* no_excess *)
Lemma no_excess_alloc : forall n, no_excess (alloc n).
Proof. intros n i _. apply get_alloc. Qed.
Lemma no_excess_alloc_with_capacity : forall n c, no_excess (alloc_with_capacity n c).
Proof. intros n c i _. apply get_alloc_with_capacity. Qed.
Lemma no_excess_set : forall v i b,
  no_excess v -> i < vsize v -> set_pre v i = true -> no_excess (set v i b).
Proof.
  intros v i b Hne Hi Hpre j Hj. rewrite vsize_set in Hj. rewrite get_set by exact Hpre.
  destruct (N.eqb_spec j i) as [E|NE]; [lia|]. apply Hne; exact Hj.
Qed.
Lemma no_excess_allow_range : forall v s e,
  svob_wf v -> no_excess v -> allow_range_pre v s e = true -> no_excess (allow_range v s e).
Proof.
  intros v s e Hwf Hne Hpre j Hj.
  assert (Hsz : vsize (allow_range v s e) = vsize v).
  { unfold allow_range. destruct (e <? s); [reflexivity|]. cbv zeta.
    destruct (s / 32 =? e / 32); reflexivity. }
  rewrite Hsz in Hj. rewrite get_allow_range by assumption.
  rewrite (Hne j Hj). unfold allow_range_pre in Hpre. apply N.ltb_lt in Hpre.
  cbn [orb]. destruct (N.leb_spec j e) as [L|G]; [lia|]. apply andb_false_r.
Qed.
Lemma no_excess_negated : forall v, svob_wf v -> no_excess (negated v).
Proof.
  intros v Hwf j Hj. unfold negated in Hj. rewrite vsize_ceb in Hj. cbn [vsize] in Hj.
  rewrite get_negated by exact Hwf. destruct (N.ltb_spec j (vsize v)); [lia|reflexivity].
Qed.
Lemma no_excess_vor : forall v o,
  svob_wf v -> no_excess v -> no_excess o -> or_pre v o = true -> no_excess (vor v o).
Proof.
  intros v o Hwf Hnv Hno Hpre j Hj. cbn [vor vsize] in Hj.
  unfold or_pre in Hpre. apply N.leb_le in Hpre.
  rewrite get_vor_raw, (Hnv j Hj), (Hno j) by lia. reflexivity.
Qed.
Lemma no_excess_vand : forall v o, no_excess v -> no_excess (vand v o).
Proof.
  intros v o Hnv j Hj. cbn [vand vsize] in Hj. rewrite get_vand_raw, (Hnv j Hj). reflexivity.
Qed.
Lemma no_excess_vsub : forall v o,
  no_excess v -> no_excess (vsub v o).
Proof.
  intros v o Hnv j Hj. cbn [vsub vsize] in Hj. rewrite get_vsub_raw, (Hnv j Hj). reflexivity.
Qed.

(* ---- queries ---- *)
(* ---- queries ---- *)
Lemma filter_map_comm : forall {A B} (f : A -> B) p l,
  filter p (map f l) = map f (filter (fun x => p (f x)) l).
Proof.
  intros A B f p l; induction l as [|x l IH]; cbn [map filter]; [reflexivity|].
  destruct (p (f x)); cbn [map]; rewrite IH; reflexivity.
Qed.

Lemma find_map : forall {A B} (f : A -> B) p l,
  find p (map f l) = option_map f (find (fun x => p (f x)) l).
Proof.
  intros A B f p l; induction l as [|x l IH]; cbn [map find]; [reflexivity|].
  destruct (p (f x)); [reflexivity|exact IH].
Qed.

Lemma find_app : forall {A} (p : A -> bool) l1 l2,
  find p (l1 ++ l2) = match find p l1 with Some x => Some x | None => find p l2 end.
Proof.
  intros A p l1 l2; induction l1 as [|x l1 IH]; cbn [app find]; [reflexivity|].
  destruct (p x); [reflexivity|exact IH].
Qed.

Lemma find_ext_in : forall {A} (f g : A -> bool) l,
  (forall a, In a l -> f a = g a) -> find f l = find g l.
Proof.
  intros A f g l; induction l as [|x l IH]; intros H; cbn [find]; [reflexivity|].
  rewrite (H x) by (left; reflexivity). destruct (g x); [reflexivity|].
  apply IH. intros a Ha. apply H; right; exact Ha.
Qed.

Lemma nth_firstn_lt : forall {A} (l : list A) k i d,
  (i < k)%nat -> nth i (firstn k l) d = nth i l d.
Proof.
  intros A l; induction l as [|x l IH]; intros k i d Hi.
  - rewrite firstn_nil. reflexivity.
  - destruct k as [|k]; [lia|]. destruct i as [|i]; cbn [firstn nth]; [reflexivity|].
    apply IH. lia.
Qed.

(* bit i of the word list ws whose first word has word-index idx *)
Definition wbit (ws : list N) (idx : N) (i : N) : bool :=
  N.testbit (nth (N.to_nat (i / 32 - idx)) ws 0) (i mod 32).

Lemma wbit_get : forall v i, wbit (words v) 0 i = get v i.
Proof. intros v i; unfold wbit. rewrite N.sub_0_r. reflexivity. Qed.

Lemma wbit_head : forall w ws idx i, In i (seqN (idx * 32) 32) ->
  wbit (w :: ws) idx i = N.testbit w (i mod 32).
Proof.
  intros w ws idx i Hi. apply In_seqN in Hi. change (N.of_nat 32) with 32 in Hi.
  unfold wbit. replace (N.to_nat (i / 32 - idx)) with O by dlia. reflexivity.
Qed.

Lemma wbit_tail : forall w ws idx i n, In i (seqN ((idx + 1) * 32) n) ->
  wbit (w :: ws) idx i = wbit ws (idx + 1) i.
Proof.
  intros w ws idx i n Hi. apply In_seqN in Hi.
  unfold wbit. replace (N.to_nat (i / 32 - idx)) with (S (N.to_nat (i / 32 - (idx + 1)))) by dlia.
  reflexivity.
Qed.

Lemma seqN_word_split : forall idx n,
  seqN (idx * 32) (32 * S n) = seqN (idx * 32) 32 ++ seqN ((idx + 1) * 32) (32 * n).
Proof.
  intros idx n. replace (32 * S n)%nat with (32 + 32 * n)%nat by lia.
  rewrite seqN_app. change (N.of_nat 32) with 32. f_equal. f_equal. lia.
Qed.

Lemma seqN_word_shift : forall idx,
  seqN (idx * 32) 32 = map (fun b => idx * 32 + b) (seqN 0 32).
Proof. intros idx. rewrite <- seqN_shift. f_equal. lia. Qed.

Lemma shift_mod32 : forall idx b, In b (seqN 0 32) -> (idx * 32 + b) mod 32 = b.
Proof.
  intros idx b Hb. apply In_seqN in Hb. change (N.of_nat 32) with 32 in Hb. dlia.
Qed.

Lemma word_bits_filter : forall idx w,
  word_bits idx w = filter (fun i => N.testbit w (i mod 32)) (seqN (idx * 32) 32).
Proof.
  intros idx w. unfold word_bits. rewrite seqN_word_shift, filter_map_comm. apply f_equal.
  apply filter_ext_in. intros b Hb. rewrite shift_mod32 by exact Hb. reflexivity.
Qed.

Lemma words_bits_filter : forall ws idx,
  words_bits ws idx = filter (wbit ws idx) (seqN (idx * 32) (32 * length ws)).
Proof.
  induction ws as [|w ws IH]; intros idx.
  - cbn [length]. rewrite Nat.mul_0_r. reflexivity.
  - cbn [words_bits length]. rewrite seqN_word_split, filter_app. f_equal.
    + rewrite word_bits_filter. apply filter_ext_in. intros i Hi.
      symmetry. apply wbit_head; exact Hi.
    + rewrite IH. apply filter_ext_in. intros i Hi.
      symmetry. eapply wbit_tail; exact Hi.
Qed.

Lemma cap_bits_nat : forall v, N.to_nat (cap_bits v) = (32 * length (words v))%nat.
Proof. intros v; unfold cap_bits, nwords, lenN. lia. Qed.

Lemma to_list_spec : forall v,
  svob_wf v -> to_list v = filter (get v) (seqN 0 (N.to_nat (vsize v))).
Proof.
  intros v [_ Hc]. unfold cap_bits, nwords, lenN in Hc. unfold to_list. cbv zeta.
  replace (N.to_nat (vsize v)) with
    (32 * N.to_nat (vsize v / 32) + N.to_nat (vsize v - vsize v / 32 * 32))%nat by dlia.
  rewrite seqN_app, filter_app. f_equal.
  - rewrite words_bits_filter. rewrite firstn_length_le by dlia.
    change (0 * 32) with 0. apply filter_ext_in. intros i Hi. apply In_seqN in Hi.
    unfold wbit. rewrite N.sub_0_r, get_unfold. rewrite nth_firstn_lt by dlia. reflexivity.
  - f_equal. f_equal. lia.
Qed.
Lemma iter_list_spec : forall v,
  Forall (fun w => w < 2 ^ 32) (words v) ->
  iter_list v = filter (get v) (seqN 0 (N.to_nat (cap_bits v))).
Proof.
  intros v _. unfold iter_list. rewrite words_bits_filter, cap_bits_nat.
  change (0 * 32) with 0. apply filter_ext. intros i. apply wbit_get.
Qed.
Lemma word_zero : forall w, w < 2 ^ 32 ->
  (forall b, b < 32 -> N.testbit w b = false) -> w = 0.
Proof.
  intros w Hw Hb. apply N.bits_inj. intros k. rewrite N.bits_0.
  destruct (N.lt_ge_cases k 32) as [L|G]; [apply Hb; exact L|].
  apply (proj1 (lt32_bits w) Hw); exact G.
Qed.

Lemma find_word : forall w ws idx,
  find (wbit (w :: ws) idx) (seqN (idx * 32) 32) =
  option_map (fun b => idx * 32 + b) (find (N.testbit w) (seqN 0 32)).
Proof.
  intros w ws idx.
  rewrite (find_ext_in _ (fun i => N.testbit w (i mod 32))) by (intros i Hi; apply wbit_head; exact Hi).
  rewrite seqN_word_shift, find_map. apply f_equal.
  apply find_ext_in. intros b Hb. rewrite shift_mod32 by exact Hb. reflexivity.
Qed.

Lemma find_testbit_0 : forall l, find (N.testbit 0) l = None.
Proof.
  induction l as [|x l IH]; cbn [find]; [reflexivity|]. rewrite N.bits_0. exact IH.
Qed.

Lemma first_nonzero_find : forall ws idx,
  Forall (fun w => w < 2 ^ 32) ws ->
  first_nonzero ws idx = find (wbit ws idx) (seqN (idx * 32) (32 * length ws)).
Proof.
  induction ws as [|w ws IH]; intros idx HF.
  - cbn [length]. rewrite Nat.mul_0_r. reflexivity.
  - inversion HF as [|w' ws' Hw HF']; subst.
    cbn [first_nonzero length]. rewrite seqN_word_split, find_app, find_word.
    destruct (N.eqb_spec w 0) as [E|NE].
    + subst w. rewrite find_testbit_0. cbn [option_map].
      rewrite IH by exact HF'. apply find_ext_in. intros i Hi.
      symmetry. eapply wbit_tail; exact Hi.
    + unfold ctz32. destruct (find (N.testbit w) (seqN 0 32)) as [c|] eqn:Hf.
      * reflexivity.
      * exfalso. apply NE. apply word_zero; [exact Hw|]. intros b Hb.
        apply (find_none _ _ Hf). apply In_seqN. change (N.of_nat 32) with 32. lia.
Qed.

Lemma first_bit_set_spec : forall v,
  Forall (fun w => w < 2 ^ 32) (words v) ->
  first_bit_set v = find (get v) (seqN 0 (N.to_nat (cap_bits v))).
Proof.
  intros v HF. unfold first_bit_set. rewrite first_nonzero_find by exact HF.
  rewrite cap_bits_nat. change (0 * 32) with 0.
  apply find_ext_in. intros i _. apply wbit_get.
Qed.
Lemma lenN_word_bits : forall idx w, lenN (word_bits idx w) = popcount32 w.
Proof. intros idx w; unfold popcount32, word_bits, lenN. rewrite map_length. reflexivity. Qed.

Lemma num_set_fold : forall ws acc idx,
  fold_left (fun acc w => acc + popcount32 w) ws acc = acc + lenN (words_bits ws idx).
Proof.
  induction ws as [|w ws IH]; intros acc idx; cbn [fold_left words_bits].
  - unfold lenN; cbn [length]. lia.
  - rewrite (IH _ (idx + 1)). rewrite <- (lenN_word_bits idx w).
    unfold lenN. rewrite app_length. lia.
Qed.

Lemma num_set_spec : forall v,
  Forall (fun w => w < 2 ^ 32) (words v) ->
  num_set v = lenN (filter (get v) (seqN 0 (N.to_nat (cap_bits v)))).
Proof.
  intros v HF. rewrite <- iter_list_spec by exact HF.
  unfold num_set, iter_list. rewrite (num_set_fold _ 0 0). reflexivity.
Qed.
Lemma is_zero_spec : forall v,
  Forall (fun w => w < 2 ^ 32) (words v) ->
  is_zero v = true <-> (forall j, get v j = false).
Proof.
  intros v HF. unfold is_zero. rewrite forallb_forall. split.
  - intros H j. rewrite get_unfold.
    destruct (nth_in_or_default (N.to_nat (j / 32)) (words v) 0) as [Hin|Hd].
    + apply H in Hin. apply N.eqb_eq in Hin. rewrite Hin. apply N.bits_0.
    + rewrite Hd. apply N.bits_0.
  - intros H x Hx. apply N.eqb_eq.
    rewrite Forall_forall in HF. apply word_zero; [apply HF; exact Hx|].
    intros b Hb. destruct (In_nth _ _ 0 Hx) as [n [Hn Hnth]].
    specialize (H (N.of_nat n * 32 + b)). rewrite get_unfold in H.
    replace (N.to_nat ((N.of_nat n * 32 + b) / 32)) with n in H by dlia.
    replace ((N.of_nat n * 32 + b) mod 32) with b in H by dlia.
    rewrite Hnth in H. exact H.
Qed.
Lemma nth_rev_strip : forall r k,
  nth k (rev (strip_zeros_rev r)) 0 = nth k (rev r) 0.
Proof.
  induction r as [|w r IH]; intros k; [reflexivity|].
  cbn [strip_zeros_rev]. destruct (N.eqb_spec w 0) as [E|NE]; [|reflexivity].
  subst w. rewrite IH. cbn [rev].
  destruct (Nat.lt_ge_cases k (length (rev r))) as [L|G].
  - rewrite app_nth1 by exact L. reflexivity.
  - rewrite (nth_overflow (rev r)) by exact G. rewrite app_nth2 by exact G.
    destruct (k - length (rev r))%nat as [|[|m]]; reflexivity.
Qed.

Lemma get_trim_trailing_zeros : forall v j, get (trim_trailing_zeros v) j = get v j.
Proof.
  intros v j. unfold trim_trailing_zeros. cbv zeta.
  destruct (Nat.eqb _ _); [reflexivity|].
  rewrite get_words, get_unfold, nth_rev_strip, rev_involutive. reflexivity.
Qed.
